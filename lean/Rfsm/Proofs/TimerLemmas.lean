import Rfsm.Model.Timer
/-!
Invariants of the per-session timer model (`Rfsm.Timer`) and the lemmas the C16 theorems need.
-/
namespace Rfsm.Timer

variable {δ ε : Type}

/-- pop order of the heap: by due time, then by order of scheduling -/
def Entry.lt (a b : Entry ε) : Prop := a.due < b.due ∨ (a.due = b.due ∧ a.seq < b.seq)

/-! ### association list `delayed_send` -/

theorem removeId_cons (id k : SendId) (v : Nat) (r : List (SendId × Nat)) :
    removeId id ((k, v) :: r) = if k = id then removeId id r else (k, v) :: removeId id r := by
  by_cases h : k = id <;> simp [removeId, h]

theorem lookupId_cons (id k : SendId) (v : Nat) (r : List (SendId × Nat)) :
    lookupId id ((k, v) :: r) = if k = id then some v else lookupId id r := rfl

theorem lookupId_removeId_self (id : SendId) (m : List (SendId × Nat)) :
    lookupId id (removeId id m) = none := by
  induction m with
  | nil => rfl
  | cons p r ih =>
    obtain ⟨k, v⟩ := p
    rw [removeId_cons]
    by_cases h : k = id
    · simp [h, ih]
    · simp [h, ih, lookupId_cons]

theorem lookupId_removeId_ne {id id' : SendId} (h : id' ≠ id) (m : List (SendId × Nat)) :
    lookupId id' (removeId id m) = lookupId id' m := by
  induction m with
  | nil => rfl
  | cons p r ih =>
    obtain ⟨k, v⟩ := p
    rw [removeId_cons, lookupId_cons]
    by_cases hk : k = id
    · have hn : ¬ k = id' := fun e => h (e.symm.trans hk)
      rw [if_pos hk, if_neg hn]; exact ih
    · rw [if_neg hk, lookupId_cons]
      by_cases hk' : k = id'
      · rw [if_pos hk', if_pos hk']
      · rw [if_neg hk', if_neg hk']; exact ih

theorem lookupId_removeId_some {id id' : SendId} {g : Nat} {m : List (SendId × Nat)}
    (h : lookupId id' (removeId id m) = some g) : id' ≠ id ∧ lookupId id' m = some g := by
  by_cases e : id' = id
  · subst e; rw [lookupId_removeId_self] at h; cases h
  · exact ⟨e, by rw [← lookupId_removeId_ne e m]; exact h⟩

/-! ### heap insertion -/

theorem mem_insertEntry {e x : Entry ε} {l : List (Entry ε)} :
    x ∈ insertEntry e l ↔ x = e ∨ x ∈ l := by
  induction l with
  | nil => simp [insertEntry]
  | cons y ys ih =>
    unfold insertEntry
    split
    · simp only [List.mem_cons, ih]; constructor
      · rintro (h | h | h) <;> simp [h]
      · rintro (h | h | h) <;> simp [h]
    · simp only [List.mem_cons]

theorem insertEntry_sorted {e : Entry ε} {l : List (Entry ε)}
    (hs : l.Pairwise Entry.lt) (hseq : ∀ x ∈ l, x.seq < e.seq) :
    (insertEntry e l).Pairwise Entry.lt := by
  induction l with
  | nil => simp [insertEntry]
  | cons y ys ih =>
    have hy := List.pairwise_cons.1 hs
    unfold insertEntry
    split
    · rename_i hle
      refine List.pairwise_cons.2 ⟨?_, ih hy.2 (fun x hx => hseq x (List.mem_cons_of_mem _ hx))⟩
      intro x hx
      rcases mem_insertEntry.1 hx with rfl | hx
      · have := hseq y (List.mem_cons_self ..)
        unfold Entry.lt; omega
      · exact hy.1 x hx
    · rename_i hle
      refine List.pairwise_cons.2 ⟨?_, hs⟩
      intro x hx
      have hey : Entry.lt e y := by unfold Entry.lt; omega
      rcases List.mem_cons.1 hx with rfl | hx
      · exact hey
      · have := hy.1 x hx
        unfold Entry.lt at *; omega

theorem insertEntry_seqs {e : Entry ε} {l : List (Entry ε)}
    (hs : l.Pairwise (fun a b => a.seq ≠ b.seq)) (hseq : ∀ x ∈ l, x.seq < e.seq) :
    (insertEntry e l).Pairwise (fun a b => a.seq ≠ b.seq) := by
  induction l with
  | nil => simp [insertEntry]
  | cons y ys ih =>
    have hy := List.pairwise_cons.1 hs
    unfold insertEntry
    split
    · refine List.pairwise_cons.2 ⟨?_, ih hy.2 (fun x hx => hseq x (List.mem_cons_of_mem _ hx))⟩
      intro x hx
      rcases mem_insertEntry.1 hx with rfl | hx
      · have := hseq y (List.mem_cons_self ..); omega
      · exact hy.1 x hx
    · refine List.pairwise_cons.2 ⟨?_, hs⟩
      intro x hx
      have := hseq x hx; omega

theorem mem_dropGuard {g : Nat} {x : Entry ε} {l : List (Entry ε)} :
    x ∈ dropGuard g l ↔ x ∈ l ∧ x.seq ≠ g := by
  simp [dropGuard, List.mem_filter]

theorem dropGuard_of_not_mem {g : Nat} {l : List (Entry ε)} (h : ∀ x ∈ l, x.seq ≠ g) :
    dropGuard g l = l := by
  unfold dropGuard
  exact List.filter_eq_self.2 (fun x hx => by simp [h x hx])

/-! ### the invariant -/

structure WF (t : Timer δ ε) : Prop where
  sorted : t.pending.Pairwise Entry.lt
  pnodup : t.pending.Pairwise (fun a b => a.seq ≠ b.seq)
  pseq : ∀ e ∈ t.pending, e.seq < t.nextSeq
  lseq : ∀ d ∈ t.log, d.entry.seq < t.nextSeq
  ltime : ∀ d ∈ t.log, d.entry.due ≤ d.time ∧ d.time ≤ t.now
  lbefore : ∀ d ∈ t.log, d.viaTimer = true → ∀ e ∈ t.pending, Entry.lt d.entry e
  lsorted : t.log.Pairwise (fun a b => a.viaTimer = true → b.viaTimer = true → Entry.lt a.entry b.entry)
  lnodup : t.log.Pairwise (fun a b => a.entry.seq ≠ b.entry.seq)
  ldisj : ∀ d ∈ t.log, ∀ e ∈ t.pending, d.entry.seq ≠ e.seq
  own : ∀ e ∈ t.pending, ∀ sid, e.sendid = some sid → lookupId sid t.delayed = some e.seq
  gseq : ∀ sid g, lookupId sid t.delayed = some g → g < t.nextSeq
  gid : ∀ sid g, lookupId sid t.delayed = some g → ∀ e ∈ t.pending, e.seq = g → e.sendid = some sid
  dead : t.alive = false → t.pending = []

theorem WF.init (d : δ) : WF (Timer.init d : Timer δ ε) := by
  constructor <;> simp [Timer.init, lookupId]

theorem WF.tick {t : Timer δ ε} (h : WF t) (t' : Nat) : WF (t.tick t') := by
  obtain ⟨h1, h2, h3, h4, h5, h6, h7, h8, h9, h10, h11, h12, h13⟩ := h
  constructor <;> simp only [Timer.tick] <;> try assumption
  intro d hd
  have := h5 d hd
  omega

theorem WF.assign {t : Timer δ ε} (h : WF t) (f : δ → δ) : WF (t.assign f) := by
  unfold Timer.assign
  split
  · exact h
  · obtain ⟨h1, h2, h3, h4, h5, h6, h7, h8, h9, h10, h11, h12, h13⟩ := h
    constructor <;> assumption

theorem WF.terminate {t : Timer δ ε} (h : WF t) : WF t.terminate := by
  obtain ⟨h1, h2, h3, h4, h5, h6, h7, h8, h9, h10, h11, h12, h13⟩ := h
  constructor <;> simp only [Timer.terminate] <;> first | assumption | simp

theorem WF.cancel {t : Timer δ ε} (h : WF t) (id : SendId) : WF (t.cancel id) := by
  unfold Timer.cancel
  split
  · exact h
  · split
    · exact h
    · rename_i g hg
      obtain ⟨h1, h2, h3, h4, h5, h6, h7, h8, h9, h10, h11, h12, h13⟩ := h
      constructor <;> simp only
      · exact h1.filter _
      · exact h2.filter _
      · intro e he; exact h3 e (mem_dropGuard.1 he).1
      · exact h4
      · exact h5
      · intro d hd hv e he; exact h6 d hd hv e (mem_dropGuard.1 he).1
      · exact h7
      · exact h8
      · intro d hd e he; exact h9 d hd e (mem_dropGuard.1 he).1
      · intro e he sid hs
        have he' := mem_dropGuard.1 he
        by_cases c : sid = id
        · subst c
          have := h10 e he'.1 sid hs
          rw [hg] at this
          exact absurd (Option.some.inj this).symm he'.2
        · rw [lookupId_removeId_ne c]; exact h10 e he'.1 sid hs
      · intro sid g' hl; exact h11 sid g' (lookupId_removeId_some hl).2
      · intro sid g' hl e he; exact h12 sid g' (lookupId_removeId_some hl).2 e (mem_dropGuard.1 he).1
      · intro ha; simp [h13 ha, dropGuard]

/-- the closure of the head entry, under the invariant: it removes its own guard only -/
theorem WF.fireOne {t : Timer δ ε} (h : WF t) {e : Entry ε} {rest : List (Entry ε)}
    (hp : t.pending = e :: rest) (hdue : e.due ≤ t.now) : WF (fireOne t e rest) := by
  obtain ⟨h1, h2, h3, h4, h5, h6, h7, h8, h9, h10, h11, h12, h13⟩ := h
  rw [hp] at h1 h2 h3 h6 h9 h10 h12
  have s1 := List.pairwise_cons.1 h1
  have s2 := List.pairwise_cons.1 h2
  have hlog : ∀ d ∈ t.log ++ [(⟨t.now, true, e⟩ : Delivery ε)],
      d ∈ t.log ∨ d = ⟨t.now, true, e⟩ := by
    intro d hd; simpa using hd
  -- facts that do not depend on which guard is dropped
  have A : ∀ (p' : List (Entry ε)) (dl : List (SendId × Nat)),
      (∀ x ∈ p', x ∈ rest) → p'.Pairwise Entry.lt → p'.Pairwise (fun a b => a.seq ≠ b.seq) →
      (∀ x ∈ p', ∀ sid, x.sendid = some sid → lookupId sid dl = some x.seq) →
      (∀ sid g, lookupId sid dl = some g → lookupId sid t.delayed = some g) →
      (t.alive = false → p' = []) →
      WF ({ t with pending := p', delayed := dl, log := t.log ++ [⟨t.now, true, e⟩] } : Timer δ ε) := by
    intro p' dl hsub hs hn hown hdl hdead
    constructor <;> simp only
    · exact hs
    · exact hn
    · intro x hx; exact h3 x (List.mem_cons_of_mem _ (hsub x hx))
    · intro d hd
      rcases hlog d hd with hd | rfl
      · exact h4 d hd
      · exact h3 e (List.mem_cons_self ..)
    · intro d hd
      rcases hlog d hd with hd | rfl
      · exact h5 d hd
      · exact ⟨hdue, Nat.le_refl _⟩
    · intro d hd hv x hx
      rcases hlog d hd with hd | rfl
      · exact h6 d hd hv x (List.mem_cons_of_mem _ (hsub x hx))
      · exact s1.1 x (hsub x hx)
    · refine List.pairwise_append.2 ⟨h7, by simp, ?_⟩
      intro a ha b hb hva _
      simp only [List.mem_singleton] at hb
      subst hb
      exact h6 a ha hva e (List.mem_cons_self ..)
    · refine List.pairwise_append.2 ⟨h8, by simp, ?_⟩
      intro a ha b hb
      simp only [List.mem_singleton] at hb
      subst hb
      exact h9 a ha e (List.mem_cons_self ..)
    · intro d hd x hx
      rcases hlog d hd with hd | rfl
      · exact h9 d hd x (List.mem_cons_of_mem _ (hsub x hx))
      · exact s2.1 x (hsub x hx)
    · exact hown
    · intro sid g hl; exact h11 sid g (hdl sid g hl)
    · intro sid g hl x hx; exact h12 sid g (hdl sid g hl) x (List.mem_cons_of_mem _ (hsub x hx))
    · exact hdead
  have hdeadrest : t.alive = false → rest = [] := by
    intro ha; have := h13 ha; rw [hp] at this; cases this
  unfold Rfsm.Timer.fireOne
  split
  · exact A rest t.delayed (fun _ hx => hx) s1.2 s2.2
      (fun x hx sid hs => h10 x (List.mem_cons_of_mem _ hx) sid hs) (fun _ _ hl => hl) hdeadrest
  · rename_i sid hsid
    split
    · exact A rest t.delayed (fun _ hx => hx) s1.2 s2.2
        (fun x hx sid hs => h10 x (List.mem_cons_of_mem _ hx) sid hs) (fun _ _ hl => hl) hdeadrest
    · rename_i g hg
      have hown := h10 e (List.mem_cons_self ..) sid hsid
      refine A (dropGuard g rest) (removeId sid t.delayed) (fun x hx => (mem_dropGuard.1 hx).1)
        (s1.2.filter _) (s2.2.filter _) ?_ (fun sid' g' hl => (lookupId_removeId_some hl).2) ?_
      · intro x hx sid' hs
        have hx' := (mem_dropGuard.1 hx).1
        by_cases c : sid' = sid
        · subst c
          have := h10 x (List.mem_cons_of_mem _ hx') sid' hs
          rw [hown] at this
          exact absurd (Option.some.inj this) (s2.1 x hx')
        · rw [lookupId_removeId_ne c]; exact h10 x (List.mem_cons_of_mem _ hx') sid' hs
      · intro ha; simp [hdeadrest ha, dropGuard]

theorem WF.fireLoop {t : Timer δ ε} (h : WF t) (f : Nat) : WF (fireLoop f t) := by
  induction f generalizing t with
  | zero => exact h
  | succ f ih =>
    unfold Rfsm.Timer.fireLoop
    split
    · exact h
    · rename_i e rest hp
      split
      · rename_i hdue; exact ih (h.fireOne hp hdue)
      · exact h

theorem WF.wake {t : Timer δ ε} (h : WF t) : WF t.wake := by
  unfold Timer.wake
  split
  · exact h
  · exact h.fireLoop _

theorem WF.send {t : Timer δ ε} (h : WF t) (id : Option SendId) (tg : Str) (delay : Int) (mk : δ → ε) :
    WF (t.send id tg delay mk) := by
  obtain ⟨h1, h2, h3, h4, h5, h6, h7, h8, h9, h10, h11, h12, h13⟩ := h
  unfold Timer.send
  split
  · constructor <;> assumption
  split
  · constructor <;> assumption
  split
  · constructor <;> assumption
  rename_i halive hneg hint
  simp only
  split
  · -- delay = 0: sent directly
    have hlog : ∀ d ∈ t.log ++ [(⟨t.now, false, ⟨t.now, t.nextSeq, id, tg, mk t.data⟩⟩ : Delivery ε)],
        d ∈ t.log ∨ d = ⟨t.now, false, ⟨t.now, t.nextSeq, id, tg, mk t.data⟩⟩ := by
      intro d hd; simpa using hd
    constructor <;> simp only
    · exact h1
    · exact h2
    · intro e he; have := h3 e he; omega
    · intro d hd
      rcases hlog d hd with hd | rfl
      · have := h4 d hd; omega
      · simp
    · intro d hd
      rcases hlog d hd with hd | rfl
      · exact h5 d hd
      · simp
    · intro d hd hv e he
      rcases hlog d hd with hd | rfl
      · exact h6 d hd hv e he
      · cases hv
    · refine List.pairwise_append.2 ⟨h7, by simp, ?_⟩
      intro a _ b hb _ hvb
      simp only [List.mem_singleton] at hb
      subst hb; cases hvb
    · refine List.pairwise_append.2 ⟨h8, by simp, ?_⟩
      intro a ha b hb
      simp only [List.mem_singleton] at hb
      subst hb
      have := h4 a ha
      simp only; omega
    · intro d hd e he
      rcases hlog d hd with hd | rfl
      · exact h9 d hd e he
      · have := h3 e he; simp only; omega
    · exact h10
    · intro sid g hl; have := h11 sid g hl; omega
    · exact h12
    · exact h13
  · -- 0 < delay: scheduled
    rename_i hz
    have hpos : 0 < delay.toNat := by omega
    generalize hE : (⟨t.now + delay.toNat, t.nextSeq, id, tg, mk t.data⟩ : Entry ε) = e
    have eseq : e.seq = t.nextSeq := by rw [← hE]
    have edue : e.due = t.now + delay.toNat := by rw [← hE]
    have eid : e.sendid = id := by rw [← hE]
    have hlt : ∀ x ∈ t.pending, x.seq < e.seq := fun x hx => by rw [eseq]; exact h3 x hx
    have isorted := insertEntry_sorted (e := e) h1 hlt
    have iseqs := insertEntry_seqs (e := e) h2 hlt
    have B : ∀ (p' : List (Entry ε)) (dl : List (SendId × Nat)),
        (∀ x ∈ p', x ∈ insertEntry e t.pending) → p'.Pairwise Entry.lt →
        p'.Pairwise (fun a b => a.seq ≠ b.seq) →
        (∀ x ∈ p', ∀ sid, x.sendid = some sid → lookupId sid dl = some x.seq) →
        (∀ sid g, lookupId sid dl = some g → g < t.nextSeq + 1) →
        (∀ sid g, lookupId sid dl = some g → ∀ x ∈ p', x.seq = g → x.sendid = some sid) →
        WF ({ t with nextSeq := t.nextSeq + 1, pending := p', delayed := dl } : Timer δ ε) := by
      intro p' dl hsub hs hn hown hgs hgi
      constructor <;> simp only
      · exact hs
      · exact hn
      · intro x hx
        rcases mem_insertEntry.1 (hsub x hx) with rfl | hx
        · omega
        · have := h3 x hx; omega
      · intro d hd; have := h4 d hd; omega
      · exact h5
      · intro d hd hv x hx
        rcases mem_insertEntry.1 (hsub x hx) with rfl | hx
        · have := h5 d hd
          unfold Entry.lt; omega
        · exact h6 d hd hv x hx
      · exact h7
      · exact h8
      · intro d hd x hx
        rcases mem_insertEntry.1 (hsub x hx) with rfl | hx
        · have := h4 d hd; omega
        · exact h9 d hd x hx
      · exact hown
      · exact hgs
      · exact hgi
      · intro ha; rw [ha] at halive; exact absurd rfl halive
    cases id with
    | none =>
      simp only
      refine B _ _ (fun _ hx => hx) isorted iseqs ?_ (fun sid g hl => by have := h11 sid g hl; omega) ?_
      · intro x hx sid hs
        rcases mem_insertEntry.1 hx with rfl | hx
        · rw [eid] at hs; cases hs
        · exact h10 x hx sid hs
      · intro sid g hl x hx hxg
        rcases mem_insertEntry.1 hx with rfl | hx
        · have := h11 sid g hl; omega
        · exact h12 sid g hl x hx hxg
    | some sid =>
      simp only
      -- whichever guard was stored under `sid` is dropped
      have hsub : ∀ x ∈ (match lookupId sid t.delayed with
          | some old => dropGuard old (insertEntry e t.pending)
          | none => insertEntry e t.pending), x ∈ insertEntry e t.pending ∧
            (∀ old, lookupId sid t.delayed = some old → x.seq ≠ old) := by
        intro x hx
        split at hx
        · rename_i old hold
          have := mem_dropGuard.1 hx
          exact ⟨this.1, fun o ho => by rw [hold] at ho; cases ho; exact this.2⟩
        · rename_i hnone
          exact ⟨hx, fun o ho => by rw [hnone] at ho; cases ho⟩
      have hP1 : (match lookupId sid t.delayed with
          | some old => dropGuard old (insertEntry e t.pending)
          | none => insertEntry e t.pending).Pairwise Entry.lt := by
        split
        · exact isorted.filter _
        · exact isorted
      have hP2 : List.Pairwise (fun (a b : Entry ε) => a.seq ≠ b.seq) (match lookupId sid t.delayed with
          | some old => dropGuard old (insertEntry e t.pending)
          | none => insertEntry e t.pending) := by
        split
        · exact iseqs.filter _
        · exact iseqs
      refine B _ _ (fun x hx => (hsub x hx).1) hP1 hP2 ?_ ?_ ?_
      · intro x hx sid' hs
        obtain ⟨hxm, hxo⟩ := hsub x hx
        rw [lookupId_cons]
        by_cases c : sid = sid'
        · subst c
          rw [if_pos rfl]
          rcases mem_insertEntry.1 hxm with rfl | hxp
          · rw [eseq]
          · exact absurd rfl (hxo x.seq (h10 x hxp sid hs))
        · rw [if_neg c, lookupId_removeId_ne (fun e' => c e'.symm)]
          rcases mem_insertEntry.1 hxm with rfl | hxp
          · rw [eid] at hs; cases hs; exact absurd rfl c
          · exact h10 x hxp sid' hs
      · intro sid' g hl
        rw [lookupId_cons] at hl
        by_cases c : sid = sid'
        · rw [if_pos c] at hl; cases hl; omega
        · rw [if_neg c] at hl
          have := h11 sid' g (lookupId_removeId_some hl).2; omega
      · intro sid' g hl x hx hxg
        obtain ⟨hxm, hxo⟩ := hsub x hx
        rw [lookupId_cons] at hl
        by_cases c : sid = sid'
        · subst c
          rw [if_pos rfl] at hl; cases hl
          rcases mem_insertEntry.1 hxm with rfl | hxp
          · exact eid
          · have := h3 x hxp; omega
        · rw [if_neg c] at hl
          have hl' := (lookupId_removeId_some hl).2
          rcases mem_insertEntry.1 hxm with rfl | hxp
          · have := h11 sid' g hl'; omega
          · exact h12 sid' g hl' x hxp hxg

theorem WF.step {t : Timer δ ε} (h : WF t) (op : Op δ ε) : WF (t.step op) := by
  cases op with
  | send id tg d f => exact h.send id tg d f
  | cancel id => exact h.cancel id
  | assign f => exact h.assign f
  | tick t' => exact h.tick t'
  | wake => exact h.wake
  | terminate => exact h.terminate

theorem WF.run {t : Timer δ ε} (h : WF t) (ops : List (Op δ ε)) : WF (t.run ops) := by
  induction ops generalizing t with
  | nil => exact h
  | cons op ops ih => exact ih (h.step op)

end Rfsm.Timer
