import Rfsm.Model.Timer
/-!
Invariants of the per-session timer model (`Rfsm.Timer`) and the lemmas the C16 theorems need.
-/
namespace Rfsm.Timer

variable {δ ε : Type}

/-- pop order of the heap: by due time, then by order of scheduling -/
def Entry.lt (a b : Entry ε) : Prop := a.due < b.due ∨ (a.due = b.due ∧ a.seq < b.seq)

/-! ### association list `delayed_send` -/

theorem removeId_cons (id k : SendId) (v : Nat) (r : List (SendId × Nat)) :
    removeId id ((k, v) :: r) = if k = id then removeId id r else (k, v) :: removeId id r := by
  by_cases h : k = id <;> simp [removeId, h]

theorem lookupId_cons (id k : SendId) (v : Nat) (r : List (SendId × Nat)) :
    lookupId id ((k, v) :: r) = if k = id then some v else lookupId id r := rfl

theorem lookupId_removeId_self (id : SendId) (m : List (SendId × Nat)) :
    lookupId id (removeId id m) = none := by
  induction m with
  | nil => rfl
  | cons p r ih =>
    obtain ⟨k, v⟩ := p
    rw [removeId_cons]
    by_cases h : k = id
    · simp [h, ih]
    · simp [h, ih, lookupId_cons]

theorem lookupId_removeId_ne {id id' : SendId} (h : id' ≠ id) (m : List (SendId × Nat)) :
    lookupId id' (removeId id m) = lookupId id' m := by
  induction m with
  | nil => rfl
  | cons p r ih =>
    obtain ⟨k, v⟩ := p
    rw [removeId_cons, lookupId_cons]
    by_cases hk : k = id
    · have hn : ¬ k = id' := fun e => h (e.symm.trans hk)
      rw [if_pos hk, if_neg hn]; exact ih
    · rw [if_neg hk, lookupId_cons]
      by_cases hk' : k = id'
      · rw [if_pos hk', if_pos hk']
      · rw [if_neg hk', if_neg hk']; exact ih

theorem lookupId_removeId_some {id id' : SendId} {g : Nat} {m : List (SendId × Nat)}
    (h : lookupId id' (removeId id m) = some g) : id' ≠ id ∧ lookupId id' m = some g := by
  by_cases e : id' = id
  · subst e; rw [lookupId_removeId_self] at h; cases h
  · exact ⟨e, by rw [← lookupId_removeId_ne e m]; exact h⟩

/-! ### heap insertion -/

theorem mem_insertEntry {e x : Entry ε} {l : List (Entry ε)} :
    x ∈ insertEntry e l ↔ x = e ∨ x ∈ l := by
  induction l with
  | nil => simp [insertEntry]
  | cons y ys ih =>
    unfold insertEntry
    split
    · simp only [List.mem_cons, ih]; constructor
      · rintro (h | h | h) <;> simp [h]
      · rintro (h | h | h) <;> simp [h]
    · simp only [List.mem_cons]

theorem insertEntry_sorted {e : Entry ε} {l : List (Entry ε)}
    (hs : l.Pairwise Entry.lt) (hseq : ∀ x ∈ l, x.seq < e.seq) :
    (insertEntry e l).Pairwise Entry.lt := by
  induction l with
  | nil => simp [insertEntry]
  | cons y ys ih =>
    have hy := List.pairwise_cons.1 hs
    unfold insertEntry
    split
    · rename_i hle
      refine List.pairwise_cons.2 ⟨?_, ih hy.2 (fun x hx => hseq x (List.mem_cons_of_mem _ hx))⟩
      intro x hx
      rcases mem_insertEntry.1 hx with rfl | hx
      · have := hseq y (List.mem_cons_self ..)
        unfold Entry.lt; omega
      · exact hy.1 x hx
    · rename_i hle
      refine List.pairwise_cons.2 ⟨?_, hs⟩
      intro x hx
      have hey : Entry.lt e y := by unfold Entry.lt; omega
      rcases List.mem_cons.1 hx with rfl | hx
      · exact hey
      · have := hy.1 x hx
        unfold Entry.lt at *; omega

theorem insertEntry_seqs {e : Entry ε} {l : List (Entry ε)}
    (hs : l.Pairwise (fun a b => a.seq ≠ b.seq)) (hseq : ∀ x ∈ l, x.seq < e.seq) :
    (insertEntry e l).Pairwise (fun a b => a.seq ≠ b.seq) := by
  induction l with
  | nil => simp [insertEntry]
  | cons y ys ih =>
    have hy := List.pairwise_cons.1 hs
    unfold insertEntry
    split
    · refine List.pairwise_cons.2 ⟨?_, ih hy.2 (fun x hx => hseq x (List.mem_cons_of_mem _ hx))⟩
      intro x hx
      rcases mem_insertEntry.1 hx with rfl | hx
      · have := hseq y (List.mem_cons_self ..); omega
      · exact hy.1 x hx
    · refine List.pairwise_cons.2 ⟨?_, hs⟩
      intro x hx
      have := hseq x hx; omega

theorem mem_dropGuard {g : Nat} {x : Entry ε} {l : List (Entry ε)} :
    x ∈ dropGuard g l ↔ x ∈ l ∧ x.seq ≠ g := by
  simp [dropGuard, List.mem_filter]

theorem dropGuard_of_not_mem {g : Nat} {l : List (Entry ε)} (h : ∀ x ∈ l, x.seq ≠ g) :
    dropGuard g l = l := by
  unfold dropGuard
  exact List.filter_eq_self.2 (fun x hx => by simp [h x hx])

/-! ### the invariant -/

structure WF (t : Timer δ ε) : Prop where
  sorted : t.pending.Pairwise Entry.lt
  pnodup : t.pending.Pairwise (fun a b => a.seq ≠ b.seq)
  pseq : ∀ e ∈ t.pending, e.seq < t.nextSeq
  lseq : ∀ d ∈ t.log, d.entry.seq < t.nextSeq
  ltime : ∀ d ∈ t.log, d.entry.due ≤ d.time ∧ d.time ≤ t.now
  lbefore : ∀ d ∈ t.log, d.viaTimer = true → ∀ e ∈ t.pending, Entry.lt d.entry e
  lsorted : t.log.Pairwise (fun a b => a.viaTimer = true → b.viaTimer = true → Entry.lt a.entry b.entry)
  lnodup : t.log.Pairwise (fun a b => a.entry.seq ≠ b.entry.seq)
  ldisj : ∀ d ∈ t.log, ∀ e ∈ t.pending, d.entry.seq ≠ e.seq
  own : ∀ e ∈ t.pending, ∀ sid, e.sendid = some sid → lookupId sid t.delayed = some e.seq
  gseq : ∀ sid g, lookupId sid t.delayed = some g → g < t.nextSeq
  gid : ∀ sid g, lookupId sid t.delayed = some g → ∀ e ∈ t.pending, e.seq = g → e.sendid = some sid
  dead : t.stopped = true → t.pending = []
  sdead : t.stopped = true → t.alive = false

theorem WF.initFull (f : δ → ε → ε) (hr : Nat) (d : δ) : WF (Timer.initFull f hr d : Timer δ ε) := by
  constructor <;> simp [Timer.initFull, lookupId]

theorem WF.initWith (f : δ → ε → ε) (d : δ) : WF (Timer.initWith f d : Timer δ ε) := WF.initFull f _ d

theorem WF.init (d : δ) : WF (Timer.init d : Timer δ ε) := WF.initWith _ d

theorem WF.tick {t : Timer δ ε} (h : WF t) (t' : Nat) : WF (t.tick t') := by
  obtain ⟨h1, h2, h3, h4, h5, h6, h7, h8, h9, h10, h11, h12, h13, h14⟩ := h
  constructor <;> simp only [Timer.tick] <;> try assumption
  intro d hd
  have := h5 d hd
  omega

theorem WF.assign {t : Timer δ ε} (h : WF t) (f : δ → δ) : WF (t.assign f) := by
  unfold Timer.assign
  split
  · exact h
  · obtain ⟨h1, h2, h3, h4, h5, h6, h7, h8, h9, h10, h11, h12, h13, h14⟩ := h
    constructor <;> assumption

theorem WF.terminate {t : Timer δ ε} (h : WF t) : WF t.terminate := by
  obtain ⟨h1, h2, h3, h4, h5, h6, h7, h8, h9, h10, h11, h12, h13, h14⟩ := h
  constructor <;> simp only [Timer.terminate] <;> first | assumption | simp

theorem WF.stop {t : Timer δ ε} (h : WF t) : WF t.stop := by
  unfold Timer.stop
  split
  · exact h
  · rename_i ha
    obtain ⟨h1, h2, h3, h4, h5, h6, h7, h8, h9, h10, h11, h12, h13, h14⟩ := h
    constructor <;> simp only <;> first | assumption | simp
    simpa using ha

theorem WF.cancel {t : Timer δ ε} (h : WF t) (id : SendId) : WF (t.cancel id) := by
  unfold Timer.cancel
  split
  · exact h
  · split
    · exact h
    · rename_i g hg
      obtain ⟨h1, h2, h3, h4, h5, h6, h7, h8, h9, h10, h11, h12, h13, h14⟩ := h
      constructor <;> simp only
      · exact h1.filter _
      · exact h2.filter _
      · intro e he; exact h3 e (mem_dropGuard.1 he).1
      · exact h4
      · exact h5
      · intro d hd hv e he; exact h6 d hd hv e (mem_dropGuard.1 he).1
      · exact h7
      · exact h8
      · intro d hd e he; exact h9 d hd e (mem_dropGuard.1 he).1
      · intro e he sid hs
        have he' := mem_dropGuard.1 he
        by_cases c : sid = id
        · subst c
          have := h10 e he'.1 sid hs
          rw [hg] at this
          exact absurd (Option.some.inj this).symm he'.2
        · rw [lookupId_removeId_ne c]; exact h10 e he'.1 sid hs
      · intro sid g' hl; exact h11 sid g' (lookupId_removeId_some hl).2
      · intro sid g' hl e he; exact h12 sid g' (lookupId_removeId_some hl).2 e (mem_dropGuard.1 he).1
      · intro ha; simp [h13 ha, dropGuard]
      · exact h14

/-- the closure of the head entry, under the invariant: it removes its own guard only -/
theorem WF.fireOne {t : Timer δ ε} (h : WF t) {e : Entry ε} {rest : List (Entry ε)}
    (hp : t.pending = e :: rest) (hdue : e.due ≤ t.now) : WF (fireOne t e rest) := by
  obtain ⟨h1, h2, h3, h4, h5, h6, h7, h8, h9, h10, h11, h12, h13, h14⟩ := h
  rw [hp] at h1 h2 h3 h6 h9 h10 h12
  have s1 := List.pairwise_cons.1 h1
  have s2 := List.pairwise_cons.1 h2
  have hlog : ∀ d ∈ t.log ++ [(⟨t.now, true, e, t.deref t.data e.event⟩ : Delivery ε)],
      d ∈ t.log ∨ d = ⟨t.now, true, e, t.deref t.data e.event⟩ := by
    intro d hd; simpa using hd
  -- facts that do not depend on which guard is dropped
  have A : ∀ (p' : List (Entry ε)) (dl : List (SendId × Nat)),
      (∀ x ∈ p', x ∈ rest) → p'.Pairwise Entry.lt → p'.Pairwise (fun a b => a.seq ≠ b.seq) →
      (∀ x ∈ p', ∀ sid, x.sendid = some sid → lookupId sid dl = some x.seq) →
      (∀ sid g, lookupId sid dl = some g → lookupId sid t.delayed = some g) →
      (t.stopped = true → p' = []) →
      WF ({ t with pending := p', delayed := dl, log := t.log ++ [⟨t.now, true, e, t.deref t.data e.event⟩] } : Timer δ ε) := by
    intro p' dl hsub hs hn hown hdl hdead
    constructor <;> simp only
    · exact hs
    · exact hn
    · intro x hx; exact h3 x (List.mem_cons_of_mem _ (hsub x hx))
    · intro d hd
      rcases hlog d hd with hd | rfl
      · exact h4 d hd
      · exact h3 e (List.mem_cons_self ..)
    · intro d hd
      rcases hlog d hd with hd | rfl
      · exact h5 d hd
      · exact ⟨hdue, Nat.le_refl _⟩
    · intro d hd hv x hx
      rcases hlog d hd with hd | rfl
      · exact h6 d hd hv x (List.mem_cons_of_mem _ (hsub x hx))
      · exact s1.1 x (hsub x hx)
    · refine List.pairwise_append.2 ⟨h7, by simp, ?_⟩
      intro a ha b hb hva _
      simp only [List.mem_singleton] at hb
      subst hb
      exact h6 a ha hva e (List.mem_cons_self ..)
    · refine List.pairwise_append.2 ⟨h8, by simp, ?_⟩
      intro a ha b hb
      simp only [List.mem_singleton] at hb
      subst hb
      exact h9 a ha e (List.mem_cons_self ..)
    · intro d hd x hx
      rcases hlog d hd with hd | rfl
      · exact h9 d hd x (List.mem_cons_of_mem _ (hsub x hx))
      · exact s2.1 x (hsub x hx)
    · exact hown
    · intro sid g hl; exact h11 sid g (hdl sid g hl)
    · intro sid g hl x hx; exact h12 sid g (hdl sid g hl) x (List.mem_cons_of_mem _ (hsub x hx))
    · exact hdead
    · exact h14
  have hdeadrest : t.stopped = true → rest = [] := by
    intro ha; have := h13 ha; rw [hp] at this; cases this
  unfold Rfsm.Timer.fireOne
  split
  · exact A rest t.delayed (fun _ hx => hx) s1.2 s2.2
      (fun x hx sid hs => h10 x (List.mem_cons_of_mem _ hx) sid hs) (fun _ _ hl => hl) hdeadrest
  · rename_i sid hsid
    split
    · exact A rest t.delayed (fun _ hx => hx) s1.2 s2.2
        (fun x hx sid hs => h10 x (List.mem_cons_of_mem _ hx) sid hs) (fun _ _ hl => hl) hdeadrest
    · rename_i g hg
      have hown := h10 e (List.mem_cons_self ..) sid hsid
      refine A (dropGuard g rest) (removeId sid t.delayed) (fun x hx => (mem_dropGuard.1 hx).1)
        (s1.2.filter _) (s2.2.filter _) ?_ (fun sid' g' hl => (lookupId_removeId_some hl).2) ?_
      · intro x hx sid' hs
        have hx' := (mem_dropGuard.1 hx).1
        by_cases c : sid' = sid
        · subst c
          have := h10 x (List.mem_cons_of_mem _ hx') sid' hs
          rw [hown] at this
          exact absurd (Option.some.inj this) (s2.1 x hx')
        · rw [lookupId_removeId_ne c]; exact h10 x (List.mem_cons_of_mem _ hx') sid' hs
      · intro ha; simp [hdeadrest ha, dropGuard]

theorem WF.fireLoop {t : Timer δ ε} (h : WF t) (f : Nat) : WF (fireLoop f t) := by
  induction f generalizing t with
  | zero => exact h
  | succ f ih =>
    unfold Rfsm.Timer.fireLoop
    split
    · exact h
    · rename_i e rest hp
      split
      · rename_i hdue; exact ih (h.fireOne hp hdue)
      · exact h

theorem WF.wake {t : Timer δ ε} (h : WF t) : WF t.wake := by
  unfold Timer.wake
  split
  · exact h
  · exact h.fireLoop _

theorem WF.send {t : Timer δ ε} (h : WF t) (id : Option SendId) (tg : Str) (delay : Int) (mk : δ → ε) :
    WF (t.send id tg delay mk) := by
  obtain ⟨h1, h2, h3, h4, h5, h6, h7, h8, h9, h10, h11, h12, h13, h14⟩ := h
  unfold Timer.send
  split
  · constructor <;> assumption
  split
  · constructor <;> assumption
  split
  · constructor <;> assumption
  split
  · constructor <;> first | assumption | simp
  rename_i halive hneg hint hhead
  simp only
  split
  · -- delay = 0: sent directly
    have hlog : ∀ d ∈ t.log ++ [(⟨t.now, false, ⟨t.now, t.nextSeq, id, tg, mk t.data⟩, t.deref t.data (mk t.data)⟩ : Delivery ε)],
        d ∈ t.log ∨ d = ⟨t.now, false, ⟨t.now, t.nextSeq, id, tg, mk t.data⟩, t.deref t.data (mk t.data)⟩ := by
      intro d hd; simpa using hd
    constructor <;> simp only
    · exact h1
    · exact h2
    · intro e he; have := h3 e he; omega
    · intro d hd
      rcases hlog d hd with hd | rfl
      · have := h4 d hd; omega
      · simp
    · intro d hd
      rcases hlog d hd with hd | rfl
      · exact h5 d hd
      · simp
    · intro d hd hv e he
      rcases hlog d hd with hd | rfl
      · exact h6 d hd hv e he
      · cases hv
    · refine List.pairwise_append.2 ⟨h7, by simp, ?_⟩
      intro a _ b hb _ hvb
      simp only [List.mem_singleton] at hb
      subst hb; cases hvb
    · refine List.pairwise_append.2 ⟨h8, by simp, ?_⟩
      intro a ha b hb
      simp only [List.mem_singleton] at hb
      subst hb
      have := h4 a ha
      simp only; omega
    · intro d hd e he
      rcases hlog d hd with hd | rfl
      · exact h9 d hd e he
      · have := h3 e he; simp only; omega
    · exact h10
    · intro sid g hl; have := h11 sid g hl; omega
    · exact h12
    · exact h13
    · exact h14
  · -- 0 < delay: scheduled
    rename_i hz
    have hpos : 0 < delay.toNat := by omega
    generalize hE : (⟨t.now + delay.toNat, t.nextSeq, id, tg, mk t.data⟩ : Entry ε) = e
    have eseq : e.seq = t.nextSeq := by rw [← hE]
    have edue : e.due = t.now + delay.toNat := by rw [← hE]
    have eid : e.sendid = id := by rw [← hE]
    have hlt : ∀ x ∈ t.pending, x.seq < e.seq := fun x hx => by rw [eseq]; exact h3 x hx
    have isorted := insertEntry_sorted (e := e) h1 hlt
    have iseqs := insertEntry_seqs (e := e) h2 hlt
    have B : ∀ (p' : List (Entry ε)) (dl : List (SendId × Nat)),
        (∀ x ∈ p', x ∈ insertEntry e t.pending) → p'.Pairwise Entry.lt →
        p'.Pairwise (fun a b => a.seq ≠ b.seq) →
        (∀ x ∈ p', ∀ sid, x.sendid = some sid → lookupId sid dl = some x.seq) →
        (∀ sid g, lookupId sid dl = some g → g < t.nextSeq + 1) →
        (∀ sid g, lookupId sid dl = some g → ∀ x ∈ p', x.seq = g → x.sendid = some sid) →
        WF ({ t with nextSeq := t.nextSeq + 1, pending := p', delayed := dl } : Timer δ ε) := by
      intro p' dl hsub hs hn hown hgs hgi
      constructor <;> simp only
      · exact hs
      · exact hn
      · intro x hx
        rcases mem_insertEntry.1 (hsub x hx) with rfl | hx
        · omega
        · have := h3 x hx; omega
      · intro d hd; have := h4 d hd; omega
      · exact h5
      · intro d hd hv x hx
        rcases mem_insertEntry.1 (hsub x hx) with rfl | hx
        · have := h5 d hd
          unfold Entry.lt; omega
        · exact h6 d hd hv x hx
      · exact h7
      · exact h8
      · intro d hd x hx
        rcases mem_insertEntry.1 (hsub x hx) with rfl | hx
        · have := h4 d hd; omega
        · exact h9 d hd x hx
      · exact hown
      · exact hgs
      · exact hgi
      · intro hs; exact absurd (h14 hs) halive
      · exact h14
    cases id with
    | none =>
      simp only
      refine B _ _ (fun _ hx => hx) isorted iseqs ?_ (fun sid g hl => by have := h11 sid g hl; omega) ?_
      · intro x hx sid hs
        rcases mem_insertEntry.1 hx with rfl | hx
        · rw [eid] at hs; cases hs
        · exact h10 x hx sid hs
      · intro sid g hl x hx hxg
        rcases mem_insertEntry.1 hx with rfl | hx
        · have := h11 sid g hl; omega
        · exact h12 sid g hl x hx hxg
    | some sid =>
      simp only
      -- whichever guard was stored under `sid` is dropped
      have hsub : ∀ x ∈ (match lookupId sid t.delayed with
          | some old => dropGuard old (insertEntry e t.pending)
          | none => insertEntry e t.pending), x ∈ insertEntry e t.pending ∧
            (∀ old, lookupId sid t.delayed = some old → x.seq ≠ old) := by
        intro x hx
        split at hx
        · rename_i old hold
          have := mem_dropGuard.1 hx
          exact ⟨this.1, fun o ho => by rw [hold] at ho; cases ho; exact this.2⟩
        · rename_i hnone
          exact ⟨hx, fun o ho => by rw [hnone] at ho; cases ho⟩
      have hP1 : (match lookupId sid t.delayed with
          | some old => dropGuard old (insertEntry e t.pending)
          | none => insertEntry e t.pending).Pairwise Entry.lt := by
        split
        · exact isorted.filter _
        · exact isorted
      have hP2 : List.Pairwise (fun (a b : Entry ε) => a.seq ≠ b.seq) (match lookupId sid t.delayed with
          | some old => dropGuard old (insertEntry e t.pending)
          | none => insertEntry e t.pending) := by
        split
        · exact iseqs.filter _
        · exact iseqs
      refine B _ _ (fun x hx => (hsub x hx).1) hP1 hP2 ?_ ?_ ?_
      · intro x hx sid' hs
        obtain ⟨hxm, hxo⟩ := hsub x hx
        rw [lookupId_cons]
        by_cases c : sid = sid'
        · subst c
          rw [if_pos rfl]
          rcases mem_insertEntry.1 hxm with rfl | hxp
          · rw [eseq]
          · exact absurd rfl (hxo x.seq (h10 x hxp sid hs))
        · rw [if_neg c, lookupId_removeId_ne (fun e' => c e'.symm)]
          rcases mem_insertEntry.1 hxm with rfl | hxp
          · rw [eid] at hs; cases hs; exact absurd rfl c
          · exact h10 x hxp sid' hs
      · intro sid' g hl
        rw [lookupId_cons] at hl
        by_cases c : sid = sid'
        · rw [if_pos c] at hl; cases hl; omega
        · rw [if_neg c] at hl
          have := h11 sid' g (lookupId_removeId_some hl).2; omega
      · intro sid' g hl x hx hxg
        obtain ⟨hxm, hxo⟩ := hsub x hx
        rw [lookupId_cons] at hl
        by_cases c : sid = sid'
        · subst c
          rw [if_pos rfl] at hl; cases hl
          rcases mem_insertEntry.1 hxm with rfl | hxp
          · exact eid
          · have := h3 x hxp; omega
        · rw [if_neg c] at hl
          have hl' := (lookupId_removeId_some hl).2
          rcases mem_insertEntry.1 hxm with rfl | hxp
          · have := h11 sid' g hl'; omega
          · exact h12 sid' g hl' x hxp hxg

theorem WF.step {t : Timer δ ε} (h : WF t) (op : Op δ ε) : WF (t.step op) := by
  cases op with
  | send id tg d f => exact h.send id tg d f
  | cancel id => exact h.cancel id
  | assign f => exact h.assign f
  | tick t' => exact h.tick t'
  | wake => exact h.wake
  | terminate => exact h.terminate
  | stop => exact h.stop

theorem WF.run {t : Timer δ ε} (h : WF t) (ops : List (Op δ ε)) : WF (t.run ops) := by
  induction ops generalizing t with
  | nil => exact h
  | cons op ops ih => exact ih (h.step op)

/-! ### what the operations do to entries that exist already -/

theorem fireOne_pending {t : Timer δ ε} (h : WF t) {x : Entry ε} {rest : List (Entry ε)}
    (hp : t.pending = x :: rest) : (fireOne t x rest).pending = rest := by
  unfold Rfsm.Timer.fireOne
  split
  · rfl
  · rename_i sid hsid
    split
    · rfl
    · rename_i g hg
      have hown := h.own x (by rw [hp]; exact List.mem_cons_self ..) sid hsid
      rw [hg] at hown
      cases hown
      have hn := h.pnodup
      rw [hp] at hn
      exact dropGuard_of_not_mem (fun y hy => ((List.pairwise_cons.1 hn).1 y hy).symm)

theorem fireOne_log (t : Timer δ ε) (x : Entry ε) (rest : List (Entry ε)) :
    (fireOne t x rest).log = t.log ++ [⟨t.now, true, x, t.deref t.data x.event⟩] := by
  unfold Rfsm.Timer.fireOne
  split
  · rfl
  · split <;> rfl

theorem fireOne_now (t : Timer δ ε) (x : Entry ε) (rest : List (Entry ε)) :
    (fireOne t x rest).now = t.now ∧ (fireOne t x rest).nextSeq = t.nextSeq ∧
    (fireOne t x rest).alive = t.alive ∧ (fireOne t x rest).data = t.data := by
  unfold Rfsm.Timer.fireOne
  split
  · simp
  · split <;> simp

/-- delivered by the timer thread -/
def Delivered (t : Timer δ ε) (e : Entry ε) : Prop := ∃ d ∈ t.log, d.entry = e ∧ d.viaTimer = true

/-- nothing that exists is ever modified: a later state's deliveries and pending entries are the
earlier state's, or newer -/
structure Frame (t t' : Timer δ ε) : Prop where
  log : ∀ d ∈ t'.log, d ∈ t.log ∨ (d.entry ∈ t.pending ∧ d.viaTimer = true) ∨ t.nextSeq ≤ d.entry.seq
  pend : ∀ e ∈ t'.pending, e ∈ t.pending ∨ t.nextSeq ≤ e.seq
  next : t.nextSeq ≤ t'.nextSeq
  mono : ∀ d ∈ t.log, d ∈ t'.log
  now : t.now ≤ t'.now

theorem Frame.refl (t : Timer δ ε) : Frame t t :=
  ⟨fun _ hd => Or.inl hd, fun _ he => Or.inl he, Nat.le_refl _, fun _ hd => hd, Nat.le_refl _⟩

theorem Frame.trans {a b c : Timer δ ε} (h1 : Frame a b) (h2 : Frame b c) : Frame a c := by
  constructor
  · intro d hd
    rcases h2.log d hd with hd | ⟨hd, hv⟩ | hd
    · exact h1.log d hd
    · rcases h1.pend _ hd with hd | hd
      · exact Or.inr (Or.inl ⟨hd, hv⟩)
      · exact Or.inr (Or.inr hd)
    · exact Or.inr (Or.inr (Nat.le_trans h1.next hd))
  · intro e he
    rcases h2.pend e he with he | he
    · exact h1.pend e he
    · exact Or.inr (Nat.le_trans h1.next he)
  · exact Nat.le_trans h1.next h2.next
  · intro d hd; exact h2.mono d (h1.mono d hd)
  · exact Nat.le_trans h1.now h2.now

theorem Frame.fireOne (t : Timer δ ε) {x : Entry ε} {rest : List (Entry ε)}
    (hp : t.pending = x :: rest) : Frame t (fireOne t x rest) := by
  have hsub : ∀ y ∈ (Rfsm.Timer.fireOne t x rest).pending, y ∈ rest := by
    intro y hy
    unfold Rfsm.Timer.fireOne at hy
    split at hy
    · exact hy
    · split at hy
      · exact hy
      · exact (mem_dropGuard.1 hy).1
  constructor
  · intro d hd
    rw [fireOne_log] at hd
    rcases List.mem_append.1 hd with hd | hd
    · exact Or.inl hd
    · simp only [List.mem_singleton] at hd
      subst hd
      exact Or.inr (Or.inl ⟨by rw [hp]; exact List.mem_cons_self .., rfl⟩)
  · intro y hy; rw [hp]; exact Or.inl (List.mem_cons_of_mem _ (hsub y hy))
  · rw [(fireOne_now t x rest).2.1]; exact Nat.le_refl _
  · intro d hd; rw [fireOne_log]; exact List.mem_append_left _ hd
  · rw [(fireOne_now t x rest).1]; exact Nat.le_refl _

theorem Frame.fireLoop (t : Timer δ ε) (f : Nat) : Frame t (fireLoop f t) := by
  induction f generalizing t with
  | zero => exact Frame.refl t
  | succ f ih =>
    unfold Rfsm.Timer.fireLoop
    split
    · exact Frame.refl t
    · rename_i x rest hp
      split
      · exact (Frame.fireOne t hp).trans (ih _)
      · exact Frame.refl t

theorem Frame.step (t : Timer δ ε) (op : Op δ ε) : Frame t (t.step op) := by
  cases op with
  | assign f =>
    show Frame t (t.assign f)
    unfold Timer.assign
    split
    · exact Frame.refl t
    · exact ⟨fun _ hd => Or.inl hd, fun _ he => Or.inl he, Nat.le_refl _, fun _ hd => hd, Nat.le_refl _⟩
  | tick t' =>
    show Frame t (t.tick t')
    exact ⟨fun _ hd => Or.inl hd, fun _ he => Or.inl he, Nat.le_refl _, fun _ hd => hd, Nat.le_max_left _ _⟩
  | terminate =>
    show Frame t t.terminate
    exact ⟨fun _ hd => Or.inl hd, fun _ he => Or.inl he, Nat.le_refl _, fun _ hd => hd, Nat.le_refl _⟩
  | stop =>
    show Frame t t.stop
    unfold Timer.stop
    split
    · exact Frame.refl t
    · exact ⟨fun _ hd => Or.inl hd, fun _ he => by simp at he, Nat.le_refl _, fun _ hd => hd, Nat.le_refl _⟩
  | wake =>
    show Frame t t.wake
    unfold Timer.wake
    split
    · exact Frame.refl t
    · exact Frame.fireLoop t _
  | cancel id =>
    show Frame t (t.cancel id)
    unfold Timer.cancel
    split
    · exact Frame.refl t
    · split
      · exact Frame.refl t
      · exact ⟨fun _ hd => Or.inl hd, fun e he => Or.inl (mem_dropGuard.1 he).1, Nat.le_refl _, fun _ hd => hd, Nat.le_refl _⟩
  | send id tg d mk =>
    show Frame t (t.send id tg d mk)
    unfold Timer.send
    split
    · exact Frame.refl t
    split
    · exact ⟨fun _ hd => Or.inl hd, fun _ he => Or.inl he, Nat.le_refl _, fun _ hd => hd, Nat.le_refl _⟩
    split
    · exact ⟨fun _ hd => Or.inl hd, fun _ he => Or.inl he, Nat.le_refl _, fun _ hd => hd, Nat.le_refl _⟩
    split
    · exact ⟨fun _ hd => Or.inl hd, fun _ he => Or.inl he, Nat.le_refl _, fun _ hd => hd, Nat.le_refl _⟩
    simp only
    split
    · refine ⟨?_, fun _ he => Or.inl he, Nat.le_succ _, fun _ hd => List.mem_append_left _ hd, Nat.le_refl _⟩
      intro x hx
      rcases List.mem_append.1 hx with hx | hx
      · exact Or.inl hx
      · simp only [List.mem_singleton] at hx
        subst hx; exact Or.inr (Or.inr (Nat.le_refl _))
    · have key : ∀ x ∈ insertEntry (⟨t.now + d.toNat, t.nextSeq, id, tg, mk t.data⟩ : Entry ε) t.pending,
          x ∈ t.pending ∨ t.nextSeq ≤ x.seq := by
        intro x hx
        rcases mem_insertEntry.1 hx with rfl | hx
        · exact Or.inr (Nat.le_refl _)
        · exact Or.inl hx
      cases id with
      | none => exact ⟨fun _ hd => Or.inl hd, key, Nat.le_succ _, fun _ hd => hd, Nat.le_refl _⟩
      | some sid =>
        refine ⟨fun _ hd => Or.inl hd, ?_, Nat.le_succ _, fun _ hd => hd, Nat.le_refl _⟩
        intro x hx
        simp only at hx
        split at hx
        · exact key x (mem_dropGuard.1 hx).1
        · exact key x hx

theorem Frame.run (t : Timer δ ε) (ops : List (Op δ ε)) : Frame t (t.run ops) := by
  induction ops generalizing t with
  | nil => exact Frame.refl t
  | cons op ops ih => exact (Frame.step t op).trans (ih _)

/-- executed in state `t`, `op` neither cancels, overwrites nor discards the pending entry `e` -/
def Safe (t : Timer δ ε) (e : Entry ε) : Op δ ε → Prop
  | .send (some sid) tg d _ => ¬ (t.alive = true ∧ 0 < d ∧ tg ≠ internalTarget ∧ e.sendid = some sid)
  | .cancel id => e.sendid ≠ some id
  | .terminate => False
  | .stop => False
  | _ => True

theorem fire_keeps {t : Timer δ ε} (h : WF t) {e : Entry ε} (he : e ∈ t.pending) (f : Nat) :
    e ∈ (fireLoop f t).pending ∨ Delivered (fireLoop f t) e := by
  induction f generalizing t with
  | zero => exact Or.inl he
  | succ f ih =>
    unfold Rfsm.Timer.fireLoop
    split
    · exact Or.inl he
    · rename_i x rest hp
      split
      · rename_i hdue
        have hw := h.fireOne hp hdue
        rw [hp] at he
        rcases List.mem_cons.1 he with rfl | he
        · right
          have hm := (Frame.fireLoop (fireOne t e rest) f).mono
          refine ⟨⟨t.now, true, e, t.deref t.data e.event⟩, hm _ ?_, rfl, rfl⟩
          rw [fireOne_log]; simp
        · exact ih hw (by rw [fireOne_pending h hp]; exact he)
      · exact Or.inl he

theorem fire_due {t : Timer δ ε} (h : WF t) {e : Entry ε} (he : e ∈ t.pending) (hdue : e.due ≤ t.now)
    (f : Nat) (hf : t.pending.length ≤ f) : Delivered (fireLoop f t) e := by
  induction f generalizing t with
  | zero =>
    have : t.pending = [] := List.eq_nil_of_length_eq_zero (Nat.le_zero.1 hf)
    rw [this] at he; cases he
  | succ f ih =>
    unfold Rfsm.Timer.fireLoop
    split
    · rename_i hp; rw [hp] at he; cases he
    · rename_i x rest hp
      have hs := h.sorted
      rw [hp] at hs he hf
      have hxdue : x.due ≤ t.now := by
        rcases List.mem_cons.1 he with rfl | he'
        · exact hdue
        · have := (List.pairwise_cons.1 hs).1 e he'
          unfold Entry.lt at this; omega
      rw [if_pos hxdue]
      have hw := h.fireOne hp hxdue
      rcases List.mem_cons.1 he with rfl | he'
      · have hm := (Frame.fireLoop (fireOne t e rest) f).mono
        refine ⟨⟨t.now, true, e, t.deref t.data e.event⟩, hm _ ?_, rfl, rfl⟩
        rw [fireOne_log]; simp
      · refine ih hw (by rw [fireOne_pending h hp]; exact he') ?_ ?_
        · rw [(fireOne_now t x rest).1]; exact hdue
        · rw [fireOne_pending h hp]; simp at hf; omega

theorem keep_step {t : Timer δ ε} (h : WF t) {e : Entry ε} (he : e ∈ t.pending) (op : Op δ ε)
    (hs : Safe t e op) : e ∈ (t.step op).pending ∨ Delivered (t.step op) e := by
  have hns : ¬ t.stopped = true := by
    intro hst; have := h.dead hst; rw [this] at he; cases he
  cases op with
  | assign f =>
    left
    show e ∈ (t.assign f).pending
    unfold Timer.assign
    split <;> exact he
  | tick t' => exact Or.inl he
  | terminate => exact absurd hs (by simp [Safe])
  | stop => exact absurd hs (by simp [Safe])
  | wake =>
    show e ∈ t.wake.pending ∨ Delivered t.wake e
    unfold Timer.wake
    rw [if_neg hns]
    exact fire_keeps h he _
  | cancel id =>
    left
    show e ∈ (t.cancel id).pending
    unfold Timer.cancel
    split
    · exact he
    split
    · exact he
    · rename_i g hg
      refine mem_dropGuard.2 ⟨he, ?_⟩
      intro hc
      exact hs (h.gid id g hg e he hc)
  | send id tg d mk =>
    left
    show e ∈ (t.send id tg d mk).pending
    unfold Timer.send
    split
    · exact he
    split
    · exact he
    split
    · exact he
    split
    · exact he
    simp only
    split
    · exact he
    · rename_i halive hneg hint hhead hz
      have hin : e ∈ insertEntry (⟨t.now + d.toNat, t.nextSeq, id, tg, mk t.data⟩ : Entry ε) t.pending :=
        mem_insertEntry.2 (Or.inr he)
      cases id with
      | none => exact hin
      | some sid =>
        simp only
        split
        · rename_i old hold
          refine mem_dropGuard.2 ⟨hin, ?_⟩
          intro hc
          have hsid := h.gid sid old hold e he hc
          apply hs
          refine ⟨by simpa using halive, by omega, ?_, hsid⟩
          intro htg
          exact hint ⟨by omega, htg⟩
        · exact hin

theorem keep_run {t : Timer δ ε} (h : WF t) {e : Entry ε} (he : e ∈ t.pending) (ops : List (Op δ ε))
    (hs : ∀ op ∈ ops, ∀ t', Safe t' e op) : e ∈ (t.run ops).pending ∨ Delivered (t.run ops) e := by
  induction ops generalizing t with
  | nil => exact Or.inl he
  | cons op ops ih =>
    rcases keep_step h he op (hs op (List.mem_cons_self ..) t) with he' | ⟨d, hd, hde⟩
    · exact ih (h.step op) he' (fun o ho => hs o (List.mem_cons_of_mem _ ho))
    · right
      exact ⟨d, (Frame.run (t.step op) ops).mono d hd, hde⟩

theorem Safe.of_harmless {e : Entry ε} {op : Op δ ε} (h : op.harmlessFor e.sendid = true) (t : Timer δ ε) :
    Safe t e op := by
  cases op with
  | send id tg d mk =>
    cases id with
    | none => trivial
    | some sid =>
      intro ⟨_, hd, _, hsid⟩
      simp [Op.harmlessFor, hd, hsid] at h
  | cancel id =>
    intro hc
    simp [Op.harmlessFor, hc] at h
  | terminate => simp [Op.harmlessFor] at h
  | stop => simp [Op.harmlessFor] at h
  | assign f => trivial
  | tick t' => trivial
  | wake => trivial

/-! ### what the receiver reads -/

/-- every delivery was read through the session's (constant) `deref` from some state of the data -/
def Seen (t : Timer δ ε) : Prop := ∀ d ∈ t.log, ∃ dat, d.seen = t.deref dat d.entry.event

theorem fireOne_deref (t : Timer δ ε) (x : Entry ε) (rest : List (Entry ε)) :
    (fireOne t x rest).deref = t.deref := by
  unfold Rfsm.Timer.fireOne
  split
  · rfl
  · split <;> rfl

theorem fireLoop_deref (f : Nat) (t : Timer δ ε) : (fireLoop f t).deref = t.deref := by
  induction f generalizing t with
  | zero => rfl
  | succ f ih =>
    unfold Rfsm.Timer.fireLoop
    split
    · rfl
    · split
      · exact (ih _).trans (fireOne_deref ..)
      · rfl

theorem step_deref (t : Timer δ ε) (op : Op δ ε) : (t.step op).deref = t.deref := by
  cases op with
  | send id tg d mk =>
    show (t.send id tg d mk).deref = t.deref
    unfold Timer.send
    split
    · rfl
    split
    · rfl
    split
    · rfl
    split
    · rfl
    simp only
    split
    · rfl
    · cases id <;> rfl
  | cancel id =>
    show (t.cancel id).deref = t.deref
    unfold Timer.cancel
    split
    · rfl
    · split <;> rfl
  | assign f => show (t.assign f).deref = t.deref; unfold Timer.assign; split <;> rfl
  | tick t' => rfl
  | wake =>
    show t.wake.deref = t.deref
    unfold Timer.wake
    split
    · rfl
    · exact fireLoop_deref ..
  | terminate => rfl
  | stop => show t.stop.deref = t.deref; unfold Timer.stop; split <;> rfl

theorem run_deref (t : Timer δ ε) (ops : List (Op δ ε)) : (t.run ops).deref = t.deref := by
  induction ops generalizing t with
  | nil => rfl
  | cons op ops ih => exact (ih _).trans (step_deref t op)

theorem Seen.fireOne {t : Timer δ ε} (h : Seen t) (x : Entry ε) (rest : List (Entry ε)) :
    Seen (fireOne t x rest) := by
  intro d hd
  rw [fireOne_log] at hd
  rw [fireOne_deref]
  rcases List.mem_append.1 hd with hd | hd
  · exact h d hd
  · simp only [List.mem_singleton] at hd
    subst hd
    exact ⟨t.data, rfl⟩

theorem Seen.fireLoop {t : Timer δ ε} (h : Seen t) (f : Nat) : Seen (fireLoop f t) := by
  induction f generalizing t with
  | zero => exact h
  | succ f ih =>
    unfold Rfsm.Timer.fireLoop
    split
    · exact h
    · split
      · exact ih (h.fireOne _ _)
      · exact h

theorem Seen.step {t : Timer δ ε} (h : Seen t) (op : Op δ ε) : Seen (t.step op) := by
  cases op with
  | send id tg d mk =>
    show Seen (t.send id tg d mk)
    unfold Timer.send
    split
    · exact h
    split
    · exact h
    split
    · exact h
    split
    · exact h
    simp only
    split
    · intro x hx
      rcases List.mem_append.1 hx with hx | hx
      · exact h x hx
      · simp only [List.mem_singleton] at hx
        subst hx
        exact ⟨t.data, rfl⟩
    · cases id with
      | none => exact h
      | some sid => exact h
  | cancel id =>
    show Seen (t.cancel id)
    unfold Timer.cancel
    split
    · exact h
    · split
      · exact h
      · exact h
  | assign f =>
    show Seen (t.assign f)
    unfold Timer.assign
    split
    · exact h
    · exact h
  | tick t' => exact h
  | wake =>
    show Seen t.wake
    unfold Timer.wake
    split
    · exact h
    · exact h.fireLoop _
  | terminate => exact h
  | stop =>
    show Seen t.stop
    unfold Timer.stop
    split
    · exact h
    · exact h

theorem Seen.run {t : Timer δ ε} (h : Seen t) (ops : List (Op δ ε)) : Seen (t.run ops) := by
  induction ops generalizing t with
  | nil => exact h
  | cons op ops ih => exact ih (h.step op)

/-! ### helpers of the C16 theorems -/

theorem filter_seq_length_aux {l : List (Delivery ε)} (hn : l.Pairwise (fun a b => a.entry.seq ≠ b.entry.seq))
    {d : Delivery ε} (hd : d ∈ l) : (l.filter (fun x => x.entry.seq = d.entry.seq)).length = 1 := by
  induction l with
  | nil => cases hd
  | cons x xs ih =>
    have hx := List.pairwise_cons.1 hn
    rcases List.mem_cons.1 hd with rfl | hd
    · have : xs.filter (fun y => decide (y.entry.seq = d.entry.seq)) = [] := by
        rw [List.filter_eq_nil_iff]
        intro y hy
        have := hx.1 y hy
        simp; omega
      simp [this]
    · have hne : ¬ x.entry.seq = d.entry.seq := hx.1 d hd
      simp [hne, ih hx.2 hd]

/-- the general form of "exactly once": any side condition that makes every operation `Safe` for
the entry will do -/
theorem exactly_once_of_safe_aux (t : Timer δ ε) (hw0 : WF t) (e : Entry ε)
    (ops : List (Op δ ε)) (hs : e ∈ (t.run ops).pending ∨ Delivered (t.run ops) e)
    (hdue : e.due ≤ (t.run ops).now) :
    (((t.run ops).wake.log.filter (fun d => d.entry.seq = e.seq)).length = 1 ∧
     ∃ d ∈ (t.run ops).wake.log, d.entry = e ∧ d.viaTimer = true) := by
  have hw := hw0.run ops
  have hdel : Delivered (t.run ops).wake e := by
    rcases hs with hp | ⟨d, hd, hde⟩
    · have hns : ¬ (t.run ops).stopped = true := by
        intro hst; have := hw.dead hst; rw [this] at hp; cases hp
      unfold Timer.wake
      rw [if_neg hns]
      exact fire_due hw hp hdue _ (Nat.le_refl _)
    · exact ⟨d, (Frame.step (t.run ops) .wake).mono d hd, hde⟩
  obtain ⟨d, hd, hde, hv⟩ := hdel
  refine ⟨?_, d, hd, hde, hv⟩
  have := filter_seq_length_aux hw.wake.lnodup hd
  rw [hde] at this
  exact this

theorem idsFresh_keep_aux {t : Timer δ ε} (h : WF t) {e : Entry ε} (he : e ∈ t.pending) (ops : List (Op δ ε))
    (hc : ∀ op ∈ ops, ∀ id, op = .cancel id → e.sendid ≠ some id)
    (hterm : ∀ op ∈ ops, op ≠ .terminate ∧ op ≠ .stop)
    (hf : idsFresh t ops = true) : e ∈ (t.run ops).pending ∨ Delivered (t.run ops) e := by
  induction ops generalizing t with
  | nil => exact Or.inl he
  | cons op ops ih =>
    unfold idsFresh at hf
    rw [Bool.and_eq_true] at hf
    have hsafe : Safe t e op := by
      cases op with
      | send id tg d mk =>
        cases id with
        | none => trivial
        | some sid =>
          intro ⟨halive, hd, htg, hsid⟩
          have hl := h.own e he sid hsid
          have := hf.1
          simp [halive, hd, htg, hl] at this
      | cancel id => exact hc _ (List.mem_cons_self ..) id rfl
      | terminate => exact absurd rfl (hterm _ (List.mem_cons_self ..)).1
      | stop => exact absurd rfl (hterm _ (List.mem_cons_self ..)).2
      | assign f => trivial
      | tick t' => trivial
      | wake => trivial
    rcases keep_step h he op hsafe with he' | ⟨d, hd, hde⟩
    · exact ih (h.step op) he' (fun o ho => hc o (List.mem_cons_of_mem _ ho))
        (fun o ho => hterm o (List.mem_cons_of_mem _ ho)) hf.2
    · right
      exact ⟨d, (Frame.run (t.step op) ops).mono d hd, hde⟩

/-- in a list whose members have pairwise distinct `seq`, equal `seq` means equal member -/
theorem eq_of_seq_eq_aux (l : List (Entry ε)) (hl : l.Pairwise (fun a b => a.seq ≠ b.seq))
    {a b : Entry ε} (ha : a ∈ l) (hb : b ∈ l) (hs : a.seq = b.seq) : a = b := by
  induction l with
  | nil => cases ha
  | cons x xs ih =>
    have hx := List.pairwise_cons.1 hl
    rcases List.mem_cons.1 ha with r1 | r1 <;> rcases List.mem_cons.1 hb with r2 | r2
    · exact r1.trans r2.symm
    · exact absurd (r1 ▸ hs) (hx.1 b r2)
    · exact absurd (r2 ▸ hs.symm) (hx.1 a r1)
    · exact ih hx.2 r1 r2

theorem stopped_run_aux (t : Timer δ ε) (hs : t.stopped = true) (ha : t.alive = false) (hp : t.pending = [])
    (ops : List (Op δ ε)) : (t.run ops).log = t.log ∧ (t.run ops).pending = [] := by
  induction ops generalizing t with
  | nil => exact ⟨rfl, hp⟩
  | cons op ops ih =>
    have hstep : (t.step op).stopped = true ∧ (t.step op).alive = false ∧ (t.step op).pending = [] ∧
        (t.step op).log = t.log := by
      cases op with
      | send id tg d mk => simp [Timer.step, Timer.send, ha, hp, hs]
      | cancel id => simp [Timer.step, Timer.cancel, ha, hp, hs]
      | assign f => simp [Timer.step, Timer.assign, ha, hp, hs]
      | tick t' => exact ⟨hs, ha, hp, rfl⟩
      | wake => simp [Timer.step, Timer.wake, ha, hp, hs]
      | terminate => exact ⟨hs, rfl, hp, rfl⟩
      | stop => simp [Timer.step, Timer.stop, ha]
    have := ih (t.step op) hstep.1 hstep.2.1 hstep.2.2.1
    exact ⟨this.1.trans hstep.2.2.2, this.2⟩

theorem fireLoop_fields_aux (f : Nat) (t : Timer δ ε) :
    (fireLoop f t).nextSeq = t.nextSeq ∧ (fireLoop f t).alive = t.alive := by
  induction f generalizing t with
  | zero => exact ⟨rfl, rfl⟩
  | succ f ih =>
    unfold Rfsm.Timer.fireLoop
    split
    · exact ⟨rfl, rfl⟩
    · rename_i x rest hp
      split
      · have h1 := ih (fireOne t x rest)
        have h2 := fireOne_now t x rest
        exact ⟨h1.1.trans h2.2.1, h1.2.trans h2.2.2.1⟩
      · exact ⟨rfl, rfl⟩

theorem dead_nextSeq_aux (u : Timer δ ε) (hu : u.alive = false) (os : List (Op δ ε)) :
    (u.run os).nextSeq = u.nextSeq := by
  induction os generalizing u with
  | nil => rfl
  | cons o os ih =>
    have h1 : (u.step o).alive = false ∧ (u.step o).nextSeq = u.nextSeq := by
      cases o with
      | send id tg dl mk => simp [Timer.step, Timer.send, hu]
      | cancel id => simp [Timer.step, Timer.cancel, hu]
      | assign f => simp [Timer.step, Timer.assign, hu]
      | tick t' => exact ⟨hu, rfl⟩
      | terminate => exact ⟨rfl, rfl⟩
      | stop => simp [Timer.step, Timer.stop, hu]
      | wake =>
        show u.wake.alive = false ∧ u.wake.nextSeq = u.nextSeq
        unfold Timer.wake
        split
        · exact ⟨hu, rfl⟩
        · have := fireLoop_fields_aux u.pending.length u
          exact ⟨this.2.trans hu, this.1⟩
    exact (ih _ h1.1).trans h1.2


end Rfsm.Timer
