import Rfsm.Model.Timer
/-!
Invariants of the per-session timer model (`Rfsm.Timer`) and the lemmas the C16 theorems need.
-/
namespace Rfsm.Timer

variable {δ ε : Type}

/-- pop order of the heap: by due time, then by order of scheduling -/
def Entry.lt (a b : Entry ε) : Prop := a.due < b.due ∨ (a.due = b.due ∧ a.seq < b.seq)

/-! ### the guard table `delayed_send` -/

theorem hasGuard_iff {m : List (Option SendId × Nat)} {key : Option SendId} {g : Nat} :
    hasGuard m key g = true ↔ (key, g) ∈ m := by
  simp [hasGuard]

theorem hasGuard_false_iff {m : List (Option SendId × Nat)} {key : Option SendId} {g : Nat} :
    hasGuard m key g = false ↔ (key, g) ∉ m := by
  rw [← hasGuard_iff]; simp

/-! ### heap insertion -/

theorem mem_insertEntry {e x : Entry ε} {l : List (Entry ε)} :
    x ∈ insertEntry e l ↔ x = e ∨ x ∈ l := by
  induction l with
  | nil => simp [insertEntry]
  | cons y ys ih =>
    unfold insertEntry
    split
    · simp only [List.mem_cons, ih]; constructor
      · rintro (h | h | h) <;> simp [h]
      · rintro (h | h | h) <;> simp [h]
    · simp only [List.mem_cons]

theorem insertEntry_sorted {e : Entry ε} {l : List (Entry ε)}
    (hs : l.Pairwise Entry.lt) (hseq : ∀ x ∈ l, x.seq < e.seq) :
    (insertEntry e l).Pairwise Entry.lt := by
  induction l with
  | nil => simp [insertEntry]
  | cons y ys ih =>
    have hy := List.pairwise_cons.1 hs
    unfold insertEntry
    split
    · rename_i hle
      refine List.pairwise_cons.2 ⟨?_, ih hy.2 (fun x hx => hseq x (List.mem_cons_of_mem _ hx))⟩
      intro x hx
      rcases mem_insertEntry.1 hx with rfl | hx
      · have := hseq y (List.mem_cons_self ..)
        unfold Entry.lt; omega
      · exact hy.1 x hx
    · rename_i hle
      refine List.pairwise_cons.2 ⟨?_, hs⟩
      intro x hx
      have hey : Entry.lt e y := by unfold Entry.lt; omega
      rcases List.mem_cons.1 hx with rfl | hx
      · exact hey
      · have := hy.1 x hx
        unfold Entry.lt at *; omega

theorem insertEntry_seqs {e : Entry ε} {l : List (Entry ε)}
    (hs : l.Pairwise (fun a b => a.seq ≠ b.seq)) (hseq : ∀ x ∈ l, x.seq < e.seq) :
    (insertEntry e l).Pairwise (fun a b => a.seq ≠ b.seq) := by
  induction l with
  | nil => simp [insertEntry]
  | cons y ys ih =>
    have hy := List.pairwise_cons.1 hs
    unfold insertEntry
    split
    · refine List.pairwise_cons.2 ⟨?_, ih hy.2 (fun x hx => hseq x (List.mem_cons_of_mem _ hx))⟩
      intro x hx
      rcases mem_insertEntry.1 hx with rfl | hx
      · have := hseq y (List.mem_cons_self ..); omega
      · exact hy.1 x hx
    · refine List.pairwise_cons.2 ⟨?_, hs⟩
      intro x hx
      have := hseq x hx; omega

/-! ### the invariant -/

structure WF (t : Timer δ ε) : Prop where
  sorted : t.pending.Pairwise Entry.lt
  pnodup : t.pending.Pairwise (fun a b => a.seq ≠ b.seq)
  pseq : ∀ e ∈ t.pending, e.seq < t.nextSeq
  lseq : ∀ d ∈ t.log, d.entry.seq < t.nextSeq
  ltime : ∀ d ∈ t.log, d.entry.due ≤ d.time ∧ d.time ≤ t.now
  lbefore : ∀ d ∈ t.log, d.viaTimer = true → ∀ e ∈ t.pending, Entry.lt d.entry e
  lsorted : t.log.Pairwise (fun a b => a.viaTimer = true → b.viaTimer = true → Entry.lt a.entry b.entry)
  lnodup : t.log.Pairwise (fun a b => a.entry.seq ≠ b.entry.seq)
  ldisj : ∀ d ∈ t.log, ∀ e ∈ t.pending, d.entry.seq ≠ e.seq
  /-- every pending entry has its own guard registered under its own send id -/
  own : ∀ e ∈ t.pending, (e.sendid, e.seq) ∈ t.delayed
  gseq : ∀ p ∈ t.delayed, p.2 < t.nextSeq
  /-- a registered guard belongs to the entry with its serial number, under that entry's send id -/
  gid : ∀ p ∈ t.delayed, ∀ e ∈ t.pending, e.seq = p.2 → e.sendid = p.1
  dead : t.stopped = true → t.pending = []
  sdead : t.stopped = true → t.alive = false
  /-- the receiver reads the event as it was built -/
  lseen : ∀ d ∈ t.log, d.seen = d.entry.event

theorem WF.initFull (hr : Nat) (d : δ) : WF (Timer.initFull hr d : Timer δ ε) := by
  constructor <;> simp [Timer.initFull]

theorem WF.init (d : δ) : WF (Timer.init d : Timer δ ε) := WF.initFull _ d

theorem WF.tick {t : Timer δ ε} (h : WF t) (t' : Nat) : WF (t.tick t') := by
  obtain ⟨h1, h2, h3, h4, h5, h6, h7, h8, h9, h10, h11, h12, h13, h14, h15⟩ := h
  constructor <;> simp only [Timer.tick] <;> try assumption
  intro d hd
  have := h5 d hd
  omega

theorem WF.assign {t : Timer δ ε} (h : WF t) (f : δ → δ) : WF (t.assign f) := by
  unfold Timer.assign
  split
  · exact h
  · obtain ⟨h1, h2, h3, h4, h5, h6, h7, h8, h9, h10, h11, h12, h13, h14, h15⟩ := h
    constructor <;> assumption

/-- dropping every registered guard empties the heap: every pending entry has its guard registered -/
theorem terminate_pending {t : Timer δ ε} (h : WF t) : t.terminate.pending = [] := by
  simp only [Timer.terminate]
  rw [List.filter_eq_nil_iff]
  intro e he
  have hm := h.own e he
  have : t.delayed.any (fun p => decide (p.2 = e.seq)) = true :=
    List.any_eq_true.2 ⟨_, hm, by simp⟩
  simp [this]

theorem WF.terminate {t : Timer δ ε} (h : WF t) : WF t.terminate := by
  have hp := terminate_pending h
  obtain ⟨h1, h2, h3, h4, h5, h6, h7, h8, h9, h10, h11, h12, h13, h14, h15⟩ := h
  constructor
  · rw [hp]; exact List.Pairwise.nil
  · rw [hp]; exact List.Pairwise.nil
  · rw [hp]; intro e he; cases he
  · exact h4
  · exact h5
  · rw [hp]; intro d _ _ e he; cases he
  · exact h7
  · exact h8
  · rw [hp]; intro d _ e he; cases he
  · rw [hp]; intro e he; cases he
  · intro p hp'; cases hp'
  · intro p hp'; cases hp'
  · intro _; exact hp
  · intro _; rfl
  · exact h15

theorem WF.stop {t : Timer δ ε} (h : WF t) : WF t.stop := by
  unfold Timer.stop
  split
  · exact h
  · rename_i ha
    obtain ⟨h1, h2, h3, h4, h5, h6, h7, h8, h9, h10, h11, h12, h13, h14, h15⟩ := h
    constructor <;> simp only <;> first | assumption | simp
    simpa using ha

theorem WF.cancel {t : Timer δ ε} (h : WF t) (id : SendId) : WF (t.cancel id) := by
  unfold Timer.cancel
  split
  · exact h
  · obtain ⟨h1, h2, h3, h4, h5, h6, h7, h8, h9, h10, h11, h12, h13, h14, h15⟩ := h
    constructor <;> simp only
    · exact h1.filter _
    · exact h2.filter _
    · intro e he; exact h3 e (List.mem_filter.1 he).1
    · exact h4
    · exact h5
    · intro d hd hv e he; exact h6 d hd hv e (List.mem_filter.1 he).1
    · exact h7
    · exact h8
    · intro d hd e he; exact h9 d hd e (List.mem_filter.1 he).1
    · intro e he
      have he' := List.mem_filter.1 he
      have hown := h10 e he'.1
      have hng : hasGuard t.delayed (some id) e.seq = false := by simpa using he'.2
      have hne : e.sendid ≠ some id := by
        intro hc
        rw [hc] at hown
        exact (hasGuard_false_iff.1 hng) hown
      exact List.mem_filter.2 ⟨hown, by simpa using hne⟩
    · intro p hp; exact h11 p (List.mem_filter.1 hp).1
    · intro p hp e he; exact h12 p (List.mem_filter.1 hp).1 e (List.mem_filter.1 he).1
    · intro ha; simp [h13 ha]
    · exact h14
    · exact h15

/-- the closure of the head entry: it removes its own guard only -/
theorem WF.fireOne {t : Timer δ ε} (h : WF t) {e : Entry ε} {rest : List (Entry ε)}
    (hp : t.pending = e :: rest) (hdue : e.due ≤ t.now) : WF (fireOne t e rest) := by
  obtain ⟨h1, h2, h3, h4, h5, h6, h7, h8, h9, h10, h11, h12, h13, h14, h15⟩ := h
  rw [hp] at h1 h2 h3 h6 h9 h10 h12
  have s1 := List.pairwise_cons.1 h1
  have s2 := List.pairwise_cons.1 h2
  have hlog : ∀ d ∈ t.log ++ [(⟨t.now, true, e, e.event⟩ : Delivery ε)],
      d ∈ t.log ∨ d = ⟨t.now, true, e, e.event⟩ := by
    intro d hd; simpa using hd
  unfold Rfsm.Timer.fireOne
  constructor <;> simp only
  · exact s1.2
  · exact s2.2
  · intro x hx; exact h3 x (List.mem_cons_of_mem _ hx)
  · intro d hd
    rcases hlog d hd with hd | rfl
    · exact h4 d hd
    · exact h3 e (List.mem_cons_self ..)
  · intro d hd
    rcases hlog d hd with hd | rfl
    · exact h5 d hd
    · exact ⟨hdue, Nat.le_refl _⟩
  · intro d hd hv x hx
    rcases hlog d hd with hd | rfl
    · exact h6 d hd hv x (List.mem_cons_of_mem _ hx)
    · exact s1.1 x hx
  · refine List.pairwise_append.2 ⟨h7, by simp, ?_⟩
    intro a ha b hb hva _
    simp only [List.mem_singleton] at hb
    subst hb
    exact h6 a ha hva e (List.mem_cons_self ..)
  · refine List.pairwise_append.2 ⟨h8, by simp, ?_⟩
    intro a ha b hb
    simp only [List.mem_singleton] at hb
    subst hb
    exact h9 a ha e (List.mem_cons_self ..)
  · intro d hd x hx
    rcases hlog d hd with hd | rfl
    · exact h9 d hd x (List.mem_cons_of_mem _ hx)
    · exact s2.1 x hx
  · intro x hx
    refine List.mem_filter.2 ⟨h10 x (List.mem_cons_of_mem _ hx), ?_⟩
    have hne : x.seq ≠ e.seq := (s2.1 x hx).symm
    simp only [ne_eq, decide_not, Bool.not_eq_eq_eq_not, Bool.not_true, decide_eq_false_iff_not]
    intro hc
    exact hne (congrArg Prod.snd hc)
  · intro p hp'; exact h11 p (List.mem_filter.1 hp').1
  · intro p hp' x hx; exact h12 p (List.mem_filter.1 hp').1 x (List.mem_cons_of_mem _ hx)
  · intro ha; have := h13 ha; rw [hp] at this; cases this
  · exact h14
  · intro d hd
    rcases hlog d hd with hd | rfl
    · exact h15 d hd
    · rfl

theorem WF.fireLoop {t : Timer δ ε} (h : WF t) (f : Nat) : WF (fireLoop f t) := by
  induction f generalizing t with
  | zero => exact h
  | succ f ih =>
    unfold Rfsm.Timer.fireLoop
    split
    · exact h
    · rename_i e rest hp
      split
      · rename_i hdue; exact ih (h.fireOne hp hdue)
      · exact h

theorem WF.wake {t : Timer δ ε} (h : WF t) : WF t.wake := by
  unfold Timer.wake
  split
  · exact h
  · exact h.fireLoop _

theorem WF.send {t : Timer δ ε} (h : WF t) (id : Option SendId) (tg : Str) (delay : Int) (mk : δ → ε) :
    WF (t.send id tg delay mk) := by
  obtain ⟨h1, h2, h3, h4, h5, h6, h7, h8, h9, h10, h11, h12, h13, h14, h15⟩ := h
  unfold Timer.send
  split
  · constructor <;> assumption
  split
  · constructor <;> assumption
  split
  · constructor <;> assumption
  split
  · constructor <;> assumption
  rename_i halive hneg hint hhead
  simp only
  split
  · -- delay = 0: sent directly
    have hlog : ∀ d ∈ t.log ++ [(⟨t.now, false, ⟨t.now, t.nextSeq, id, tg, mk t.data⟩, mk t.data⟩ : Delivery ε)],
        d ∈ t.log ∨ d = ⟨t.now, false, ⟨t.now, t.nextSeq, id, tg, mk t.data⟩, mk t.data⟩ := by
      intro d hd; simpa using hd
    constructor <;> simp only
    · exact h1
    · exact h2
    · intro e he; have := h3 e he; omega
    · intro d hd
      rcases hlog d hd with hd | rfl
      · have := h4 d hd; omega
      · simp
    · intro d hd
      rcases hlog d hd with hd | rfl
      · exact h5 d hd
      · simp
    · intro d hd hv e he
      rcases hlog d hd with hd | rfl
      · exact h6 d hd hv e he
      · cases hv
    · refine List.pairwise_append.2 ⟨h7, by simp, ?_⟩
      intro a _ b hb _ hvb
      simp only [List.mem_singleton] at hb
      subst hb; cases hvb
    · refine List.pairwise_append.2 ⟨h8, by simp, ?_⟩
      intro a ha b hb
      simp only [List.mem_singleton] at hb
      subst hb
      have := h4 a ha
      simp only; omega
    · intro d hd e he
      rcases hlog d hd with hd | rfl
      · exact h9 d hd e he
      · have := h3 e he; simp only; omega
    · exact h10
    · intro p hp; have := h11 p hp; omega
    · exact h12
    · exact h13
    · exact h14
    · intro d hd
      rcases hlog d hd with hd | rfl
      · exact h15 d hd
      · rfl
  · -- 0 < delay: scheduled, its guard registered under its id
    rename_i hz
    have hpos : 0 < delay.toNat := by omega
    generalize hE : (⟨t.now + delay.toNat, t.nextSeq, id, tg, mk t.data⟩ : Entry ε) = e
    have eseq : e.seq = t.nextSeq := by rw [← hE]
    have edue : e.due = t.now + delay.toNat := by rw [← hE]
    have eid : e.sendid = id := by rw [← hE]
    have hlt : ∀ x ∈ t.pending, x.seq < e.seq := fun x hx => by rw [eseq]; exact h3 x hx
    constructor <;> simp only
    · exact insertEntry_sorted (e := e) h1 hlt
    · exact insertEntry_seqs (e := e) h2 hlt
    · intro x hx
      rcases mem_insertEntry.1 hx with rfl | hx
      · omega
      · have := h3 x hx; omega
    · intro d hd; have := h4 d hd; omega
    · exact h5
    · intro d hd hv x hx
      rcases mem_insertEntry.1 hx with rfl | hx
      · have := h5 d hd
        unfold Entry.lt; omega
      · exact h6 d hd hv x hx
    · exact h7
    · exact h8
    · intro d hd x hx
      rcases mem_insertEntry.1 hx with rfl | hx
      · have := h4 d hd; omega
      · exact h9 d hd x hx
    · intro x hx
      rcases mem_insertEntry.1 hx with rfl | hx
      · rw [eid, eseq]; exact List.mem_cons_self ..
      · exact List.mem_cons_of_mem _ (h10 x hx)
    · intro p hp
      rcases List.mem_cons.1 hp with rfl | hp
      · simp
      · have := h11 p hp; omega
    · intro p hp x hx hxs
      rcases List.mem_cons.1 hp with rfl | hp
      · simp only at hxs ⊢
        rcases mem_insertEntry.1 hx with rfl | hx
        · exact eid
        · have := h3 x hx; omega
      · rcases mem_insertEntry.1 hx with rfl | hx
        · have := h11 p hp; omega
        · exact h12 p hp x hx hxs
    · intro hs; exact absurd (h14 hs) halive
    · exact h14
    · exact h15

theorem WF.step {t : Timer δ ε} (h : WF t) (op : Op δ ε) : WF (t.step op) := by
  cases op with
  | send id tg d f => exact h.send id tg d f
  | cancel id => exact h.cancel id
  | assign f => exact h.assign f
  | tick t' => exact h.tick t'
  | wake => exact h.wake
  | terminate => exact h.terminate
  | stop => exact h.stop

theorem WF.run {t : Timer δ ε} (h : WF t) (ops : List (Op δ ε)) : WF (t.run ops) := by
  induction ops generalizing t with
  | nil => exact h
  | cons op ops ih => exact ih (h.step op)

/-! ### what the operations do to entries that exist already -/

theorem fireOne_pending (t : Timer δ ε) (x : Entry ε) (rest : List (Entry ε)) :
    (fireOne t x rest).pending = rest := rfl

theorem fireOne_log (t : Timer δ ε) (x : Entry ε) (rest : List (Entry ε)) :
    (fireOne t x rest).log = t.log ++ [⟨t.now, true, x, x.event⟩] := rfl

theorem fireOne_now (t : Timer δ ε) (x : Entry ε) (rest : List (Entry ε)) :
    (fireOne t x rest).now = t.now ∧ (fireOne t x rest).nextSeq = t.nextSeq ∧
    (fireOne t x rest).alive = t.alive ∧ (fireOne t x rest).data = t.data := ⟨rfl, rfl, rfl, rfl⟩

/-- delivered by the timer thread -/
def Delivered (t : Timer δ ε) (e : Entry ε) : Prop := ∃ d ∈ t.log, d.entry = e ∧ d.viaTimer = true

/-- nothing that exists is ever modified: a later state's deliveries and pending entries are the
earlier state's, or newer -/
structure Frame (t t' : Timer δ ε) : Prop where
  log : ∀ d ∈ t'.log, d ∈ t.log ∨ (d.entry ∈ t.pending ∧ d.viaTimer = true) ∨ t.nextSeq ≤ d.entry.seq
  pend : ∀ e ∈ t'.pending, e ∈ t.pending ∨ t.nextSeq ≤ e.seq
  next : t.nextSeq ≤ t'.nextSeq
  mono : ∀ d ∈ t.log, d ∈ t'.log
  now : t.now ≤ t'.now

theorem Frame.refl (t : Timer δ ε) : Frame t t :=
  ⟨fun _ hd => Or.inl hd, fun _ he => Or.inl he, Nat.le_refl _, fun _ hd => hd, Nat.le_refl _⟩

theorem Frame.trans {a b c : Timer δ ε} (h1 : Frame a b) (h2 : Frame b c) : Frame a c := by
  constructor
  · intro d hd
    rcases h2.log d hd with hd | ⟨hd, hv⟩ | hd
    · exact h1.log d hd
    · rcases h1.pend _ hd with hd | hd
      · exact Or.inr (Or.inl ⟨hd, hv⟩)
      · exact Or.inr (Or.inr hd)
    · exact Or.inr (Or.inr (Nat.le_trans h1.next hd))
  · intro e he
    rcases h2.pend e he with he | he
    · exact h1.pend e he
    · exact Or.inr (Nat.le_trans h1.next he)
  · exact Nat.le_trans h1.next h2.next
  · intro d hd; exact h2.mono d (h1.mono d hd)
  · exact Nat.le_trans h1.now h2.now

theorem Frame.fireOne (t : Timer δ ε) {x : Entry ε} {rest : List (Entry ε)}
    (hp : t.pending = x :: rest) : Frame t (fireOne t x rest) := by
  constructor
  · intro d hd
    rw [fireOne_log] at hd
    rcases List.mem_append.1 hd with hd | hd
    · exact Or.inl hd
    · simp only [List.mem_singleton] at hd
      subst hd
      exact Or.inr (Or.inl ⟨by rw [hp]; exact List.mem_cons_self .., rfl⟩)
  · intro y hy; rw [hp]; exact Or.inl (List.mem_cons_of_mem _ hy)
  · exact Nat.le_refl _
  · intro d hd; rw [fireOne_log]; exact List.mem_append_left _ hd
  · exact Nat.le_refl _

theorem Frame.fireLoop (t : Timer δ ε) (f : Nat) : Frame t (fireLoop f t) := by
  induction f generalizing t with
  | zero => exact Frame.refl t
  | succ f ih =>
    unfold Rfsm.Timer.fireLoop
    split
    · exact Frame.refl t
    · rename_i x rest hp
      split
      · exact (Frame.fireOne t hp).trans (ih _)
      · exact Frame.refl t

theorem Frame.step (t : Timer δ ε) (op : Op δ ε) : Frame t (t.step op) := by
  cases op with
  | assign f =>
    show Frame t (t.assign f)
    unfold Timer.assign
    split
    · exact Frame.refl t
    · exact ⟨fun _ hd => Or.inl hd, fun _ he => Or.inl he, Nat.le_refl _, fun _ hd => hd, Nat.le_refl _⟩
  | tick t' =>
    show Frame t (t.tick t')
    exact ⟨fun _ hd => Or.inl hd, fun _ he => Or.inl he, Nat.le_refl _, fun _ hd => hd, Nat.le_max_left _ _⟩
  | terminate =>
    show Frame t t.terminate
    exact ⟨fun _ hd => Or.inl hd, fun _ he => Or.inl (List.mem_filter.1 he).1, Nat.le_refl _, fun _ hd => hd, Nat.le_refl _⟩
  | stop =>
    show Frame t t.stop
    unfold Timer.stop
    split
    · exact Frame.refl t
    · exact ⟨fun _ hd => Or.inl hd, fun _ he => by simp at he, Nat.le_refl _, fun _ hd => hd, Nat.le_refl _⟩
  | wake =>
    show Frame t t.wake
    unfold Timer.wake
    split
    · exact Frame.refl t
    · exact Frame.fireLoop t _
  | cancel id =>
    show Frame t (t.cancel id)
    unfold Timer.cancel
    split
    · exact Frame.refl t
    · exact ⟨fun _ hd => Or.inl hd, fun e he => Or.inl (List.mem_filter.1 he).1, Nat.le_refl _, fun _ hd => hd, Nat.le_refl _⟩
  | send id tg d mk =>
    show Frame t (t.send id tg d mk)
    unfold Timer.send
    split
    · exact Frame.refl t
    split
    · exact ⟨fun _ hd => Or.inl hd, fun _ he => Or.inl he, Nat.le_refl _, fun _ hd => hd, Nat.le_refl _⟩
    split
    · exact ⟨fun _ hd => Or.inl hd, fun _ he => Or.inl he, Nat.le_refl _, fun _ hd => hd, Nat.le_refl _⟩
    split
    · exact ⟨fun _ hd => Or.inl hd, fun _ he => Or.inl he, Nat.le_refl _, fun _ hd => hd, Nat.le_refl _⟩
    simp only
    split
    · refine ⟨?_, fun _ he => Or.inl he, Nat.le_succ _, fun _ hd => List.mem_append_left _ hd, Nat.le_refl _⟩
      intro x hx
      rcases List.mem_append.1 hx with hx | hx
      · exact Or.inl hx
      · simp only [List.mem_singleton] at hx
        subst hx; exact Or.inr (Or.inr (Nat.le_refl _))
    · refine ⟨fun _ hd => Or.inl hd, ?_, Nat.le_succ _, fun _ hd => hd, Nat.le_refl _⟩
      intro x hx
      rcases mem_insertEntry.1 hx with rfl | hx
      · exact Or.inr (Nat.le_refl _)
      · exact Or.inl hx

theorem Frame.run (t : Timer δ ε) (ops : List (Op δ ε)) : Frame t (t.run ops) := by
  induction ops generalizing t with
  | nil => exact Frame.refl t
  | cons op ops ih => exact (Frame.step t op).trans (ih _)

/-- `op` neither cancels nor discards the pending entry `e`.  (A `<send>` is always safe: it adds a
guard and touches no other.) -/
def Safe (e : Entry ε) : Op δ ε → Prop
  | .cancel id => e.sendid ≠ some id
  | .terminate => False
  | .stop => False
  | _ => True

theorem fire_keeps {t : Timer δ ε} (h : WF t) {e : Entry ε} (he : e ∈ t.pending) (f : Nat) :
    e ∈ (fireLoop f t).pending ∨ Delivered (fireLoop f t) e := by
  induction f generalizing t with
  | zero => exact Or.inl he
  | succ f ih =>
    unfold Rfsm.Timer.fireLoop
    split
    · exact Or.inl he
    · rename_i x rest hp
      split
      · rename_i hdue
        have hw := h.fireOne hp hdue
        rw [hp] at he
        rcases List.mem_cons.1 he with rfl | he
        · right
          have hm := (Frame.fireLoop (fireOne t e rest) f).mono
          refine ⟨⟨t.now, true, e, e.event⟩, hm _ ?_, rfl, rfl⟩
          rw [fireOne_log]; simp
        · exact ih hw he
      · exact Or.inl he

theorem fire_due {t : Timer δ ε} (h : WF t) {e : Entry ε} (he : e ∈ t.pending) (hdue : e.due ≤ t.now)
    (f : Nat) (hf : t.pending.length ≤ f) : Delivered (fireLoop f t) e := by
  induction f generalizing t with
  | zero =>
    have : t.pending = [] := List.eq_nil_of_length_eq_zero (Nat.le_zero.1 hf)
    rw [this] at he; cases he
  | succ f ih =>
    unfold Rfsm.Timer.fireLoop
    split
    · rename_i hp; rw [hp] at he; cases he
    · rename_i x rest hp
      have hs := h.sorted
      rw [hp] at hs he hf
      have hxdue : x.due ≤ t.now := by
        rcases List.mem_cons.1 he with rfl | he'
        · exact hdue
        · have := (List.pairwise_cons.1 hs).1 e he'
          unfold Entry.lt at this; omega
      rw [if_pos hxdue]
      have hw := h.fireOne hp hxdue
      rcases List.mem_cons.1 he with rfl | he'
      · have hm := (Frame.fireLoop (fireOne t e rest) f).mono
        refine ⟨⟨t.now, true, e, e.event⟩, hm _ ?_, rfl, rfl⟩
        rw [fireOne_log]; simp
      · refine ih hw he' hdue ?_
        rw [fireOne_pending]; simp at hf; omega

theorem keep_step {t : Timer δ ε} (h : WF t) {e : Entry ε} (he : e ∈ t.pending) (op : Op δ ε)
    (hs : Safe e op) : e ∈ (t.step op).pending ∨ Delivered (t.step op) e := by
  have hns : ¬ t.stopped = true := by
    intro hst; have := h.dead hst; rw [this] at he; cases he
  cases op with
  | assign f =>
    left
    show e ∈ (t.assign f).pending
    unfold Timer.assign
    split <;> exact he
  | tick t' => exact Or.inl he
  | terminate => exact absurd hs (by simp [Safe])
  | stop => exact absurd hs (by simp [Safe])
  | wake =>
    show e ∈ t.wake.pending ∨ Delivered t.wake e
    unfold Timer.wake
    rw [if_neg hns]
    exact fire_keeps h he _
  | cancel id =>
    left
    show e ∈ (t.cancel id).pending
    unfold Timer.cancel
    split
    · exact he
    · refine List.mem_filter.2 ⟨he, ?_⟩
      have : hasGuard t.delayed (some id) e.seq = false := by
        rw [hasGuard_false_iff]
        intro hm
        exact hs (h.gid _ hm e he rfl)
      simp [this]
  | send id tg d mk =>
    left
    show e ∈ (t.send id tg d mk).pending
    unfold Timer.send
    split
    · exact he
    split
    · exact he
    split
    · exact he
    split
    · exact he
    simp only
    split
    · exact he
    · exact mem_insertEntry.2 (Or.inr he)

theorem keep_run {t : Timer δ ε} (h : WF t) {e : Entry ε} (he : e ∈ t.pending) (ops : List (Op δ ε))
    (hs : ∀ op ∈ ops, Safe e op) : e ∈ (t.run ops).pending ∨ Delivered (t.run ops) e := by
  induction ops generalizing t with
  | nil => exact Or.inl he
  | cons op ops ih =>
    rcases keep_step h he op (hs op (List.mem_cons_self ..)) with he' | ⟨d, hd, hde⟩
    · exact ih (h.step op) he' (fun o ho => hs o (List.mem_cons_of_mem _ ho))
    · right
      exact ⟨d, (Frame.run (t.step op) ops).mono d hd, hde⟩

/-- no `<cancel>` of the entry's id, no termination: every operation is safe for the entry -/
theorem Safe.of_no_cancel {e : Entry ε} {op : Op δ ε} (hc : ∀ id, op = .cancel id → e.sendid ≠ some id)
    (hterm : op ≠ .terminate ∧ op ≠ .stop) : Safe e op := by
  cases op with
  | send id tg d mk => trivial
  | cancel id => exact hc id rfl
  | terminate => exact absurd rfl hterm.1
  | stop => exact absurd rfl hterm.2
  | assign f => trivial
  | tick t' => trivial
  | wake => trivial

/-! ### helpers of the C16 theorems -/

theorem filter_seq_length_aux {l : List (Delivery ε)} (hn : l.Pairwise (fun a b => a.entry.seq ≠ b.entry.seq))
    {d : Delivery ε} (hd : d ∈ l) : (l.filter (fun x => x.entry.seq = d.entry.seq)).length = 1 := by
  induction l with
  | nil => cases hd
  | cons x xs ih =>
    have hx := List.pairwise_cons.1 hn
    rcases List.mem_cons.1 hd with rfl | hd
    · have : xs.filter (fun y => decide (y.entry.seq = d.entry.seq)) = [] := by
        rw [List.filter_eq_nil_iff]
        intro y hy
        have := hx.1 y hy
        simp; omega
      simp [this]
    · have hne : ¬ x.entry.seq = d.entry.seq := hx.1 d hd
      simp [hne, ih hx.2 hd]

/-- the general form of "exactly once": an entry that is still pending or already delivered when
its due time has passed is delivered exactly once after the next `wake` -/
theorem exactly_once_of_safe_aux (t : Timer δ ε) (hw0 : WF t) (e : Entry ε)
    (ops : List (Op δ ε)) (hs : e ∈ (t.run ops).pending ∨ Delivered (t.run ops) e)
    (hdue : e.due ≤ (t.run ops).now) :
    (((t.run ops).wake.log.filter (fun d => d.entry.seq = e.seq)).length = 1 ∧
     ∃ d ∈ (t.run ops).wake.log, d.entry = e ∧ d.viaTimer = true) := by
  have hw := hw0.run ops
  have hdel : Delivered (t.run ops).wake e := by
    rcases hs with hp | ⟨d, hd, hde⟩
    · have hns : ¬ (t.run ops).stopped = true := by
        intro hst; have := hw.dead hst; rw [this] at hp; cases hp
      unfold Timer.wake
      rw [if_neg hns]
      exact fire_due hw hp hdue _ (Nat.le_refl _)
    · exact ⟨d, (Frame.step (t.run ops) .wake).mono d hd, hde⟩
  obtain ⟨d, hd, hde, hv⟩ := hdel
  refine ⟨?_, d, hd, hde, hv⟩
  have := filter_seq_length_aux hw.wake.lnodup hd
  rw [hde] at this
  exact this

/-- in a list whose members have pairwise distinct `seq`, equal `seq` means equal member -/
theorem eq_of_seq_eq_aux (l : List (Entry ε)) (hl : l.Pairwise (fun a b => a.seq ≠ b.seq))
    {a b : Entry ε} (ha : a ∈ l) (hb : b ∈ l) (hs : a.seq = b.seq) : a = b := by
  induction l with
  | nil => cases ha
  | cons x xs ih =>
    have hx := List.pairwise_cons.1 hl
    rcases List.mem_cons.1 ha with r1 | r1 <;> rcases List.mem_cons.1 hb with r2 | r2
    · exact r1.trans r2.symm
    · exact absurd (r1 ▸ hs) (hx.1 b r2)
    · exact absurd (r2 ▸ hs.symm) (hx.1 a r1)
    · exact ih hx.2 r1 r2

/-- a session whose thread has ended and whose heap holds nothing delivers nothing any more -/
theorem dead_run_aux (t : Timer δ ε) (ha : t.alive = false) (hp : t.pending = [])
    (ops : List (Op δ ε)) : (t.run ops).log = t.log ∧ (t.run ops).pending = [] := by
  induction ops generalizing t with
  | nil => exact ⟨rfl, hp⟩
  | cons op ops ih =>
    have hstep : (t.step op).alive = false ∧ (t.step op).pending = [] ∧ (t.step op).log = t.log := by
      cases op with
      | send id tg d mk => simp [Timer.step, Timer.send, ha, hp]
      | cancel id => simp [Timer.step, Timer.cancel, ha, hp]
      | assign f => simp [Timer.step, Timer.assign, ha, hp]
      | tick t' => exact ⟨ha, hp, rfl⟩
      | wake =>
        show t.wake.alive = false ∧ t.wake.pending = [] ∧ t.wake.log = t.log
        unfold Timer.wake
        split
        · exact ⟨ha, hp, rfl⟩
        · rw [hp]; exact ⟨ha, hp, rfl⟩
      | terminate => simp [Timer.step, Timer.terminate, hp]
      | stop => simp [Timer.step, Timer.stop, ha]
    have := ih (t.step op) hstep.1 hstep.2.1
    exact ⟨this.1.trans hstep.2.2, this.2⟩

end Rfsm.Timer
