import Rfsm.Proofs.ReaderContent
import Rfsm.Model.ReaderSpec
/-!
C04 (b), the leaves: `<raise>`, `<cancel>`, `<log expr>`, `<script>`, `<assign>` are read as exactly
one entry that decompiles to the normal form of the element (`LeafOK`), from every reader state
that is inside an executable-content region.  Includes `trim (trim s) = trim s` (the code trims
script text twice) and `trim` of a quoted string.
-/
namespace Rfsm.Reader
open Rfsm.Descriptor (Str)

theorem notScxml {t : Tag} (h : t ∈ contentParentsNoFinalize) : t ≠ .scxml := by
  simp only [contentParentsNoFinalize, List.mem_cons, List.not_mem_nil, or_false] at h
  rcases h with h | h | h | h | h <;> simp [h]

theorem leaf_raise (e : Str) : LeafOK (.raise e) := by
  intro σ es hR
  have hl : localName t_raise = t_raise := by decide
  have ht : tagOf t_raise = .raise := by decide
  refine ⟨.raise e, σ.nextSrc, ?_, by simp [dLeaf, normC], by simp [dEntry]⟩
  simp [saxC, run, step, hR.raw, hl, ht, isRawTag, startElement, startRaise, verifyParent, RS.parentTag, RS.push,
    required, getAttr, addExec, hR.cur0, hR.reg, bind, Except.bind, endElement, RS.pop, RS.upd, hR.tag]

theorem leaf_cancel_id (v : Str) : LeafOK (.cancel (some v) none) := by
  intro σ es hR
  have hl : localName t_cancel = t_cancel := by decide
  have ht : tagOf t_cancel = .cancel := by decide
  have hk : ¬ a_sendid = a_sendidexpr := by decide
  refine ⟨.cancel v .none, σ.nextSrc, ?_, by simp [dLeaf, normC, dData], by simp [dEntry]⟩
  simp [saxC, optA, run, step, hR.raw, hl, ht, isRawTag, startElement, startCancel, verifyParent, RS.parentTag, RS.push,
    getAttr, hk, addExec, hR.cur0, hR.reg, bind, Except.bind, endElement, RS.pop, RS.upd, hR.tag]

theorem leaf_cancel_expr (v : Str) : LeafOK (.cancel none (some v)) := by
  intro σ es hR
  have hl : localName t_cancel = t_cancel := by decide
  have ht : tagOf t_cancel = .cancel := by decide
  have hk : ¬ a_sendidexpr = a_sendid := by decide
  refine ⟨.cancel [] (.source v σ.nextSrc), σ.nextSrc + 1, ?_, by simp [dLeaf, normC, dData], by simp [dEntry]⟩
  simp [saxC, optA, run, step, hR.raw, hl, ht, isRawTag, startElement, startCancel, verifyParent, RS.parentTag, RS.push,
    getAttr, hk, addExec, hR.cur0, hR.reg, bind, Except.bind, endElement, RS.pop, RS.upd, hR.tag, createSource]

theorem getAttr_label (l e : Str) :
    (getAttr (strA a_label l ++ optA a_expr (some e)) a_label).getD [] = l ∧
    getAttr (strA a_label l ++ optA a_expr (some e)) a_expr = some e := by
  have h1 : ¬ a_expr = a_label := by decide
  have h2 : ¬ a_label = a_expr := by decide
  by_cases hx : l = []
  · simp [strA, optA, getAttr, h1, hx]
  · have : l.isEmpty = false := by cases l <;> simp_all
    simp [strA, optA, getAttr, h1, h2, this]

theorem leaf_log_aux (σ : RS) (attrs : Attrs) (l e : Str) (es : List Exec) (hR : Ready σ es)
    (h1 : (getAttr attrs a_label).getD [] = l) (h2 : getAttr attrs a_expr = some e) :
    run [.empty t_log attrs] σ =
      .ok (σ.upd (rset σ.fsm.regions σ.curEc (es ++ [.log l (.source e σ.nextSrc)])) σ.nextId (σ.nextSrc + 1)) := by
  have hl : localName t_log = t_log := by decide
  have ht : tagOf t_log = .log := by decide
  have hmem : σ.cur.tag ∈ [Tag.transition, .onexit, .onentry, .if_, .foreach, .finalize] := by
    have := hR.tag
    simp only [contentParentsNoFinalize, List.mem_cons, List.not_mem_nil, or_false] at *
    rcases this with h | h | h | h | h <;> simp [h]
  simp [run, step, hR.raw, hl, ht, isRawTag, startElement, startLog, verifyParent, RS.parentTag, RS.push,
    h1, h2, addExec, hR.cur0, hR.reg, bind, Except.bind, endElement, RS.pop, RS.upd, hmem, createSource]

theorem leaf_log (l e : Str) : LeafOK (.log l (some e)) := by
  intro σ es hR
  obtain ⟨h1, h2⟩ := getAttr_label l e
  refine ⟨.log l (.source e σ.nextSrc), σ.nextSrc + 1, ?_, by simp [dLeaf, normC, dData], by simp [dEntry]⟩
  simpa [saxC] using leaf_log_aux σ _ l e es hR h1 h2

theorem dropWhile_head_false {α} (p : α → Bool) (x : α) (xs : List α) (h : p x = false) :
    (x :: xs).dropWhile p = x :: xs := by simp [List.dropWhile, h]

/-- a string that begins and ends with a non-space byte is its own `trim` -/
theorem trim_fixed (a b : Nat) (m : Str) (ha : isWs a = false) (hb : isWs b = false) :
    trim (a :: (m ++ [b])) = a :: (m ++ [b]) := by
  simp [trim, List.dropWhile, ha, hb]

theorem trim_nil : trim [] = [] := by simp [trim]

theorem dropWhile_idem {α} (p : α → Bool) (l : List α) : (l.dropWhile p).dropWhile p = l.dropWhile p := by
  induction l with
  | nil => simp
  | cons x xs ih =>
    by_cases h : p x
    · simp [List.dropWhile, h, ih]
    · simp [List.dropWhile, h]

/-- dropping from a list whose first element fails `p` does nothing -/
theorem dropWhile_eq_self_of_head {α} (p : α → Bool) (l : List α) (h : ∀ x, l.head? = some x → p x = false) :
    l.dropWhile p = l := by
  cases l with
  | nil => rfl
  | cons x xs => simp [List.dropWhile, h x rfl]

theorem head_dropWhile {α} (p : α → Bool) (l : List α) : ∀ x, (l.dropWhile p).head? = some x → p x = false := by
  induction l with
  | nil => simp
  | cons y ys ih =>
    intro x
    by_cases h : p y
    · simp [List.dropWhile, h]; exact ih x
    · simp [List.dropWhile, h]; intro e; subst e; simpa using h

/-- the last element of a suffix produced by `dropWhile` is the last element of the list -/
theorem getLast_dropWhile {α} (p : α → Bool) (l : List α) :
    ∀ x, (l.dropWhile p).getLast? = some x → l.getLast? = some x := by
  induction l with
  | nil => simp
  | cons y ys ih =>
    intro x
    by_cases h : p y
    · simp only [List.dropWhile, h]
      intro hx
      have := ih x hx
      cases ys with
      | nil => simp at this
      | cons z zs => simpa [List.getLast?_cons_cons] using this
    · simp [List.dropWhile, h]

theorem trim_idem_aux (s u v : Str) (hu : u = s.dropWhile isWs) (hv : v = u.reverse.dropWhile isWs) :
    (v.reverse.dropWhile isWs).reverse.dropWhile isWs = v := by
  have h1 : v.reverse.dropWhile isWs = v.reverse := by
    apply dropWhile_eq_self_of_head
    intro x hx
    have hx' : v.getLast? = some x := by simpa [List.head?_reverse] using hx
    have := getLast_dropWhile isWs u.reverse x (by rw [← hv]; exact hx')
    have : u.head? = some x := by simpa [List.getLast?_reverse] using this
    exact head_dropWhile isWs s x (by rw [← hu]; exact this)
  rw [h1, List.reverse_reverse, hv, dropWhile_idem]

theorem trim_idem (s : Str) : trim (trim s) = trim s := by
  unfold trim
  rw [trim_idem_aux s _ _ rfl rfl]


theorem script_parent {t : Tag} (h : t ∈ contentParentsNoFinalize) :
    t ≠ .scxml ∧ t ∈ [Tag.scxml, .transition, .onexit, .onentry, .if_, .foreach, .finalize] := by
  simp only [contentParentsNoFinalize, List.mem_cons, List.not_mem_nil, or_false] at h
  rcases h with h | h | h | h | h <;> simp [h]

/-! ### child text: `resolve_character_data` on text without markup, and on escaped text -/

/-- text without `&` and `<` (no references, no markup) -/
def plainText (t : Str) : Bool := t.all fun c => c != 38 && c != 60

theorem resolveAux_plain (t : Str) (h : plainText t = true) :
    ∀ f d, t.length < f → resolveAux f d t = some t := by
  induction t with
  | nil =>
    intro f d hf
    cases f with
    | zero => simp at hf
    | succ f => simp [resolveAux]
  | cons c cs ih =>
    intro f d hf
    cases f with
    | zero => simp at hf
    | succ f =>
      simp only [plainText, List.all_cons, Bool.and_eq_true, bne_iff_ne, ne_eq] at h
      have hcs : plainText cs = true := by simpa [plainText] using h.2
      have := ih hcs f d (by simpa using hf)
      simp [resolveAux, h.1.1, h.1.2, this]

/-- text without references and markup is its own character data -/
theorem resolve_plain (t : Str) (h : plainText t = true) : resolveCharData t = some t :=
  resolveAux_plain t h _ 0 (by omega)

theorem resolveAux_escape (t : Str) : ∀ f, (xmlEscape t).length < f → resolveAux f 0 (xmlEscape t) = some t := by
  induction t with
  | nil =>
    intro f hf
    cases f with
    | zero => simp at hf
    | succ f => simp [xmlEscape, resolveAux]
  | cons c cs ih =>
    intro f hf
    cases f with
    | zero => simp at hf
    | succ f =>
      by_cases h38 : c = 38
      · subst h38
        simp only [xmlEscape, if_true, List.cons_append, List.nil_append, List.length_cons] at hf ⊢
        have := ih f (by omega)
        simp [resolveAux, splitAtPat, List.isPrefixOf, decodeRef, this]
      · by_cases h60 : c = 60
        · subst h60
          simp only [xmlEscape, List.cons_append, List.nil_append, List.length_cons] at hf ⊢
          have := ih f (by simp at hf; omega)
          simp [resolveAux, splitAtPat, List.isPrefixOf, decodeRef, this]
        · simp only [xmlEscape, h38, h60, if_false, List.length_cons] at hf ⊢
          have := ih f (by omega)
          simp [resolveAux, h38, h60, this]

/-- **escape / resolve round trip**: child text written with `&amp;` / `&lt;` is read back as the
logical text, for every text -/
theorem resolve_escape (t : Str) : resolveCharData (xmlEscape t) = some t :=
  resolveAux_escape t _ (by omega)

theorem resolve_nil : resolveCharData [] = some [] := by simp [resolveCharData, resolveAux]

theorem leaf_script (t : Str) (hpl : plainText t = true) : LeafOK (.script t) := by
  intro σ es hR
  have hl : localName t_script = t_script := by decide
  have ht : tagOf t_script = .script := by decide
  have hres := resolve_plain t hpl
  obtain ⟨hp1, hp2⟩ := script_parent hR.tag
  by_cases he : t = []
  · subst he
    refine ⟨.expression (.source [] 0), σ.nextSrc, ?_, by simp [dLeaf, normC, dData, trim_nil], by simp [dEntry]⟩
    simp [saxC, rawSax, run, step, hR.raw, hl, ht, isRawTag, rawElement, rawPre, startScript, verifyParent, RS.parentTag,
      RS.push, getAttr, addExec, hR.cur0, hR.reg, bind, Except.bind, endElement, RS.pop, RS.upd, hp1, hp2, trim_nil]
  · have hne : t.isEmpty = false := by cases t <;> simp_all
    by_cases htr : trim t = []
    · refine ⟨.expression (.source [] 0), σ.nextSrc, ?_, by simp [dLeaf, normC, dData, htr], by simp [dEntry]⟩
      simp [saxC, rawSax, hne, run, step, hR.raw, hl, ht, hres, isRawTag, rawElement, rawPre, startScript, verifyParent,
        RS.parentTag, RS.push, getAttr, addExec, hR.cur0, hR.reg, bind, Except.bind, RS.pop, RS.upd, hp1, hp2,
        trim_idem, htr, trim_nil]
    · have hne2 : (trim t).isEmpty = false := by cases h : trim t <;> simp_all
      refine ⟨.expression (.source (trim t) σ.nextSrc), σ.nextSrc + 1, ?_, by simp [dLeaf, normC, dData], by simp [dEntry]⟩
      simp [saxC, rawSax, hne, run, step, hR.raw, hl, ht, hres, isRawTag, rawElement, rawPre, startScript, verifyParent,
        RS.parentTag, RS.push, getAttr, addExec, hR.cur0, hR.reg, bind, Except.bind, RS.pop, RS.upd, hp1, hp2,
        trim_idem, hne2, createSource]


theorem assign_parent {t : Tag} (h : t ∈ contentParentsNoFinalize) :
    t ∈ [Tag.transition, .onexit, .onentry, .if_, .foreach, .finalize] := by
  simp only [contentParentsNoFinalize, List.mem_cons, List.not_mem_nil, or_false] at h
  rcases h with h | h | h | h | h <;> simp [h]

theorem leaf_assign_expr (l : Str) (e : Option Str) : LeafOK (.assign l e none) := by
  intro σ es hR
  have hl : localName t_assign = t_assign := by decide
  have ht : tagOf t_assign = .assign := by decide
  have hk : ¬ a_location = a_expr := by decide
  have hp := assign_parent hR.tag
  cases e with
  | none =>
    refine ⟨.assign (.source l σ.nextSrc) .none, σ.nextSrc + 1, ?_, by simp [dLeaf, normC, dData, assignValue, normText],
      by simp [dEntry]⟩
    simp [saxC, rawSax, optA, run, step, hR.raw, hl, ht, isRawTag, rawElement, rawPre, startAssign, verifyParent,
      RS.parentTag, RS.push, required, getAttr, hk, addExec, hR.cur0, hR.reg, bind, Except.bind, endElement, RS.pop,
      RS.upd, hp, createSource]
  | some e =>
    refine ⟨.assign (.source l σ.nextSrc) (.source e (σ.nextSrc + 1)), σ.nextSrc + 2, ?_,
      by simp [dLeaf, normC, dData, assignValue, normText], by simp [dEntry]⟩
    simp [saxC, rawSax, optA, run, step, hR.raw, hl, ht, isRawTag, rawElement, rawPre, startAssign, verifyParent,
      RS.parentTag, RS.push, required, getAttr, hk, addExec, hR.cur0, hR.reg, bind, Except.bind, endElement, RS.pop,
      RS.upd, hp, createSource]

theorem quoted_trim (x : Str) : trim ([34] ++ x ++ [34]) = [34] ++ x ++ [34] := by
  have := trim_fixed 34 34 x (by decide) (by decide)
  simpa using this

theorem leaf_assign_text (l t : Str) (hpl : plainText t = true) : LeafOK (.assign l none (some t)) := by
  intro σ es hR
  have hl : localName t_assign = t_assign := by decide
  have ht : tagOf t_assign = .assign := by decide
  have hp := assign_parent hR.tag
  have hq := trim_fixed 34 34 (assignEscape (trim t)) (by decide) (by decide)
  have hk : ¬ a_location = a_expr := by decide
  have hres := resolve_plain t hpl
  by_cases htr : trim t = []
  · -- `<assign location="l"> </assign>`: no child text, read like `<assign location="l"/>`
    refine ⟨.assign (.source l σ.nextSrc) .none, σ.nextSrc + 1, ?_,
      by simp [dLeaf, normC, dData, assignValue, normText, htr], by simp [dEntry]⟩
    by_cases he : t = []
    · subst he
      simp [saxC, rawSax, optA, run, step, hR.raw, hl, ht, resolve_nil, isRawTag, rawElement, rawPre, startAssign,
        verifyParent, RS.parentTag, RS.push, required, getAttr, hk, addExec, hR.cur0, hR.reg, bind, Except.bind, RS.pop,
        RS.upd, hp, createSource, trim_nil, Data.isEmpty]
    · have hne' : t.isEmpty = false := by cases t <;> simp_all
      simp [saxC, rawSax, optA, hne', run, step, hR.raw, hl, ht, hres, isRawTag, rawElement, rawPre, startAssign,
        verifyParent, RS.parentTag, RS.push, required, getAttr, hk, addExec, hR.cur0, hR.reg, bind, Except.bind, RS.pop,
        RS.upd, hp, createSource, htr, Data.isEmpty]
  · have hne2 : (trim t).isEmpty = false := by cases h : trim t <;> simp_all
    have hne' : t.isEmpty = false := by
      cases t with
      | nil => simp [trim_nil] at htr
      | cons _ _ => rfl
    refine ⟨.assign (.source l σ.nextSrc) (.source ([34] ++ assignEscape (trim t) ++ [34]) (σ.nextSrc + 1)),
      σ.nextSrc + 2, ?_, by simp [dLeaf, normC, dData, assignValue, normText, hne2], by simp [dEntry]⟩
    simp [saxC, rawSax, optA, hne', run, step, hR.raw, hl, ht, hres, isRawTag, rawElement, rawPre, startAssign,
      verifyParent, RS.parentTag, RS.push, required, getAttr, hk, addExec, hR.cur0, hR.reg, bind, Except.bind, RS.pop,
      RS.upd, hp, createSource, hq, hne2, Data.isEmpty]

end Rfsm.Reader
