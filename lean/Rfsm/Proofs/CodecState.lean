import Rfsm.Proofs.CodecStruct
/-! Round trips of `Invoke`, `Transition` (flag byte) and `State` (flag word). -/
namespace Rfsm.Codec


theorem Reads.ite_pos {α} {c : Prop} [Decidable c] {p q : Prog α} {b : List Nat} {x : α} (hc : c)
    (h : Reads p b x) : Reads (if c then p else q) b x := by
  rw [if_pos hc]; exact h

theorem Reads.ite_neg {α} {c : Prop} [Decidable c] {p q : Prog α} {b : List Nat} {x : α} (hc : ¬ c)
    (h : Reads q b x) : Reads (if c then p else q) b x := by
  rw [if_neg hc]; exact h

def wfInvoke (L : Lim) (i : Invoke) : Bool :=
  wfStr L i.invokeId &&
  (if i.invokeId.isEmpty then wfStr L i.parentStateName else i.parentStateName.isEmpty) &&
  wfId i.docId && wfD L i.srcExpr && wfD L i.src && wfD L i.typeExpr && wfD L i.typeName &&
  wfStr L i.externalIdLocation && wfId i.finalize && wfOptCommon L i.content && wfParams L i.params &&
  wfStrs L i.nameList

theorem Reads.invoke {i : Invoke} (h : wfInvoke typeLim i = true) :
    Reads readInvoke (bytesOf (opsInvoke i)) i := by
  obtain ⟨invokeId, parentStateName, docId, srcExpr, src, typeExpr, typeName, externalIdLocation,
    autoforward, finalize, content, params, nameList⟩ := i
  simp only [wfInvoke, Bool.and_eq_true] at h
  obtain ⟨⟨⟨⟨⟨⟨⟨⟨⟨⟨⟨h1, h2⟩, h3⟩, h4⟩, h5⟩, h6⟩, h7⟩, h8⟩, h9⟩, h10⟩, h11⟩, h12⟩ := h
  unfold opsInvoke readInvoke
  by_cases he : invokeId.isEmpty = true
  · simp only [he, if_true] at h2 ⊢
    norm_bytes
    exact Reads.bind (Reads.wstr h1) <| Reads.bind (Reads.ite_pos he (Reads.wstr h2)) <| Reads.bind (Reads.wid h3) <|
      Reads.bind (Reads.wdata h4) <| Reads.bind (Reads.wdata h5) <| Reads.bind (Reads.wdata h6) <|
      Reads.bind (Reads.wdata h7) <| Reads.bind (Reads.wstr h8) <| Reads.bind (Reads.bool _) <|
      Reads.bind (Reads.wid h9) <| Reads.bind (Reads.optCommon h10) <| Reads.bind (Reads.params h11) <|
      Reads.bind_pure (Reads.strs h12) rfl
  · simp only [he] at h2 ⊢
    have hp : parentStateName = [] := by simpa using h2
    subst hp
    norm_bytes
    exact Reads.bind (Reads.wstr h1) <| Reads.bind (b1 := []) (Reads.ite_neg he (Reads.pure [])) <| Reads.bind (Reads.wid h3) <|
      Reads.bind (Reads.wdata h4) <| Reads.bind (Reads.wdata h5) <| Reads.bind (Reads.wdata h6) <|
      Reads.bind (Reads.wdata h7) <| Reads.bind (Reads.wstr h8) <| Reads.bind (Reads.bool _) <|
      Reads.bind (Reads.wid h9) <| Reads.bind (Reads.optCommon h10) <| Reads.bind (Reads.params h11) <|
      Reads.bind_pure (Reads.strs h12) rfl

def Data.isNull : Data → Bool
  | .null => true
  | _ => false

/-- a condition is stored only when it is not empty (`Data::is_empty`); an absent one is read as `Null` -/
def wfTransition (L : Lim) (t : Transition) : Bool :=
  wfId t.id && wfId t.docId && wfId t.source && wfIds L t.target && wfStrs L t.events &&
  (if t.cond.isEmpty then t.cond.isNull else wfD L t.cond) && wfId t.content

def tflags (o : TransitionType) (w c k : Bool) : Nat := o.ordinal + b2n w 2 + b2n c 4 + b2n k 8

theorem tflags_lt (o w c k) : tflags o w c k < 256 := by
  cases o <;> cases w <;> cases c <;> cases k <;> decide
theorem tflags_type (o w c k) :
    (if tflags o w c k % 2 = 0 then TransitionType.internal else TransitionType.external) = o := by
  cases o <;> cases w <;> cases c <;> cases k <;> decide
theorem tflags_wild (o w c k) : decide (tflags o w c k / 2 % 2 = 1) = w := by
  cases o <;> cases w <;> cases c <;> cases k <;> decide
theorem tflags_cond (o w c k) : (tflags o w c k / 4 % 2 = 1) ↔ c = true := by
  cases o <;> cases w <;> cases c <;> cases k <;> decide
theorem tflags_content (o w c k) : (tflags o w c k / 8 % 2 = 1) ↔ k = true := by
  cases o <;> cases w <;> cases c <;> cases k <;> decide

theorem Reads.transition {t : Transition} (h : wfTransition typeLim t = true) :
    Reads readTransition (bytesOf (opsTransition t)) t := by
  obtain ⟨id, docId, source, target, events, ttype, wildcard, cond, content⟩ := t
  simp only [wfTransition, Bool.and_eq_true] at h
  obtain ⟨⟨⟨⟨⟨⟨h1, h2⟩, h3⟩, h4⟩, h5⟩, h6⟩, h7⟩ := h
  unfold opsTransition readTransition
  have hfe : transitionFlags ⟨id, docId, source, target, events, ttype, wildcard, cond, content⟩ =
      tflags ttype wildcard (!cond.isEmpty) (content != 0) := rfl
  simp only [hfe]
  generalize hF : tflags ttype wildcard (!cond.isEmpty) (content != 0) = F
  -- the two conditional fields
  have hcond : Reads (if F / 4 % 2 = 1 then readData else Pure.pure Data.null)
      (bytesOf (if (!cond.isEmpty) = true then opsData cond else [])) cond := by
    by_cases hc : cond.isEmpty = true
    · simp only [hc, if_true] at h6
      have : ¬ (F / 4 % 2 = 1) := by rw [← hF, tflags_cond]; simp [hc]
      simp only [hc, Bool.not_true, if_false, this]
      cases cond <;> simp [Data.isNull] at h6
      exact Reads.pure _
    · have hc' : cond.isEmpty = false := by simpa using hc
      simp only [hc'] at h6
      have : F / 4 % 2 = 1 := by rw [← hF, tflags_cond]; simp [hc']
      simp only [hc', Bool.not_false, if_true, this]
      exact Reads.wdata (by simpa using h6)
  have hcont : Reads (if F / 8 % 2 = 1 then pId else Pure.pure 0)
      (bytesOf (if (content != 0) = true then [uintOp content] else [])) content := by
    by_cases hk : content = 0
    · subst hk
      have : ¬ (F / 8 % 2 = 1) := by rw [← hF, tflags_content]; simp
      simp only [this, if_false]
      exact Reads.pure _
    · have hk' : (content != 0) = true := by simpa using hk
      have : F / 8 % 2 = 1 := by rw [← hF, tflags_content]; exact hk'
      simp only [hk', this, if_true]
      norm_bytes
      exact Reads.wid h7
  norm_bytes
  refine Reads.bind (Reads.wid h1) <| Reads.bind (Reads.wid h2) <| Reads.bind (Reads.wid h3) <|
    Reads.bind (Reads.ids h4) <| Reads.bind (Reads.strs h5) <|
    Reads.bind (Reads.u8 F (by rw [← hF]; exact tflags_lt _ _ _ _)) <| Reads.bind hcond <|
    Reads.bind_pure hcont ?_
  subst hF
  simp only [tflags_type, tflags_wild]



def sflags (h : HistoryType) (en ex st fi pa dd iv da hi : Bool) : Nat :=
  h.ordinal + b2n en 0x04 + b2n ex 0x08 + b2n st 0x10 + b2n fi 0x20 + b2n pa 0x40 +
  b2n dd 0x80 + b2n iv 0x100 + b2n da 0x200 + b2n hi 0x400

theorem b2n_val (b : Bool) (bit : Nat) : ∃ x, x ≤ 1 ∧ b2n b bit = bit * x ∧ (x = 1 ↔ b = true) := by
  cases b
  · exact ⟨0, by simp [b2n]⟩
  · exact ⟨1, by simp [b2n]⟩

theorem sflags_facts (h : HistoryType) (en ex st fi pa dd iv da hi : Bool) :
    let F := sflags h en ex st fi pa dd iv da hi
    F < 65536 ∧ HistoryType.fromOrdinal (F % 4) = h ∧
    (F / 0x04 % 2 = 1 ↔ en = true) ∧ (F / 0x08 % 2 = 1 ↔ ex = true) ∧ (F / 0x10 % 2 = 1 ↔ st = true) ∧
    (F / 0x20 % 2 = 1 ↔ fi = true) ∧ (F / 0x40 % 2 = 1 ↔ pa = true) ∧ (F / 0x80 % 2 = 1 ↔ dd = true) ∧
    (F / 0x100 % 2 = 1 ↔ iv = true) ∧ (F / 0x200 % 2 = 1 ↔ da = true) ∧ (F / 0x400 % 2 = 1 ↔ hi = true) := by
  intro F
  obtain ⟨x1, l1, e1, i1⟩ := b2n_val en 0x04
  obtain ⟨x2, l2, e2, i2⟩ := b2n_val ex 0x08
  obtain ⟨x3, l3, e3, i3⟩ := b2n_val st 0x10
  obtain ⟨x4, l4, e4, i4⟩ := b2n_val fi 0x20
  obtain ⟨x5, l5, e5, i5⟩ := b2n_val pa 0x40
  obtain ⟨x6, l6, e6, i6⟩ := b2n_val dd 0x80
  obtain ⟨x7, l7, e7, i7⟩ := b2n_val iv 0x100
  obtain ⟨x8, l8, e8, i8⟩ := b2n_val da 0x200
  obtain ⟨x9, l9, e9, i9⟩ := b2n_val hi 0x400
  have hF : F = h.ordinal + 4 * x1 + 8 * x2 + 16 * x3 + 32 * x4 + 64 * x5 + 128 * x6 + 256 * x7 + 512 * x8 + 1024 * x9 := by
    show sflags h en ex st fi pa dd iv da hi = _
    simp only [sflags, e1, e2, e3, e4, e5, e6, e7, e8, e9]
  have ho : h.ordinal ≤ 2 := by cases h <;> simp [HistoryType.ordinal]
  have hm : F % 4 = h.ordinal := by omega
  refine ⟨by omega, ?_, ?_, ?_, ?_, ?_, ?_, ?_, ?_, ?_, ?_⟩
  · rw [hm]; cases h <;> rfl
  · rw [← i1]; omega
  · rw [← i2]; omega
  · rw [← i3]; omega
  · rw [← i4]; omega
  · rw [← i5]; omega
  · rw [← i6]; omega
  · rw [← i7]; omega
  · rw [← i8]; omega
  · rw [← i9]; omega


theorem decide_eq_of_iff {p : Prop} [Decidable p] {b : Bool} (h : p ↔ b = true) : decide p = b := by
  cases b <;> simp_all

/-- an optional list: written only when non-empty, read only when its flag bit is set -/
theorem Reads.guarded {α} {p : Prog (List α)} {c : Prop} [Decidable c] {l : List α} {ops : List Op}
    (hc : c ↔ (!l.isEmpty) = true) (h : Reads p (bytesOf ops) l) :
    Reads (if c then p else Pure.pure []) (bytesOf (if (!l.isEmpty) = true then ops else [])) l := by
  cases l with
  | nil =>
    have : ¬ c := by rw [hc]; simp
    simp only [this, if_false, List.isEmpty_nil, Bool.not_true]
    exact Reads.pure []
  | cons a r =>
    have : c := by rw [hc]; simp
    simp only [this, if_true, List.isEmpty_cons, Bool.not_false]
    exact h

def wfOptDoneData (L : Lim) : Option DoneData → Bool
  | none => true
  | some d => wfDoneData L d

theorem Reads.optDoneData {o : Option DoneData} {c : Prop} [Decidable c] (hc : c ↔ o.isSome = true)
    (h : wfOptDoneData typeLim o = true) :
    Reads (if c then (do let d ← readDoneData; Pure.pure (some d)) else Pure.pure none)
      (bytesOf (opsOptDoneData o)) o := by
  cases o with
  | none =>
    have : ¬ c := by rw [hc]; simp
    simp only [this, if_false, opsOptDoneData]
    exact Reads.pure _
  | some d =>
    have : c := by rw [hc]; simp
    simp only [this, if_true, opsOptDoneData]
    exact Reads.bind_pure (Reads.doneData h) rfl

def wfState (L : Lim) (s : State) : Bool :=
  wfId s.id && wfId s.docId && wfStr L s.name &&
  (if s.states.isEmpty then s.initial == 0 else wfId s.initial) && wfIds L s.states &&
  wfIds L s.onentry && wfIds L s.onexit && wfIds L s.transitions &&
  wfU L s.invoke.length && s.invoke.all (wfInvoke L) && wfIds L s.history && wfDataPairs L s.data &&
  wfId s.parent && wfOptDoneData L s.donedata

theorem Reads.state {s : State} (h : wfState typeLim s = true) :
    Reads readState (bytesOf (opsState s)) s := by
  obtain ⟨id, docId, name, historyType, isParallel, isFinal, initial, states, onentry, onexit,
    transitions, invoke, history, data, parent, donedata⟩ := s
  simp only [wfState, Bool.and_eq_true, List.all_eq_true] at h
  obtain ⟨⟨⟨⟨⟨⟨⟨⟨⟨⟨⟨⟨⟨h1, h2⟩, h3⟩, h4⟩, h5⟩, h6⟩, h7⟩, h8⟩, h9⟩, h10⟩, h11⟩, h12⟩, h13⟩, h14⟩ := h
  unfold opsState readState
  have hfe : stateFlags ⟨id, docId, name, historyType, isParallel, isFinal, initial, states, onentry, onexit,
      transitions, invoke, history, data, parent, donedata⟩ =
      sflags historyType (!onentry.isEmpty) (!onexit.isEmpty) (!states.isEmpty) isFinal isParallel
        donedata.isSome (!invoke.isEmpty) (!data.isEmpty) (!history.isEmpty) := rfl
  simp only [hfe]
  obtain ⟨f0, fh, fen, fex, fst, ffi, fpa, fdd, fiv, fda, fhi⟩ :=
    sflags_facts historyType (!onentry.isEmpty) (!onexit.isEmpty) (!states.isEmpty) isFinal isParallel
        donedata.isSome (!invoke.isEmpty) (!data.isEmpty) (!history.isEmpty)
  generalize sflags historyType (!onentry.isEmpty) (!onexit.isEmpty) (!states.isEmpty) isFinal isParallel
        donedata.isSome (!invoke.isEmpty) (!data.isEmpty) (!history.isEmpty) = F at *
  -- initial + child states
  have hst : Reads (if F / 0x10 % 2 = 1 then (do
        let i ← pId
        let l ← readList pId
        Pure.pure (i, l)) else Pure.pure (0, []))
      (bytesOf (if (!states.isEmpty) = true then uintOp initial :: opsIds states else [])) (initial, states) := by
    cases states with
    | nil =>
      have : ¬ (F / 0x10 % 2 = 1) := by rw [fst]; simp
      simp only [this, if_false, List.isEmpty_nil, Bool.not_true]
      have : initial = 0 := by simpa using h4
      subst this
      exact Reads.pure _
    | cons a r =>
      have : F / 0x10 % 2 = 1 := by rw [fst]; simp
      simp only [this, if_true, List.isEmpty_cons, Bool.not_false]
      norm_bytes
      exact Reads.bind (Reads.wid (by simpa using h4)) (Reads.bind_pure (Reads.ids h5) rfl)
  have hinv : Reads (readList readInvoke) (bytesOf (Rfsm.Codec.opsList opsInvoke invoke)) invoke :=
    Reads.opsList invoke h9 (fun a ha => Reads.invoke (h10 a ha))
  have hdd := Reads.optDoneData fdd h14
  norm_bytes
  refine Reads.bind (Reads.wid h1) <| Reads.bind (Reads.wid h2) <| Reads.bind (Reads.wstr h3) <|
    Reads.bind (Reads.u16 F f0) <| Reads.bind hst <|
    Reads.bind (Reads.guarded fen (Reads.ids h6)) <| Reads.bind (Reads.guarded fex (Reads.ids h7)) <|
    Reads.bind (Reads.ids h8) <| Reads.bind (Reads.guarded fiv hinv) <|
    Reads.bind (Reads.guarded fhi (Reads.ids h11)) <| Reads.bind (Reads.guarded fda (Reads.dataPairs h12)) <|
    Reads.bind (Reads.wid h13) <| Reads.bind_pure hdd ?_
  simp only [fh, decide_eq_of_iff fpa, decide_eq_of_iff ffi]

end Rfsm.Codec
