import Rfsm.Model.ReaderDoc
/-!
Helper lemmas for C04 (b): the executable-content sub-reader (`start_if`, `start_else_if`,
`start_else`, `end_if`, `start_for_each`, `end_for_each`, `start/end_executable_content_region`)
builds regions that denote the nested content.

The main result is `content_block`: from any reader state that is inside an executable-content
region, running the SAX events of a block appends entries to the current region, allocates only
fresh region ids, leaves every other old region alone, restores the element stack and the region
stack, and the appended entries decompile (`dEntry` / `dBlock`) to the normal form of the block —
in every table that agrees with the final one on the freshly allocated ids and with any fuel of
at least the number of allocated ids.
-/
namespace Rfsm.Reader
open Rfsm.Descriptor (Str)

/-! ### tables -/

theorem rget_rset (g : Regions) (k k' : Nat) (v : List Exec) :
    rget (rset g k v) k' = if k' = k then some v else rget g k' := by
  induction g with
  | nil =>
    by_cases h : k' = k
    · simp [rset, rget, h]
    · have : ¬ k = k' := fun e => h e.symm
      simp [rset, rget, h, this]
  | cons p r ih =>
    obtain ⟨a, w⟩ := p
    by_cases h1 : a = k <;> by_cases h2 : k' = k <;> simp [rset, rget, h1, h2, ih] <;> grind

theorem setLast_concat {α} (l : List α) (x y : α) : setLast (l ++ [x]) y = l ++ [y] := by
  simp [setLast]

theorem run_append (a b : List Sax) (σ : RS) :
    run (a ++ b) σ = match run a σ with
      | .ok σ' => run b σ'
      | .error e => .error e := by
  induction a generalizing σ with
  | nil => simp [run]
  | cons e es ih =>
    simp only [List.cons_append, run]
    cases step σ e with
    | ok σ' => simp [ih]
    | error x => simp

theorem run_cons_ok {e : Sax} {es : List Sax} {σ σ' : RS} (h : step σ e = .ok σ') :
    run (e :: es) σ = run es σ' := by
  simp [run, h]

theorem mapO_append {α β} (f : α → Option β) (a b : List α) (x y : List β)
    (ha : mapO f a = some x) (hb : mapO f b = some y) : mapO f (a ++ b) = some (x ++ y) := by
  induction a generalizing x with
  | nil => simp [mapO] at ha; subst ha; simpa using hb
  | cons p r ih =>
    simp only [mapO, List.cons_append] at *
    cases hp : f p with
    | none => simp [hp] at ha
    | some p' =>
      cases hr : mapO f r with
      | none => simp [hp, hr] at ha
      | some r' =>
        simp [hp, hr] at ha
        subst ha
        simp [ih r' hr]

theorem mapO_single {α β} (f : α → Option β) (a : α) (x : β) (h : f a = some x) :
    mapO f [a] = some [x] := by
  simp [mapO, h]

/-! ### reader states inside executable content -/

/-- what processing content may change of a state -/
def RS.upd (σ : RS) (g : Regions) (nid nsrc : Nat) : RS :=
  { σ with nextId := nid, nextSrc := nsrc, fsm := { σ.fsm with regions := g } }

/-- inside an element `tag` that was opened in state `σo` and started a sub-region -/
def inEl (σo : RS) (tag : Tag) (c : Nat) (st : List (Nat × Tag)) (g : Regions) (n s : Nat) : RS :=
  { σo with
    stack := σo.cur :: σo.stack
    cur := { σo.cur with tag := tag }
    ecStack := st
    curEc := c
    nextId := n
    nextSrc := s
    fsm := { σo.fsm with regions := g } }

/-- a state in which executable content may be read into the current region, which holds `es` -/
structure Ready (σ : RS) (es : List Exec) : Prop where
  raw : σ.raw = none
  tag : σ.cur.tag ∈ contentParentsNoFinalize
  cur0 : σ.curEc ≠ 0
  curLt : σ.curEc < σ.nextId
  reg : rget σ.fsm.regions σ.curEc = some es
  fresh : ∀ id, σ.nextId ≤ id → rget σ.fsm.regions id = none
  state : ∃ s, curState σ = .ok s

theorem curState_upd (σ : RS) (g : Regions) (n s : Nat) : curState (σ.upd g n s) = curState σ := rfl

theorem curState_inEl (σo : RS) (tag : Tag) (c : Nat) (st : List (Nat × Tag)) (g : Regions) (n s : Nat) :
    curState (inEl σo tag c st g n s) = curState σo := rfl

theorem upd_inEl (σo : RS) (tag : Tag) (c : Nat) (st : List (Nat × Tag)) (g g' : Regions) (n s n' s' : Nat) :
    (inEl σo tag c st g n s).upd g' n' s' = inEl σo tag c st g' n' s' := rfl

theorem upd_upd (σ : RS) (g g' : Regions) (n s n' s' : Nat) :
    (σ.upd g n s).upd g' n' s' = σ.upd g' n' s' := rfl

theorem mem_contentParents {t : Tag} (h : t ∈ contentParentsNoFinalize) : t ∈ contentParents := by
  simp only [contentParentsNoFinalize, contentParents, List.mem_cons, List.not_mem_nil, or_false] at *
  rcases h with h | h | h | h | h <;> simp [h]

/-! ### region stack -/

theorem unwind_same (c R0 : Nat) (t : Tag) (S : List (Nat × Tag)) (hc : c ≠ 0) :
    unwind c ((R0, t) :: S) t = .ok (R0, S) := by
  simp [unwind, hc]

theorem unwind_elseif (c r R0 : Nat) (S : List (Nat × Tag)) (hc : c ≠ 0) (hr : r ≠ 0) :
    unwind c ((r, .elseif) :: (R0, .if_) :: S) .if_ = .ok (R0, S) := by
  simp [unwind, hc, hr]

/-- the region stack inside an `<if>`: first branch, or a branch opened by `<elseif>` -/
def IfStack (st : List (Nat × Tag)) (R0 : Nat) (S : List (Nat × Tag)) : Prop :=
  st = (R0, .if_) :: S ∨ ∃ r, r ≠ 0 ∧ st = (r, .elseif) :: (R0, .if_) :: S

theorem unwind_ifStack {c R0 : Nat} {st S : List (Nat × Tag)} (hc : c ≠ 0) (h : IfStack st R0 S) :
    unwind c st .if_ = .ok (R0, S) := by
  rcases h with h | ⟨r, hr, h⟩
  · subst h; exact unwind_same c R0 .if_ S hc
  · subst h; exact unwind_elseif c r R0 S hc hr

/-! ### single SAX events -/

/-- the state after `<if cond=c>` -/
def afterIf (σ : RS) (c : Str) (es : List Exec) : RS :=
  inEl σ .if_ σ.nextId ((σ.curEc, .if_) :: σ.ecStack)
    (rset (rset (rset σ.fsm.regions σ.curEc (es ++ [.ifE (.source c σ.nextSrc) 0 0])) σ.nextId [])
      σ.curEc (es ++ [.ifE (.source c σ.nextSrc) σ.nextId 0]))
    (σ.nextId + 1) (σ.nextSrc + 1)

theorem step_startIf (σ : RS) (c : Str) (es : List Exec) (hR : Ready σ es) :
    step σ (.start t_if [(a_cond, c)]) = .ok (afterIf σ c es) := by
  have hl : localName t_if = t_if := by decide
  have ht : tagOf t_if = .if_ := by decide
  have hne : σ.curEc ≠ σ.nextId := Nat.ne_of_lt hR.curLt
  have hmem := mem_contentParents hR.tag
  simp [step, hR.raw, hl, ht, isRawTag, startElement, startIf, verifyParent, RS.parentTag, RS.push, required, getAttr,
    addExec, hR.cur0, hR.reg, bind, Except.bind, createSource, startRegion, setIfContent, rget_rset, hne, hmem,
    setLast_concat, afterIf, inEl]

/-- the state after `<foreach array item index>` -/
def afterForeach (σ : RS) (a i x : Str) (es : List Exec) : RS :=
  inEl σ .foreach σ.nextId ((σ.curEc, .foreach) :: σ.ecStack)
    (rset (rset (rset σ.fsm.regions σ.curEc (es ++ [.foreach (.source a σ.nextSrc) i x 0])) σ.nextId [])
      σ.curEc (es ++ [.foreach (.source a σ.nextSrc) i x σ.nextId]))
    (σ.nextId + 1) (σ.nextSrc + 1)

theorem getAttr_index (a i x : Str) :
    (getAttr ([(a_array, a), (a_item, i)] ++ strA a_index x) a_index).getD [] = x := by
  have h1 : ¬ a_array = a_index := by decide
  have h2 : ¬ a_item = a_index := by decide
  by_cases hx : x = []
  · simp [strA, getAttr, h1, h2, hx]
  · have : x.isEmpty = false := by cases x <;> simp_all
    simp [strA, getAttr, h1, h2, this]

theorem step_startForeach_aux (σ : RS) (attrs : Attrs) (a i x : Str) (es : List Exec) (hR : Ready σ es)
    (ha : getAttr attrs a_array = some a) (hit : getAttr attrs a_item = some i)
    (hi : (getAttr attrs a_index).getD [] = x) :
    step σ (.start t_foreach attrs) = .ok (afterForeach σ a i x es) := by
  have hl : localName t_foreach = t_foreach := by decide
  have ht : tagOf t_foreach = .foreach := by decide
  have hne : σ.curEc ≠ σ.nextId := Nat.ne_of_lt hR.curLt
  have hmem := mem_contentParents hR.tag
  simp [step, hR.raw, hl, ht, isRawTag, startElement, startForEach, verifyParent, RS.parentTag, RS.push, required,
    ha, hit, hi, addExec, hR.cur0, hR.reg, bind, Except.bind, createSource, startRegion, rget_rset, hne, hmem,
    setLast_concat, afterForeach, inEl]

theorem step_startForeach (σ : RS) (a i x : Str) (es : List Exec) (hR : Ready σ es) :
    step σ (.start t_foreach ([(a_array, a), (a_item, i)] ++ strA a_index x)) = .ok (afterForeach σ a i x es) := by
  have h2 : ¬ a_array = a_item := by decide
  exact step_startForeach_aux σ _ a i x es hR (by simp [getAttr]) (by simp [getAttr, h2]) (getAttr_index a i x)

theorem step_stopEl (σo : RS) (tag : Tag) (name : Str) (c : Nat) (st : List (Nat × Tag)) (g : Regions) (n s : Nat)
    (hname : tagOf (localName name) = tag) (htag : tag = .if_ ∨ tag = .foreach) (hraw : σo.raw = none)
    (hu : unwind c st tag = .ok (σo.curEc, σo.ecStack)) :
    step (inEl σo tag c st g n s) (.stop name) = .ok (σo.upd g n s) := by
  rcases htag with h | h <;> subst h <;>
  simp [step, inEl, hraw, hname, endElement, endIf, endForEach, endRegion, hu, bind, Except.bind, RS.pop, RS.upd]

theorem step_else (σo : RS) (c : Nat) (st : List (Nat × Tag)) (g g' : Regions) (n s R0 : Nat) (S : List (Nat × Tag))
    (hraw : σo.raw = none) (hu : unwind c st .if_ = .ok (R0, S))
    (hset : setDeepestElse (n + 1) (rset g n []) R0 n = .ok g') :
    step (inEl σo .if_ c st g n s) (.empty t_else []) = .ok (inEl σo .if_ n ((R0, .if_) :: S) g' (n + 1) s) := by
  have hl : localName t_else = t_else := by decide
  have ht : tagOf t_else = .else_ := by decide
  simp [step, inEl, hraw, hl, ht, isRawTag, startElement, startElse, verifyParent, RS.parentTag, RS.push,
    endRegion, hu, bind, Except.bind, startRegion, hset, endElement, RS.pop]

/-- regions right after `<elseif cond=c2/>`, before the deepest else is linked -/
def elseifRegions (g : Regions) (n s : Nat) (c2 : Str) : Regions :=
  rset (rset (rset (rset g n []) n [.ifE (.source c2 s) 0 0]) (n + 1) []) n [.ifE (.source c2 s) (n + 1) 0]

theorem step_elseif (σo : RS) (c : Nat) (st : List (Nat × Tag)) (g g' : Regions) (n s R0 : Nat) (S : List (Nat × Tag))
    (c2 : Str) (hraw : σo.raw = none) (hn : n ≠ 0) (hu : unwind c st .if_ = .ok (R0, S))
    (hset : setDeepestElse (n + 2) (elseifRegions g n s c2) R0 n = .ok g') :
    step (inEl σo .if_ c st g n s) (.empty t_elseif [(a_cond, c2)]) =
      .ok (inEl σo .if_ (n + 1) ((n, .elseif) :: (R0, .if_) :: S) g' (n + 2) (s + 1)) := by
  have hl : localName t_elseif = t_elseif := by decide
  have ht : tagOf t_elseif = .elseif := by decide
  simp [elseifRegions] at hset
  simp [step, inEl, hraw, hl, ht, isRawTag, startElement, startElseIf, verifyParent, RS.parentTag, RS.push,
    endRegion, hu, bind, Except.bind, startRegion, required, getAttr, createSource, addExec, hn, rget_rset,
    setIfContent, setLast, hset, endElement, RS.pop]

/-! ### the else chain -/

/-- `Walk g m r h k`: following `else_content` of the last entry from region `r` one reaches, after
`k` steps, region `h` whose last entry is an `If` without else; all regions on the way are `< m` -/
inductive Walk (g : Regions) (m : Nat) : Nat → Nat → Nat → Prop where
  | here {r : Nat} {pre : List Exec} {c : Data} {ct : Nat} :
      r ≠ 0 → r < m → rget g r = some (pre ++ [.ifE c ct 0]) → Walk g m r r 0
  | step {r e h k : Nat} {pre : List Exec} {c : Data} {ct : Nat} :
      r ≠ 0 → r < m → rget g r = some (pre ++ [.ifE c ct e]) → e ≠ 0 → Walk g m e h k → Walk g m r h (k + 1)

theorem Walk.end_ {g : Regions} {m r h k : Nat} (w : Walk g m r h k) :
    h ≠ 0 ∧ h < m ∧ ∃ pre c ct, rget g h = some (pre ++ [.ifE c ct 0]) := by
  induction w with
  | here h0 hm hr => exact ⟨h0, hm, _, _, _, hr⟩
  | step _ _ _ _ _ ih => exact ih

theorem Walk.frame {g g' : Regions} {m r h k : Nat} (w : Walk g m r h k)
    (hf : ∀ id, id < m → rget g' id = rget g id) : Walk g' m r h k := by
  induction w with
  | here h0 hm hr => exact .here h0 hm (by rw [hf _ hm]; exact hr)
  | step h0 hm hr he _ ih => exact .step h0 hm (by rw [hf _ hm]; exact hr) he ih

theorem Walk.mono {g : Regions} {m m' r h k : Nat} (w : Walk g m r h k) (hm : m ≤ m') : Walk g m' r h k := by
  induction w with
  | here h0 hlt hr => exact .here h0 (Nat.lt_of_lt_of_le hlt hm) hr
  | step h0 hlt hr he _ ih => exact .step h0 (Nat.lt_of_lt_of_le hlt hm) hr he ih

/-- the loop of `start_else` / `start_else_if` stores the new else region at the end of the chain -/
theorem Walk.set {g : Regions} {m r h k : Nat} (w : Walk g m r h k) (fuel E : Nat) (hk : k < fuel) :
    ∃ pre c ct, rget g h = some (pre ++ [.ifE c ct 0]) ∧
      setDeepestElse fuel g r E = .ok (rset g h (pre ++ [.ifE c ct E])) := by
  induction w generalizing fuel with
  | @here r pre c ct h0 hm hr =>
    cases fuel with
    | zero => omega
    | succ f =>
      refine ⟨pre, c, ct, hr, ?_⟩
      simp [setDeepestElse, h0, hr, setLast_concat]
  | @step r e h k pre c ct h0 hm hr he _ ih =>
    cases fuel with
    | zero => omega
    | succ f =>
      obtain ⟨pre', c', ct', hh, hs⟩ := ih f (by omega)
      refine ⟨pre', c', ct', hh, ?_⟩
      have : e > 0 := Nat.pos_of_ne_zero he
      simp [setDeepestElse, h0, hr, this, hs]

/-- after linking a new region `E` (whose last entry is an `If` without else) the chain is one longer -/
theorem Walk.extend {g g' : Regions} {m r h k E : Nat} (w : Walk g m r h k)
    {pre : List Exec} {c : Data} {ct : Nat} {preE : List Exec} {cE : Data} {ctE : Nat}
    (hE0 : E ≠ 0) (hEm : m ≤ E)
    (hh : rget g' h = some (pre ++ [.ifE c ct E]))
    (hE : rget g' E = some (preE ++ [.ifE cE ctE 0]))
    (hf : ∀ id, id < m → id ≠ h → rget g' id = rget g id) :
    Walk g' (E + 1) r E (k + 1) := by
  induction w with
  | here h0 hm hr =>
    exact .step h0 (by omega) hh hE0 (.here hE0 (by omega) hE)
  | @step r e h k pre' c' ct' h0 hm hr he w' ih =>
    have hne : r ≠ h := by
      intro heq
      obtain ⟨_, _, p, c2, ct2, hend⟩ := w'.end_
      rw [heq, hend] at hr
      have := List.append_inj' (Option.some.inj hr) rfl
      simp at this
      exact he this.2.2.2.symm
    exact .step h0 (by omega) (by rw [hf _ hm hne]; exact hr) he (ih hh hf)

/-! ### what reading content establishes -/

def Agree (g g' : Regions) (lo hi : Nat) : Prop := ∀ id, lo ≤ id → id < hi → rget g id = rget g' id

structure Post (σ : RS) (es new : List Exec) (g' : Regions) (n' : Nat) : Prop where
  le : σ.nextId ≤ n'
  reg : rget g' σ.curEc = some (es ++ new)
  old : ∀ id, id < σ.nextId → id ≠ σ.curEc → rget g' id = rget σ.fsm.regions id
  fresh : ∀ id, n' ≤ id → rget g' id = none
  alloc : ∀ id, σ.nextId ≤ id → id < n' → (rget g' id).isSome

/-- the new entries decompile to `b` in every table that agrees on the newly allocated ids -/
def DenL (n : Nat) (g' : Regions) (n' : Nat) (new : List Exec) (b : Block) : Prop :=
  ∀ gg fuel, Agree gg g' n n' → n' - n ≤ fuel → mapO (dEntry (dBlock fuel gg)) new = some b

/-- what the else chain of an `<if>` denotes -/
def DenT (g' : Regions) (n n' E : Nat) (t : Tail) : Prop :=
  (E = 0 ∧ t = .none) ∨
  (E ≠ 0 ∧ ∃ eb, t = .els eb ∧ ∀ gg fuel, Agree gg g' n n' → n' - n ≤ fuel → dBlock fuel gg E = some eb)

/-- content without sub-regions: one SAX group appends exactly one entry that decompiles to the
normal form of the element -/
def LeafOK (c : Content) : Prop :=
  ∀ σ es, Ready σ es → ∃ e s', run (saxC c) σ = .ok (σ.upd (rset σ.fsm.regions σ.curEc (es ++ [e])) σ.nextId s') ∧
    dLeaf e = some (normC c) ∧ dEntry (fun _ => none) e = dLeaf e

mutual
/-- every leaf of the content is read as one entry (`LeafOK`) -/
def OkC : Content → Prop
  | .ite _ b t => OkB b ∧ OkT t
  | .foreach _ _ _ b => OkB b
  | .raise e => LeafOK (.raise e)
  | .assign l e t => LeafOK (.assign l e t)
  | .log l e => LeafOK (.log l e)
  | .script t => LeafOK (.script t)
  | .send s => LeafOK (.send s)
  | .cancel i e => LeafOK (.cancel i e)
def OkB : List Content → Prop
  | [] => True
  | c :: cs => OkC c ∧ OkB cs
def OkT : Tail → Prop
  | .none => True
  | .els b => OkB b
  | .elif _ b t => OkB b ∧ OkT t
end

theorem dEntry_leaf (sub sub' : Nat → Option Block) (e : Exec) (h : dEntry sub' e = dLeaf e) (hl : (dLeaf e).isSome) :
    dEntry sub e = dLeaf e := by
  cases e <;> simp_all [dEntry, dLeaf]

theorem leaf_case (c : Content) (hl : LeafOK c) (σ : RS) (es : List Exec) (hR : Ready σ es) :
    ∃ g' n' s' new, run (saxC c) σ = .ok (σ.upd g' n' s') ∧ Post σ es new g' n' ∧
      DenL σ.nextId g' n' new [normC c] := by
  obtain ⟨e, s', hrun, hd, hde⟩ := hl σ es hR
  refine ⟨_, σ.nextId, s', [e], hrun, ⟨Nat.le_refl _, ?_, ?_, ?_, fun id h1 h2 => by omega⟩, ?_⟩
  · simp [rget_rset]
  · intro id _ hne; simp [rget_rset, hne]
  · intro id hid
    have : id ≠ σ.curEc := by have := hR.curLt; omega
    simp [rget_rset, this, hR.fresh id hid]
  · intro gg fuel _ _
    apply mapO_single
    rw [dEntry_leaf _ _ e hde (by simp [hd]), hd]

theorem ready_upd {σ : RS} {es new : List Exec} {g' : Regions} {n' s' : Nat} (hR : Ready σ es)
    (hP : Post σ es new g' n') : Ready (σ.upd g' n' s') (es ++ new) where
  raw := hR.raw
  tag := hR.tag
  cur0 := hR.cur0
  curLt := Nat.lt_of_lt_of_le hR.curLt hP.le
  reg := hP.reg
  fresh := hP.fresh
  state := by rw [curState_upd]; exact hR.state

theorem ready_inEl {σo : RS} {es0 : List Exec} (hR : Ready σo es0) (tag : Tag) (htag : tag = .if_ ∨ tag = .foreach)
    (c : Nat) (st : List (Nat × Tag)) (g : Regions) (n s : Nat) (es : List Exec)
    (hc0 : c ≠ 0) (hcn : c < n) (hreg : rget g c = some es) (hfresh : ∀ id, n ≤ id → rget g id = none) :
    Ready (inEl σo tag c st g n s) es where
  raw := hR.raw
  tag := by rcases htag with h | h <;> subst h <;> simp [inEl, contentParentsNoFinalize]
  cur0 := hc0
  curLt := hcn
  reg := hreg
  fresh := hfresh
  state := by rw [curState_inEl]; exact hR.state

/-! ### the main induction -/

/-- conclusion shared by content and blocks -/
def Reads (evs : List Sax) (σ : RS) (es : List Exec) (b : Block) : Prop :=
  ∃ g' n' s' new, run evs σ = .ok (σ.upd g' n' s') ∧ Post σ es new g' n' ∧ DenL σ.nextId g' n' new b

/-- conclusion for the rest of an `<if>` after a branch body -/
def ReadsTail (evs : List Sax) (σo : RS) (c : Nat) (st : List (Nat × Tag)) (g : Regions) (n s H : Nat) (t : Tail) : Prop :=
  ∃ g' n' s' E pre cH ctH, run evs (inEl σo .if_ c st g n s) = .ok (σo.upd g' n' s') ∧ n ≤ n' ∧
    rget g H = some (pre ++ [.ifE cH ctH 0]) ∧ rget g' H = some (pre ++ [.ifE cH ctH E]) ∧
    (∀ id, id < n → id ≠ H → rget g' id = rget g id) ∧ (∀ id, n' ≤ id → rget g' id = none) ∧
    (∀ id, n ≤ id → id < n' → (rget g' id).isSome) ∧ DenT g' n n' E t

theorem reads_nil (σ : RS) (es : List Exec) (hR : Ready σ es) : Reads [] σ es [] := by
  refine ⟨σ.fsm.regions, σ.nextId, σ.nextSrc, [], ?_, ⟨Nat.le_refl _, ?_, ?_, hR.fresh, fun id h1 h2 => by omega⟩, ?_⟩
  · simp [run, RS.upd]
  · simpa using hR.reg
  · intros; rfl
  · intro gg fuel _ _; simp [mapO]

theorem reads_append {ev1 ev2 : List Sax} {σ : RS} {es : List Exec} {b1 b2 : Block} (hR : Ready σ es)
    (h1 : Reads ev1 σ es b1)
    (h2 : ∀ g' n' s' new, Post σ es new g' n' → Reads ev2 (σ.upd g' n' s') (es ++ new) b2) :
    Reads (ev1 ++ ev2) σ es (b1 ++ b2) := by
  obtain ⟨g1, n1, s1, new1, hrun1, hP1, hD1⟩ := h1
  obtain ⟨g2, n2, s2, new2, hrun2, hP2, hD2⟩ := h2 g1 n1 s1 new1 hP1
  have hcur : (σ.upd g1 n1 s1).curEc = σ.curEc := rfl
  have hn1 : (σ.upd g1 n1 s1).nextId = n1 := rfl
  have hg1 : (σ.upd g1 n1 s1).fsm.regions = g1 := rfl
  refine ⟨g2, n2, s2, new1 ++ new2, ?_, ⟨?_, ?_, ?_, hP2.fresh, ?_⟩, ?_⟩
  · rw [run_append, hrun1]; simpa [upd_upd] using hrun2
  · have := hP2.le; rw [hn1] at this; exact Nat.le_trans hP1.le this
  · have := hP2.reg; rw [hcur] at this; simpa [List.append_assoc] using this
  · intro id hid hne
    have h := hP2.old id (by rw [hn1]; exact Nat.lt_of_lt_of_le hid hP1.le) (by rw [hcur]; exact hne)
    rw [h, hg1]; exact hP1.old id hid hne
  · intro id hlo hhi
    by_cases hlt : id < n1
    · have h := hP2.old id (by rw [hn1]; exact hlt) (by rw [hcur]; have := hR.curLt; omega)
      rw [h, hg1]; exact hP1.alloc id hlo hlt
    · exact hP2.alloc id (by rw [hn1]; omega) hhi
  · intro gg fuel hag hfuel
    have hle1 := hP1.le
    have hle2 : n1 ≤ n2 := by have := hP2.le; rwa [hn1] at this
    apply mapO_append
    · apply hD1 gg fuel _ (by omega)
      intro id hlo hhi
      rw [hag id hlo (by omega)]
      have h := hP2.old id (by rw [hn1]; exact hhi) (by rw [hcur]; have := hR.curLt; omega)
      rw [h, hg1]
    · rw [hn1] at hD2
      apply hD2 gg fuel _ (by omega)
      intro id hlo hhi
      exact hag id (by omega) hhi

mutual
theorem content_one : (c : Content) → (σ : RS) → (es : List Exec) → Ready σ es → OkC c →
    Reads (saxC c) σ es [normC c]
  | .raise e, σ, es, hR, hok => leaf_case _ (by simpa [OkC] using hok) σ es hR
  | .assign l e t, σ, es, hR, hok => leaf_case _ (by simpa [OkC] using hok) σ es hR
  | .log l e, σ, es, hR, hok => leaf_case _ (by simpa [OkC] using hok) σ es hR
  | .script t, σ, es, hR, hok => leaf_case _ (by simpa [OkC] using hok) σ es hR
  | .send s, σ, es, hR, hok => leaf_case _ (by simpa [OkC] using hok) σ es hR
  | .cancel i e, σ, es, hR, hok => leaf_case _ (by simpa [OkC] using hok) σ es hR
  | .foreach a i x b, σ, es, hR, hok => by
    have hokb : OkB b := by simpa [OkC] using hok
    have hne : σ.curEc ≠ σ.nextId := Nat.ne_of_lt hR.curLt
    -- regions after the start tag
    let g1 := rset (rset (rset σ.fsm.regions σ.curEc (es ++ [.foreach (.source a σ.nextSrc) i x 0])) σ.nextId [])
      σ.curEc (es ++ [.foreach (.source a σ.nextSrc) i x σ.nextId])
    have hg1 : ∀ id, rget g1 id = if id = σ.curEc then some (es ++ [.foreach (.source a σ.nextSrc) i x σ.nextId])
        else if id = σ.nextId then some [] else rget σ.fsm.regions id := by
      intro id; simp only [g1, rget_rset]; split <;> simp_all
    have hR1 : Ready (afterForeach σ a i x es) [] := by
      apply ready_inEl hR .foreach (Or.inr rfl)
      · have := hR.curLt; omega
      · omega
      · rw [hg1]; simp [hne.symm]
      · intro id hid
        rw [hg1]
        have := hR.curLt
        simp [show id ≠ σ.curEc by omega, show id ≠ σ.nextId by omega, hR.fresh id (by omega)]
    obtain ⟨g2, n2, s2, newb, hrun2, hP2, hD2⟩ := content_block b _ [] hR1 hokb
    have hn1 : (afterForeach σ a i x es).nextId = σ.nextId + 1 := rfl
    have hc1 : (afterForeach σ a i x es).curEc = σ.nextId := rfl
    have hr1 : (afterForeach σ a i x es).fsm.regions = g1 := rfl
    rw [hn1] at hD2
    have hle2 : σ.nextId + 1 ≤ n2 := by have := hP2.le; rwa [hn1] at this
    have hstop := step_stopEl σ .foreach t_foreach σ.nextId ((σ.curEc, .foreach) :: σ.ecStack) g2 n2 s2
      (by decide) (Or.inr rfl) hR.raw (unwind_same _ _ _ _ (by have := hR.curLt; omega))
    have halloc : ∀ id, σ.nextId ≤ id → id < n2 → (rget g2 id).isSome := by
      intro id hlo hhi
      by_cases he : id = σ.nextId
      · have := hP2.reg; rw [hc1] at this; rw [he, this]; rfl
      · exact hP2.alloc id (by rw [hn1]; omega) hhi
    refine ⟨g2, n2, s2, [.foreach (.source a σ.nextSrc) i x σ.nextId], ?_, ⟨by omega, ?_, ?_, hP2.fresh, halloc⟩, ?_⟩
    · simp only [saxC]
      rw [List.append_assoc, List.singleton_append, run_cons_ok (step_startForeach σ a i x es hR), run_append,
        hrun2]
      simp only [afterForeach, upd_inEl]
      rw [run_cons_ok hstop]; rfl
    · have := hP2.old σ.curEc (by rw [hn1]; have := hR.curLt; omega) (by rw [hc1]; exact hne)
      rw [this, hr1, hg1]; simp
    · intro id hid hne'
      have := hP2.old id (by rw [hn1]; omega) (by rw [hc1]; omega)
      rw [this, hr1, hg1]; simp [hne', show id ≠ σ.nextId by omega]
    · intro gg fuel hag hfuel
      apply mapO_single
      cases fuel with
      | zero => omega
      | succ f =>
        have hreg : rget gg σ.nextId = some newb := by
          rw [hag _ (Nat.le_refl _) (by omega)]
          have := hP2.reg; rw [hc1] at this; simpa using this
        have hb := hD2 gg f (fun id hlo hhi => hag id (by omega) hhi) (by omega)
        simp [dEntry, dData, dBlock, hreg, hb, normC]
  | .ite c b t, σ, es, hR, hok => by
    have hok' : OkB b ∧ OkT t := by simpa [OkC] using hok
    have hne : σ.curEc ≠ σ.nextId := Nat.ne_of_lt hR.curLt
    have hlt := hR.curLt
    let g1 := rset (rset (rset σ.fsm.regions σ.curEc (es ++ [.ifE (.source c σ.nextSrc) 0 0])) σ.nextId [])
      σ.curEc (es ++ [.ifE (.source c σ.nextSrc) σ.nextId 0])
    have hg1 : ∀ id, rget g1 id = if id = σ.curEc then some (es ++ [.ifE (.source c σ.nextSrc) σ.nextId 0])
        else if id = σ.nextId then some [] else rget σ.fsm.regions id := by
      intro id; simp only [g1, rget_rset]; split <;> simp_all
    have hR1 : Ready (afterIf σ c es) [] := by
      apply ready_inEl hR .if_ (Or.inl rfl)
      · omega
      · omega
      · rw [hg1]; simp [hne.symm]
      · intro id hid
        rw [hg1]
        simp [show id ≠ σ.curEc by omega, show id ≠ σ.nextId by omega, hR.fresh id (by omega)]
    obtain ⟨g2, n2, s2, newb, hrun2, hP2, hD2⟩ := content_block b _ [] hR1 hok'.1
    have hn1 : (afterIf σ c es).nextId = σ.nextId + 1 := rfl
    have hc1 : (afterIf σ c es).curEc = σ.nextId := rfl
    have hr1 : (afterIf σ c es).fsm.regions = g1 := rfl
    rw [hn1] at hD2
    have hle2 : σ.nextId + 1 ≤ n2 := by have := hP2.le; rwa [hn1] at this
    have hg2cur : rget g2 σ.curEc = some (es ++ [.ifE (.source c σ.nextSrc) σ.nextId 0]) := by
      have := hP2.old σ.curEc (by rw [hn1]; omega) (by rw [hc1]; exact hne)
      rw [this, hr1, hg1]; simp
    have hwalk : Walk g2 σ.nextId σ.curEc σ.curEc 0 := .here hR.cur0 hlt hg2cur
    obtain ⟨g3, n3, s3, E, pre, cH, ctH, hrun3, hle3, hH2, hH3, hold3, hfresh3, halloc3, hDT⟩ :=
      content_tail t σ σ.nextId ((σ.curEc, .if_) :: σ.ecStack) g2 n2 s2 σ.curEc 0 σ.nextId hR
        (by omega) (Or.inl rfl) hP2.fresh hwalk (by omega) (by omega) hok'.2
    -- identify the hole
    rw [hg2cur] at hH2
    have hinj := List.append_inj' (Option.some.inj hH2) rfl
    obtain ⟨hpre, hlast⟩ := hinj
    simp at hlast
    obtain ⟨hcH, hctH⟩ := hlast
    subst hpre; subst hcH; subst hctH
    have halloc : ∀ id, σ.nextId ≤ id → id < n3 → (rget g3 id).isSome := by
      intro id hlo hhi
      by_cases hlt2 : id < n2
      · rw [hold3 id hlt2 (by omega)]
        by_cases he : id = σ.nextId
        · have := hP2.reg; rw [hc1] at this; rw [he, this]; rfl
        · exact hP2.alloc id (by rw [hn1]; omega) hlt2
      · exact halloc3 id (by omega) hhi
    refine ⟨g3, n3, s3, [.ifE (.source c σ.nextSrc) σ.nextId E], ?_, ⟨by omega, hH3, ?_, hfresh3, halloc⟩, ?_⟩
    · simp only [saxC]
      rw [List.append_assoc, List.singleton_append, run_cons_ok (step_startIf σ c es hR), run_append, hrun2]
      simp only [afterIf, upd_inEl]
      exact hrun3
    · intro id hid hne'
      rw [hold3 id (by omega) hne']
      have := hP2.old id (by rw [hn1]; omega) (by rw [hc1]; omega)
      rw [this, hr1, hg1]; simp [hne', show id ≠ σ.nextId by omega]
    · intro gg fuel hag hfuel
      apply mapO_single
      cases fuel with
      | zero => omega
      | succ f =>
        have hreg : rget gg σ.nextId = some newb := by
          rw [hag _ (Nat.le_refl _) (by omega), hold3 _ (by omega) (by omega)]
          have := hP2.reg; rw [hc1] at this; simpa using this
        have hb := hD2 gg f (fun id hlo hhi => by
          rw [hag id (by omega) (by omega), hold3 id hhi (by omega)]) (by omega)
        rcases hDT with ⟨hE, ht⟩ | ⟨hE, eb, ht, hden⟩
        · simp [dEntry, dData, dBlock, hreg, hb, normC, hE, ht]
        · have he := hden gg (f + 1) (fun id hlo hhi => hag id (by omega) hhi) (by omega)
          simp [dEntry, dData, hE, normC, ht, he]
          simp [dBlock, hreg, hb]

theorem content_block : (b : List Content) → (σ : RS) → (es : List Exec) → Ready σ es → OkB b →
    Reads (saxB b) σ es (normB b)
  | [], σ, es, hR, _ => by simpa [saxB, normB] using reads_nil σ es hR
  | c :: cs, σ, es, hR, hok => by
    have hok' : OkC c ∧ OkB cs := by simpa [OkB] using hok
    have h1 := content_one c σ es hR hok'.1
    have := reads_append hR h1 (fun g' n' s' new hP => content_block cs _ _ (ready_upd hR hP) hok'.2)
    simpa [saxB, normB] using this

theorem content_tail : (t : Tail) → (σo : RS) → (c : Nat) → (st : List (Nat × Tag)) → (g : Regions) →
    (n s H k m : Nat) → {es0 : List Exec} → Ready σo es0 → c ≠ 0 → IfStack st σo.curEc σo.ecStack →
    (∀ id, n ≤ id → rget g id = none) → Walk g m σo.curEc H k → k < n → m ≤ n → OkT t →
    ReadsTail (saxT t) σo c st g n s H (normT t)
  | .none, σo, c, st, g, n, s, H, k, m, es0, hR, hc, hst, hfresh, hw, hk, hm, _ => by
    obtain ⟨_, _, pre, cH, ctH, hH⟩ := hw.end_
    refine ⟨g, n, s, 0, pre, cH, ctH, ?_, Nat.le_refl _, hH, hH, fun _ _ _ => rfl, hfresh, fun id h1 h2 => by omega,
      Or.inl ⟨rfl, by simp [normT]⟩⟩
    simp only [saxT]
    rw [run_cons_ok (step_stopEl σo .if_ t_if c st g n s (by decide) (Or.inl rfl) hR.raw (unwind_ifStack hc hst))]
    rfl
  | .els b, σo, c, st, g, n, s, H, k, m, es0, hR, hc, hst, hfresh, hw, hk, hm, hok => by
    have hokb : OkB b := by simpa [OkT] using hok
    obtain ⟨hH0, hHm, _⟩ := hw.end_
    have hR0 := hR.cur0
    -- the new else region
    have hwA : Walk (rset g n []) m σo.curEc H k :=
      hw.frame (fun id hid => by simp [rget_rset, show id ≠ n by omega])
    obtain ⟨pre, cH, ctH, hHA, hset⟩ := hwA.set (n + 1) n (by omega)
    have hH : rget g H = some (pre ++ [.ifE cH ctH 0]) := by
      simpa [rget_rset, show H ≠ n by omega] using hHA
    let g1 := rset (rset g n []) H (pre ++ [.ifE cH ctH n])
    have hg1 : ∀ id, rget g1 id = if id = H then some (pre ++ [.ifE cH ctH n]) else if id = n then some [] else rget g id := by
      intro id; simp only [g1, rget_rset]
    have hn0 : n ≠ 0 := by omega
    have hR1 : Ready (inEl σo .if_ n ((σo.curEc, .if_) :: σo.ecStack) g1 (n + 1) s) [] := by
      apply ready_inEl hR .if_ (Or.inl rfl)
      · exact hn0
      · omega
      · rw [hg1]; simp [show n ≠ H by omega]
      · intro id hid
        rw [hg1]; simp [show id ≠ H by omega, show id ≠ n by omega, hfresh id (by omega)]
    obtain ⟨g2, n2, s2, newb, hrun2, hP2, hD2⟩ := content_block b _ [] hR1 hokb
    have hn1 : (inEl σo .if_ n ((σo.curEc, .if_) :: σo.ecStack) g1 (n + 1) s).nextId = n + 1 := rfl
    have hc1 : (inEl σo .if_ n ((σo.curEc, .if_) :: σo.ecStack) g1 (n + 1) s).curEc = n := rfl
    have hr1 : (inEl σo .if_ n ((σo.curEc, .if_) :: σo.ecStack) g1 (n + 1) s).fsm.regions = g1 := rfl
    rw [hn1] at hD2
    have hle2 : n + 1 ≤ n2 := by have := hP2.le; rwa [hn1] at this
    have halloc : ∀ id, n ≤ id → id < n2 → (rget g2 id).isSome := by
      intro id hlo hhi
      by_cases he : id = n
      · have := hP2.reg; rw [hc1] at this; rw [he, this]; rfl
      · exact hP2.alloc id (by rw [hn1]; omega) hhi
    refine ⟨g2, n2, s2, n, pre, cH, ctH, ?_, by omega, hH, ?_, ?_, hP2.fresh, halloc,
      Or.inr ⟨hn0, normB b, by simp [normT], ?_⟩⟩
    · simp only [saxT]
      rw [List.append_assoc, List.singleton_append,
        run_cons_ok (step_else σo c st g g1 n s σo.curEc σo.ecStack hR.raw (unwind_ifStack hc hst) hset),
        run_append, hrun2]
      simp only [upd_inEl]
      rw [run_cons_ok (step_stopEl σo .if_ t_if n _ g2 n2 s2 (by decide) (Or.inl rfl) hR.raw
        (unwind_same _ _ _ _ hn0))]
      rfl
    · have := hP2.old H (by rw [hn1]; omega) (by rw [hc1]; omega)
      rw [this, hr1, hg1]; simp
    · intro id hid hne'
      have := hP2.old id (by rw [hn1]; omega) (by rw [hc1]; omega)
      rw [this, hr1, hg1]; simp [hne', show id ≠ n by omega]
    · intro gg fuel hag hfuel
      cases fuel with
      | zero => omega
      | succ f =>
        have hreg : rget gg n = some newb := by
          rw [hag _ (Nat.le_refl _) (by omega)]
          have := hP2.reg; rw [hc1] at this; simpa using this
        have hb := hD2 gg f (fun id hlo hhi => hag id (by omega) hhi) (by omega)
        simp [dBlock, hreg, hb]
  | .elif c2 b2 t2, σo, c, st, g, n, s, H, k, m, es0, hR, hc, hst, hfresh, hw, hk, hm, hok => by
    have hok' : OkB b2 ∧ OkT t2 := by simpa [OkT] using hok
    obtain ⟨hH0, hHm, _⟩ := hw.end_
    have hR0 := hR.cur0
    have hn0 : n ≠ 0 := by omega
    let gA := elseifRegions g n s c2
    have hgA : ∀ id, rget gA id = if id = n then some [.ifE (.source c2 s) (n + 1) 0]
        else if id = n + 1 then some [] else rget g id := by
      intro id; simp only [gA, elseifRegions, rget_rset]; split <;> simp_all
    have hwA : Walk gA m σo.curEc H k :=
      hw.frame (fun id hid => by rw [hgA]; simp [show id ≠ n by omega, show id ≠ n + 1 by omega])
    obtain ⟨pre, cH, ctH, hHA, hset⟩ := hwA.set (n + 2) n (by omega)
    have hH : rget g H = some (pre ++ [.ifE cH ctH 0]) := by
      rw [hgA] at hHA; simpa [show H ≠ n by omega, show H ≠ n + 1 by omega] using hHA
    let g1 := rset gA H (pre ++ [.ifE cH ctH n])
    have hg1 : ∀ id, rget g1 id = if id = H then some (pre ++ [.ifE cH ctH n])
        else if id = n then some [.ifE (.source c2 s) (n + 1) 0] else if id = n + 1 then some [] else rget g id := by
      intro id; simp only [g1, rget_rset, hgA]
    have hR1 : Ready (inEl σo .if_ (n + 1) ((n, .elseif) :: (σo.curEc, .if_) :: σo.ecStack) g1 (n + 2) (s + 1)) [] := by
      apply ready_inEl hR .if_ (Or.inl rfl)
      · omega
      · omega
      · rw [hg1]; simp [show n + 1 ≠ H by omega]
      · intro id hid
        rw [hg1]; simp [show id ≠ H by omega, show id ≠ n by omega, show id ≠ n + 1 by omega, hfresh id (by omega)]
    obtain ⟨g2, n2, s2, newb, hrun2, hP2, hD2⟩ := content_block b2 _ [] hR1 hok'.1
    have hn1 : (inEl σo .if_ (n + 1) ((n, .elseif) :: (σo.curEc, .if_) :: σo.ecStack) g1 (n + 2) (s + 1)).nextId = n + 2 := rfl
    have hc1 : (inEl σo .if_ (n + 1) ((n, .elseif) :: (σo.curEc, .if_) :: σo.ecStack) g1 (n + 2) (s + 1)).curEc = n + 1 := rfl
    have hr1 : (inEl σo .if_ (n + 1) ((n, .elseif) :: (σo.curEc, .if_) :: σo.ecStack) g1 (n + 2) (s + 1)).fsm.regions = g1 := rfl
    rw [hn1] at hD2
    have hle2 : n + 2 ≤ n2 := by have := hP2.le; rwa [hn1] at this
    have hg2 : ∀ id, id < n + 2 → id ≠ n + 1 → rget g2 id = rget g1 id := by
      intro id h1 h2
      have := hP2.old id (by rw [hn1]; exact h1) (by rw [hc1]; exact h2)
      rw [this, hr1]
    -- the chain now ends in region `n`
    have hw1 : Walk g1 (n + 1) σo.curEc n (k + 1) :=
      Walk.extend (pre := pre) (c := cH) (ct := ctH) (preE := []) (cE := .source c2 s) (ctE := n + 1) hwA hn0 hm
        (by rw [hg1]; simp) (by rw [hg1]; simp [show n ≠ H by omega])
        (fun id hid hne' => by rw [hg1, hgA]; simp [hne'])
    have hw2 : Walk g2 (n + 1) σo.curEc n (k + 1) :=
      hw1.frame (fun id hid => hg2 id (by omega) (by omega))
    obtain ⟨g3, n3, s3, E2, pre', cH', ctH', hrun3, hle3, hH2, hH3, hold3, hfresh3, halloc3, hDT⟩ :=
      content_tail t2 σo (n + 1) ((n, .elseif) :: (σo.curEc, .if_) :: σo.ecStack) g2 n2 s2 n (k + 1) (n + 1) hR
        (by omega) (Or.inr ⟨n, hn0, rfl⟩) hP2.fresh hw2 (by omega) (by omega) hok'.2
    have hg2n : rget g2 n = some ([] ++ [.ifE (.source c2 s) (n + 1) 0]) := by
      rw [hg2 n (by omega) (by omega), hg1]; simp [show n ≠ H by omega]
    rw [hg2n] at hH2
    obtain ⟨hpre, hlast⟩ := List.append_inj' (Option.some.inj hH2) rfl
    simp at hlast
    obtain ⟨hcH, hctH⟩ := hlast
    subst hpre; subst hcH; subst hctH
    have halloc : ∀ id, n ≤ id → id < n3 → (rget g3 id).isSome := by
      intro id hlo hhi
      by_cases hlt2 : id < n2
      · by_cases he : id = n
        · rw [he, hH3]; rfl
        · rw [hold3 id hlt2 he]
          by_cases he1 : id = n + 1
          · have := hP2.reg; rw [hc1] at this; rw [he1, this]; rfl
          · exact hP2.alloc id (by rw [hn1]; omega) hlt2
      · exact halloc3 id (by omega) hhi
    refine ⟨g3, n3, s3, n, pre, cH, ctH, ?_, by omega, hH, ?_, ?_, hfresh3, halloc,
      Or.inr ⟨hn0, [.ite c2 (normB b2) (normT t2)], by simp [normT], ?_⟩⟩
    · simp only [saxT]
      rw [List.append_assoc, List.singleton_append,
        run_cons_ok (step_elseif σo c st g g1 n s σo.curEc σo.ecStack c2 hR.raw hn0 (unwind_ifStack hc hst) hset),
        run_append, hrun2]
      simp only [upd_inEl]
      exact hrun3
    · rw [hold3 H (by omega) (by omega), hg2 H (by omega) (by omega), hg1]; simp
    · intro id hid hne'
      rw [hold3 id (by omega) (by omega), hg2 id (by omega) (by omega), hg1]
      simp [hne', show id ≠ n by omega, show id ≠ n + 1 by omega]
    · intro gg fuel hag hfuel
      cases fuel with
      | zero => omega
      | succ f =>
        cases f with
        | zero => omega
        | succ f' =>
          have hregn : rget gg n = some [.ifE (.source c2 s) (n + 1) E2] := by
            rw [hag _ (Nat.le_refl _) (by omega)]; simpa using hH3
          have hregb : rget gg (n + 1) = some newb := by
            rw [hag _ (by omega) (by omega), hold3 _ (by omega) (by omega)]
            have := hP2.reg; rw [hc1] at this; simpa using this
          have hb := hD2 gg f' (fun id hlo hhi => by
            rw [hag id (by omega) (by omega), hold3 id hhi (by omega)]) (by omega)
          rcases hDT with ⟨hE, ht⟩ | ⟨hE, eb, ht, hden⟩
          · simp [dBlock, hregn, mapO, dEntry, dData, hregb, hb, hE, ht]
          · have he := hden gg (f' + 1) (fun id hlo hhi => hag id (by omega) hhi) (by omega)
            simp [dBlock, hregn, mapO, dEntry, dData, hE, ht]
            simp [dBlock] at he
            simp [hregb, hb, he]
end

end Rfsm.Reader
