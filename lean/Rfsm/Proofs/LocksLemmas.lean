import Rfsm.Model.Locks
/-!
Lemmas about the lock machine `Rfsm.Locks`: invariants preserved by `step`, the maximal-element
argument behind the lock-order theorem, progress and termination.  Core Lean only.
-/
namespace Rfsm.Locks

set_option linter.unusedSectionVars false

variable {L : Type} [DecidableEq L]

theorem owner_eq_none_iff (s : Sys L) (l : L) :
    owner s l = none ↔ ∀ th ∈ s, l ∉ th.held := by
  simp [owner, List.findIdx?_eq_none_iff]

theorem holds_of_owner_ne_none {s : Sys L} {l : L} (h : owner s l ≠ none) :
    ∃ u, holds s u l := by
  rw [Ne, owner_eq_none_iff] at h
  have : ∃ th ∈ s, l ∈ th.held := by
    apply Classical.byContradiction
    intro hn
    apply h
    intro th hth hl
    exact hn ⟨th, hth, hl⟩
  obtain ⟨th, hth, hl⟩ := this
  obtain ⟨u, hu, rfl⟩ := List.getElem_of_mem hth
  exact ⟨u, s[u], by simp [hu], hl⟩

/-- what `step` does, as three cases -/
theorem step_cases {s s' : Sys L} {t : Nat} (h : step s t = some s') :
    ∃ th, s[t]? = some th ∧
      ((∃ l rest, th.prog = .acquire l :: rest ∧ owner s l = none ∧
          s' = s.set t ⟨rest, l :: th.held⟩) ∨
       (∃ l rest, th.prog = .release l :: rest ∧ s' = s.set t ⟨rest, th.held.erase l⟩)) := by
  unfold step at h
  split at h
  · simp at h
  · rename_i th hth
    refine ⟨th, hth, ?_⟩
    split at h
    · simp at h
    · rename_i l rest hp
      split at h
      · rename_i ho
        injection h with h
        exact Or.inl ⟨l, rest, hp, ho, h.symm⟩
      · simp at h
    · rename_i l rest hp
      injection h with h
      exact Or.inr ⟨l, rest, hp, h.symm⟩

theorem getElem?_set_cases {α : Type} {s : List α} {t u : Nat} {a b : α}
    (h : (s.set t a)[u]? = some b) : (u = t ∧ b = a) ∨ (u ≠ t ∧ s[u]? = some b) := by
  rw [List.getElem?_set] at h
  split at h
  · rename_i htu
    split at h
    · injection h with h
      exact Or.inl ⟨htu.symm, h.symm⟩
    · simp at h
  · rename_i htu
    exact Or.inr ⟨fun e => htu e.symm, h⟩

/-- a per-thread predicate that follows the program is an invariant of `step` -/
theorem step_inv {P : Nat → List L → List (Op L) → Prop}
    (hacq : ∀ u held l rest, P u held (.acquire l :: rest) → P u (l :: held) rest)
    (hrel : ∀ u held l rest, P u held (.release l :: rest) → P u (held.erase l) rest)
    {s s' : Sys L} {t : Nat} (hs : AllThreads (P) s)
    (h : step s t = some s') : AllThreads (P) s' := by
  obtain ⟨th, hth, hc⟩ := step_cases h
  intro u th' hu
  rcases hc with ⟨l, rest, hp, _, rfl⟩ | ⟨l, rest, hp, rfl⟩
  · rcases getElem?_set_cases hu with ⟨rfl, rfl⟩ | ⟨_, hu'⟩
    · have := hs u th hth
      rw [hp] at this
      exact hacq _ _ _ _ this
    · exact hs u th' hu'
  · rcases getElem?_set_cases hu with ⟨rfl, rfl⟩ | ⟨_, hu'⟩
    · have := hs u th hth
      rw [hp] at this
      exact hrel _ _ _ _ this
    · exact hs u th' hu'

theorem reach_inv {P : Nat → List L → List (Op L) → Prop}
    (hacq : ∀ u held l rest, P u held (.acquire l :: rest) → P u (l :: held) rest)
    (hrel : ∀ u held l rest, P u held (.release l :: rest) → P u (held.erase l) rest)
    {init s : Sys L} (hi : AllThreads (P) init)
    (hr : Reach init s) : AllThreads (P) s := by
  induction hr with
  | refl => exact hi
  | step _ hstep ih => exact step_inv hacq hrel ih hstep

theorem reach_ordered {lt : L → L → Prop} {init s : Sys L}
    (hi : AllThreads (fun _ => Ordered lt) init)
    (hr : Reach init s) : AllThreads (fun _ => Ordered lt) s :=
  reach_inv (fun _ _ _ _ h => h.2) (fun _ _ _ _ h => h) hi hr

theorem reach_balanced {init s : Sys L}
    (hi : AllThreads (fun _ => Balanced) init)
    (hr : Reach init s) : AllThreads (fun _ => Balanced) s :=
  reach_inv (fun _ _ _ _ h => h) (fun _ _ _ _ h => h) hi hr

/-- the invariant behind the lock-order theorem with private locks -/
def InvP (lt : L → L → Prop) (pv : L → Option Nat) (u : Nat) (held : List L)
    (prog : List (Op L)) : Prop :=
  HeldOk pv u held ∧ OrderedP lt pv u held prog

theorem reach_invP {lt : L → L → Prop} {pv : L → Option Nat} {init s : Sys L}
    (hi : AllThreads (InvP lt pv) init) (hr : Reach init s) : AllThreads (InvP lt pv) s := by
  refine reach_inv ?_ ?_ hi hr
  · intro u held l rest h
    refine ⟨?_, h.2.2.2⟩
    intro x hx
    rcases List.mem_cons.1 hx with rfl | hx
    · exact h.2.1
    · exact h.1 x hx
  · intro u held l rest h
    exact ⟨fun x hx => h.1 x (List.mem_of_mem_erase hx), h.2⟩

/-- plain order discipline is the special case without private locks -/
theorem orderedP_of_ordered {lt : L → L → Prop} (u : Nat) :
    ∀ (prog : List (Op L)) (held : List L), Ordered lt held prog →
      OrderedP lt (fun _ => none) u held prog
  | [], _, _ => trivial
  | .acquire l :: rest, held, h =>
    ⟨Or.inl rfl, fun x hx => Or.inl (h.1 x hx), orderedP_of_ordered u rest (l :: held) h.2⟩
  | .release l :: rest, held, h => orderedP_of_ordered u rest (held.erase l) h

theorem reach_trans {a b c : Sys L} (h1 : Reach a b) (h2 : Reach b c) : Reach a c := by
  induction h2 with
  | refl => exact h1
  | step _ hs ih => exact Reach.step ih hs

theorem exec_reach {s s' : Sys L} {sched : List Nat} (h : exec s sched = some s') :
    Reach s s' := by
  induction sched generalizing s with
  | nil =>
    simp [exec] at h
    subst h
    exact Reach.refl
  | cons t ts ih =>
    unfold exec at h
    split at h
    · rename_i s1 hs1
      exact reach_trans (Reach.step Reach.refl hs1) (ih h)
    · simp at h

theorem exec_append {s s1 s2 : Sys L} {a b : List Nat} (h1 : exec s a = some s1)
    (h2 : exec s1 b = some s2) : exec s (a ++ b) = some s2 := by
  induction a generalizing s with
  | nil =>
    simp [exec] at h1
    subst h1
    simpa using h2
  | cons t ts ih =>
    unfold exec at h1
    split at h1
    · rename_i s' hs'
      simp only [List.cons_append, exec, hs']
      exact ih h1
    · simp at h1

theorem run_reach (s : Sys L) (sched : List Nat) : Reach s (run s sched) := by
  induction sched generalizing s with
  | nil => exact Reach.refl
  | cons t ts ih =>
    unfold run
    split
    · rename_i s1 hs1
      exact reach_trans (Reach.step Reach.refl hs1) (ih s1)
    · exact ih s

/-! ### the maximal-element argument -/

/-- a finite non-empty list has an element with nothing strictly above it, for any irreflexive
transitive relation -/
theorem exists_maximal {α : Type} (lt : α → α → Prop) (hirr : ∀ a, ¬ lt a a)
    (htr : ∀ a b c, lt a b → lt b c → lt a c) :
    ∀ S : List α, S ≠ [] → ∃ m ∈ S, ∀ x ∈ S, ¬ lt m x := by
  intro S
  induction S with
  | nil => intro h; exact absurd rfl h
  | cons a S ih =>
    intro _
    by_cases hS : S = []
    · subst hS
      exact ⟨a, by simp, by intro x hx; simp at hx; subst hx; exact hirr _⟩
    · obtain ⟨m, hm, hmax⟩ := ih hS
      by_cases hma : lt m a
      · refine ⟨a, by simp, ?_⟩
        intro x hx hax
        rcases List.mem_cons.1 hx with rfl | hx
        · exact hirr _ hax
        · exact hmax x hx (htr _ _ _ hma hax)
      · refine ⟨m, List.mem_cons_of_mem _ hm, ?_⟩
        intro x hx
        rcases List.mem_cons.1 hx with rfl | hx
        · exact hma
        · exact hmax x hx

theorem waitsFor_some {s : Sys L} {t : Nat} {l : L} (h : waitsFor s t = some l) :
    ∃ th rest, s[t]? = some th ∧ th.prog = .acquire l :: rest := by
  unfold waitsFor at h
  split at h
  · rename_i th hth
    split at h
    · rename_i l' rest hp
      injection h with h
      subst h
      exact ⟨th, rest, hth, hp⟩
    · simp at h
  · simp at h

/-- **the core of the lock-order theorem**: in a state where every thread respects a strict order
on the locks (acquires only above everything it holds, private locks excepted) there is no
deadlocked set — not even a one-element one (self-deadlock). -/
theorem invP_state_no_deadlock {lt : L → L → Prop} {pv : L → Option Nat} (hirr : ∀ a, ¬ lt a a)
    (htr : ∀ a b c, lt a b → lt b c → lt a c) {s : Sys L}
    (hinv : AllThreads (InvP lt pv) s) : ¬ Deadlock s := by
  rintro ⟨S, hne, hS⟩
  -- order the members by their awaited locks
  let ltT : Nat → Nat → Prop := fun a b =>
    ∃ la lb, waitsFor s a = some la ∧ waitsFor s b = some lb ∧ lt la lb
  have hirrT : ∀ a, ¬ ltT a a := by
    rintro a ⟨la, lb, h1, h2, h3⟩
    rw [h1] at h2
    injection h2 with h2
    subst h2
    exact hirr _ h3
  have htrT : ∀ a b c, ltT a b → ltT b c → ltT a c := by
    rintro a b c ⟨la, lb, h1, h2, h3⟩ ⟨lb', lc, h4, h5, h6⟩
    rw [h2] at h4
    injection h4 with h4
    subst h4
    exact ⟨la, lc, h1, h5, htr _ _ _ h3 h6⟩
  obtain ⟨m, hm, hmax⟩ := exists_maximal ltT hirrT htrT S hne
  -- m waits for l, held by u, who waits for l'
  obtain ⟨l, hl, u, hu, thu, hthu, hlu⟩ := hS m hm
  obtain ⟨l', hl', _⟩ := hS u hu
  obtain ⟨thu', rest, hthu', hp⟩ := waitsFor_some hl'
  rw [hthu] at hthu'
  injection hthu' with e
  subst e
  have hou := (hinv u thu hthu).2
  rw [hp] at hou
  rcases hou.2.1 l hlu with hlt | ⟨hpriv, hneq⟩
  · -- l is below what its holder waits for: the holder is above the maximal member
    exact hmax u hu ⟨l, l', hl, hl', hlt⟩
  · -- l is private to its holder u, yet m is about to acquire it: m = u, so l = l'
    obtain ⟨thm, restm, hthm, hpm⟩ := waitsFor_some hl
    have hom := (hinv m thm hthm).2
    rw [hpm] at hom
    rcases hom.1 with hnone | hsome
    · rw [hnone] at hpriv
      cases hpriv
    · rw [hsome] at hpriv
      injection hpriv with hmu
      subst hmu
      rw [hl] at hl'
      injection hl' with hll
      exact hneq hll

theorem ordered_state_no_deadlock {lt : L → L → Prop} (hirr : ∀ a, ¬ lt a a)
    (htr : ∀ a b c, lt a b → lt b c → lt a c) {s : Sys L}
    (hord : AllThreads (fun _ => Ordered lt) s) : ¬ Deadlock s := by
  apply invP_state_no_deadlock (pv := fun _ => none) hirr htr
  intro u th hth
  exact ⟨fun _ _ => Or.inl rfl, orderedP_of_ordered u _ _ (hord u th hth)⟩

theorem deadlockedSet_sound {s : Sys L} {S : List Nat} (h : deadlockedSet s S = true) :
    Deadlock s := by
  simp only [deadlockedSet, Bool.and_eq_true, Bool.not_eq_true', List.all_eq_true] at h
  obtain ⟨hne, hall⟩ := h
  refine ⟨S, by intro e; subst e; simp at hne, ?_⟩
  intro t ht
  have := hall t ht
  split at this
  · rename_i l hl
    refine ⟨l, hl, ?_⟩
    rw [List.any_eq_true] at this
    obtain ⟨u, hu, hx⟩ := this
    split at hx
    · rename_i th hth
      exact ⟨u, hu, th, hth, by simpa using hx⟩
    · simp at hx
  · simp at this

/-! ### progress -/

theorem balanced_finished_holds_nothing {th : Thread L} (hb : Balanced th.held th.prog)
    (hf : th.prog = []) : th.held = [] := by
  rw [hf] at hb
  exact hb

/-- a thread that is not finished and cannot step is waiting for a lock somebody holds -/
theorem blocked_waits {s : Sys L} {t : Nat} {th : Thread L} (hth : s[t]? = some th)
    (hp : th.prog ≠ []) (hstep : step s t = none) :
    ∃ l, waitsFor s t = some l ∧ ∃ u, holds s u l := by
  unfold step at hstep
  rw [hth] at hstep
  simp only at hstep
  split at hstep
  · rename_i hnil
    exact absurd hnil hp
  · rename_i l rest hpr
    split at hstep
    · simp at hstep
    · rename_i ho
      refine ⟨l, ?_, holds_of_owner_ne_none ho⟩
      simp [waitsFor, hth, hpr]
  · simp at hstep

theorem mem_unfinishedIdx {s : Sys L} {t : Nat} :
    t ∈ (List.range s.length).filter (fun i => match s[i]? with
        | some th => !th.prog.isEmpty
        | none => false) ↔ ∃ th, s[t]? = some th ∧ th.prog ≠ [] := by
  simp only [List.mem_filter, List.mem_range]
  constructor
  · rintro ⟨hlt, h⟩
    split at h
    · rename_i th hth
      exact ⟨th, hth, by intro e; simp [e] at h⟩
    · simp at h
  · rintro ⟨th, hth, hp⟩
    have hlt : t < s.length := by
      have := List.getElem?_eq_some_iff.1 hth
      exact this.1
    refine ⟨hlt, ?_⟩
    rw [hth]
    cases hpp : th.prog with
    | nil => exact absurd hpp hp
    | cons a b => simp [hpp]

/-- if every thread is balanced, a state in which no unfinished thread can move is a deadlock -/
theorem stuck_is_deadlock {s : Sys L}
    (hbal : AllThreads (fun _ => Balanced) s)
    (hun : unfinished s) (hstuck : ∀ t, step s t = none) : Deadlock s := by
  obtain ⟨t0, th0, hth0, hp0⟩ := hun
  refine ⟨(List.range s.length).filter (fun i => match s[i]? with
        | some th => !th.prog.isEmpty
        | none => false), ?_, ?_⟩
  · intro e
    have : t0 ∈ (List.range s.length).filter (fun i => match s[i]? with
        | some th => !th.prog.isEmpty
        | none => false) := mem_unfinishedIdx.2 ⟨th0, hth0, hp0⟩
    rw [e] at this
    simp at this
  · intro t ht
    obtain ⟨th, hth, hp⟩ := mem_unfinishedIdx.1 ht
    obtain ⟨l, hl, u, thu, hthu, hlu⟩ := blocked_waits hth hp (hstuck t)
    refine ⟨l, hl, u, mem_unfinishedIdx.2 ⟨thu, hthu, ?_⟩, thu, hthu, hlu⟩
    intro e
    have := balanced_finished_holds_nothing (hbal u thu hthu) e
    rw [this] at hlu
    simp at hlu

/-! ### termination measure -/

def todo (s : Sys L) : Nat := (s.map fun th => th.prog.length).sum

theorem sum_map_set_lt {α : Type} (f : α → Nat) (s : List α) (t : Nat) (a b : α)
    (h : s[t]? = some a) (hlt : f b + 1 = f a) :
    ((s.set t b).map f).sum + 1 = (s.map f).sum := by
  induction s generalizing t with
  | nil => simp at h
  | cons x xs ih =>
    cases t with
    | zero =>
      simp at h
      subst h
      simp [List.set]
      omega
    | succ n =>
      simp at h
      have := ih n h
      simp only [List.set, List.map_cons, List.sum_cons] at this ⊢
      omega

theorem step_todo {s s' : Sys L} {t : Nat} (h : step s t = some s') : todo s' + 1 = todo s := by
  obtain ⟨th, hth, hc⟩ := step_cases h
  rcases hc with ⟨l, rest, hp, _, rfl⟩ | ⟨l, rest, hp, rfl⟩
  · exact sum_map_set_lt (fun (th : Thread L) => th.prog.length) s t th _ hth (by simp [hp])
  · exact sum_map_set_lt (fun (th : Thread L) => th.prog.length) s t th _ hth (by simp [hp])

theorem todo_zero_allFinished {s : Sys L} (h : todo s = 0) : allFinished s = true := by
  unfold todo at h
  unfold allFinished
  induction s with
  | nil => simp
  | cons x xs ih =>
    simp only [List.map_cons, List.sum_cons] at h
    have h1 : x.prog.length = 0 := by omega
    have h2 : (xs.map fun th => th.prog.length).sum = 0 := by omega
    simp [List.all_cons, ih h2, List.eq_nil_of_length_eq_zero h1]

theorem not_allFinished_unfinished {s : Sys L} (h : allFinished s = false) : unfinished s := by
  unfold allFinished at h
  have : ∃ th ∈ s, th.prog.isEmpty = false := by
    apply Classical.byContradiction
    intro hn
    have : s.all (fun th => th.prog.isEmpty) = true := by
      rw [List.all_eq_true]
      intro th hth
      cases hh : th.prog.isEmpty with
      | true => rfl
      | false => exact absurd ⟨th, hth, hh⟩ hn
    rw [this] at h
    simp at h
  obtain ⟨th, hth, hp⟩ := this
  obtain ⟨u, hu, rfl⟩ := List.getElem_of_mem hth
  exact ⟨u, s[u], by simp [hu], by intro e; simp [e] at hp⟩

/-! ### mutual exclusion (sanity of the model: a lock never has two holders) -/

def Mutex (s : Sys L) : Prop :=
  ∀ (u v : Nat) (thu thv : Thread L) (l : L), s[u]? = some thu → s[v]? = some thv → l ∈ thu.held → l ∈ thv.held → u = v

def NoDup (s : Sys L) : Prop := ∀ (u : Nat) (th : Thread L), s[u]? = some th → th.held.Nodup

theorem step_mutex {s s' : Sys L} {t : Nat} (hm : Mutex s) (hn : NoDup s)
    (h : step s t = some s') : Mutex s' ∧ NoDup s' := by
  obtain ⟨th, hth, hc⟩ := step_cases h
  rcases hc with ⟨l, rest, hp, ho, rfl⟩ | ⟨l, rest, hp, rfl⟩
  · rw [owner_eq_none_iff] at ho
    have hfree : ∀ (u : Nat) (thu : Thread L), s[u]? = some thu → l ∉ thu.held := fun u thu hu =>
      ho thu (List.mem_of_getElem? hu)
    constructor
    · intro u v thu thv l' hu hv hlu hlv
      rcases getElem?_set_cases hu with ⟨rfl, rfl⟩ | ⟨hut, hu'⟩
      · rcases getElem?_set_cases hv with ⟨rfl, _⟩ | ⟨hvt, hv'⟩
        · rfl
        · rcases List.mem_cons.1 hlu with rfl | hlu'
          · exact absurd hlv (hfree v thv hv')
          · exact hm _ _ _ _ _ hth hv' hlu' hlv
      · rcases getElem?_set_cases hv with ⟨rfl, rfl⟩ | ⟨hvt, hv'⟩
        · rcases List.mem_cons.1 hlv with rfl | hlv'
          · exact absurd hlu (hfree u thu hu')
          · exact hm _ _ _ _ _ hu' hth hlu hlv'
        · exact hm _ _ _ _ _ hu' hv' hlu hlv
    · intro u thu hu
      rcases getElem?_set_cases hu with ⟨rfl, rfl⟩ | ⟨_, hu'⟩
      · exact List.nodup_cons.2 ⟨hfree _ th hth, hn _ th hth⟩
      · exact hn u thu hu'
  · constructor
    · intro u v thu thv l' hu hv hlu hlv
      rcases getElem?_set_cases hu with ⟨rfl, rfl⟩ | ⟨hut, hu'⟩
      · rcases getElem?_set_cases hv with ⟨rfl, _⟩ | ⟨hvt, hv'⟩
        · rfl
        · exact hm _ _ _ _ _ hth hv' (List.mem_of_mem_erase hlu) hlv
      · rcases getElem?_set_cases hv with ⟨rfl, rfl⟩ | ⟨hvt, hv'⟩
        · exact hm _ _ _ _ _ hu' hth hlu (List.mem_of_mem_erase hlv)
        · exact hm _ _ _ _ _ hu' hv' hlu hlv
    · intro u thu hu
      rcases getElem?_set_cases hu with ⟨rfl, rfl⟩ | ⟨_, hu'⟩
      · exact (hn _ th hth).erase _
      · exact hn u thu hu'

theorem start_getElem? {progs : List (List (Op L))} {u : Nat} {th : Thread L}
    (h : (start progs)[u]? = some th) : ∃ p, progs[u]? = some p ∧ th = ⟨p, []⟩ := by
  simp only [start, List.getElem?_map] at h
  cases hp : progs[u]? with
  | none => simp [hp] at h
  | some p =>
    simp [hp] at h
    exact ⟨p, rfl, h.symm⟩

end Rfsm.Locks
