import Rfsm.Proofs.ExprFuel
/-!
The parser model never reports `livelock` (`parse_no_livelock`).  Every lexer function returns a
suffix of its input, and an operator token always consumes at least its first character
(`readOperator_shrinks`, `nextToken_stuck`) — since the repair of `read_operator`, which used to
un-read at the end of the text and re-deliver a trailing `<`, `>`, `=` or `!` for ever.
-/
namespace Rfsm.Expr

theorem eatSpace_suffix (s : Str) : eatSpace s <:+ s := by
  induction s with
  | nil => exact List.suffix_refl _
  | cons c rest ih =>
    simp only [eatSpace]
    split
    · exact List.IsSuffix.trans ih (List.suffix_cons _ _)
    · exact List.suffix_refl _

theorem suffix_cons_of_suffix {α} {a : List α} {b : List α} (x : α) (h : a <:+ b) : a <:+ x :: b :=
  List.IsSuffix.trans h (List.suffix_cons _ _)

theorem readString_suffix (d : Ch) (m : SMode) (s acc : Str) : (readString d m s acc).2 <:+ s := by
  induction s generalizing m acc with
  | nil => cases m <;> simp [readString]
  | cons c rest ih =>
    cases m with
    | normal =>
      simp only [readString]
      repeat' split
      all_goals first
        | exact List.suffix_cons _ _
        | exact suffix_cons_of_suffix _ (ih _ _)
    | esc =>
      simp only [readString]
      repeat' split
      all_goals first
        | exact List.suffix_cons _ _
        | exact suffix_cons_of_suffix _ (ih _ _)
    | uni left val =>
      simp only [readString]
      repeat' split
      all_goals first
        | exact List.suffix_cons _ _
        | exact suffix_cons_of_suffix _ (ih _ _)

theorem readNumber_suffix (st : Nat) (s acc : Str) : (readNumber st s acc).2 <:+ s := by
  induction s generalizing st acc with
  | nil => simp [readNumber]
  | cons c rest ih =>
    simp only [readNumber]
    repeat' split
    all_goals first
      | exact List.suffix_refl _
      | exact List.suffix_cons _ _
      | exact suffix_cons_of_suffix _ (ih _ _)

theorem readOperator_suffix (first : Ch) (rest : Str) :
    (readOperator first rest).2 <:+ first :: rest := by
  cases rest with
  | nil =>
    simp only [readOperator]
    repeat' split
    all_goals first
      | exact List.suffix_cons _ _
      | (rw [opSingle_snd]; exact List.nil_suffix)
  | cons s r =>
    simp only [readOperator]
    repeat' split
    all_goals first
      | exact List.suffix_cons _ _
      | (rw [opSingle_snd]; exact List.suffix_cons _ _)
      | (rw [opSingle_snd]; exact List.nil_suffix)
      | (rw [opDouble_snd]; exact suffix_cons_of_suffix _ (List.suffix_cons _ _))

/-- `read_operator` always consumes `first` -/
theorem readOperator_shrinks (first : Ch) (rest : Str) :
    (readOperator first rest).2.length ≤ rest.length := by
  cases rest with
  | nil =>
    simp only [readOperator]
    repeat' split
    all_goals simp [opSingle_snd]
  | cons s r =>
    simp only [readOperator]
    repeat' split
    all_goals simp [opSingle_snd, opDouble_snd]

theorem stopToken_suffix (stops : List Ch) (c : Ch) (rest : Str) :
    (stopToken stops c rest).2 <:+ c :: rest := by
  unfold stopToken
  repeat' split
  all_goals first
    | exact List.suffix_cons _ _
    | exact suffix_cons_of_suffix _ (readString_suffix _ _ _ _)
    | exact readOperator_suffix _ _

theorem readWord_suffix (stops : List Ch) (s acc : Str) : (readWord stops s acc).2 <:+ s := by
  induction s generalizing acc with
  | nil =>
    rw [readWord]
    repeat' split
    all_goals exact List.suffix_refl _
  | cons c rest ih =>
    rw [readWord]
    split
    · split
      · exact stopToken_suffix _ _ _
      · split
        · exact List.suffix_cons _ _
        · exact List.suffix_refl _
    · exact suffix_cons_of_suffix _ (ih _)

theorem nextToken_suffix (stops : List Ch) (inp : Str) : (nextToken stops inp).2 <:+ inp := by
  have h := eatSpace_suffix inp
  unfold nextToken
  split
  · exact List.IsSuffix.trans (readWord_suffix _ _ _) List.nil_suffix
  · rename_i c rest heq
    rw [heq] at h
    split
    · exact List.IsSuffix.trans (readNumber_suffix _ _ _) h
    · exact List.IsSuffix.trans (readWord_suffix _ _ _) h

theorem classifyWord_not_operator (buf : Str) : (classifyWord buf).isOperator = false := by
  unfold classifyWord
  repeat' split
  all_goals rfl

theorem readString_not_operator (d : Ch) (m : SMode) (s acc : Str) :
    (readString d m s acc).1.isOperator = false := by
  induction s generalizing m acc with
  | nil => cases m <;> simp [readString, Token.isOperator]
  | cons c rest ih =>
    cases m <;> simp only [readString] <;> (repeat' split) <;>
      first | rfl | exact ih _ _

theorem readWord_acc_not_operator (stops : List Ch) (s acc : Str) (h : acc ≠ []) :
    (readWord stops s acc).1.isOperator = false := by
  induction s generalizing acc with
  | nil =>
    rw [readWord]
    have : acc.isEmpty = false := by cases acc <;> simp_all
    simp only [this, Bool.false_eq_true, if_false]
    exact classifyWord_not_operator _
  | cons c rest ih =>
    rw [readWord]
    have : acc.isEmpty = false := by cases acc <;> simp_all
    split
    · simp only [this, Bool.false_eq_true, if_false]
      exact classifyWord_not_operator _
    · exact ih (c :: acc) (by simp)

/-- there is no operator token that consumes nothing -/
theorem nextToken_stuck (stops : List Ch) (inp : Str)
    (hop : (nextToken stops inp).1.isOperator = true)
    (hlen : inp.length ≤ (nextToken stops inp).2.length) : False := by
  have hs := eatSpace_length inp
  unfold nextToken at hop hlen
  split at hop
  · rename_i heq
    rw [readWord] at hop
    simp only [List.isEmpty_nil, if_true] at hop
    split at hop <;> simp [Token.isOperator] at hop
  · rename_i c rest heq
    rw [heq] at hs
    simp only [List.length_cons] at hs
    simp only [heq] at hlen
    split at hop
    · rename_i hc
      simp only [hc, if_true] at hlen
      have := readNumber_start c rest hc
      omega
    · rename_i hc
      simp only [hc, Bool.false_eq_true, if_false] at hlen
      rw [readWord] at hop hlen
      split at hop
      · rename_i hstop
        simp only [hstop, if_true, List.isEmpty_nil] at hop hlen
        unfold stopToken at hop hlen
        split at hop
        · rw [readString_not_operator] at hop; cases hop
        · split at hop
          · simp [Token.isOperator] at hop
          · split at hop
            · simp [Token.isOperator] at hop
            · split at hop
              · -- read_operator
                rename_i h1 h2 h3 h4
                simp only [h1, h2, h3, h4, Bool.false_eq_true, if_false, if_true] at hlen
                have := readOperator_shrinks c rest
                omega
              · repeat' split at hop
                all_goals simp [Token.isOperator] at hop
      · rename_i hstop
        rw [readWord_acc_not_operator _ _ _ (by simp)] at hop
        cases hop

def SubLL (inp : Str) (r : PRes (Ch × Option Expr × Str)) : Prop :=
  r ≠ .livelock ∧ ∀ stop e rest, r = .ok (stop, e, rest) → rest <:+ inp

def ListLL {α : Type} (inp : Str) (r : PRes (α × Str)) : Prop :=
  r ≠ .livelock ∧ ∀ v rest, r = .ok (v, rest) → rest <:+ inp

theorem SubLL_mono {inp' inp : Str} {r : PRes (Ch × Option Expr × Str)} (hs : inp' <:+ inp)
    (h : SubLL inp' r) : SubLL inp r :=
  ⟨h.1, fun a b c hr => (h.2 a b c hr).trans hs⟩

theorem ListLL_mono {α : Type} {inp' inp : Str} {r : PRes (α × Str)} (hs : inp' <:+ inp)
    (h : ListLL inp' r) : ListLL inp r :=
  ⟨h.1, fun a b hr => (h.2 a b hr).trans hs⟩

theorem SubLL_err (inp : Str) (e : PErr) : SubLL inp (.err e) :=
  ⟨(by intro h; cases h), (by intro _ _ _ h; cases h)⟩
theorem SubLL_panic (inp : Str) : SubLL inp .panic :=
  ⟨(by intro h; cases h), (by intro _ _ _ h; cases h)⟩
theorem SubLL_fuel (inp : Str) : SubLL inp .outOfFuel :=
  ⟨(by intro h; cases h), (by intro _ _ _ h; cases h)⟩
theorem ListLL_err {α : Type} (inp : Str) (e : PErr) : ListLL (α := α) inp (.err e) :=
  ⟨(by intro h; cases h), (by intro _ _ h; cases h)⟩
theorem ListLL_panic {α : Type} (inp : Str) : ListLL (α := α) inp .panic :=
  ⟨(by intro h; cases h), (by intro _ _ h; cases h)⟩
theorem ListLL_fuel {α : Type} (inp : Str) : ListLL (α := α) inp .outOfFuel :=
  ⟨(by intro h; cases h), (by intro _ _ h; cases h)⟩
theorem ListLL_ok {α : Type} (inp : Str) (v : α) (rest : Str) (h : rest <:+ inp) :
    ListLL inp (.ok (v, rest)) :=
  ⟨(by intro h; cases h), (by intro _ _ h'; cases h'; exact h)⟩

theorem SubLL_finishSub (inp : Str) (stop : Ch) (rest : Str) (exprs : List Expr) (stack : List Item)
    (h1 : rest <:+ inp) : SubLL inp (finishSub stop rest exprs stack) := by
  unfold finishSub
  split
  · exact SubLL_panic _
  · exact SubLL_fuel _
  · exact SubLL_err _ _
  · split
    · rename_i e stack' _ _
      obtain ⟨e', he⟩ := wrapExprs_ok stop rest (addOpt exprs e)
      rw [he]
      refine ⟨(by intro h; cases h), ?_⟩
      intro s e2 r2 h
      cases h
      exact h1
    · exact SubLL_err _ _

/-- no parser function reports a livelock; what the functions leave is a suffix of their input -/
theorem parser_livelock (fuel : Nat) :
    (∀ stops inp exprs stack, SubLL inp (parseSub fuel stops inp exprs stack)) ∧
    (∀ stop inp acc, ListLL inp (parseArgs fuel stop inp acc)) ∧
    (∀ stop inp acc, ListLL inp (parseMembers fuel stop inp acc)) := by
  induction fuel with
  | zero =>
    refine ⟨?_, ?_, ?_⟩
    · intro _ inp _ _; rw [parseSub]; exact SubLL_fuel _
    · intro _ inp _; rw [parseArgs]; exact ListLL_fuel _
    · intro _ inp _; rw [parseMembers]; exact ListLL_fuel _
  | succ fuel ih =>
    obtain ⟨ihS, ihA, ihM⟩ := ih
    refine ⟨?_, ?_, ?_⟩
    · intro stops inp exprs stack
      have hsuf := nextToken_suffix stops inp
      have hstuck := nextToken_stuck stops inp
      rw [parseSub]
      cases hnt : nextToken stops inp with
      | mk t rest =>
        rw [hnt] at hsuf hstuck
        simp only at hsuf hstuck
        cases t with
        | eoe => exact SubLL_finishSub _ _ _ _ _ hsuf
        | error e => exact SubLL_err _ _
        | null => exact SubLL_mono hsuf (ihS _ _ _ _)
        | tstring s => exact SubLL_mono hsuf (ihS _ _ _ _)
        | boolean b => exact SubLL_mono hsuf (ihS _ _ _ _)
        | int i => exact SubLL_mono hsuf (ihS _ _ _ _)
        | dbl d => exact SubLL_mono hsuf (ihS _ _ _ _)
        | identifier id => exact SubLL_mono hsuf (ihS _ _ _ _)
        | operator o =>
          simp only
          split
          · rename_i hlen
            exact (hstuck rfl hlen).elim
          · exact SubLL_mono hsuf (ihS _ _ _ _)
        | exprSep =>
          simp only
          split
          · exact SubLL_panic _
          · exact SubLL_fuel _
          · exact SubLL_err _ _
          · split
            · exact SubLL_mono hsuf (ihS _ _ _ _)
            · exact SubLL_err _ _
        | separator sep =>
          simp only
          split
          · exact SubLL_finishSub _ _ _ _ _ hsuf
          · split
            · exact SubLL_mono hsuf (ihS _ _ _ _)
            · exact SubLL_mono hsuf (ihS _ _ _ _)
        | bracket br =>
          simp only
          repeat' split
          all_goals first
            | exact SubLL_err _ _
            | exact SubLL_panic _
            | exact SubLL_fuel _
            | exact SubLL_finishSub _ _ _ _ _ hsuf
            | exact SubLL_mono hsuf (ihS _ _ _ _)
            | (rename_i heq
               have h1 := (ihS _ _ _ _).2 _ _ _ heq
               exact SubLL_mono (h1.trans hsuf) (ihS _ _ _ _))
            | (rename_i heq
               have h1 := (ihA _ _ _).2 _ _ heq
               exact SubLL_mono (h1.trans hsuf) (ihS _ _ _ _))
            | (rename_i heq
               have h1 := (ihM _ _ _).2 _ _ heq
               exact SubLL_mono (h1.trans hsuf) (ihS _ _ _ _))
            | (rename_i heq
               exact ⟨fun _ => (ihS _ _ _ _).1 heq, by intro _ _ _ h; cases h⟩)
            | (rename_i heq
               exact ⟨fun _ => (ihA _ _ _).1 heq, by intro _ _ _ h; cases h⟩)
            | (rename_i heq
               exact ⟨fun _ => (ihM _ _ _).1 heq, by intro _ _ _ h; cases h⟩)
    · intro stop inp acc
      rw [parseArgs]
      split
      · rename_i rest heq
        have h1 := (ihS _ _ _ _).2 _ _ _ heq
        split
        · exact ListLL_ok _ _ _ h1
        · exact ListLL_err _ _
      · rename_i stopc e rest heq
        have h1 := (ihS _ _ _ _).2 _ _ _ heq
        split
        · exact ListLL_ok _ _ _ h1
        · split
          · exact ListLL_err _ _
          · exact ListLL_mono h1 (ihA _ _ _)
      · exact ListLL_err _ _
      · exact ListLL_panic _
      · rename_i heq
        exact ⟨fun _ => (ihS _ _ _ _).1 heq, by intro _ _ h; cases h⟩
      · exact ListLL_fuel _
    · intro stop inp acc
      rw [parseMembers]
      split
      · rename_i rest heq
        have h1 := (ihS _ _ _ _).2 _ _ _ heq
        split
        · exact ListLL_ok _ _ _ h1
        · exact ListLL_err _ _
      · rename_i k rest heq
        have h1 := (ihS _ _ _ _).2 _ _ _ heq
        split
        · exact ListLL_err _ _
        · rename_i stopv v rest' heq2
          have h2 := (ihS _ _ _ _).2 _ _ _ heq2
          split
          · exact ListLL_ok _ _ _ (h2.trans h1)
          · split
            · exact ListLL_err _ _
            · exact ListLL_mono (h2.trans h1) (ihM _ _ _)
        · exact ListLL_err _ _
        · exact ListLL_panic _
        · rename_i heq2
          exact ⟨fun _ => (ihS _ _ _ _).1 heq2, by intro _ _ h; cases h⟩
        · exact ListLL_fuel _
      · exact ListLL_err _ _
      · exact ListLL_panic _
      · rename_i heq
        exact ⟨fun _ => (ihS _ _ _ _).1 heq, by intro _ _ h; cases h⟩
      · exact ListLL_fuel _

/-- `parse` never livelocks -/
theorem parse_no_livelock (text : Str) : parse text ≠ .livelock := by
  intro h
  unfold parse at h
  have := (parser_livelock (parseFuel text)).1 [0] text [] []
  split at h
  all_goals first
    | (cases h; done)
    | (rename_i heq; exact this.1 heq)

end Rfsm.Expr
