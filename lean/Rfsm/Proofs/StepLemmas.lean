import Rfsm.Proofs.SessLemmas
/-! How exit, entry and microstep change the configuration and what they leave alone (M-INT). -/
namespace Rfsm.Interp

variable {σ : Type}

/-- parts of a session only the interpreter itself (never content) changes -/
structure Kept (s s' : Sess σ) : Prop where
  cfg : s'.cfg = s.cfg
  hv : s'.hv = s.hv
  running : s'.running = s.running
  toInvoke : s'.toInvoke = s.toInvoke
  entered : s'.entered = s.entered

theorem Kept.rfl' (s : Sess σ) : Kept s s := ⟨rfl, rfl, rfl, rfl, rfl⟩

theorem Kept.trans {a b c : Sess σ} (h1 : Kept a b) (h2 : Kept b c) : Kept a c :=
  ⟨h2.cfg.trans h1.cfg, h2.hv.trans h1.hv, h2.running.trans h1.running,
   h2.toInvoke.trans h1.toInvoke, h2.entered.trans h1.entered⟩

theorem kept_absorb (s : Sess σ) (o : ExecOut σ) : Kept s (s.absorb o) := ⟨rfl, rfl, rfl, rfl, rfl⟩
theorem kept_emit (s : Sess σ) (o : List Obs) : Kept s (s.emit o) := ⟨rfl, rfl, rfl, rfl, rfl⟩

theorem kept_of_sameCore {s s' : Sess σ} (h : SameCore s s') : Kept s s' :=
  ⟨h.1, h.2.1, h.2.2.1, h.2.2.2.1, h.2.2.2.2.1⟩

theorem runContent_kept (env : Env σ) (s : Sess σ) (c : Nat) : Kept s (runContent env s c) := by
  unfold runContent
  simp only
  split
  · exact kept_emit _ _
  · exact (kept_emit s _).trans (kept_absorb _ _)

theorem foldl_runContent_kept (env : Env σ) : ∀ (l : List Nat) (s : Sess σ), Kept s (l.foldl (runContent env) s) := by
  intro l
  induction l with
  | nil => intro s; exact Kept.rfl' s
  | cons c l ih => intro s; exact (runContent_kept env s c).trans (ih _)

theorem cancelChildren_kept (d : Doc) (s : Sess σ) (sid : Nat) : Kept s (cancelChildren d s sid) := by
  unfold cancelChildren
  simp only
  have : ∀ (hit : List Child) (s0 : Sess σ), Kept s0 (hit.foldl cancelOne s0) := by
    intro hit
    induction hit with
    | nil => intro s0; exact Kept.rfl' s0
    | cons c l ih =>
      intro s0
      simp only [List.foldl_cons]
      exact (⟨rfl, rfl, rfl, rfl, rfl⟩ : Kept s0 (cancelOne s0 c)).trans (ih _)
  exact this _ s

/-! ### exit -/

theorem exitOne_cfg (env : Env σ) (d : Doc) (s : Sess σ) (sid : Nat) :
    (exitOne env d s sid).cfg = odel s.cfg sid ∧ (exitOne env d s sid).hv = s.hv ∧
    (exitOne env d s sid).running = s.running ∧ (exitOne env d s sid).toInvoke = s.toInvoke ∧
    (exitOne env d s sid).entered = s.entered := by
  unfold exitOne
  simp only
  have h := ((kept_emit s [.exit sid]).trans (cancelChildren_kept d _ sid)).trans
    (foldl_runContent_kept env (getState d sid).onexit _)
  exact ⟨by rw [h.cfg], h.hv, h.running, h.toInvoke, h.entered⟩

theorem foldl_exitOne (env : Env σ) (d : Doc) : ∀ (l : List Nat) (s : Sess σ),
    (l.foldl (exitOne env d) s).cfg = l.foldl odel s.cfg ∧ (l.foldl (exitOne env d) s).hv = s.hv ∧
    (l.foldl (exitOne env d) s).running = s.running ∧ (l.foldl (exitOne env d) s).toInvoke = s.toInvoke ∧
    (l.foldl (exitOne env d) s).entered = s.entered := by
  intro l
  induction l with
  | nil => intro s; simp
  | cons a l ih =>
    intro s
    obtain ⟨h1, h2, h3, h4, h5⟩ := exitOne_cfg env d s a
    obtain ⟨i1, i2, i3, i4, i5⟩ := ih (exitOne env d s a)
    simp only [List.foldl_cons]
    exact ⟨by rw [i1, h1], by rw [i2, h2], by rw [i3, h3], by rw [i4, h4], by rw [i5, h5]⟩

/-- `exitStates`: the configuration loses exactly the exit set; the history table is the recorded
    one; `running` and first-entry flags are untouched -/
theorem exitStates_spec (env : Env σ) (d : Doc) (s : Sess σ) (ts : List Nat) :
    (∀ x, x ∈ (exitStates env d s ts).cfg ↔ x ∈ s.cfg ∧ x ∉ computeExitSet d s.hv s.cfg ts) ∧
    (exitStates env d s ts).hv = (exitPrepare d s ts).hv ∧
    (exitStates env d s ts).running = s.running ∧
    (exitStates env d s ts).entered = s.entered ∧
    (s.cfg.Nodup → (exitStates env d s ts).cfg.Nodup) := by
  unfold exitStates
  obtain ⟨h1, h2, h3, _, h5⟩ := foldl_exitOne env d (sortByDesc (docIdOf d) (computeExitSet d s.hv s.cfg ts))
    (exitPrepare d s ts)
  have hc : (exitPrepare d s ts).cfg = s.cfg := rfl
  refine ⟨?_, h2, h3, h5, ?_⟩
  · intro x
    rw [h1, hc]
    simp only [mem_foldl_odel, mem_sortByDesc]
  · intro hn
    rw [h1, hc]
    have : ∀ (l c : List Nat), c.Nodup → (l.foldl odel c).Nodup := by
      intro l
      induction l with
      | nil => intro c h; simpa
      | cons a l ih => intro c h; exact ih _ (nodup_odel h)
    exact this _ _ hn

theorem executeTransitionContent_kept (env : Env σ) (d : Doc) : ∀ (ts : List Nat) (s : Sess σ),
    Kept s (executeTransitionContent env d s ts) := by
  intro ts
  unfold executeTransitionContent
  induction ts with
  | nil => intro s; exact Kept.rfl' s
  | cons t ts ih =>
    intro s
    simp only [List.foldl_cons]
    split
    · exact (runContent_kept env s _).trans (ih _)
    · exact ih s

/-! ### entry -/

theorem enterAdd_cfg (s : Sess σ) (sid : Nat) :
    (enterAdd s sid).cfg = oadd s.cfg sid ∧ (enterAdd s sid).hv = s.hv ∧
    (enterAdd s sid).running = s.running ∧ (enterAdd s sid).entered = s.entered := ⟨rfl, rfl, rfl, rfl⟩

theorem enterInit_cfg (env : Env σ) (d : Doc) (s : Sess σ) (sid : Nat) :
    (enterInit env d s sid).cfg = s.cfg ∧ (enterInit env d s sid).hv = s.hv ∧
    (enterInit env d s sid).running = s.running := by
  unfold enterInit
  split <;> exact ⟨rfl, rfl, rfl⟩

theorem enterFinal_cfg (env : Env σ) (d : Doc) (s : Sess σ) (sid : Nat) :
    (enterFinal env d s sid).cfg = s.cfg ∧ (enterFinal env d s sid).hv = s.hv := by
  unfold enterFinal
  simp only
  split
  · split
    · exact ⟨rfl, rfl⟩
    · split <;> exact ⟨rfl, rfl⟩
  · exact ⟨rfl, rfl⟩

theorem enterOne_cfg (env : Env σ) (d : Doc) (acc : EntryAcc) (s : Sess σ) (sid : Nat) :
    (enterOne env d acc s sid).cfg = oadd s.cfg sid ∧ (enterOne env d acc s sid).hv = s.hv := by
  unfold enterOne
  have h1 := enterFinal_cfg env d ((entryContent d acc sid).foldl (runContent env) (enterInit env d (enterAdd s sid) sid)) sid
  have h2 := foldl_runContent_kept env (entryContent d acc sid) (enterInit env d (enterAdd s sid) sid)
  have h3 := enterInit_cfg env d (enterAdd s sid) sid
  refine ⟨?_, ?_⟩
  · rw [h1.1, h2.cfg, h3.1]; rfl
  · rw [h1.2, h2.hv, h3.2.1]; rfl

theorem foldl_enterOne_cfg (env : Env σ) (d : Doc) (acc : EntryAcc) : ∀ (l : List Nat) (s : Sess σ),
    (l.foldl (enterOne env d acc) s).cfg = l.foldl oadd s.cfg ∧ (l.foldl (enterOne env d acc) s).hv = s.hv := by
  intro l
  induction l with
  | nil => intro s; simp
  | cons a l ih =>
    intro s
    obtain ⟨h1, h2⟩ := enterOne_cfg env d acc s a
    obtain ⟨i1, i2⟩ := ih (enterOne env d acc s a)
    simp only [List.foldl_cons]
    exact ⟨by rw [i1, h1], by rw [i2, h2]⟩

/-- `enterStates`: the configuration gains exactly the entry set; the history table is untouched -/
theorem enterStates_spec (env : Env σ) (d : Doc) (s : Sess σ) (ts : List Nat) :
    (∀ x, x ∈ (enterStates env d s ts).cfg ↔ x ∈ s.cfg ∨ x ∈ (computeEntrySet d s.hv ts).toEnter) ∧
    (enterStates env d s ts).hv = s.hv ∧
    (s.cfg.Nodup → (enterStates env d s ts).cfg.Nodup) := by
  unfold enterStates
  simp only
  obtain ⟨h1, h2⟩ := foldl_enterOne_cfg env d (computeEntrySet d s.hv ts)
    (sortBy (docIdOf d) (computeEntrySet d s.hv ts).toEnter) s
  refine ⟨?_, h2, ?_⟩
  · intro x
    rw [h1, mem_foldl_oadd, mem_sortBy]
  · intro hn
    rw [h1]
    exact nodup_foldl_oadd hn

end Rfsm.Interp
