import Rfsm.Proofs.SessLemmas
/-!
Lemmas towards the declarative optimal transition set of C02 (M-INT):

* with pure guards, `selectLoop` is a fold of "first candidate whose guard holds" over the atomic
  states (`selectLoop_pure`), hence the enabled list consists exactly of those first candidates
  (`mem_pickFold`);
* the fold of `rcStep` (= `removeConflictingTransitions`) loses an enabled transition only to a
  *different* enabled transition it conflicts with (`rc_fold_absent`).
-/
namespace Rfsm.Interp

variable {σ : Type}

/-- what one atomic state contributes to the enabled list when guards are pure -/
def pickStep (env : Env σ) (d : Doc) (ev : Option Descriptor.Str) (dm : σ) (cfg : List Nat)
    (acc : List Nat) (a : Nat) : List Nat :=
  match (candidates d ev a).find? (guardHolds env d dm cfg) with
  | some t => oadd acc t
  | none => acc

theorem selectLoop_pure (env : Env σ) (hp : GuardsPure env) (d : Doc) (ev : Option Descriptor.Str) :
    ∀ (as : List Nat) (s : Sess σ) (acc : List Nat),
      (selectLoop env d ev s as acc).2 = as.foldl (pickStep env d ev s.dm s.cfg) acc := by
  intro as
  induction as with
  | nil => intro s acc; simp [selectLoop]
  | cons a as ih =>
    intro s acc
    have hf := firstEnabled_eq_find env hp d (candidates d ev a) s
    have hc := (firstEnabled_sameCore env d (candidates d ev a) s).1
    unfold selectLoop
    simp only [List.foldl_cons]
    split
    · rename_i s' t heq
      rw [heq] at hf hc
      simp only at hf hc
      rw [ih s' _, hf.2, hc]
      simp only [pickStep, ← hf.1]
    · rename_i s' heq
      rw [heq] at hf hc
      simp only at hf hc
      rw [ih s' _, hf.2, hc]
      simp only [pickStep, ← hf.1]

theorem pickFold_nodup (env : Env σ) (d : Doc) (ev : Option Descriptor.Str) (dm : σ) (cfg : List Nat) :
    ∀ (as acc : List Nat), acc.Nodup → (as.foldl (pickStep env d ev dm cfg) acc).Nodup := by
  intro as
  induction as with
  | nil => intro acc h; simpa
  | cons a as ih =>
    intro acc h
    simp only [List.foldl_cons]
    apply ih
    unfold pickStep
    split
    · exact nodup_oadd h
    · exact h

theorem mem_pickFold (env : Env σ) (d : Doc) (ev : Option Descriptor.Str) (dm : σ) (cfg : List Nat) :
    ∀ (as acc : List Nat) (t : Nat),
      t ∈ as.foldl (pickStep env d ev dm cfg) acc ↔
      t ∈ acc ∨ ∃ a ∈ as, (candidates d ev a).find? (guardHolds env d dm cfg) = some t := by
  intro as
  induction as with
  | nil => intro acc t; simp
  | cons a as ih =>
    intro acc t
    simp only [List.foldl_cons]
    rw [ih]
    unfold pickStep
    constructor
    · rintro (h | ⟨b, hb, hf⟩)
      · split at h
        · rename_i u hu
          rcases mem_oadd.1 h with h | rfl
          · exact Or.inl h
          · exact Or.inr ⟨a, List.mem_cons_self, hu⟩
        · exact Or.inl h
      · exact Or.inr ⟨b, List.mem_cons_of_mem _ hb, hf⟩
    · rintro (h | ⟨b, hb, hf⟩)
      · left
        split
        · exact mem_oadd.2 (Or.inl h)
        · exact h
      · rcases List.mem_cons.1 hb with rfl | hb
        · left
          rw [hf]
          exact mem_oadd.2 (Or.inr rfl)
        · exact Or.inr ⟨b, hb, hf⟩

/-- members of the scan's removal set come from `toRemove` or conflict with `t1` -/
theorem scan_members_conflict (d : Doc) (hv : Table) (cfg : List Nat) (t1 : Nat) :
    ∀ (filtered tr r : List Nat), removeConflicting.scan d hv cfg t1 filtered tr = some r →
      ∀ x ∈ r, x ∈ tr ∨ (x ∈ filtered ∧ conflict d hv cfg t1 x = true) := by
  intro filtered
  induction filtered with
  | nil => intro tr r hs x hx; simp [removeConflicting.scan] at hs; subst hs; exact Or.inl hx
  | cons a rest ih =>
    intro tr r hs x hx
    unfold removeConflicting.scan at hs
    by_cases hca : hasIntersection (computeExitSet d hv cfg [t1]) (computeExitSet d hv cfg [a]) = true
    · rw [if_pos hca] at hs
      by_cases hda : isDescendant d (getTrans d t1).source (getTrans d a).source = true
      · rw [if_pos hda] at hs
        rcases ih _ _ hs x hx with h | ⟨h, h'⟩
        · rcases mem_oadd.1 h with h | rfl
          · exact Or.inl h
          · exact Or.inr ⟨List.mem_cons_self, hca⟩
        · exact Or.inr ⟨List.mem_cons_of_mem _ h, h'⟩
      · rw [if_neg hda] at hs; cases hs
    · rw [if_neg hca] at hs
      rcases ih _ _ hs x hx with h | ⟨h, h'⟩
      · exact Or.inl h
      · exact Or.inr ⟨List.mem_cons_of_mem _ h, h'⟩

/-- a kept transition disappears in a filter step only if the step's transition conflicts with it -/
theorem rcStep_removed {d : Doc} {hv : Table} {cfg filtered : List Nat} {t1 t : Nat}
    (ht : t ∈ filtered) (hn : t ∉ rcStep d hv cfg filtered t1) : conflict d hv cfg t1 t = true := by
  unfold rcStep at hn
  cases hs : removeConflicting.scan d hv cfg t1 filtered [] with
  | none => rw [hs] at hn; exact absurd ht hn
  | some r =>
    rw [hs] at hn
    simp only at hn
    have hr : t ∈ r := by
      apply Classical.byContradiction
      intro hnr
      exact hn (mem_oadd.2 (Or.inl (mem_foldl_odel.2 ⟨ht, hnr⟩)))
    rcases scan_members_conflict d hv cfg t1 filtered [] r hs t hr with h | ⟨_, h⟩
    · cases h
    · exact h

/-- the step's own transition is kept unless a kept transition conflicts with it -/
theorem rcStep_self {d : Doc} {hv : Table} {cfg filtered : List Nat} {t1 : Nat} :
    t1 ∈ rcStep d hv cfg filtered t1 ∨ ∃ t2 ∈ filtered, conflict d hv cfg t1 t2 = true := by
  unfold rcStep
  cases hs : removeConflicting.scan d hv cfg t1 filtered [] with
  | none =>
    obtain ⟨t2, h2, hc, _⟩ := (scan_none_iff d hv cfg t1 filtered []).1 hs
    exact Or.inr ⟨t2, h2, hc⟩
  | some r => exact Or.inl (mem_oadd.2 (Or.inr rfl))

/-- Invariant of the filter fold: every transition seen so far is still kept or conflicts with a
    *different* transition seen so far. -/
theorem rc_fold_absent (d : Doc) (hv : Table) (cfg : List Nat) :
    ∀ (l acc seen : List Nat), (∀ x ∈ acc, x ∈ seen) → (seen ++ l).Nodup →
      (∀ t ∈ seen, t ∈ acc ∨ ∃ t' ∈ seen, t' ≠ t ∧ conflict d hv cfg t t' = true) →
      ∀ t ∈ seen ++ l, t ∈ l.foldl (rcStep d hv cfg) acc ∨
        ∃ t' ∈ seen ++ l, t' ≠ t ∧ conflict d hv cfg t t' = true := by
  intro l
  induction l with
  | nil => intro acc seen _ _ hinv t ht; simpa using hinv t (by simpa using ht)
  | cons a l ih =>
    intro acc seen hsub hnd hinv t ht
    have hnd' : ((seen ++ [a]) ++ l).Nodup := by simpa [List.append_assoc] using hnd
    have ha_notin : a ∉ seen := by
      intro h
      have := (List.nodup_append.1 hnd).2.2 a h a (List.mem_cons_self)
      exact this rfl
    have hsub' : ∀ x ∈ rcStep d hv cfg acc a, x ∈ seen ++ [a] := by
      intro x hx
      rcases rcStep_subset hx with h | h
      · exact List.mem_append_left _ (hsub x h)
      · simp [h]
    have hinv' : ∀ t ∈ seen ++ [a], t ∈ rcStep d hv cfg acc a ∨
        ∃ t' ∈ seen ++ [a], t' ≠ t ∧ conflict d hv cfg t t' = true := by
      intro t ht
      rcases List.mem_append.1 ht with hts | hta
      · rcases hinv t hts with h | ⟨t', ht', hne, hc⟩
        · by_cases hk : t ∈ rcStep d hv cfg acc a
          · exact Or.inl hk
          · right
            refine ⟨a, by simp, ?_, ?_⟩
            · intro h; subst h; exact ha_notin hts
            · rw [conflict_comm]; exact rcStep_removed h hk
        · exact Or.inr ⟨t', List.mem_append_left _ ht', hne, hc⟩
      · have hta : t = a := by simpa using hta
        subst hta
        rcases rcStep_self (d := d) (hv := hv) (cfg := cfg) (filtered := acc) (t1 := t) with h | ⟨t2, h2, hc⟩
        · exact Or.inl h
        · right
          refine ⟨t2, List.mem_append_left _ (hsub t2 h2), ?_, hc⟩
          intro h; subst h; exact ha_notin (hsub _ h2)
    have := ih (rcStep d hv cfg acc a) (seen ++ [a]) hsub' hnd' hinv' t (by simpa [List.append_assoc] using ht)
    simpa [List.append_assoc] using this

/-- `removeConflictingTransitions` drops an enabled transition only in favour of a different
    enabled transition that conflicts with it. -/
theorem removeConflicting_absent (d : Doc) (hv : Table) (cfg enabled : List Nat) (hnd : enabled.Nodup) :
    ∀ t ∈ enabled, t ∈ removeConflicting d hv cfg enabled ∨
      ∃ t' ∈ enabled, t' ≠ t ∧ conflict d hv cfg t t' = true := by
  intro t ht
  have := rc_fold_absent d hv cfg enabled [] [] (by simp) (by simpa using hnd) (by simp) t (by simpa using ht)
  simpa [removeConflicting_eq] using this

/-- the enabled list of a selection (before conflict removal) -/
def enabledList (env : Env σ) (d : Doc) (ev : Option Descriptor.Str) (s : Sess σ) : List Nat :=
  (selectLoop env d ev s (atomicStates d s.cfg) []).2

theorem select_eq_removeConflicting (env : Env σ) (d : Doc) (ev : Option Descriptor.Str) (s : Sess σ) :
    (select env d ev s).2 = removeConflicting d s.hv s.cfg (enabledList env d ev s) := by
  unfold select enabledList
  have hc := selectLoop_sameCore env d ev (atomicStates d s.cfg) s []
  split
  rename_i s' enabled heq
  rw [heq] at hc
  simp only [heq]
  rw [hc.1, hc.2.1]

end Rfsm.Interp
