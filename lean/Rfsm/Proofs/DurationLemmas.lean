import Rfsm.Model.Timer
/-!
`parseDuration` (the transcription of `parse_duration_to_milliseconds` on top of the lexer's
number scanner) on the CSS2 time language `\d*(\.\d+)?(ms|s|m|h|d)`.
-/
namespace Rfsm.Timer

theorem isDigit_iff (c : Nat) : isDigit c = true ↔ 48 ≤ c ∧ c ≤ 57 := by
  simp [isDigit]

theorem allDigits_cons (c : Nat) (r : Str) : allDigits (c :: r) = (isDigit c && allDigits r) := by
  simp [allDigits]

/-- the state after reading a digit -/
def digitState (st : Nat) : Nat := if st = 0 ∨ st = 5 then 1 else if st = 3 ∨ st = 6 then 4 else st

theorem digitState_idem (st : Nat) : digitState (digitState st) = digitState st := by
  by_cases h1 : st = 0 ∨ st = 5 <;> by_cases h2 : st = 3 ∨ st = 6 <;> simp [digitState, h1, h2]

theorem readNumber_digit (st : Nat) (buf : Str) (c : Nat) (r : Str) (hc : isDigit c = true) :
    readNumber st buf (c :: r) = readNumber (digitState st) (buf ++ [c]) r := by
  have h := (isDigit_iff c).1 hc
  have h46 : ¬ c = 46 := by omega
  rw [readNumber, if_neg h46, if_pos hc]
  rfl

/-- a run of digits is pushed to the buffer -/
theorem readNumber_digits (ds : Str) (hd : allDigits ds = true) (st : Nat) (buf r : Str) :
    readNumber st buf (ds ++ r) = readNumber (if ds = [] then st else digitState st) (buf ++ ds) r := by
  induction ds generalizing st buf with
  | nil => simp
  | cons c cs ih =>
    rw [allDigits_cons, Bool.and_eq_true] at hd
    rw [List.cons_append, readNumber_digit st buf c (cs ++ r) hd.1, ih hd.2]
    by_cases hcs : cs = []
    · simp [hcs]
    · simp [hcs, digitState_idem]

/-- a character that ends a number and is pushed back: here the first letter of a unit -/
def isUnitStart (c : Nat) : Prop := c = 109 ∨ c = 115 ∨ c = 104 ∨ c = 100

theorem readNumber_unit (st : Nat) (buf : Str) (c : Nat) (r : Str) (hc : isUnitStart c) :
    readNumber st buf (c :: r) = finishNumber st buf (c :: r) := by
  have hd : ¬ isDigit c = true := by
    rw [isDigit_iff]; unfold isUnitStart at hc; omega
  unfold isUnitStart at hc
  rw [readNumber, if_neg (by omega), if_neg hd, if_neg (by omega), if_neg (by omega), if_neg (by omega),
    if_neg (by omega)]

theorem finishNumber_one (buf rest : Str) :
    finishNumber 1 buf rest = match parseI64 buf with
      | some v => ⟨.number (.int v), rest⟩
      | none => ⟨.error, rest⟩ := by
  unfold finishNumber; rw [if_pos rfl]
  cases parseI64 buf <;> rfl

theorem finishNumber_two (buf rest : Str) :
    finishNumber 2 buf rest = if buf.length = 1 then ⟨.other, rest⟩
      else match parseF64 buf with
        | some (neg, n, d) => ⟨.number (.dbl neg n d), rest⟩
        | none => ⟨.error, rest⟩ := by
  unfold finishNumber; rw [if_neg (by omega), if_pos (Or.inl rfl)]
  by_cases h : buf.length = 1
  · rw [if_pos h, if_pos h]
  · rw [if_neg h, if_neg h]
    cases parseF64 buf with
    | none => rfl
    | some p => obtain ⟨a, b, c⟩ := p; rfl

theorem digit_not_sign {c : Nat} (hc : isDigit c = true) : c ≠ 45 ∧ c ≠ 43 ∧ c ≠ 46 := by
  have := (isDigit_iff c).1 hc; omega

theorem parseI64_digits (ds : Str) (hd : allDigits ds = true) (hne : ds ≠ []) :
    parseI64 ds = if digitsVal ds ≤ i64Max then some (digitsVal ds : Int) else none := by
  cases ds with
  | nil => exact absurd rfl hne
  | cons c r =>
    have hc : isDigit c = true := by
      rw [allDigits_cons, Bool.and_eq_true] at hd; exact hd.1
    have := digit_not_sign hc
    unfold parseI64
    split
    · rename_i heq; cases heq
    · rename_i heq; cases heq; omega
    · rename_i heq; cases heq; omega
    · simp [hd]

theorem spanDigits_append (ds : Str) (hd : allDigits ds = true) (r : Str)
    (hr : ∀ c r', r = c :: r' → isDigit c = false) : spanDigits (ds ++ r) = (ds, r) := by
  induction ds with
  | nil =>
    cases r with
    | nil => rfl
    | cons c r' => simp [spanDigits, hr c r' rfl]
  | cons c cs ih =>
    rw [allDigits_cons, Bool.and_eq_true] at hd
    simp [spanDigits, hd.1, ih hd.2]

theorem stripSign_of_not_sign (s : Str) (h : ∀ c r, s = c :: r → c ≠ 45 ∧ c ≠ 43) : stripSign s = (false, s) := by
  unfold stripSign
  split
  · rename_i r; exact absurd rfl (h 45 r rfl).1
  · rename_i r; exact absurd rfl (h 43 r rfl).2
  · rfl

/-- `parse::<f64>` of `ip.fp` -/
theorem parseF64_decimal (ip fp : Str) (hip : allDigits ip = true) (hfp : allDigits fp = true) (hne : fp ≠ []) :
    parseF64 (ip ++ 46 :: fp) = some (false, digitsVal (ip ++ fp), 10 ^ fp.length) := by
  have hs : stripSign (ip ++ 46 :: fp) = (false, ip ++ 46 :: fp) := by
    apply stripSign_of_not_sign
    intro c r hcr
    cases ip with
    | nil => simp at hcr; omega
    | cons a as =>
      simp at hcr
      rw [allDigits_cons, Bool.and_eq_true] at hip
      have := digit_not_sign hip.1
      omega
  have h1 : spanDigits (ip ++ 46 :: fp) = (ip, 46 :: fp) := by
    apply spanDigits_append ip hip
    intro c r' h; cases h; decide
  have h2 : spanDigits fp = (fp, []) := by
    have := spanDigits_append fp hfp [] (by intro c r' h; cases h)
    simpa using this
  unfold parseF64
  simp only [hs, h1, h2]
  simp [hne, parseExp]

theorem roundHalfAway_one (x : Nat) : roundHalfAway x 1 = x := by
  unfold roundHalfAway; omega

theorem css2Text_ne_nil (ip fp u : Str) (hu : u ≠ []) : css2Text ip fp u ≠ [] := by
  unfold css2Text
  intro h
  have := List.append_eq_nil_iff.1 h
  exact hu this.2

theorem eatSpace_of_not_ws (c : Nat) (r : Str) (h : isWs c = false) : eatSpace (c :: r) = c :: r := by
  simp [eatSpace, h]

/-- the five units: first letter, and what the lexer and the unit table make of them -/
theorem unit_facts (u : Str) (m : Nat) (hu : (u, m) ∈ css2Units) :
    (∃ c r, u = c :: r ∧ isUnitStart c) ∧ nextToken u = ⟨.ident u, []⟩ ∧ unitMult u = some m := by
  simp only [css2Units, List.mem_cons, Prod.mk.injEq, List.not_mem_nil, or_false] at hu
  rcases hu with ⟨rfl, rfl⟩ | ⟨rfl, rfl⟩ | ⟨rfl, rfl⟩ | ⟨rfl, rfl⟩ | ⟨rfl, rfl⟩
  · exact ⟨⟨109, [115], rfl, Or.inl rfl⟩, by decide, by decide⟩
  · exact ⟨⟨115, [], rfl, Or.inr (Or.inl rfl)⟩, by decide, by decide⟩
  · exact ⟨⟨109, [], rfl, Or.inl rfl⟩, by decide, by decide⟩
  · exact ⟨⟨104, [], rfl, Or.inr (Or.inr (Or.inl rfl))⟩, by decide, by decide⟩
  · exact ⟨⟨100, [], rfl, Or.inr (Or.inr (Or.inr rfl))⟩, by decide, by decide⟩

/-- the number token of a CSS2 duration text -/
theorem nextToken_css2 (ip fp u : Str) (hip : allDigits ip = true) (hfp : allDigits fp = true)
    (hne : ip ≠ [] ∨ fp ≠ []) (hu : ∃ c r, u = c :: r ∧ isUnitStart c) :
    nextToken (css2Text ip fp u) =
      if fp = [] then
        (if digitsVal ip ≤ i64Max then ⟨.number (.int (digitsVal ip)), u⟩ else ⟨.error, u⟩)
      else ⟨.number (.dbl false (digitsVal (ip ++ fp)) (10 ^ fp.length)), u⟩ := by
  obtain ⟨uc, ur, rfl, huc⟩ := hu
  -- the text starts with a digit or with '.'
  have hstart : ∃ c r, css2Text ip fp (uc :: ur) = c :: r ∧ (isDigit c = true ∨ c = 46) := by
    unfold css2Text
    cases ip with
    | nil =>
      cases fp with
      | nil => simp at hne
      | cons f fs => exact ⟨46, (f :: fs) ++ uc :: ur, by simp, Or.inr rfl⟩
    | cons a as =>
      rw [allDigits_cons, Bool.and_eq_true] at hip
      exact ⟨a, as ++ (if fp = [] then [] else 46 :: fp) ++ uc :: ur, by simp, Or.inl hip.1⟩
  obtain ⟨c, r, hcr, hc⟩ := hstart
  have hws : isWs c = false := by
    rcases hc with hc | rfl
    · have := (isDigit_iff c).1 hc
      simp [isWs]; omega
    · decide
  have hnt : nextToken (css2Text ip fp (uc :: ur)) = readNumber 0 [] (css2Text ip fp (uc :: ur)) := by
    unfold nextToken
    rw [hcr, eatSpace_of_not_ws c r hws]
    simp only
    rw [if_pos]
    rcases hc with hc | rfl
    · exact Or.inl hc
    · exact Or.inr (Or.inr (Or.inr rfl))
  rw [hnt]
  by_cases hfpe : fp = []
  · subst hfpe
    have hipne : ip ≠ [] := by
      rcases hne with h | h
      · exact h
      · exact absurd rfl h
    simp only [css2Text, if_true, List.append_nil]
    rw [readNumber_digits ip hip, if_neg hipne, readNumber_unit _ _ uc ur huc]
    have hds : digitState 0 = 1 := rfl
    rw [hds, finishNumber_one, List.nil_append, parseI64_digits ip hip hipne]
    by_cases hr : digitsVal ip ≤ i64Max
    · rw [if_pos hr, if_pos hr]
    · rw [if_neg hr, if_neg hr]
  · simp only [css2Text, if_neg hfpe]
    rw [List.append_assoc, readNumber_digits ip hip]
    have hst : (if ip = [] then 0 else digitState 0) = 0 ∨ (if ip = [] then 0 else digitState 0) = 1 := by
      by_cases h : ip = [] <;> simp [h, digitState]
    generalize (if ip = [] then 0 else digitState 0) = st at hst
    rw [List.cons_append, readNumber, if_pos rfl, if_pos (by omega), readNumber_digits fp hfp,
      if_neg hfpe, readNumber_unit _ _ uc ur huc]
    have hlen : ([] ++ ip ++ [46] ++ fp).length ≠ 1 := by
      cases fp with
      | nil => exact absurd rfl hfpe
      | cons f fs => simp; omega
    have hds : digitState 2 = 2 := rfl
    rw [hds, finishNumber_two, if_neg hlen]
    have : [] ++ ip ++ [46] ++ fp = ip ++ 46 :: fp := by simp
    rw [this, parseF64_decimal ip fp hip hfp hfpe]

/-- `parseDuration` on the CSS2 language, in terms of the grammar's own value -/
theorem parseDuration_css2Text (ip fp u : Str) (m : Nat) (hip : allDigits ip = true)
    (hfp : allDigits fp = true) (hne : ip ≠ [] ∨ fp ≠ []) (hu : (u, m) ∈ css2Units) :
    parseDuration (css2Text ip fp u) =
      if fp = [] ∧ i64Max < digitsVal ip then -1
      else ((min (css2Value ip fp m) i64Max : Nat) : Int) := by
  obtain ⟨hstart, htok, hmult⟩ := unit_facts u m hu
  have hune : u ≠ [] := by obtain ⟨c, r, rfl, _⟩ := hstart; simp
  unfold parseDuration
  rw [if_neg (css2Text_ne_nil ip fp u hune), nextToken_css2 ip fp u hip hfp hne hstart]
  by_cases hfpe : fp = []
  · subst hfpe
    rw [if_pos rfl]
    by_cases hr : digitsVal ip ≤ i64Max
    · rw [if_pos hr, if_neg (by omega)]
      simp only [htok, hmult, toMillis, css2Value, List.append_nil, List.length_nil, Nat.pow_zero,
        roundHalfAway_one]
      rw [if_pos (by omega)]
      simp
    · rw [if_neg hr, if_pos ⟨rfl, by omega⟩]
  · rw [if_neg hfpe, if_neg (fun h => hfpe h.1)]
    simp only [htok, hmult, toMillis, css2Value]
    simp

theorem takeWhile_digits_append (ds : Str) (hd : allDigits ds = true) (r : Str)
    (hr : ∀ c r', r = c :: r' → isDigit c = false) :
    (ds ++ r).takeWhile isDigit = ds ∧ (ds ++ r).dropWhile isDigit = r := by
  induction ds with
  | nil =>
    cases r with
    | nil => simp
    | cons c r' => simp [hr c r' rfl]
  | cons c cs ih =>
    rw [allDigits_cons, Bool.and_eq_true] at hd
    simp [hd.1, ih hd.2]

theorem css2Frac_of_ne (c : Nat) (r : Str) (h : c ≠ 46) : css2Frac (c :: r) = ([], c :: r, true) := by
  unfold css2Frac
  split
  · rename_i heq; cases heq; exact absurd rfl h
  · rfl

/-- the independent recogniser accepts exactly the texts `css2Text ip fp u` and gives them the
grammar's value -/
theorem css2_css2Text (ip fp u : Str) (m : Nat) (hip : allDigits ip = true)
    (hfp : allDigits fp = true) (hne : ip ≠ [] ∨ fp ≠ []) (hu : (u, m) ∈ css2Units) :
    css2 (css2Text ip fp u) = some (css2Value ip fp m) := by
  obtain ⟨⟨uc, ur, rfl, huc⟩, _, _⟩ := unit_facts _ m hu
  have hucd : isDigit uc = false := by
    have : ¬ isDigit uc = true := by rw [isDigit_iff]; unfold isUnitStart at huc; omega
    simpa using this
  have hlk : css2Units.lookup (uc :: ur) = some m := by
    simp only [css2Units, List.mem_cons, Prod.mk.injEq, List.not_mem_nil, or_false] at hu
    rcases hu with ⟨h, rfl⟩ | ⟨h, rfl⟩ | ⟨h, rfl⟩ | ⟨h, rfl⟩ | ⟨h, rfl⟩ <;> rw [h] <;> decide
  by_cases hfpe : fp = []
  · subst hfpe
    have hipne : ip ≠ [] := by
      rcases hne with h | h
      · exact h
      · exact absurd rfl h
    have h1 := takeWhile_digits_append ip hip (uc :: ur) (by intro c r' h; cases h; exact hucd)
    have h46 : uc ≠ 46 := by unfold isUnitStart at huc; omega
    unfold css2
    simp only [css2Text, if_true, List.append_nil, h1.1, h1.2, css2Frac_of_ne uc ur h46]
    simp [hipne, hlk]
  · have h1 := takeWhile_digits_append ip hip (46 :: (fp ++ uc :: ur)) (by intro c r' h; cases h; decide)
    have h2 := takeWhile_digits_append fp hfp (uc :: ur) (by intro c r' h; cases h; exact hucd)
    unfold css2
    have ht : css2Text ip fp (uc :: ur) = ip ++ 46 :: (fp ++ uc :: ur) := by
      simp [css2Text, hfpe]
    simp only [ht, h1.1, h1.2, css2Frac, h2.1, h2.2]
    simp [hfpe, hlk]

theorem takeWhile_allDigits (s : Str) : allDigits (s.takeWhile isDigit) = true := by
  induction s with
  | nil => rfl
  | cons c r ih =>
    by_cases hc : isDigit c = true
    · simp [List.takeWhile, hc, allDigits_cons, ih]
    · simp [List.takeWhile, hc]; rfl

theorem lookup_mem (r : Str) (m : Nat) (l : List (Str × Nat)) (h : l.lookup r = some m) : (r, m) ∈ l := by
  induction l with
  | nil => cases h
  | cons p l ih =>
    obtain ⟨k, v⟩ := p
    by_cases hk : r = k
    · subst hk
      simp [List.lookup] at h
      subst h; exact List.mem_cons_self ..
    · have : (r == k) = false := by simpa using hk
      simp only [List.lookup, this] at h
      exact List.mem_cons_of_mem _ (ih h)

/-- everything the recogniser accepts is a text of the language -/
theorem css2_some (s : Str) (v : Nat) (h : css2 s = some v) :
    ∃ ip fp u m, s = css2Text ip fp u ∧ allDigits ip = true ∧ allDigits fp = true ∧
      (ip ≠ [] ∨ fp ≠ []) ∧ (u, m) ∈ css2Units ∧ v = css2Value ip fp m := by
  have hsplit : s = s.takeWhile isDigit ++ s.dropWhile isDigit := (List.takeWhile_append_dropWhile).symm
  unfold css2 at h
  simp only at h
  generalize hip : s.takeWhile isDigit = ip at h hsplit
  generalize hr1 : s.dropWhile isDigit = r1 at h hsplit
  have hipd : allDigits ip = true := by rw [← hip]; exact takeWhile_allDigits s
  split at h
  · rename_i hcond
    split at h
    · rename_i m hm
      cases h
      have hmem := lookup_mem _ _ _ hm
      by_cases h46 : ∃ r, r1 = 46 :: r
      · obtain ⟨r, rfl⟩ := h46
        simp only [css2Frac, Bool.and_eq_true, Bool.not_eq_true', List.isEmpty_eq_false_iff] at hcond hmem ⊢
        have hfpne : r.takeWhile isDigit ≠ [] := by
          have := hcond.1; simpa using this
        refine ⟨ip, r.takeWhile isDigit, r.dropWhile isDigit, m, ?_, hipd, takeWhile_allDigits r,
          Or.inr hfpne, hmem, rfl⟩
        rw [hsplit]
        simp [css2Text, hfpne, List.takeWhile_append_dropWhile]
      · have hfr : css2Frac r1 = ([], r1, true) := by
          cases r1 with
          | nil => rfl
          | cons c r => exact css2Frac_of_ne c r (fun hc => h46 ⟨r, by rw [hc]⟩)
        rw [hfr] at hcond hmem ⊢
        simp at hcond
        refine ⟨ip, [], r1, m, ?_, hipd, rfl, Or.inl hcond, hmem, rfl⟩
        rw [hsplit]; simp [css2Text]
    · cases h
  · cases h

/-! ### unknown units -/

def isLetter (c : Nat) : Prop := (65 ≤ c ∧ c ≤ 90) ∨ (97 ≤ c ∧ c ≤ 122)

theorem isStop_letter {c : Nat} (h : isLetter c) : isStop c = false := by
  unfold isLetter at h
  have : ¬ isStop c = true := by
    simp only [isStop, isWs, stopChars, List.contains_cons, List.contains_nil, Bool.or_eq_true, beq_iff_eq,
      Bool.or_false]
    omega
  simpa using this

theorem readIdent_letters (u : Str) (hu : ∀ c ∈ u, isLetter c) (buf : Str) :
    readIdent buf u = identOf (buf ++ u) [] := by
  induction u generalizing buf with
  | nil => simp [readIdent]
  | cons c r ih =>
    have hc := isStop_letter (hu c (List.mem_cons_self ..))
    rw [readIdent, hc]
    simp only [Bool.false_eq_true, if_false]
    rw [ih (fun x hx => hu x (List.mem_cons_of_mem _ hx))]
    simp

theorem nextToken_letters (c : Nat) (r : Str) (hu : ∀ x ∈ c :: r, isLetter x) :
    nextToken (c :: r) = identOf (c :: r) [] := by
  have hc := hu c (List.mem_cons_self ..)
  have hst := isStop_letter hc
  have hws : isWs c = false := by
    unfold isLetter at hc
    have : ¬ isWs c = true := by simp [isWs]; omega
    simpa using this
  have hd : ¬ isDigit c = true := by rw [isDigit_iff]; unfold isLetter at hc; omega
  unfold nextToken
  rw [eatSpace_of_not_ws c r hws]
  simp only
  unfold isLetter at hc
  rw [if_neg (by simp [hd]; omega), hst]
  simp only [Bool.false_eq_true, if_false]
  rw [readIdent_letters r (fun x hx => hu x (List.mem_cons_of_mem _ hx))]
  simp

/-- a character that ends a number and is pushed back (anything but `.`, a digit, a sign, `e`, `E`, NUL) -/
theorem readNumber_other (st : Nat) (buf : Str) (c : Nat) (r : Str)
    (h : c ≠ 46 ∧ isDigit c = false ∧ c ≠ 43 ∧ c ≠ 45 ∧ c ≠ 69 ∧ c ≠ 101 ∧ c ≠ 0) :
    readNumber st buf (c :: r) = finishNumber st buf (c :: r) := by
  obtain ⟨h1, h2, h3, h4, h5, h6, h7⟩ := h
  rw [readNumber, if_neg h1, if_neg (by simp [h2]), if_neg h3, if_neg h4, if_neg (by omega), if_neg h7]

/-- a number followed by a word of letters (not starting with `e`/`E`) that is not a unit and not a
keyword: the abort value −1, for all digit lists -/
theorem parseDuration_unknown_unit (ip fp : Str) (c : Nat) (r : Str) (hip : allDigits ip = true)
    (hfp : allDigits fp = true) (hne : ip ≠ [] ∨ fp ≠ []) (hu : ∀ x ∈ c :: r, isLetter x)
    (he : c ≠ 69 ∧ c ≠ 101) (hunit : unitMult (c :: r) = none)
    (hkw : c :: r ≠ kwTrue ∧ c :: r ≠ kwFalse ∧ c :: r ≠ kwNull)
    (hrange : fp ≠ [] ∨ digitsVal ip ≤ i64Max) :
    parseDuration (css2Text ip fp (c :: r)) = -1 := by
  have hc := hu c (List.mem_cons_self ..)
  have hother : c ≠ 46 ∧ isDigit c = false ∧ c ≠ 43 ∧ c ≠ 45 ∧ c ≠ 69 ∧ c ≠ 101 ∧ c ≠ 0 := by
    have hd : ¬ isDigit c = true := by rw [isDigit_iff]; unfold isLetter at hc; omega
    unfold isLetter at hc
    refine ⟨by omega, by simpa using hd, by omega, by omega, he.1, he.2, by omega⟩
  -- the number token, exactly as for a proper unit
  have hnum : ∃ n, nextToken (css2Text ip fp (c :: r)) = ⟨.number n, c :: r⟩ := by
    have hstart : ∃ a q, css2Text ip fp (c :: r) = a :: q ∧ (isDigit a = true ∨ a = 46) := by
      unfold css2Text
      cases ip with
      | nil =>
        cases fp with
        | nil => simp at hne
        | cons f fs => exact ⟨46, (f :: fs) ++ c :: r, by simp, Or.inr rfl⟩
      | cons a as =>
        rw [allDigits_cons, Bool.and_eq_true] at hip
        exact ⟨a, as ++ (if fp = [] then [] else 46 :: fp) ++ c :: r, by simp, Or.inl hip.1⟩
    obtain ⟨a, q, haq, ha⟩ := hstart
    have hws : isWs a = false := by
      rcases ha with ha | rfl
      · have := (isDigit_iff a).1 ha
        simp [isWs]; omega
      · decide
    have hnt : nextToken (css2Text ip fp (c :: r)) = readNumber 0 [] (css2Text ip fp (c :: r)) := by
      unfold nextToken
      rw [haq, eatSpace_of_not_ws a q hws]
      simp only
      rw [if_pos]
      rcases ha with ha | rfl
      · exact Or.inl ha
      · exact Or.inr (Or.inr (Or.inr rfl))
    rw [hnt]
    by_cases hfpe : fp = []
    · subst hfpe
      have hipne : ip ≠ [] := by
        rcases hne with h | h
        · exact h
        · exact absurd rfl h
      have hr : digitsVal ip ≤ i64Max := by
        rcases hrange with h | h
        · exact absurd rfl h
        · exact h
      simp only [css2Text, if_true, List.append_nil]
      rw [readNumber_digits ip hip, if_neg hipne, readNumber_other _ _ c r hother]
      have hds : digitState 0 = 1 := rfl
      rw [hds, finishNumber_one, List.nil_append, parseI64_digits ip hip hipne, if_pos hr]
      exact ⟨_, rfl⟩
    · simp only [css2Text, if_neg hfpe]
      rw [List.append_assoc, readNumber_digits ip hip]
      have hst : (if ip = [] then 0 else digitState 0) = 0 ∨ (if ip = [] then 0 else digitState 0) = 1 := by
        by_cases h : ip = [] <;> simp [h, digitState]
      generalize (if ip = [] then 0 else digitState 0) = st at hst
      rw [List.cons_append, readNumber, if_pos rfl, if_pos (by omega), readNumber_digits fp hfp,
        if_neg hfpe, readNumber_other _ _ c r hother]
      have hlen : ([] ++ ip ++ [46] ++ fp).length ≠ 1 := by
        cases fp with
        | nil => exact absurd rfl hfpe
        | cons f fs => simp; omega
      have hds : digitState 2 = 2 := rfl
      rw [hds, finishNumber_two, if_neg hlen]
      have : [] ++ ip ++ [46] ++ fp = ip ++ 46 :: fp := by simp
      rw [this, parseF64_decimal ip fp hip hfp hfpe]
      exact ⟨_, rfl⟩
  obtain ⟨n, hn⟩ := hnum
  unfold parseDuration
  rw [if_neg (css2Text_ne_nil ip fp (c :: r) (by simp)), hn]
  simp only
  rw [nextToken_letters c r hu]
  unfold identOf
  rw [if_neg (by intro h; rcases h with h | h | h; exact hkw.1 h; exact hkw.2.1 h; exact hkw.2.2 h)]
  simp only [hunit]

end Rfsm.Timer
