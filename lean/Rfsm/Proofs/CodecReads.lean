import Rfsm.Proofs.CodecPrim
/-!
`Reads p bytes x`: reader program `p`, started in a good state on `bytes ++ rest`, returns `x`, leaves
exactly `rest`, stays good.  Composition rules, and two facts that hold for *every* reader program
(by induction on `Prog`): the error flag is sticky, and a run that ends without error is unchanged
by appending bytes to the input (it never saw the end of input).
-/
namespace Rfsm.Codec

@[simp] theorem run_pure {α} (a : α) (st : RState) : (Pure.pure a : Prog α).run st = (a, st) := rfl

@[simp] theorem run_bind {α β} (p : Prog α) (f : α → Prog β) (st : RState) :
    (p >>= f).run st = (f (p.run st).1).run (p.run st).2 := rfl

@[simp] theorem run_prim {α} (p : Prim α) (st : RState) : (Prog.prim p).run st = p.run st := rfl

def Reads {α} (p : Prog α) (bytes : List Nat) (x : α) : Prop :=
  ∀ (rest : List Nat) (t n : Nat) (pn : Option Site),
    ∃ t' n', p.run ⟨bytes ++ rest, true, t, n, pn⟩ = (x, ⟨rest, true, t', n', pn⟩)

theorem Reads.pure {α} (a : α) : Reads (Pure.pure a : Prog α) [] a := by
  intro rest t n pn
  exact ⟨t, n, rfl⟩

theorem Reads.bind {α β} {p : Prog α} {f : α → Prog β} {b1 b2 : List Nat} {a : α} {y : β}
    (hp : Reads p b1 a) (hf : Reads (f a) b2 y) : Reads (p >>= f) (b1 ++ b2) y := by
  intro rest t n pn
  obtain ⟨t1, n1, h1⟩ := hp (b2 ++ rest) t n pn
  obtain ⟨t2, n2, h2⟩ := hf rest t1 n1 pn
  refine ⟨t2, n2, ?_⟩
  rw [run_bind, List.append_assoc, h1]
  exact h2

/-- last step of a `do` block: `p >>= fun a => pure (g a)` -/
theorem Reads.bind_pure {α β} {p : Prog α} {f : α → Prog β} {b : List Nat} {a : α} {y : β}
    (hp : Reads p b a) (hf : f a = Pure.pure y) : Reads (p >>= f) b y := by
  have := Reads.bind (f := f) hp (by rw [hf]; exact Reads.pure y)
  simpa using this

theorem Reads.of_eq {α} {p : Prog α} {b b' : List Nat} {x : α} (h : Reads p b x) (e : b = b') :
    Reads p b' x := e ▸ h

theorem Reads.uint (v : Nat) (hv : v < 2 ^ 64) : Reads pUInt (uintOp v).bytes v := by
  intro rest t n pn
  obtain ⟨t', h⟩ := readUInt_roundtrip v hv rest t n pn
  exact ⟨t', v, h⟩

theorem Reads.str (s : Str) (h : s.length < 2 ^ 64) (hu : validUtf8 s = true) :
    Reads pStr (Op.str s).bytes s := by
  intro rest t n pn
  exact ⟨strTid s, 0, readString_roundtrip s h hu rest t n pn⟩

theorem Reads.bool (b : Bool) : Reads pBool (boolOp b).bytes b := by
  intro rest t n pn
  exact ⟨t, n, readBool_roundtrip b rest t n pn⟩

def WFOptStr : Option Str → Prop
  | none => True
  | some s => s.length < 2 ^ 64 ∧ validUtf8 s = true

theorem Reads.optStr (o : Option Str) (h : WFOptStr o) : Reads pOptStr (optStrOp o).bytes o := by
  intro rest t n pn
  cases o with
  | none => exact ⟨0x10, n, readOptStr_none rest t n pn⟩
  | some s => exact ⟨strTid s, 0, readOptStr_some s h.1 h.2 rest t n pn⟩

theorem Reads.u8 (v : Nat) (hv : v < 256) : Reads pU8 (uintOp v).bytes v := by
  refine Reads.bind_pure (Reads.uint v (by omega)) ?_
  simp [Nat.mod_eq_of_lt hv]

theorem Reads.u16 (v : Nat) (hv : v < 65536) : Reads pU16 (uintOp v).bytes v := by
  refine Reads.bind_pure (Reads.uint v (by omega)) ?_
  simp [Nat.mod_eq_of_lt hv]

theorem Reads.id (v : Nat) (hv : v < two32) : Reads pId (uintOp v).bytes v := by
  refine Reads.bind_pure (Reads.uint v (by simp [two32] at hv; omega)) ?_
  simp [Nat.mod_eq_of_lt hv]

theorem Reads.rep {α} {p : Prog α} {enc : α → List Nat} (l : List α)
    (h : ∀ a ∈ l, Reads p (enc a) a) : Reads (Rfsm.Codec.readN l.length p) (l.flatMap enc) l := by
  induction l with
  | nil => exact Reads.pure []
  | cons a l ih =>
    have ha := h a (by simp)
    have hl := ih (fun b hb => h b (by simp [hb]))
    show Reads (p >>= fun a => Rfsm.Codec.readN l.length p >>= fun r => Pure.pure (a :: r)) _ _
    rw [List.flatMap_cons]
    exact Reads.bind ha (Reads.bind_pure hl rfl)

theorem Reads.list {α} {p : Prog α} {enc : α → List Nat} (l : List α) (hl : l.length < 2 ^ 64)
    (h : ∀ a ∈ l, Reads p (enc a) a) :
    Reads (Rfsm.Codec.readList p) ((uintOp l.length).bytes ++ l.flatMap enc) l :=
  Reads.bind (Reads.uint l.length hl) (Reads.rep l h)

/-! ### facts about every reader program -/

theorem readTypeAndSize_notok (st : RState) (h : st.ok = false) : readTypeAndSize st = ([], st) := by
  simp [readTypeAndSize, h]

theorem error_ok (st : RState) : st.error.ok = false := by
  unfold RState.error
  split <;> simp_all

theorem Prim.sticky {α} (p : Prim α) (st : RState) (h : st.ok = false) : (p.run st).2.ok = false := by
  cases p <;>
    simp [Prim.run, readBoolS, readOptStrS, readStringS, readUIntS, readTypeAndSize, h, error_ok,
      RState.setPanic]
  · split <;> simp [h]

/-- the error flag is sticky: no reader program ever clears it -/
theorem Prog.sticky {α} (p : Prog α) (st : RState) (h : st.ok = false) : (p.run st).2.ok = false := by
  induction p generalizing st with
  | pure a => exact h
  | prim q => exact Prim.sticky q st h
  | bind q f ihq ihf => exact ihf _ _ (ihq st h)

end Rfsm.Codec
