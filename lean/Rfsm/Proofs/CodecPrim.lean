import Rfsm.Model.Codec
/-!
Lemmas about the primitive layer of M-CODEC: what one reader call does on the bytes one writer call
emitted, and the `Reads` relation used to compose them.
-/
namespace Rfsm.Codec

/-- one step of `read_additional_number_bytes`: `number = (number << 8) | byte` on `u64` -/
def step64 (a b : Nat) : Nat := (a * 256) % two64 + b

theorem readMore_append (bs rest : List Nat) (t n : Nat) (p : Option Site) :
    readMore bs.length ⟨bs ++ rest, true, t, n, p⟩ =
      ⟨rest, true, t, bs.foldl step64 n, p⟩ := by
  induction bs generalizing n with
  | nil => simp [readMore]
  | cons b bs ih => simp [readMore, ih, step64]

theorem rts_num (k nib : Nat) (hk : k ≤ 8) (hn : nib < 16) (bs rest : List Nat) (hl : bs.length = k)
    (t n : Nat) (p : Option Site) :
    readTypeAndSize ⟨(0x30 + 16 * k + nib) :: (bs ++ rest), true, t, n, p⟩ =
      ([], ⟨rest, true, 0x30 + 16 * k, bs.foldl step64 nib, p⟩) := by
  have hhi : (0x30 + 16 * k + nib) / 16 * 16 = 0x30 + 16 * k := by omega
  have hlo : (0x30 + 16 * k + nib) % 16 = nib := by omega
  have hk' : (0x30 + 16 * k - 0x30) / 16 = k := by omega
  simp only [readTypeAndSize, if_true, hhi, hlo]
  rw [if_neg (by omega), if_pos (by omega), hk', ← hl, readMore_append]

theorem readUInt_num (k nib : Nat) (hk : k ≤ 8) (hn : nib < 16) (bs rest : List Nat) (hl : bs.length = k)
    (t n : Nat) (p : Option Site) :
    readUIntS ⟨(0x30 + 16 * k + nib) :: (bs ++ rest), true, t, n, p⟩ =
      (bs.foldl step64 nib, ⟨rest, true, 0x30 + 16 * k, bs.foldl step64 nib, p⟩) := by
  have : isNumTid (0x30 + 16 * k) = true := by
    simp [isNumTid]; omega
  simp [readUIntS, rts_num k nib hk hn bs rest hl, this]

/-- shape of what `write_uint` emits for `v < 2^60`: first byte `0x30 + 16k + nibble`, then `k` bytes
whose big-endian value (with the nibble on top) is `v` -/
theorem uint_shape (v : Nat) (hv : v < 2 ^ 60) :
    ∃ k nib bs, (uintOp v).bytes = (0x30 + 16 * k + nib) :: bs ∧ k ≤ 8 ∧ nib < 16 ∧ bs.length = k ∧
      bs.foldl step64 nib = v := by
  unfold uintOp
  split
  · exact ⟨0, v, [], by simp [Op.bytes, tvBytes, tvTail]; omega, by omega, by omega, rfl, rfl⟩
  split
  · refine ⟨1, v / 256 % 16, [v % 256], by simp [Op.bytes, tvBytes, tvTail], by omega, by omega, rfl, ?_⟩
    simp [step64, two64]; omega
  split
  · refine ⟨2, v / 65536 % 16, [v / 256 % 256, v % 256], by simp [Op.bytes, tvBytes, tvTail], by omega, by omega, rfl, ?_⟩
    simp [step64, two64]; omega
  split
  · refine ⟨3, v / 16777216 % 16, [v / 65536 % 256, v / 256 % 256, v % 256], by simp [Op.bytes, tvBytes, tvTail], by omega, by omega, rfl, ?_⟩
    simp [step64, two64]; omega
  split
  · refine ⟨4, v / 4294967296 % 16, [v / 16777216 % 256, v / 65536 % 256, v / 256 % 256, v % 256], by simp [Op.bytes, tvBytes, tvTail], by omega, by omega, rfl, ?_⟩
    simp [step64, two64]; omega
  split
  · refine ⟨5, v / 1099511627776 % 16, [v / 4294967296 % 256, v / 16777216 % 256, v / 65536 % 256, v / 256 % 256, v % 256], by simp [Op.bytes, tvBytes, tvTail], by omega, by omega, rfl, ?_⟩
    simp [step64, two64]; omega
  split
  · refine ⟨6, v / 281474976710656 % 16, [v / 1099511627776 % 256, v / 4294967296 % 256, v / 16777216 % 256, v / 65536 % 256, v / 256 % 256, v % 256], by simp [Op.bytes, tvBytes, tvTail], by omega, by omega, rfl, ?_⟩
    simp [step64, two64]; omega
  · refine ⟨7, v / 72057594037927936 % 16, [v / 281474976710656 % 256, v / 1099511627776 % 256, v / 4294967296 % 256, v / 16777216 % 256, v / 65536 % 256, v / 256 % 256, v % 256], by simp [Op.bytes, tvBytes, tvTail], by omega, by omega, rfl, ?_⟩
    simp [step64, two64]; omega

/-- `read_uint` on the bytes of `write_uint(v)`, `v < 2^60`, followed by anything -/
theorem readUInt_roundtrip (v : Nat) (hv : v < 2 ^ 60) (rest : List Nat) (t n : Nat) (p : Option Site) :
    ∃ t', readUIntS ⟨(uintOp v).bytes ++ rest, true, t, n, p⟩ = (v, ⟨rest, true, t', v, p⟩) := by
  obtain ⟨k, nib, bs, hb, hk, hn, hl, hf⟩ := uint_shape v hv
  refine ⟨0x30 + 16 * k, ?_⟩
  rw [hb, List.cons_append, readUInt_num k nib hk hn bs rest hl, hf]

/-! ### strings -/

theorem strBytes_short (s : Str) (h : s.length < 16) :
    (Op.str s).bytes = (0xC0 + s.length) :: s := by
  simp [Op.bytes, strHeader, strSliceLen, h, tvBytes, tvTail]

theorem strBytes_mid (s : Str) (h : 16 ≤ s.length) (h' : s.length < 4096) :
    (Op.str s).bytes = (0xD0 + s.length / 256) :: s.length % 256 :: s := by
  have h1 : ¬ s.length < 16 := by omega
  have h2 : s.length % 4096 = s.length := Nat.mod_eq_of_lt h'
  simp [Op.bytes, strHeader, strSliceLen, h1, h2, tvBytes, tvTail]
  omega

theorem readStrPayload_exact (s rest : Str) (hu : validUtf8 s = true) (t n : Nat) (p : Option Site) :
    readStrPayload s.length ⟨s ++ rest, true, t, n, p⟩ = (s, ⟨rest, true, t, n, p⟩) := by
  simp [readStrPayload, hu]
  intro h
  omega

def strTid (s : Str) : Nat := if s.length < 16 then 0xC0 else 0xD0

theorem rts_str (s : Str) (h : s.length < 4096) (hu : validUtf8 s = true) (rest : List Nat) (t n : Nat)
    (p : Option Site) :
    readTypeAndSize ⟨(Op.str s).bytes ++ rest, true, t, n, p⟩ = (s, ⟨rest, true, strTid s, 0, p⟩) := by
  by_cases hs : s.length < 16
  · rw [strBytes_short s hs]
    have hhi : (0xC0 + s.length) / 16 * 16 = 0xC0 := by omega
    have hlo : (0xC0 + s.length) % 16 = s.length := by omega
    simp only [readTypeAndSize, if_true, hhi, hlo, List.cons_append]
    rw [readStrPayload_exact s rest hu]
    simp [strTid, hs]
  · rw [strBytes_mid s (by omega) h]
    have hhi : (0xD0 + s.length / 256) / 16 * 16 = 0xD0 := by omega
    have hlo : (0xD0 + s.length / 256) % 16 = s.length / 256 := by omega
    have hl : s.length / 256 * 256 + s.length % 256 = s.length := by omega
    simp only [readTypeAndSize, if_true, hhi, hlo, List.cons_append]
    simp only [hl]
    rw [readStrPayload_exact s rest hu]
    simp [strTid, hs]

/-- `read_string` on the bytes of `write_str(s)`, `|s| < 4096`, followed by anything -/
theorem readString_roundtrip (s : Str) (h : s.length < 4096) (hu : validUtf8 s = true) (rest : List Nat)
    (t n : Nat) (p : Option Site) :
    readStringS ⟨(Op.str s).bytes ++ rest, true, t, n, p⟩ = (s, ⟨rest, true, strTid s, 0, p⟩) := by
  simp only [readStringS, rts_str s h hu rest t n p]
  by_cases hs : s.length < 16 <;> simp [strTid, hs]

theorem readOptStr_some (s : Str) (h : s.length < 4096) (hu : validUtf8 s = true) (rest : List Nat)
    (t n : Nat) (p : Option Site) :
    readOptStrS ⟨(optStrOp (some s)).bytes ++ rest, true, t, n, p⟩ = (some s, ⟨rest, true, strTid s, 0, p⟩) := by
  simp only [readOptStrS, optStrOp, if_true, rts_str s h hu rest t n p]
  by_cases hs : s.length < 16 <;> simp [strTid, hs]

theorem readOptStr_none (rest : List Nat) (t n : Nat) (p : Option Site) :
    readOptStrS ⟨(optStrOp none).bytes ++ rest, true, t, n, p⟩ = (none, ⟨rest, true, 0x10, n, p⟩) := by
  simp [readOptStrS, optStrOp, Op.bytes, readTypeAndSize]

theorem readBool_roundtrip (b : Bool) (rest : List Nat) (t n : Nat) (p : Option Site) :
    readBoolS ⟨(boolOp b).bytes ++ rest, true, t, n, p⟩ = (b, ⟨rest, true, t, n, p⟩) := by
  cases b <;> simp [readBoolS, boolOp, Op.bytes]

end Rfsm.Codec
