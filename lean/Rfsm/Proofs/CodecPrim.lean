import Rfsm.Model.Codec
/-!
Lemmas about the primitive layer of M-CODEC: what one reader call does on the bytes one writer call
emitted, and the `Reads` relation used to compose them.
-/
namespace Rfsm.Codec

/-- one step of `read_additional_number_bytes`: `number = (number << 8) | byte` on `u64` -/
def step64 (a b : Nat) : Nat := (a * 256) % two64 + b

theorem readMore_append (bs rest : List Nat) (t n : Nat) (p : Option Site) :
    readMore bs.length ⟨bs ++ rest, true, t, n, p⟩ =
      ⟨rest, true, t, bs.foldl step64 n, p⟩ := by
  induction bs generalizing n with
  | nil => simp [readMore]
  | cons b bs ih => simp [readMore, ih, step64]

theorem rts_num (k nib : Nat) (hk : k ≤ 8) (hn : nib < 16) (bs rest : List Nat) (hl : bs.length = k)
    (t n : Nat) (p : Option Site) :
    readTypeAndSize ⟨(0x30 + 16 * k + nib) :: (bs ++ rest), true, t, n, p⟩ =
      ([], ⟨rest, true, 0x30 + 16 * k, bs.foldl step64 nib, p⟩) := by
  have hhi : (0x30 + 16 * k + nib) / 16 * 16 = 0x30 + 16 * k := by omega
  have hlo : (0x30 + 16 * k + nib) % 16 = nib := by omega
  have hk' : (0x30 + 16 * k - 0x30) / 16 = k := by omega
  simp only [readTypeAndSize, if_true, hhi, hlo]
  rw [if_neg (by omega), if_pos (by omega), hk', ← hl, readMore_append]

theorem readUInt_num (k nib : Nat) (hk : k ≤ 8) (hn : nib < 16) (bs rest : List Nat) (hl : bs.length = k)
    (t n : Nat) (p : Option Site) :
    readUIntS ⟨(0x30 + 16 * k + nib) :: (bs ++ rest), true, t, n, p⟩ =
      (bs.foldl step64 nib, ⟨rest, true, 0x30 + 16 * k, bs.foldl step64 nib, p⟩) := by
  have : isNumTid (0x30 + 16 * k) = true := by
    simp [isNumTid]; omega
  simp [readUIntS, rts_num k nib hk hn bs rest hl, this]

/-- the eight length bytes of the 0xE0 form, most significant first -/
def lenBytes (v : Nat) : List Nat :=
  [v / 72057594037927936 % 256, v / 281474976710656 % 256, v / 1099511627776 % 256, v / 4294967296 % 256,
   v / 16777216 % 256, v / 65536 % 256, v / 256 % 256, v % 256]

/-- no overflow in `(a << 8) | b` while `a` is below 2^56 -/
theorem step64_small (a b : Nat) (ha : a < 2 ^ 56) : step64 a b = a * 256 + b := by
  unfold step64 two64
  rw [Nat.mod_eq_of_lt (by omega)]

theorem lenBytes_val (v : Nat) (hv : v < 2 ^ 64) : (lenBytes v).foldl step64 0 = v := by
  simp only [lenBytes, List.foldl_cons, List.foldl_nil]
  have h0 : step64 (0) (v / 72057594037927936 % 256) = v / 72057594037927936 % 256 := by
    rw [step64_small _ _ (by omega)]; omega
  rw [h0]
  have h1 : step64 (v / 72057594037927936 % 256) (v / 281474976710656 % 256) = v / 281474976710656 % 65536 := by
    rw [step64_small _ _ (by omega)]; omega
  rw [h1]
  have h2 : step64 (v / 281474976710656 % 65536) (v / 1099511627776 % 256) = v / 1099511627776 % 16777216 := by
    rw [step64_small _ _ (by omega)]; omega
  rw [h2]
  have h3 : step64 (v / 1099511627776 % 16777216) (v / 4294967296 % 256) = v / 4294967296 % 4294967296 := by
    rw [step64_small _ _ (by omega)]; omega
  rw [h3]
  have h4 : step64 (v / 4294967296 % 4294967296) (v / 16777216 % 256) = v / 16777216 % 1099511627776 := by
    rw [step64_small _ _ (by omega)]; omega
  rw [h4]
  have h5 : step64 (v / 16777216 % 1099511627776) (v / 65536 % 256) = v / 65536 % 281474976710656 := by
    rw [step64_small _ _ (by omega)]; omega
  rw [h5]
  have h6 : step64 (v / 65536 % 281474976710656) (v / 256 % 256) = v / 256 % 72057594037927936 := by
    rw [step64_small _ _ (by omega)]; omega
  rw [h6]
  have h7 : step64 (v / 256 % 72057594037927936) (v % 256) = v := by
    rw [step64_small _ _ (by omega)]; omega
  rw [h7]

/-- shape of what `write_uint` emits for `v < 2^64`: first byte `0x30 + 16k + nibble`, then `k` bytes
whose big-endian value (with the nibble on top) is `v` -/
theorem uint_shape (v : Nat) (hv : v < 2 ^ 64) :
    ∃ k nib bs, (uintOp v).bytes = (0x30 + 16 * k + nib) :: bs ∧ k ≤ 8 ∧ nib < 16 ∧ bs.length = k ∧
      bs.foldl step64 nib = v := by
  unfold uintOp
  split
  · exact ⟨0, v, [], by simp [Op.bytes, tvBytes, tvTail, tvNibble]; omega, by omega, by omega, rfl, rfl⟩
  split
  · refine ⟨1, v / 256 % 16, [v % 256], by simp [Op.bytes, tvBytes, tvTail, tvNibble], by omega, by omega, rfl, ?_⟩
    simp [step64, two64]; omega
  split
  · refine ⟨2, v / 65536 % 16, [v / 256 % 256, v % 256], by simp [Op.bytes, tvBytes, tvTail, tvNibble], by omega, by omega, rfl, ?_⟩
    simp [step64, two64]; omega
  split
  · refine ⟨3, v / 16777216 % 16, [v / 65536 % 256, v / 256 % 256, v % 256], by simp [Op.bytes, tvBytes, tvTail, tvNibble], by omega, by omega, rfl, ?_⟩
    simp [step64, two64]; omega
  split
  · refine ⟨4, v / 4294967296 % 16, [v / 16777216 % 256, v / 65536 % 256, v / 256 % 256, v % 256], by simp [Op.bytes, tvBytes, tvTail, tvNibble], by omega, by omega, rfl, ?_⟩
    simp [step64, two64]; omega
  split
  · refine ⟨5, v / 1099511627776 % 16, [v / 4294967296 % 256, v / 16777216 % 256, v / 65536 % 256, v / 256 % 256, v % 256], by simp [Op.bytes, tvBytes, tvTail, tvNibble], by omega, by omega, rfl, ?_⟩
    simp [step64, two64]; omega
  split
  · refine ⟨6, v / 281474976710656 % 16, [v / 1099511627776 % 256, v / 4294967296 % 256, v / 16777216 % 256, v / 65536 % 256, v / 256 % 256, v % 256], by simp [Op.bytes, tvBytes, tvTail, tvNibble], by omega, by omega, rfl, ?_⟩
    simp [step64, two64]; omega
  split
  · refine ⟨7, v / 72057594037927936 % 16, [v / 281474976710656 % 256, v / 1099511627776 % 256, v / 4294967296 % 256, v / 16777216 % 256, v / 65536 % 256, v / 256 % 256, v % 256], by simp [Op.bytes, tvBytes, tvTail, tvNibble], by omega, by omega, rfl, ?_⟩
    simp [step64, two64]; omega

  · refine ⟨8, 0, [v / 72057594037927936 % 256, v / 281474976710656 % 256, v / 1099511627776 % 256, v / 4294967296 % 256, v / 16777216 % 256, v / 65536 % 256, v / 256 % 256, v % 256], by simp [Op.bytes, tvBytes, tvTail, tvNibble], by omega, by omega, rfl, ?_⟩
    exact lenBytes_val v hv

/-- `read_uint` on the bytes of `write_uint(v)`, every `u64`, followed by anything -/
theorem readUInt_roundtrip (v : Nat) (hv : v < 2 ^ 64) (rest : List Nat) (t n : Nat) (p : Option Site) :
    ∃ t', readUIntS ⟨(uintOp v).bytes ++ rest, true, t, n, p⟩ = (v, ⟨rest, true, t', v, p⟩) := by
  obtain ⟨k, nib, bs, hb, hk, hn, hl, hf⟩ := uint_shape v hv
  refine ⟨0x30 + 16 * k, ?_⟩
  rw [hb, List.cons_append, readUInt_num k nib hk hn bs rest hl, hf]

/-! ### strings -/

theorem strBytes_short (s : Str) (h : s.length < 16) :
    (Op.str s).bytes = (0xC0 + s.length) :: s := by
  simp [Op.bytes, strHeader, h, tvBytes, tvTail, tvNibble]

theorem strBytes_mid (s : Str) (h : 16 ≤ s.length) (h' : s.length < 4096) :
    (Op.str s).bytes = (0xD0 + s.length / 256) :: s.length % 256 :: s := by
  have h1 : ¬ s.length < 16 := by omega
  simp [Op.bytes, strHeader, h1, h', tvBytes, tvTail, tvNibble]
  omega

theorem strBytes_long (s : Str) (h : 4096 ≤ s.length) :
    (Op.str s).bytes = 0xE0 :: (lenBytes s.length ++ s) := by
  have h1 : ¬ s.length < 16 := by omega
  have h2 : ¬ s.length < 4096 := by omega
  simp [Op.bytes, strHeader, h1, h2, tvBytes, tvTail, tvNibble, lenBytes]

theorem readStrPayload_exact (s rest : Str) (hu : validUtf8 s = true) (t n : Nat) (p : Option Site) :
    readStrPayload s.length ⟨s ++ rest, true, t, n, p⟩ = (s, ⟨rest, true, t, n, p⟩) := by
  simp [readStrPayload, hu]
  intro h
  omega

def strTid (s : Str) : Nat := if s.length < 16 then 0xC0 else if s.length < 4096 then 0xD0 else 0xE0

theorem strTid_cases (s : Str) : strTid s = 0xC0 ∨ strTid s = 0xD0 ∨ strTid s = 0xE0 := by
  unfold strTid; split
  · exact Or.inl rfl
  · split
    · exact Or.inr (Or.inl rfl)
    · exact Or.inr (Or.inr rfl)

theorem rts_str (s : Str) (h : s.length < 2 ^ 64) (hu : validUtf8 s = true) (rest : List Nat) (t n : Nat)
    (p : Option Site) :
    readTypeAndSize ⟨(Op.str s).bytes ++ rest, true, t, n, p⟩ = (s, ⟨rest, true, strTid s, 0, p⟩) := by
  by_cases hs : s.length < 16
  · rw [strBytes_short s hs]
    have hhi : (0xC0 + s.length) / 16 * 16 = 0xC0 := by omega
    have hlo : (0xC0 + s.length) % 16 = s.length := by omega
    simp only [readTypeAndSize, if_true, hhi, hlo, List.cons_append]
    rw [readStrPayload_exact s rest hu]
    simp [strTid, hs]
  · by_cases hm : s.length < 4096
    · rw [strBytes_mid s (by omega) hm]
      have hhi : (0xD0 + s.length / 256) / 16 * 16 = 0xD0 := by omega
      have hlo : (0xD0 + s.length / 256) % 16 = s.length / 256 := by omega
      have hl : s.length / 256 * 256 + s.length % 256 = s.length := by omega
      simp only [readTypeAndSize, if_true, hhi, hlo, List.cons_append]
      simp only [hl]
      rw [readStrPayload_exact s rest hu]
      simp [strTid, hs, hm]
    · rw [strBytes_long s (by omega)]
      have hlb : (lenBytes s.length).length = 8 := rfl
      have hm8 := readMore_append (lenBytes s.length) (s ++ rest) 0xE0 0 p
      rw [hlb, lenBytes_val s.length h] at hm8
      simp only [readTypeAndSize, if_true, List.cons_append, List.append_assoc]
      have e1 : (0xE0 : Nat) / 16 * 16 = 0xE0 := by decide
      simp only [e1]
      simp only [show ¬ ((0xE0 : Nat) = 0x10) by decide, show ¬ (0x30 ≤ (0xE0 : Nat) ∧ (0xE0 : Nat) ≤ 0xB0) by decide,
        show ¬ ((0xE0 : Nat) = 0xC0) by decide, show ¬ ((0xE0 : Nat) = 0xD0) by decide, if_false]
      simp only [readLongStr]
      rw [hm8]
      simp only [longStrPayload, if_true]
      rw [readStrPayload_exact s rest hu]
      simp [strTid, hs, hm]

/-- `read_string` on the bytes of `write_str(s)`, any length, followed by anything -/
theorem readString_roundtrip (s : Str) (h : s.length < 2 ^ 64) (hu : validUtf8 s = true) (rest : List Nat)
    (t n : Nat) (p : Option Site) :
    readStringS ⟨(Op.str s).bytes ++ rest, true, t, n, p⟩ = (s, ⟨rest, true, strTid s, 0, p⟩) := by
  simp only [readStringS, rts_str s h hu rest t n p]
  rcases strTid_cases s with e | e | e <;> simp [e]

theorem readOptStr_some (s : Str) (h : s.length < 2 ^ 64) (hu : validUtf8 s = true) (rest : List Nat)
    (t n : Nat) (p : Option Site) :
    readOptStrS ⟨(optStrOp (some s)).bytes ++ rest, true, t, n, p⟩ = (some s, ⟨rest, true, strTid s, 0, p⟩) := by
  simp only [readOptStrS, optStrOp, if_true, rts_str s h hu rest t n p]
  rcases strTid_cases s with e | e | e <;> simp [e]

theorem readOptStr_none (rest : List Nat) (t n : Nat) (p : Option Site) :
    readOptStrS ⟨(optStrOp none).bytes ++ rest, true, t, n, p⟩ = (none, ⟨rest, true, 0x10, n, p⟩) := by
  simp [readOptStrS, optStrOp, Op.bytes, readTypeAndSize]

theorem readBool_roundtrip (b : Bool) (rest : List Nat) (t n : Nat) (p : Option Site) :
    readBoolS ⟨(boolOp b).bytes ++ rest, true, t, n, p⟩ = (b, ⟨rest, true, t, n, p⟩) := by
  cases b <;> simp [readBoolS, boolOp, Op.bytes]

end Rfsm.Codec
