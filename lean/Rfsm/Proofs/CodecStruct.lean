import Rfsm.Proofs.CodecData
/-! Round trips of the lesser persisted structures (ids, strings lists, content, params, donedata, data maps). -/
namespace Rfsm.Codec

macro "norm_bytes" : tactic =>
  `(tactic| simp only [bytesOf_append, bytesOf_cons, bytesOf_nil, List.append_assoc, List.append_nil,
      List.nil_append, List.cons_append])

theorem bytesOf_flatMap {α} (f : α → List Op) (l : List α) :
    bytesOf (l.flatMap f) = l.flatMap (fun a => bytesOf (f a)) := by
  induction l with
  | nil => rfl
  | cons a l ih => simp [List.flatMap_cons, ih]

/-- a counted list: `write_usize(len)`, then the elements -/
theorem Reads.opsList {α} {p : Prog α} {f : α → List Op} (l : List α) (hl : wfU typeLim l.length = true)
    (h : ∀ a ∈ l, Reads p (bytesOf (f a)) a) : Reads (readList p) (bytesOf (opsList f l)) l := by
  unfold Rfsm.Codec.opsList
  rw [bytesOf_cons, bytesOf_flatMap]
  exact Reads.list l (by simp only [wfU, typeLim] at hl; exact of_decide_eq_true hl) h

def wfId (v : Nat) : Bool := decide (v < two32)

theorem Reads.wid {v : Nat} (h : wfId v = true) : Reads pId (uintOp v).bytes v :=
  Reads.id v (of_decide_eq_true h)

def wfIds (L : Lim) (l : List Nat) : Bool := wfU L l.length && l.all wfId

theorem Reads.ids {l : List Nat} (h : wfIds typeLim l = true) : Reads (readList pId) (bytesOf (opsIds l)) l := by
  simp only [wfIds, Bool.and_eq_true, List.all_eq_true] at h
  refine Reads.opsList l h.1 (fun a ha => ?_)
  norm_bytes
  exact Reads.wid (h.2 a ha)

def wfStrs (L : Lim) (l : List Str) : Bool := wfU L l.length && l.all (wfStr L)

theorem Reads.strs {l : List Str} (h : wfStrs typeLim l = true) :
    Reads readStrList (bytesOf (opsStrList l)) l := by
  simp only [wfStrs, Bool.and_eq_true, List.all_eq_true] at h
  refine Reads.opsList l h.1 (fun a ha => ?_)
  norm_bytes
  exact Reads.wstr (h.2 a ha)

def wfOptStr (L : Lim) : Option Str → Bool
  | none => true
  | some s => wfStr L s

theorem Reads.woptStr {o : Option Str} (h : wfOptStr typeLim o = true) : Reads pOptStr (optStrOp o).bytes o := by
  apply Reads.optStr
  cases o with
  | none => trivial
  | some s => exact wfStr_lim h

def wfCommon (L : Lim) (c : CommonContent) : Bool := wfOptStr L c.content && wfOptStr L c.contentExpr

theorem Reads.common {c : CommonContent} (h : wfCommon typeLim c = true) :
    Reads readCommon (bytesOf (opsCommon c)) c := by
  simp only [wfCommon, Bool.and_eq_true] at h
  unfold opsCommon
  norm_bytes
  exact Reads.bind (Reads.woptStr h.1) (Reads.bind_pure (Reads.woptStr h.2) rfl)

def wfOptCommon (L : Lim) : Option CommonContent → Bool
  | none => true
  | some c => wfCommon L c

theorem Reads.optCommon {o : Option CommonContent} (h : wfOptCommon typeLim o = true) :
    Reads readOptCommon (bytesOf (opsOptCommon o)) o := by
  cases o with
  | none =>
    simp only [opsOptCommon]
    norm_bytes
    exact Reads.bind_pure (Reads.bool false) rfl
  | some c =>
    simp only [opsOptCommon]
    norm_bytes
    refine Reads.bind (Reads.bool true) ?_
    exact Reads.bind_pure (Reads.common h) rfl

def wfParam (L : Lim) (p : Param) : Bool := wfStr L p.name && wfStr L p.expr && wfStr L p.location

theorem Reads.param {p : Param} (h : wfParam typeLim p = true) : Reads readParam (bytesOf (opsParam p)) p := by
  simp only [wfParam, Bool.and_eq_true] at h
  unfold opsParam
  norm_bytes
  exact Reads.bind (Reads.wstr h.1.1) (Reads.bind (Reads.wstr h.1.2) (Reads.bind_pure (Reads.wstr h.2) rfl))

/-- `Some(vec![])` is written like `None` and read back as `None`: excluded -/
def wfParams (L : Lim) : Option (List Param) → Bool
  | none => true
  | some l => !l.isEmpty && wfU L l.length && l.all (wfParam L)

theorem Reads.params {o : Option (List Param)} (h : wfParams typeLim o = true) :
    Reads readParams (bytesOf (opsParams o)) o := by
  cases o with
  | none =>
    simp only [opsParams]
    norm_bytes
    exact Reads.bind_pure (Reads.uint 0 (by omega)) rfl
  | some l =>
    simp only [wfParams, Bool.and_eq_true, List.all_eq_true] at h
    simp only [opsParams, Rfsm.Codec.opsList]
    rw [bytesOf_cons, bytesOf_flatMap]
    refine Reads.bind (Reads.wuint h.1.2) ?_
    have hne : l.length ≠ 0 := by
      cases l with
      | nil => simp at h
      | cons a r => simp
    simp only [hne, if_false]
    exact Reads.bind_pure (Reads.rep l (fun a ha => Reads.param (h.2 a ha))) rfl

def wfDoneData (L : Lim) (d : DoneData) : Bool := wfOptCommon L d.content && wfParams L d.params

theorem Reads.doneData {d : DoneData} (h : wfDoneData typeLim d = true) :
    Reads readDoneData (bytesOf (opsDoneData d)) d := by
  simp only [wfDoneData, Bool.and_eq_true] at h
  unfold opsDoneData
  norm_bytes
  exact Reads.bind (Reads.optCommon h.1) (Reads.bind_pure (Reads.params h.2) rfl)

def wfD (L : Lim) (d : Data) : Bool := wfData L d && decide (d.depth ≤ dataFuel)

theorem Reads.wdata {d : Data} (h : wfD typeLim d = true) : Reads readData (bytesOf (opsData d)) d := by
  simp only [wfD, Bool.and_eq_true] at h
  exact Reads.data h.1 (of_decide_eq_true h.2)

def wfDataPairs (L : Lim) (l : List (Str × Data)) : Bool :=
  wfU L l.length && l.all (fun kv => wfStr L kv.1 && wfD L kv.2)

theorem Reads.dataPairs {l : List (Str × Data)} (h : wfDataPairs typeLim l = true) :
    Reads readDataPairs (bytesOf (opsDataPairs l)) l := by
  simp only [wfDataPairs, Bool.and_eq_true, List.all_eq_true] at h
  refine Reads.opsList l h.1 (fun a ha => ?_)
  norm_bytes
  have := h.2 a ha
  exact Reads.bind (Reads.wstr this.1) (Reads.bind_pure (Reads.wdata this.2) rfl)

end Rfsm.Codec
