import Rfsm.Proofs.SetLemmas
/-! Lemmas about exit sets, conflict removal and transition selection (M-INT). -/
namespace Rfsm.Interp

variable {σ : Type}

/-! ### exit set -/

/-- one fold step of `computeExitSet` -/
def exitStep (d : Doc) (hv : Table) (cfg : List Nat) (acc : List Nat) (tid : Nat) : List Nat :=
  let t := getTrans d tid
  if !t.target.isEmpty then
    let dom := transDomain d hv t
    (cfg.filter (fun s => isDescendant d s dom)).foldl oadd acc
  else acc

theorem computeExitSet_eq (d : Doc) (hv : Table) (cfg ts : List Nat) :
    computeExitSet d hv cfg ts = ts.foldl (exitStep d hv cfg) [] := rfl

/-- does transition `tid` exit state `x` of configuration `cfg`? -/
def exits (d : Doc) (hv : Table) (tid x : Nat) : Prop :=
  (getTrans d tid).target ≠ [] ∧ isDescendant d x (transDomain d hv (getTrans d tid)) = true

theorem mem_exitStep {d : Doc} {hv : Table} {cfg acc : List Nat} {tid x : Nat} :
    x ∈ exitStep d hv cfg acc tid ↔ x ∈ acc ∨ (x ∈ cfg ∧ exits d hv tid x) := by
  unfold exitStep exits
  by_cases h : (getTrans d tid).target = []
  · simp [h]
  · simp [h, mem_foldl_oadd]

theorem mem_foldl_exitStep {d : Doc} {hv : Table} {cfg : List Nat} {x : Nat} :
    ∀ {ts acc : List Nat}, x ∈ ts.foldl (exitStep d hv cfg) acc ↔
      x ∈ acc ∨ (x ∈ cfg ∧ ∃ tid ∈ ts, exits d hv tid x) := by
  intro ts
  induction ts with
  | nil => simp
  | cons t ts ih =>
    intro acc
    simp only [List.foldl_cons, ih, mem_exitStep, List.mem_cons, exists_eq_or_imp]
    constructor
    · rintro ((h | ⟨h1, h2⟩) | ⟨h1, h2⟩)
      · exact Or.inl h
      · exact Or.inr ⟨h1, Or.inl h2⟩
      · exact Or.inr ⟨h1, Or.inr h2⟩
    · rintro (h | ⟨h1, h2 | h2⟩)
      · exact Or.inl (Or.inl h)
      · exact Or.inl (Or.inr ⟨h1, h2⟩)
      · exact Or.inr ⟨h1, h2⟩

/-- the exit set is exactly the active states below the domain of some taken, targeted transition -/
theorem mem_computeExitSet {d : Doc} {hv : Table} {cfg ts : List Nat} {x : Nat} :
    x ∈ computeExitSet d hv cfg ts ↔ x ∈ cfg ∧ ∃ tid ∈ ts, exits d hv tid x := by
  rw [computeExitSet_eq, mem_foldl_exitStep]
  simp

theorem nodup_exitStep {d : Doc} {hv : Table} {cfg acc : List Nat} {tid : Nat} (h : acc.Nodup) :
    (exitStep d hv cfg acc tid).Nodup := by
  unfold exitStep
  simp only
  split
  · exact nodup_foldl_oadd h
  · exact h

theorem computeExitSet_nodup (d : Doc) (hv : Table) (cfg ts : List Nat) :
    (computeExitSet d hv cfg ts).Nodup := by
  rw [computeExitSet_eq]
  have : ∀ (ts acc : List Nat), acc.Nodup → (ts.foldl (exitStep d hv cfg) acc).Nodup := by
    intro ts
    induction ts with
    | nil => intro acc h; simpa
    | cons t ts ih => intro acc h; exact ih _ (nodup_exitStep h)
  exact this ts [] List.nodup_nil

/-! ### conflict removal -/

/-- two transitions conflict in the current configuration: their exit sets intersect -/
def conflict (d : Doc) (hv : Table) (cfg : List Nat) (t1 t2 : Nat) : Bool :=
  hasIntersection (computeExitSet d hv cfg [t1]) (computeExitSet d hv cfg [t2])

theorem hasIntersection_iff {l m : List Nat} : hasIntersection l m = true ↔ ∃ x, x ∈ l ∧ x ∈ m := by
  simp [hasIntersection]

theorem conflict_comm (d : Doc) (hv : Table) (cfg : List Nat) (t1 t2 : Nat) :
    conflict d hv cfg t1 t2 = conflict d hv cfg t2 t1 := by
  unfold conflict
  rw [Bool.eq_iff_iff, hasIntersection_iff, hasIntersection_iff]
  constructor <;> (rintro ⟨x, h1, h2⟩; exact ⟨x, h2, h1⟩)

/-- result of the inner scan: every member of `filtered` that conflicts with `t1` is in the
    returned removal set, which contains nothing but `toRemove` and members of `filtered` -/
theorem scan_spec (d : Doc) (hv : Table) (cfg : List Nat) (t1 : Nat) :
    ∀ (filtered toRemove r : List Nat),
      removeConflicting.scan d hv cfg t1 filtered toRemove = some r →
      (∀ t2 ∈ filtered, conflict d hv cfg t1 t2 = true → t2 ∈ r) ∧
      (∀ x ∈ toRemove, x ∈ r) ∧ (∀ x ∈ r, x ∈ toRemove ∨ x ∈ filtered) := by
  intro filtered
  induction filtered with
  | nil =>
    intro toRemove r h
    simp [removeConflicting.scan] at h
    subst h
    simp
  | cons t2 rest ih =>
    intro toRemove r h
    unfold removeConflicting.scan at h
    by_cases hc : hasIntersection (computeExitSet d hv cfg [t1]) (computeExitSet d hv cfg [t2]) = true
    · rw [if_pos hc] at h
      by_cases hd : isDescendant d (getTrans d t1).source (getTrans d t2).source = true
      · rw [if_pos hd] at h
        obtain ⟨h1, h2, h3⟩ := ih _ _ h
        refine ⟨?_, ?_, ?_⟩
        · intro t hm hconf
          rcases List.mem_cons.1 hm with rfl | hm
          · exact h2 _ (mem_oadd.2 (Or.inr rfl))
          · exact h1 t hm hconf
        · intro x hx; exact h2 x (mem_oadd.2 (Or.inl hx))
        · intro x hx
          rcases h3 x hx with h | h
          · rcases mem_oadd.1 h with h | rfl
            · exact Or.inl h
            · exact Or.inr (List.mem_cons_self)
          · exact Or.inr (List.mem_cons_of_mem _ h)
      · rw [if_neg hd] at h
        cases h
    · rw [if_neg hc] at h
      obtain ⟨h1, h2, h3⟩ := ih _ _ h
      refine ⟨?_, h2, ?_⟩
      · intro t hm hconf
        rcases List.mem_cons.1 hm with rfl | hm
        · exact absurd hconf hc
        · exact h1 t hm hconf
      · intro x hx
        rcases h3 x hx with h | h
        · exact Or.inl h
        · exact Or.inr (List.mem_cons_of_mem _ h)

/-- one outer step of `removeConflictingTransitions` -/
def rcStep (d : Doc) (hv : Table) (cfg : List Nat) (filtered : List Nat) (t1 : Nat) : List Nat :=
  match removeConflicting.scan d hv cfg t1 filtered [] with
  | none => filtered
  | some toRemove => oadd (toRemove.foldl odel filtered) t1

theorem removeConflicting_eq (d : Doc) (hv : Table) (cfg enabled : List Nat) :
    removeConflicting d hv cfg enabled = enabled.foldl (rcStep d hv cfg) [] := rfl

/-- invariant of the filtered list: duplicate free and pairwise conflict free -/
def ConflictFree (d : Doc) (hv : Table) (cfg : List Nat) (l : List Nat) : Prop :=
  l.Nodup ∧ ∀ a ∈ l, ∀ b ∈ l, a ≠ b → conflict d hv cfg a b = false

theorem rcStep_inv {d : Doc} {hv : Table} {cfg filtered : List Nat} {t1 : Nat}
    (h : ConflictFree d hv cfg filtered) : ConflictFree d hv cfg (rcStep d hv cfg filtered t1) := by
  unfold rcStep
  cases hs : removeConflicting.scan d hv cfg t1 filtered [] with
  | none => exact h
  | some r =>
    obtain ⟨h1, _, _⟩ := scan_spec d hv cfg t1 filtered [] r hs
    simp only
    have hsub : ∀ x, x ∈ r.foldl odel filtered → x ∈ filtered ∧ x ∉ r := fun x hx => mem_foldl_odel.1 hx
    have hnd : (r.foldl odel filtered).Nodup := by
      have : ∀ (r l : List Nat), l.Nodup → (r.foldl odel l).Nodup := by
        intro r
        induction r with
        | nil => intro l hl; simpa
        | cons a r ih => intro l hl; exact ih _ (nodup_odel hl)
      exact this r filtered h.1
    refine ⟨nodup_oadd hnd, ?_⟩
    intro a ha b hb hab
    rcases mem_oadd.1 ha with ha' | ha' <;> rcases mem_oadd.1 hb with hb' | hb'
    · exact h.2 a (hsub a ha').1 b (hsub b hb').1 hab
    · -- b = t1, a kept: a does not conflict with t1
      subst hb'
      cases hcf : conflict d hv cfg a b with
      | false => rfl
      | true =>
        rw [conflict_comm] at hcf
        exact absurd (h1 a (hsub a ha').1 hcf) (hsub a ha').2
    · subst ha'
      cases hcf : conflict d hv cfg a b with
      | false => rfl
      | true => exact absurd (h1 b (hsub b hb').1 hcf) (hsub b hb').2
    · exact absurd (ha'.trans hb'.symm) hab

theorem rcStep_subset {d : Doc} {hv : Table} {cfg filtered : List Nat} {t1 x : Nat}
    (hx : x ∈ rcStep d hv cfg filtered t1) : x ∈ filtered ∨ x = t1 := by
  unfold rcStep at hx
  cases hs : removeConflicting.scan d hv cfg t1 filtered [] with
  | none => rw [hs] at hx; exact Or.inl hx
  | some r =>
    rw [hs] at hx
    rcases mem_oadd.1 hx with h | h
    · exact Or.inl (mem_foldl_odel.1 h).1
    · exact Or.inr h

theorem removeConflicting_conflictFree (d : Doc) (hv : Table) (cfg enabled : List Nat) :
    ConflictFree d hv cfg (removeConflicting d hv cfg enabled) := by
  rw [removeConflicting_eq]
  have : ∀ (l acc : List Nat), ConflictFree d hv cfg acc → ConflictFree d hv cfg (l.foldl (rcStep d hv cfg) acc) := by
    intro l
    induction l with
    | nil => intro acc h; simpa
    | cons a l ih => intro acc h; exact ih _ (rcStep_inv h)
  exact this enabled [] ⟨List.nodup_nil, by simp⟩

theorem removeConflicting_subset (d : Doc) (hv : Table) (cfg enabled : List Nat) :
    ∀ x ∈ removeConflicting d hv cfg enabled, x ∈ enabled := by
  rw [removeConflicting_eq]
  have : ∀ (l acc : List Nat) (x : Nat), x ∈ l.foldl (rcStep d hv cfg) acc → x ∈ acc ∨ x ∈ l := by
    intro l
    induction l with
    | nil => intro acc x h; exact Or.inl (by simpa using h)
    | cons a l ih =>
      intro acc x h
      rcases ih _ x h with h | h
      · rcases rcStep_subset h with h | h
        · exact Or.inl h
        · exact Or.inr (by simp [h])
      · exact Or.inr (List.mem_cons_of_mem _ h)
  intro x hx
  rcases this enabled [] x hx with h | h
  · cases h
  · exact h

/-- the scan gives up (`t1` is pre-empted) exactly when some already selected transition conflicts
    with `t1` and `t1`'s source is not a descendant of that transition's source -/
theorem scan_none_iff (d : Doc) (hv : Table) (cfg : List Nat) (t1 : Nat) :
    ∀ (filtered toRemove : List Nat),
      removeConflicting.scan d hv cfg t1 filtered toRemove = none ↔
      ∃ t2 ∈ filtered, conflict d hv cfg t1 t2 = true ∧
        isDescendant d (getTrans d t1).source (getTrans d t2).source = false := by
  intro filtered
  induction filtered with
  | nil => intro tr; simp [removeConflicting.scan]
  | cons t2 rest ih =>
    intro tr
    unfold removeConflicting.scan
    by_cases hc : hasIntersection (computeExitSet d hv cfg [t1]) (computeExitSet d hv cfg [t2]) = true
    · rw [if_pos hc]
      by_cases hd : isDescendant d (getTrans d t1).source (getTrans d t2).source = true
      · rw [if_pos hd, ih]
        constructor
        · rintro ⟨t, ht, h⟩; exact ⟨t, List.mem_cons_of_mem _ ht, h⟩
        · rintro ⟨t, ht, h1, h2⟩
          rcases List.mem_cons.1 ht with rfl | ht
          · rw [hd] at h2; cases h2
          · exact ⟨t, ht, h1, h2⟩
      · rw [if_neg hd]
        simp only [true_iff]
        exact ⟨t2, List.mem_cons_self, hc, by simpa using hd⟩
    · rw [if_neg hc, ih]
      constructor
      · rintro ⟨t, ht, h⟩; exact ⟨t, List.mem_cons_of_mem _ ht, h⟩
      · rintro ⟨t, ht, h1, h2⟩
        rcases List.mem_cons.1 ht with rfl | ht
        · exact absurd h1 hc
        · exact ⟨t, ht, h1, h2⟩

/-- pre-emption: a later selection that conflicts with an already kept transition whose source is
    not an ancestor of its own source is dropped, and nothing else changes -/
theorem rcStep_preempted {d : Doc} {hv : Table} {cfg filtered : List Nat} {t1 : Nat}
    (h : ∃ t2 ∈ filtered, conflict d hv cfg t1 t2 = true ∧
      isDescendant d (getTrans d t1).source (getTrans d t2).source = false) :
    rcStep d hv cfg filtered t1 = filtered := by
  unfold rcStep
  rw [(scan_none_iff d hv cfg t1 filtered []).2 h]

/-- otherwise the later selection wins: it is kept and every kept transition it conflicts with
    (all of them selected by ancestors of its source) is removed -/
theorem rcStep_kept {d : Doc} {hv : Table} {cfg filtered : List Nat} {t1 : Nat}
    (h : ∀ t2 ∈ filtered, conflict d hv cfg t1 t2 = true →
      isDescendant d (getTrans d t1).source (getTrans d t2).source = true) :
    t1 ∈ rcStep d hv cfg filtered t1 ∧
    (∀ t2 ∈ filtered, t2 ≠ t1 → conflict d hv cfg t1 t2 = true → t2 ∉ rcStep d hv cfg filtered t1) ∧
    (∀ t2 ∈ filtered, conflict d hv cfg t1 t2 = false → t2 ∈ rcStep d hv cfg filtered t1) := by
  unfold rcStep
  cases hs : removeConflicting.scan d hv cfg t1 filtered [] with
  | none =>
    obtain ⟨t2, ht2, hc, hd⟩ := (scan_none_iff d hv cfg t1 filtered []).1 hs
    rw [h t2 ht2 hc] at hd
    cases hd
  | some r =>
    obtain ⟨h1, _, h3⟩ := scan_spec d hv cfg t1 filtered [] r hs
    simp only
    refine ⟨mem_oadd.2 (Or.inr rfl), ?_, ?_⟩
    · intro t2 ht2 hne hc hm
      rcases mem_oadd.1 hm with hm | hm
      · exact (mem_foldl_odel.1 hm).2 (h1 t2 ht2 hc)
      · exact hne hm
    · intro t2 ht2 hc
      refine mem_oadd.2 (Or.inl (mem_foldl_odel.2 ⟨ht2, ?_⟩))
      intro hr
      -- members of `r` come from the scan: each conflicts with t1
      have : ∀ (filtered tr r : List Nat), removeConflicting.scan d hv cfg t1 filtered tr = some r →
          ∀ x ∈ r, x ∈ tr ∨ (x ∈ filtered ∧ conflict d hv cfg t1 x = true) := by
        intro filtered
        induction filtered with
        | nil => intro tr r hs x hx; simp [removeConflicting.scan] at hs; subst hs; exact Or.inl hx
        | cons a rest ih =>
          intro tr r hs x hx
          unfold removeConflicting.scan at hs
          by_cases hca : hasIntersection (computeExitSet d hv cfg [t1]) (computeExitSet d hv cfg [a]) = true
          · rw [if_pos hca] at hs
            by_cases hda : isDescendant d (getTrans d t1).source (getTrans d a).source = true
            · rw [if_pos hda] at hs
              rcases ih _ _ hs x hx with h | ⟨h, h'⟩
              · rcases mem_oadd.1 h with h | rfl
                · exact Or.inl h
                · exact Or.inr ⟨List.mem_cons_self, hca⟩
              · exact Or.inr ⟨List.mem_cons_of_mem _ h, h'⟩
            · rw [if_neg hda] at hs; cases hs
          · rw [if_neg hca] at hs
            rcases ih _ _ hs x hx with h | ⟨h, h'⟩
            · exact Or.inl h
            · exact Or.inr ⟨List.mem_cons_of_mem _ h, h'⟩
      rcases this filtered [] r hs t2 hr with h | ⟨_, h⟩
      · cases h
      · rw [hc] at h; cases h

end Rfsm.Interp
