import Rfsm.Model.Queue
/-! Lemmas about merges and about the producer/consumer transition system (C13). -/
namespace Rfsm.Queue

section Merge
variable {α : Type}

theorem isMergeOfB_iff [DecidableEq α] (ps : List (List α)) (out : List α) :
    isMergeOfB ps out = true ↔ IsMergeOf ps out := by
  induction out generalizing ps with
  | nil =>
    simp only [isMergeOfB, List.all_eq_true, List.isEmpty_iff]
    constructor
    · intro h; exact .done h
    · intro h; cases h with | done h => exact h
  | cons e out ih =>
    simp only [isMergeOfB, List.any_eq_true, List.mem_range]
    constructor
    · rintro ⟨i, _, h⟩
      split at h
      · rename_i h' t heq
        simp only [Bool.and_eq_true, decide_eq_true_eq] at h
        obtain ⟨rfl, hm⟩ := h
        exact .take i _ t heq ((ih _).1 hm)
      · simp at h
    · intro h
      cases h with
      | take i e t hget hrest =>
        refine ⟨i, ?_, ?_⟩
        · exact (List.getElem?_eq_some_iff.1 hget).1
        · simp [hget, (ih _).2 hrest]

theorem flatten_eq_nil_of_all_nil {ps : List (List α)} (h : ∀ l ∈ ps, l = []) : ps.flatten = [] := by
  induction ps with
  | nil => rfl
  | cons l ls ih =>
    have h1 : l = [] := h l (by simp)
    have h2 : ls.flatten = [] := ih (fun x hx => h x (by simp [hx]))
    simp [h1, h2]

theorem flatten_set_perm {ps : List (List α)} {i : Nat} {e : α} {t : List α}
    (h : ps[i]? = some (e :: t)) : ps.flatten.Perm (e :: (ps.set i t).flatten) := by
  induction ps generalizing i with
  | nil => simp at h
  | cons l ls ih =>
    cases i with
    | zero =>
      simp only [List.getElem?_cons_zero, Option.some.injEq] at h
      subst h
      simp
    | succ j =>
      simp only [List.getElem?_cons_succ] at h
      have := ih h
      simp only [List.flatten_cons, List.set_cons_succ]
      exact (List.Perm.append_left l this).trans List.perm_middle

/-- a merge is a permutation of everything that was sent: nothing lost, nothing duplicated -/
theorem IsMergeOf.perm {ps : List (List α)} {out : List α} (h : IsMergeOf ps out) :
    out.Perm ps.flatten := by
  induction h with
  | done h => rw [flatten_eq_nil_of_all_nil h]
  | take i e t hget _ ih => exact (List.Perm.cons e ih).trans (flatten_set_perm hget).symm

/-- producer `i` appends `e` to what it has sent, the channel appends `e` at its tail -/
theorem IsMergeOf.snoc {ps : List (List α)} {out : List α} (h : IsMergeOf ps out)
    (i : Nat) (l : List α) (e : α) (hi : ps[i]? = some l) :
    IsMergeOf (ps.set i (l ++ [e])) (out ++ [e]) := by
  induction h generalizing l with
  | @done ps hall =>
    have hlt : i < ps.length := (List.getElem?_eq_some_iff.1 hi).1
    have hl : l = [] := hall l (List.mem_of_getElem? hi)
    subst hl
    refine .take i e [] (by simp [hlt]) ?_
    refine .done ?_
    intro x hx
    simp only [List.set_set] at hx
    rcases List.mem_or_eq_of_mem_set hx with hx | hx
    · exact hall x hx
    · exact hx
  | @take ps out j e' t hj _ ih =>
    have hlt : i < ps.length := (List.getElem?_eq_some_iff.1 hi).1
    have hjlt : j < ps.length := (List.getElem?_eq_some_iff.1 hj).1
    by_cases hij : i = j
    · subst hij
      have : l = e' :: t := by rw [hi] at hj; exact Option.some.inj hj
      subst this
      refine .take i e' (t ++ [e]) (by simp [hlt]) ?_
      have := ih t (by simp [hlt])
      simpa [List.set_set] using this
    · refine .take j e' t ?_ ?_
      · rw [List.getElem?_set_ne hij]; exact hj
      · have := ih l (by rw [List.getElem?_set_ne (Ne.symm hij)]; exact hi)
        rw [List.set_comm _ _ (Ne.symm hij)] at this
        exact this

theorem restrict_cons_eq (out : List α) (owner : List Nat) (e : α) (o i : Nat) :
    restrict (e :: out) (o :: owner) i =
      if o = i then e :: restrict out owner i else restrict out owner i := by
  unfold restrict
  by_cases h : o = i <;> simp [h]

/-- sender order, as in the property text: the positions of `out` can be attributed to the
producers so that producer `i`'s positions spell its list -/
theorem IsMergeOf.owners {ps : List (List α)} {out : List α} (h : IsMergeOf ps out) :
    ∃ owner : List Nat, owner.length = out.length ∧ (∀ o ∈ owner, o < ps.length) ∧
      ∀ i, i < ps.length → restrict out owner i = ps[i]?.getD [] := by
  induction h with
  | @done ps hall =>
    refine ⟨[], rfl, by simp, ?_⟩
    intro i hi
    have : ps[i] = [] := hall _ (List.getElem_mem hi)
    simp [restrict, hi, this]
  | @take ps out i e t hget _ ih =>
    obtain ⟨owner, hlen, hlt, hr⟩ := ih
    have hi : i < ps.length := (List.getElem?_eq_some_iff.1 hget).1
    refine ⟨i :: owner, by simp [hlen], ?_, ?_⟩
    · intro o ho
      rcases List.mem_cons.1 ho with rfl | ho
      · exact hi
      · simpa using hlt o ho
    · intro j hj
      rw [restrict_cons_eq]
      have hj' : j < (ps.set i t).length := by simpa using hj
      by_cases hij : i = j
      · subst hij
        have hgi : ps[i] = e :: t := (List.getElem?_eq_some_iff.1 hget).2
        rw [if_pos rfl, hr i hj']
        simp [hi, hgi]
      · rw [if_neg hij, hr j hj', List.getElem?_set_ne hij]

/-- conversely an owner assignment with the right restrictions is a merge -/
theorem isMergeOf_of_owners {ps : List (List α)} {out : List α} (owner : List Nat)
    (hlen : owner.length = out.length) (hlt : ∀ o ∈ owner, o < ps.length)
    (hr : ∀ i, i < ps.length → restrict out owner i = ps[i]?.getD []) : IsMergeOf ps out := by
  induction out generalizing ps owner with
  | nil =>
    refine .done ?_
    intro l hl
    obtain ⟨i, hi, rfl⟩ := List.getElem_of_mem hl
    have := hr i hi
    simp [restrict, hi] at this
    exact this
  | cons e out ih =>
    cases owner with
    | nil => simp at hlen
    | cons o owner =>
      have ho : o < ps.length := hlt o (by simp)
      have h0 := hr o ho
      rw [restrict_cons_eq, if_pos rfl] at h0
      have hget : ps[o]? = some (e :: restrict out owner o) := by
        simp only [List.getElem?_eq_getElem ho, Option.getD_some] at h0
        simp [List.getElem?_eq_getElem ho, h0]
      refine .take o e _ hget (ih owner (by simpa using hlen) ?_ ?_)
      · intro x hx; simpa using hlt x (by simp [hx])
      · intro i hi
        have hi' : i < ps.length := by simpa using hi
        have := hr i hi'
        rw [restrict_cons_eq] at this
        by_cases hoi : o = i
        · subst hoi; simp [ho]
        · rw [if_neg hoi] at this
          rw [this, List.getElem?_set_ne hoi]

end Merge

section Seq
variable {σ ε ο : Type} (M : Sys σ ε ο)

theorem seqState_snoc (s : σ) (es : List ε) (e : ε) :
    seqState M s (es ++ [e]) =
      if M.accept (seqState M s es) e then (M.step (seqState M s es) e).1 else seqState M s es := by
  induction es generalizing s with
  | nil => simp only [List.nil_append, seqState]; split <;> simp_all
  | cons a r ih =>
    simp only [List.cons_append, seqState]
    split <;> exact ih _

theorem segments_snoc (s : σ) (es : List ε) (e : ε) :
    segments M s (es ++ [e]) =
      segments M s es ++
        [if M.accept (seqState M s es) e then (M.step (seqState M s es) e).2 else []] := by
  induction es generalizing s with
  | nil => simp only [List.nil_append, segments, seqState]; split <;> simp_all
  | cons a r ih =>
    simp only [List.cons_append, segments, seqState]
    split <;> simp [ih]

theorem verdicts_snoc (s : σ) (es : List ε) (e : ε) :
    verdicts M s (es ++ [e]) = verdicts M s es ++ [M.accept (seqState M s es) e] := by
  induction es generalizing s with
  | nil => simp only [List.nil_append, verdicts, seqState]; split <;> simp_all
  | cons a r ih =>
    simp only [List.cons_append, verdicts, seqState]
    split <;> simp [ih]

theorem segments_length (s : σ) (es : List ε) : (segments M s es).length = es.length := by
  induction es generalizing s with
  | nil => rfl
  | cons a r ih => simp only [segments]; split <;> simp [ih]

theorem verdicts_all_true (hacc : ∀ s e, M.accept s e = true) (s : σ) (es : List ε) :
    ∀ b ∈ verdicts M s es, b = true := by
  induction es generalizing s with
  | nil => simp [verdicts]
  | cons a r ih =>
    simp only [verdicts, hacc, if_true]
    intro b hb
    rcases List.mem_cons.1 hb with rfl | hb
    · rfl
    · exact ih _ b hb

end Seq

section LTS
variable {σ ε ο : Type}

/-- what holds in every reachable state -/
structure Inv (M : Sys σ ε ο) (ps : List (List ε)) (s0 : σ) (s : St σ ε ο) : Prop where
  lenS : s.sent.length = ps.length
  lenP : s.prods.length = ps.length
  /-- every producer's list = what it has sent ++ what it still has to send -/
  split : ∀ i : Nat, (s.sent[i]?.getD []) ++ (s.prods[i]?.getD []) = ps[i]?.getD []
  /-- dequeued ++ in flight is an interleaving of what has been sent (in flight = sent − dequeued) -/
  merge : IsMergeOf s.sent (s.deq.map Prod.fst ++ s.fifo)
  /-- the consumer is where the sequential consumer would be after the dequeued events -/
  sess : s.sess = seqState M s0 (s.deq.map Prod.fst)
  verd : s.deq.map Prod.snd = verdicts M s0 (s.deq.map Prod.fst)
  /-- emitted ++ still pending = the segments of the dequeued events, in dequeue order -/
  trace : s.trace ++ s.pending = (segments M s0 (s.deq.map Prod.fst)).flatten

theorem inv_init (M : Sys σ ε ο) (ps : List (List ε)) (s0 : σ) : Inv M ps s0 (init ps s0) := by
  refine ⟨by simp [init], by simp [init], ?_, ?_, by simp [init, seqState], by simp [init, verdicts],
    by simp [init, segments]⟩
  · intro i
    by_cases h : i < ps.length <;> simp [init, h]
  · simp only [init, List.map_nil, List.append_nil]
    exact .done (by simp)

theorem inv_next (M : Sys σ ε ο) (ps : List (List ε)) (s0 : σ) (s s' : St σ ε ο) (c : Choice)
    (h : Inv M ps s0 s) (hn : next M s c = some s') : Inv M ps s0 s' := by
  cases c with
  | send i =>
    simp only [next] at hn
    split at hn
    · rename_i e t hget
      simp only [Option.some.injEq] at hn
      subst hn
      have hip : i < s.prods.length := (List.getElem?_eq_some_iff.1 hget).1
      have his : i < s.sent.length := by rw [h.lenS, ← h.lenP]; exact hip
      refine ⟨by simp [h.lenS], by simp [h.lenP], ?_, ?_, h.sess, h.verd, h.trace⟩
      · intro j
        by_cases hij : i = j
        · subst hij
          have := h.split i
          simp only [hget, Option.getD_some] at this
          simp [his, hip, ← this]
        · simp only [List.getElem?_set_ne hij]
          exact h.split j
      · have := h.merge.snoc i (s.sent[i]?.getD []) e (by simp [his])
        simpa [List.append_assoc] using this
    · simp at hn
  | recv =>
    simp only [next] at hn
    split at hn
    · rename_i e q hpend hfifo
      have hm : IsMergeOf s.sent ((s.deq.map Prod.fst ++ [e]) ++ q) := by
        have := h.merge
        rw [hfifo] at this
        simpa [List.append_assoc] using this
      split at hn
      · rename_i hacc
        simp only [Option.some.injEq] at hn
        subst hn
        have hacc' : M.accept (seqState M s0 (s.deq.map Prod.fst)) e = true := by
          rw [← h.sess]; exact hacc
        refine ⟨h.lenS, h.lenP, h.split, by simpa using hm, ?_, ?_, ?_⟩
        · simp [seqState_snoc, ← h.sess, hacc]
        · simp [verdicts_snoc, hacc', h.verd]
        · have ht := h.trace
          rw [hpend, List.append_nil] at ht
          simp [segments_snoc, ← h.sess, hacc, ht]
      · rename_i hacc
        simp only [Option.some.injEq] at hn
        subst hn
        have hacc' : M.accept (seqState M s0 (s.deq.map Prod.fst)) e = false := by
          rw [← h.sess]; simpa using hacc
        refine ⟨h.lenS, h.lenP, h.split, by simpa using hm, ?_, ?_, ?_⟩
        · simp [seqState_snoc, ← h.sess, hacc]
        · simp [verdicts_snoc, hacc', h.verd]
        · have ht := h.trace
          simp [segments_snoc, hacc', ht]
    · simp at hn
  | tick =>
    simp only [next] at hn
    split at hn
    · rename_i o r hpend
      simp only [Option.some.injEq] at hn
      subst hn
      refine ⟨h.lenS, h.lenP, h.split, h.merge, h.sess, h.verd, ?_⟩
      have := h.trace
      rw [hpend] at this
      simpa [List.append_assoc] using this
    · simp at hn

theorem inv_run (M : Sys σ ε ο) (ps : List (List ε)) (s0 : σ) (sched : List Choice)
    (s s' : St σ ε ο) (h : Inv M ps s0 s) (hr : run M s sched = some s') : Inv M ps s0 s' := by
  induction sched generalizing s with
  | nil => simp only [run, Option.some.injEq] at hr; exact hr ▸ h
  | cons c cs ih =>
    simp only [run] at hr
    split at hr
    · rename_i s1 hn
      exact ih s1 (inv_next M ps s0 s s1 c h hn) hr
    · simp at hr

/-- when every producer is done, what was sent is everything -/
theorem sent_eq_of_done (M : Sys σ ε ο) (ps : List (List ε)) (s0 : σ) (s : St σ ε ο)
    (h : Inv M ps s0 s) (hd : ∀ l ∈ s.prods, l = []) : s.sent = ps := by
  apply List.ext_getElem?
  intro i
  by_cases hi : i < ps.length
  · have his : i < s.sent.length := by rw [h.lenS]; exact hi
    have hip : i < s.prods.length := by rw [h.lenP]; exact hi
    have := h.split i
    have hp : s.prods[i] = [] := hd _ (List.getElem_mem hip)
    simp only [List.getElem?_eq_getElem his, List.getElem?_eq_getElem hip,
      List.getElem?_eq_getElem hi, Option.getD_some, hp, List.append_nil] at this
    simp [List.getElem?_eq_getElem his, List.getElem?_eq_getElem hi, this]
  · have h1 : s.sent.length ≤ i := by rw [h.lenS]; omega
    have h2 : ps.length ≤ i := by omega
    simp [List.getElem?_eq_none h1, List.getElem?_eq_none h2]

/-- the model does not deadlock: an incomplete state always has an enabled thread -/
theorem progress (M : Sys σ ε ο) (s : St σ ε ο) (h : ¬ complete s) :
    ∃ c, (next M s c).isSome = true := by
  by_cases hp : s.pending = []
  · by_cases hf : s.fifo = []
    · have : ∃ l ∈ s.prods, l ≠ [] := by
        apply Classical.byContradiction
        intro hne
        exact h ⟨fun l hl => Classical.byContradiction fun hc => hne ⟨l, hl, hc⟩, hf, hp⟩
      obtain ⟨l, hl, hne⟩ := this
      obtain ⟨i, hi, rfl⟩ := List.getElem_of_mem hl
      cases hli : s.prods[i] with
      | nil => exact absurd hli hne
      | cons e t =>
        exact ⟨.send i, by simp [next, List.getElem?_eq_getElem hi, hli]⟩
    · cases hq : s.fifo with
      | nil => exact absurd hq hf
      | cons e q =>
        refine ⟨.recv, ?_⟩
        simp only [next, hp, hq]
        split <;> rfl
  · cases hq : s.pending with
    | nil => exact absurd hq hp
    | cons o r => exact ⟨.tick, by simp [next, hq]⟩

/-! ### model completeness: every interleaving is produced by some schedule -/

theorem run_append (M : Sys σ ε ο) (s : St σ ε ο) (a b : List Choice) :
    run M s (a ++ b) = (run M s a).bind (fun s' => run M s' b) := by
  induction a generalizing s with
  | nil => simp [run]
  | cons c cs ih =>
    simp only [List.cons_append, run]
    cases next M s c with
    | none => simp
    | some s1 => simp [ih]

theorem drain (M : Sys σ ε ο) (p : List ο) (s : St σ ε ο) (hp : s.pending = p) :
    ∃ s', run M s (List.replicate p.length .tick) = some s' ∧ s'.pending = [] ∧
      s'.prods = s.prods ∧ s'.fifo = s.fifo ∧ s'.deq = s.deq := by
  induction p generalizing s with
  | nil => exact ⟨s, by simp [run], hp, rfl, rfl, rfl⟩
  | cons o r ih =>
    have hn : next M s .tick = some { s with pending := r, trace := s.trace ++ [o] } := by
      simp [next, hp]
    obtain ⟨s', h1, h2, h3, h4, h5⟩ := ih { s with pending := r, trace := s.trace ++ [o] } rfl
    refine ⟨s', ?_, h2, h3, h4, h5⟩
    simp only [List.length_cons, List.replicate_succ, run, hn]
    exact h1

theorem next_send (M : Sys σ ε ο) (s : St σ ε ο) (i : Nat) (e : ε) (t : List ε)
    (h : s.prods[i]? = some (e :: t)) :
    ∃ s1, next M s (.send i) = some s1 ∧ s1.prods = s.prods.set i t ∧ s1.fifo = s.fifo ++ [e] ∧
      s1.pending = s.pending ∧ s1.deq = s.deq := by
  simp only [next, h]
  exact ⟨_, rfl, rfl, rfl, rfl, rfl⟩

theorem next_recv (M : Sys σ ε ο) (s : St σ ε ο) (e : ε) (q : List ε)
    (hp : s.pending = []) (hf : s.fifo = e :: q) :
    ∃ s2, next M s .recv = some s2 ∧ s2.deq.map Prod.fst = s.deq.map Prod.fst ++ [e] ∧
      s2.prods = s.prods ∧ s2.fifo = q := by
  simp only [next, hp, hf]
  split
  · exact ⟨_, rfl, by simp, rfl, rfl⟩
  · exact ⟨_, rfl, by simp, rfl, rfl⟩

theorem every_merge_is_a_run (M : Sys σ ε ο) (ps : List (List ε)) (out : List ε)
    (h : IsMergeOf ps out) (st : St σ ε ο) (hps : st.prods = ps) (hp : st.pending = [])
    (hf : st.fifo = []) :
    ∃ sched st', run M st sched = some st' ∧ complete st' ∧
      st'.deq.map Prod.fst = st.deq.map Prod.fst ++ out := by
  induction h generalizing st with
  | done hall => exact ⟨[], st, rfl, ⟨hps ▸ hall, hf, hp⟩, by simp⟩
  | @take ps out i e t hget _ ih =>
    obtain ⟨st1, h1, hprods1, hfifo1, hp1, hdeq1⟩ := next_send M st i e t (hps ▸ hget)
    obtain ⟨st2, h2, hdeq2, hprods2, hfifo2⟩ :=
      next_recv M st1 e [] (hp1.trans hp) (by rw [hfifo1, hf]; rfl)
    obtain ⟨st3, h3, hp3, hprods3, hfifo3, hdeq3⟩ := drain M st2.pending st2 rfl
    obtain ⟨sched', st', h4, hc, hd⟩ :=
      ih st3 (by rw [hprods3, hprods2, hprods1, hps]) hp3 (by rw [hfifo3, hfifo2])
    refine ⟨[.send i, .recv] ++ (List.replicate st2.pending.length .tick ++ sched'), st', ?_, hc, ?_⟩
    · rw [run_append]
      have : run M st [.send i, .recv] = some st2 := by simp [run, h1, h2]
      rw [this]
      simp only [Option.bind_some]
      rw [run_append, h3]
      exact h4
    · rw [hd, hdeq3, hdeq2, hdeq1]
      simp
end LTS
end Rfsm.Queue
