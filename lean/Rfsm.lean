import Rfsm.Model.Wire
import Rfsm.Model.Descriptor
