import Rfsm.Model.Wire
import Rfsm.Model.Descriptor
import Rfsm.Model.Queue
import Rfsm.Model.Route
