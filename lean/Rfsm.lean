-- Root of the `Rfsm` library: models, helper lemmas, property theorems.
import Rfsm.Model.Wire
import Rfsm.Model.Descriptor
import Rfsm.Model.Interp
import Rfsm.Model.Exec
import Rfsm.Model.Vdm
import Rfsm.Model.Legal
import Rfsm.Audit
import Rfsm.Proofs.DescriptorLemmas
import Rfsm.Props.C19
import Rfsm.Proofs.SetLemmas
import Rfsm.Proofs.SelectLemmas
import Rfsm.Proofs.SessLemmas
import Rfsm.Props.C02
