import Rfsm.Model.Wire
import Rfsm.Model.Descriptor
import Rfsm.Model.Timer
