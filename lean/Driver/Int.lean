import Rfsm.Model.Wire
import Rfsm.Model.Vdm
import Rfsm.Model.Legal
/-!
Driver family `int`: the interpreter model (M-INT + M-EXEC + VDM) on a dumped document.

    int run <doc> <batch^batch…|!> <callerInvokeId|!> <hasParent 0|1>  →  <trace> <status>
    int legal <doc> <cfg ids>                                   →  1|0   (oracle: legal configuration)

Document wire format (no blanks): records separated by `|`, fields by `,`, list elements by `/`,
`.` = empty list, strings hex (`-` = empty), `!` = absent option.
  H,root,late,script
  S,id,docId,name,parent,kids,par,fin,hist,initial,trans,onentry,onexit,history,invokes(docId:auto:finalize)
  T,id,docId,events,wild,cond,source,targets,internal,content
  R,id,item;item;…        item = kind~field~…
  D,stateId,name=expr/…
  N,stateId,params(name:expr:loc/…),hasContent,content,contentExpr
-/
namespace Driver.Int
open Rfsm Rfsm.Wire Rfsm.Interp Rfsm.Vdm
open Rfsm.Descriptor (Str)

def nat? (s : String) : Option Nat := s.toNat?
def bool? (s : String) : Option Bool := if s = "1" then some true else if s = "0" then some false else none
def listOf {α} (f : String → Option α) (s : String) : Option (List α) :=
  if s = "." then some [] else (s.splitOn "/").mapM f
def optHex (s : String) : Option (Option Str) := if s = "!" then some none else (unhex s).map some

def parseInvoke (s : String) : Option Invoke :=
  match s.splitOn ":" with
  | [a, b, c] => do pure { docId := ← nat? a, autoforward := ← bool? b, finalize := ← nat? c }
  | [a, b, c, i] => do pure { docId := ← nat? a, autoforward := ← bool? b, finalize := ← nat? c, id := ← unhex i }
  | [a, b, c, i, nl] => do
    let names ← if nl = "." then some [] else (nl.splitOn "+").mapM unhex
    pure { docId := ← nat? a, autoforward := ← bool? b, finalize := ← nat? c, id := ← unhex i, nameList := names }
  | _ => none

def parseParam (s : String) : Option Param :=
  match s.splitOn ":" with
  | [a, b, c] => do pure { name := ← unhex a, expr := ← unhex b, location := ← unhex c }
  | _ => none

def parseItem (s : String) : Option Item :=
  match s.splitOn "~" with
  | ["if", c, t, e] => do pure (.if_ (← unhex c) (← nat? t) (← nat? e))
  | ["expr", src] => do pure (.expr (← unhex src))
  | ["script", rs] => do pure (.script (← listOf nat? rs))
  | ["log", l, e] => do pure (.log (← unhex l) (← unhex e))
  | ["foreach", a, i, x, b] => do pure (.foreach (← unhex a) (← unhex i) (← unhex x) (← nat? b))
  | ["raise", e] => do pure (.raise (← unhex e))
  | ["cancel", a, b] => do pure (.cancel (← unhex a) (← unhex b))
  | ["assign", l, e] => do pure (.assign (← unhex l) (← unhex e))
  | ["send", idloc, name, parent, ev, evx, tg, tgx, ty, tyx, dms, dx, nl, ps, hc, ct, cx] => do
    pure (.send { idLocation := ← unhex idloc, name := ← unhex name, parentState := ← unhex parent,
                  event := ← unhex ev, eventExpr := ← unhex evx, target := ← unhex tg, targetExpr := ← unhex tgx,
                  typ := ← unhex ty, typeExpr := ← unhex tyx, delayMs := ← nat? dms, delayExpr := ← unhex dx,
                  nameList := ← listOf unhex nl, params := ← listOf parseParam ps,
                  hasContent := ← bool? hc, content := ← optHex ct, contentExpr := ← optHex cx })
  | _ => none

structure Parsed where
  doc : Doc := { states := [], transitions := [], root := 0 }
  regions : Regions := []
  tables : Tables := { names := [], data := [], donedata := [] }

def parseRecord (p : Parsed) (r : String) : Option Parsed :=
  match r.splitOn "," with
  | ["H", root, late, script] => do
    pure { p with doc := { p.doc with root := ← nat? root, late := ← bool? late, script := ← nat? script } }
  | ["S", id, docId, name, parent, kids, par, fin, hist, initial, trans, onentry, onexit, history, invokes] => do
    let id' ← nat? id
    let docId' ← nat? docId
    let name' ← unhex name
    let parent' ← nat? parent
    let kids' ← listOf nat? kids
    let par' ← bool? par
    let fin' ← bool? fin
    let hist' ← nat? hist
    let initial' ← nat? initial
    let trans' ← listOf nat? trans
    let onentry' ← listOf nat? onentry
    let onexit' ← listOf nat? onexit
    let history' ← listOf nat? history
    let invokes' ← listOf parseInvoke invokes
    let st : State := {
      id := id', docId := docId', name := name', parent := parent', kids := kids',
      isParallel := par', isFinal := fin', histType := hist', initial := initial', transitions := trans',
      onentry := onentry', onexit := onexit', history := history', invokes := invokes' }
    pure { p with doc := { p.doc with states := p.doc.states ++ [st] },
                  tables := { p.tables with names := p.tables.names ++ [(st.name, st.id)] } }
  | ["T", id, docId, events, wild, cond, source, targets, internal, content] => do
    let t : Transition := {
      id := ← nat? id, docId := ← nat? docId, events := ← listOf unhex events,
      wildcard := ← bool? wild, cond := ← unhex cond, source := ← nat? source, target := ← listOf nat? targets,
      internal := ← bool? internal, content := ← nat? content }
    pure { p with doc := { p.doc with transitions := p.doc.transitions ++ [t] } }
  | ["R", id, items] => do
    let its ← if items = "." then some [] else (items.splitOn ";").mapM parseItem
    pure { p with regions := p.regions ++ [(← nat? id, its)] }
  | ["D", sid, decls] => do
    let ds ← listOf (fun s => match s.splitOn "=" with
      | [a, b] => do pure (← unhex a, ← unhex b)
      | _ => none) decls
    pure { p with tables := { p.tables with data := p.tables.data ++ [(← nat? sid, ds)] } }
  | ["N", sid, params, hc, ct, cx] => do
    let dd : DoneData := {
      state := ← nat? sid, params := ← listOf parseParam params, hasContent := ← bool? hc,
      content := ← optHex ct, contentExpr := ← optHex cx }
    pure { p with tables := { p.tables with donedata := p.tables.donedata ++ [dd] } }
  | _ => none

def parseDoc (s : String) : Option Parsed := (s.splitOn "|").foldlM parseRecord {}

def parseEvent (s : String) : Option Event :=
  match s.splitOn ":" with
  | [n, i] => do pure { name := ← unhex n, invokeId := ← optHex i }
  | _ => none

def parseEvents (s : String) : Option (List Event) :=
  if s = "." then some [] else (s.splitOn "|").mapM parseEvent

/-- batches separated by `^` -/
def parseFeed (s : String) : Option (List (List Event)) :=
  if s = "!" then some [] else (s.splitOn "^").mapM parseEvents

def showObs : Obs → String
  | .ext n => "ext:" ++ hex n
  | .int n => "int:" ++ hex n
  | .sel ts => "sel:" ++ showNatList ts
  | .exit s => "exit:" ++ toString s
  | .enter s => "enter:" ++ toString s
  | .content c => "content:" ++ toString c
  | .dm l => "dm:" ++ hex l
  | .isend n => "isend:" ++ hex n
  | .idle => "idle"
  | .feed => "feed"
  | .invoke s i => "invoke:" ++ toString s ++ ":" ++ toString i
  | .cancelInvoke i => "cancelinv:" ++ hex i
  | .forward i n => "forward:" ++ hex i ++ ":" ++ hex n
  | .dropped n => "dropped:" ++ hex n
  | .doneInvoke => "doneinvoke"
  | .finalCfg c => "final:" ++ showNatList c

def showTrace (t : List Obs) : String := if t.isEmpty then "." else ";".intercalate (t.map showObs)

/-- macrostep / main-loop fuel used by the driver: far beyond what generated documents need; a
    run that exhausts it is reported as `diverged` -/
def macroFuelDefault : Nat := 64
def loopFuelDefault : Nat := 100000

def run (p : Parsed) (evs : List (List Event)) (caller : Option Str) (hasParent : Bool) : String :=
  let ops := fullOps p.tables
  let env := toEnv ops p.regions caller
  match interpret env p.doc caller hasParent ({} : St) evs macroFuelDefault ((evs.foldl (fun n b => n + b.length + 1) 0) + 24) with
  | none => ". diverged"
  | some (s, blocked) => showTrace s.trace ++ (if blocked then " blocked" else " done")

end Driver.Int

namespace Driver.Int
open Rfsm Rfsm.Wire Rfsm.Interp Rfsm.Vdm

def handle : List String → String
  | ["run", doc, evs, caller, hp] =>
    match parseDoc doc, parseFeed evs, optHex caller, bool? hp with
    | some p, some es, some c, some h => run p es c h
    | _, _, _, _ => "bad-op"
  | ["legal", doc, cfg] =>
    -- several configurations separated by `;`, one answer character each
    match parseDoc doc, (cfg.splitOn ";").mapM natList with
    | some p, some cs => String.ofList (cs.map fun c => if legalB p.doc c then '1' else '0')
    | _, _ => "bad-op"
  | ["conformant", doc] =>
    match parseDoc doc with
    | some p => if conformantB p.doc then "1" else "0"
    | none => "bad-op"
  | _ => "bad-op"

end Driver.Int
