import Rfsm.Model.Wire
import Rfsm.Model.Descriptor
/-! Driver family `desc`: descriptor normalisation and matching (C19, C04). -/
namespace Driver.Desc
open Rfsm Rfsm.Wire Rfsm.Descriptor

def b2s (b : Bool) : String := if b then "1" else "0"

def handle : List String → String
  -- desc match <descs: comma separated hex | .> <name hex>   → reader + nameMatch
  | ["match", ds, n] =>
    match unhexMany ds, unhex n with
    | some ds, some n => b2s (transitionMatches ds n)
    | _, _ => "bad-op"
  -- desc raw <wildcard 0|1> <events> <name>   → nameMatch on stored fields
  | ["raw", w, es, n] =>
    match unhexMany es, unhex n with
    | some es, some n => if w = "1" then b2s (nameMatch true es n)
                         else if w = "0" then b2s (nameMatch false es n) else "bad-op"
    | _, _ => "bad-op"
  -- desc norm <desc>  → stored descriptor
  | ["norm", d] =>
    match unhex d with
    | some d => hex (norm d)
    | none => "bad-op"
  -- desc spec <descs> <name>  → the token-prefix specification evaluated directly (oracle)
  | ["spec", ds, n] =>
    match unhexMany ds, unhex n with
    | some ds, some n =>
      b2s (ds.any fun d => norm d == [star] || (tokens (norm d)).isPrefixOf (tokens n))
    | _, _ => "bad-op"
  | _ => "bad-op"

end Driver.Desc
