import Rfsm.Model.Wire
import Rfsm.Model.Timer
/-!
Driver family `timer` (C16).

  timer parsedur <hex>                 → `<ms> <class>`: `parseDuration` and how far the exact value
                                          is from anything an `f64` computation could get wrong
  timer css2 <hex>                     → the independent recogniser: `none` | `<ms>`
  timer run <script>                   → the model's deliveries for a two-session operation script
  timer oracle <sends> <cancels> <terms> <recvs> <end_us> <grace_us>
                                        → the property's predicate on an *observed* run (real time stamps)

Script: operations separated by `;`, fields by `,`.  The first character of a session operation is
the session (`a` | `b`):
  `aS,<k>,<idhex|->,<targethex|->,<delay>,<v|l|c<n>>` send event `k`; payload = current x, the array [x] by location, or constant n
  `aC,<idhex>`   cancel        `aA,<n>`   x := n        `aX`   session thread ends (all guards dropped)     `aZ`   its timer sees Stop
  `T,<t>`        time passes to `t` and both timer threads run (session a first)
  `H,<ms>`       the distance to chrono's largest date (first operation of a script)
Reply: `k:payload:time:via:sess:idhex,…` (or `.`) then ` pend=<a>,<b> err=<a>,<b> crash=0,0`
(no modelled operation ends in a panic of the session thread any more; the field is kept for the harness,
which compares it with the panic flag of every real sender thread).
-/
namespace Driver.Timer
open Rfsm Rfsm.Wire Rfsm.Timer

abbrev Ev := Nat × Bool × Nat   -- (event number, payload is the array `arr` taken by location, payload value)

structure W where
  w : World Nat Ev
  /-- deliveries of both sessions in the order they were made: (session, delivery) -/
  glog : List (Nat × Delivery Ev)

def W.init : W := ⟨⟨Timer.init 0, Timer.init 0⟩, []⟩

def newDeliveries (before after : List (Delivery Ev)) : List (Delivery Ev) := after.drop before.length

def W.stepA (s : W) (op : Op Nat Ev) : W :=
  let a' := s.w.a.step op
  ⟨{ s.w with a := a' }, s.glog ++ (newDeliveries s.w.a.log a'.log).map (fun d => (0, d))⟩

def W.stepB (s : W) (op : Op Nat Ev) : W :=
  let b' := s.w.b.step op
  ⟨{ s.w with b := b' }, s.glog ++ (newDeliveries s.w.b.log b'.log).map (fun d => (1, d))⟩

def optHex (s : String) : Option (Option (List Nat)) :=
  if s = "-" then some none else (unhex s).map some

def parseInt? (s : String) : Option Int :=
  if s.startsWith "-" then (s.drop 1).toString.toNat?.map (fun n => -(n : Int)) else s.toNat?.map (fun n => (n : Int))

def sessStep (s : W) (sess : Char) (op : Op Nat Ev) : Option W :=
  if sess = 'a' then some (s.stepA op) else if sess = 'b' then some (s.stepB op) else none

def stepText (s : W) (t : String) : Option W :=
  match t.splitOn "," with
  | ["T", n] =>
    match n.toNat? with
    | some n => some (((s.stepA (.tick n)).stepA .wake).stepB (.tick n) |>.stepB .wake)
    | none => none
  | ["H", n] =>
    -- ms from now to chrono's largest date, as measured by the harness (only legal before any send)
    match n.toNat? with
    | some n => some { s with w := { a := { s.w.a with headroom := n }, b := { s.w.b with headroom := n } } }
    | none => none
  | [h, k, id, tg, d, pl] =>
    if h.length = 2 ∧ h.back = 'S' then
      match k.toNat?, optHex id, optHex tg, parseInt? d with
      | some k, some id, some tg, some d =>
        let mk : Option (Nat → Ev) :=
          if pl = "v" then some (fun x => (k, false, x))
          else if pl = "l" then some (fun x => (k, true, x))
          else if pl.startsWith "c" then ((pl.drop 1).toString.toNat?).map (fun n => fun _ => (k, false, n))
          else none
        match mk with
        | some mk => sessStep s h.front (.send id (tg.getD []) d mk)
        | none => none
      | _, _, _, _ => none
    else none
  | [h, x] =>
    if h.length = 2 ∧ h.back = 'C' then
      match unhex x with
      | some id => sessStep s h.front (.cancel id)
      | none => none
    else if h.length = 2 ∧ h.back = 'A' then
      match x.toNat? with
      | some n => sessStep s h.front (.assign (fun _ => n))
      | none => none
    else none
  | [h] =>
    if h.length = 2 ∧ h.back = 'X' then sessStep s h.front .terminate
    else if h.length = 2 ∧ h.back = 'Z' then sessStep s h.front .stop else none
  | _ => none

def runScript (script : String) : Option W :=
  if script = "." then some W.init else
  (script.splitOn ";").foldl (fun acc t => acc.bind (fun s => stepText s t)) (some W.init)

def showDelivery (p : Nat × Delivery Ev) : String :=
  let pl := if p.2.seen.2.1 then s!"[{p.2.seen.2.2}]" else toString p.2.seen.2.2
  let id := match p.2.entry.sendid with | some i => hex i | none => "-"
  s!"{p.2.entry.event.1}:{pl}:{p.2.time}:{if p.2.viaTimer then 1 else 0}:{p.1}:{id}"

def showRun (s : W) : String :=
  (if s.glog.isEmpty then "." else ",".intercalate (s.glog.map showDelivery)) ++
  s!" pend={s.w.a.pending.length},{s.w.b.pending.length} err={s.w.a.errors},{s.w.b.errors}" ++
  " crash=0,0"

/-! ### how robust is the exact value against `f64` rounding? -/

/-- the number token and the unit multiplier, when `parseDuration` gets that far -/
def durationParts (d : Str) : Option (Num × Nat) :=
  match nextToken d with
  | ⟨.number n, rest⟩ =>
    match nextToken rest with
    | ⟨.ident u, _⟩ => (unitMult u).map (fun m => (n, m))
    | _ => none
  | _ => none

def pow2_53 : Nat := 9007199254740992

/-- `exact`: every `f64` step is exact or far from a rounding boundary, so code and model must agree;
`fragile`: a tie or a value near 2^53..2^63 where `f64` may legitimately differ from exact decimal
arithmetic (not compared); `syntax`: no arithmetic involved. -/
def robustness (d : Str) : String :=
  match durationParts d with
  | none => "syntax"
  | some (.int v, m) =>
    let a := v.natAbs * m
    if a ≤ pow2_53 then "exact"
    else if a ≥ 2 * (i64Max + 1) then "exact"          -- saturates whatever the rounding
    else if v.natAbs = i64Max ∧ m = 1 ∧ v > 0 then "exact"  -- i64::MAX as f64 = 2^63, saturates back
    else "fragile"
  | some (.dbl _ num den, m) =>
    -- value q = num*m/den
    let n := num * m
    if den = 0 then "fragile"
    else if n ≥ 2 * (i64Max + 1) * den then "exact"     -- saturates
    else if n ≥ 100000000 * den then "fragile"          -- ≥ 1e8: absolute f64 error may reach 1e-7
    else if den > 1000000 then "fragile"                -- more than 6 fractional digits
    else
      let twice := 2 * n
      if twice % den = 0 ∧ (twice / den) % 2 = 1 then
        -- an exact tie k + 1/2: only trusted when the literal itself is dyadic and the unit is ms
        if m = 1 ∧ (den = 1 ∨ den = 10) ∧ n < pow2_53 then "exact" else "fragile"
      else "exact"

/-! ### the property's predicate on an observed run

All times are microseconds on one monotonic clock.  For a send `pre`/`post` bracket the execution of
the `<send>` element, so its due time lies in `[pre + delay, post + delay]`; a statement about the
implementation is only made when the brackets decide it. -/

structure OSend where
  k : Nat
  sess : Nat
  id : Option (List Nat)
  delayMs : Nat
  pre : Nat
  post : Nat
  val : String
  recvr : Nat

structure OCancel where
  sess : Nat
  id : List Nat
  pre : Nat
  post : Nat

structure OTerm where
  sess : Nat
  pre : Nat
  joined : Nat

structure ORecv where
  k : Nat
  recvr : Nat
  ts : Nat
  val : String

def parseList {α} (f : List String → Option α) (s : String) : Option (List α) :=
  if s = "." then some [] else (s.splitOn ";").mapM (fun t => f (t.splitOn ","))

def pSend : List String → Option OSend
  | [k, sess, id, d, pre, post, val, r] =>
    match k.toNat?, sess.toNat?, optHex id, d.toNat?, pre.toNat?, post.toNat?, r.toNat? with
    | some k, some sess, some id, some d, some pre, some post, some r => some ⟨k, sess, id, d, pre, post, val, r⟩
    | _, _, _, _, _, _, _ => none
  | _ => none

def pCancel : List String → Option OCancel
  | [sess, id, pre, post] =>
    match sess.toNat?, unhex id, pre.toNat?, post.toNat? with
    | some s, some id, some pre, some post => some ⟨s, id, pre, post⟩
    | _, _, _, _ => none
  | _ => none

def pTerm : List String → Option OTerm
  | [sess, pre, j] =>
    match sess.toNat?, pre.toNat?, j.toNat? with
    | some s, some pre, some j => some ⟨s, pre, j⟩
    | _, _, _ => none
  | _ => none

def pRecv : List String → Option ORecv
  | [k, r, ts, val] =>
    match k.toNat?, r.toNat?, ts.toNat? with
    | some k, some r, some ts => some ⟨k, r, ts, val⟩
    | _, _, _ => none
  | _ => none

def OSend.dueLo (s : OSend) : Nat := s.pre + s.delayMs * 1000
def OSend.dueHi (s : OSend) : Nat := s.post + s.delayMs * 1000

/-- positions of the deliveries of send `k` in the receive list -/
def recvsOf (rs : List ORecv) (k : Nat) : List ORecv := rs.filter (·.k = k)

def oracle (sends : List OSend) (cancels : List OCancel) (terms : List OTerm) (recvs : List ORecv)
    (endUs graceUs : Nat) : List String :=
  let perSend : List String := sends.flatMap fun s =>
    let rs := recvsOf recvs s.k
    let delivered := !rs.isEmpty
    -- cancels of this id in this session, executed after the send for sure
    let cs := cancels.filter fun c => c.sess = s.sess ∧ s.id = some c.id ∧ s.post < c.pre
    let cancelledForSure := cs.any fun c => c.post < s.dueLo
    let maybeCancelled := cs.any fun c => c.pre < s.dueHi + graceUs
    let ts := terms.filter fun t => t.sess = s.sess ∧ s.post < t.pre
    let deadForSure := ts.any fun t => t.joined < s.dueLo
    let maybeDead := ts.any fun t => t.pre < s.dueHi + graceUs
    -- a later delayed send with the same id in the same session, possibly while this one was pending
    -- (it must not matter: P15 repaired; only the name of the failure tells the cases apart)
    let overwritten := s.delayMs > 0 ∧ s.id.isSome ∧ sends.any fun s2 =>
      s2.k ≠ s.k ∧ s2.sess = s.sess ∧ s2.id = s.id ∧ s2.delayMs > 0 ∧ s.post < s2.pre ∧ s2.pre < s.dueHi + graceUs
    (if rs.any (fun r => r.ts < s.dueLo) then [s!"early:{s.k}"] else []) ++
    (if rs.length > 1 then [s!"dup:{s.k}"] else []) ++
    (if rs.any (fun r => r.val ≠ s.val) then [s!"value:{s.k}"] else []) ++
    (if rs.any (fun r => r.recvr ≠ s.recvr) then [s!"target:{s.k}"] else []) ++
    (if delivered ∧ cancelledForSure then [s!"cancelled-delivered:{s.k}"] else []) ++
    (if delivered ∧ deadForSure then [s!"terminated-delivered:{s.k}"] else []) ++
    (if !delivered ∧ !maybeCancelled ∧ !maybeDead ∧ s.dueHi + graceUs < endUs then
       [if overwritten then s!"lost-dup:{s.k}" else s!"lost:{s.k}"] else [])
  -- order at each receiver: surely-earlier due ⇒ earlier in the receive list
  let idx := (List.range recvs.length).zip recvs
  let orderFails : List String := idx.flatMap fun (i, r1) => idx.flatMap fun (j, r2) =>
    if i < j ∧ r1.recvr = r2.recvr then
      match sends.find? (·.k = r1.k), sends.find? (·.k = r2.k) with
      | some s1, some s2 =>
        -- r2 arrived after r1 although s2 was surely due before s1 (both through the timer of one session)
        if s1.sess = s2.sess ∧ s1.delayMs > 0 ∧ s2.delayMs > 0 ∧ s2.dueHi < s1.dueLo then [s!"order:{r1.k}>{r2.k}"] else []
      | _, _ => []
    else []
  let unknown := recvs.filterMap fun r => if sends.any (·.k = r.k) then none else some s!"unknown:{r.k}"
  perSend ++ orderFails ++ unknown

def handle : List String → String
  | ["parsedur", h] =>
    match unhex h with
    | some d => s!"{parseDuration d} {robustness d}"
    | none => "bad-op"
  | ["css2", h] =>
    match unhex h with
    | some d => match css2 d with
      | some v => toString v
      | none => "none"
    | none => "bad-op"
  | ["run", script] =>
    match runScript script with
    | some s => showRun s
    | none => "bad-op"
  | ["oracle", ss, cs, ts, rs, e, g] =>
    match parseList pSend ss, parseList pCancel cs, parseList pTerm ts, parseList pRecv rs, e.toNat?, g.toNat? with
    | some ss, some cs, some ts, some rs, some e, some g =>
      let fails := oracle ss cs ts rs e g
      if fails.isEmpty then "ok" else "|".intercalate fails
    | _, _, _, _, _, _ => "bad-op"
  | _ => "bad-op"

end Driver.Timer
