import Rfsm.Model.Wire
import Rfsm.Model.Codec
import Rfsm.Model.Sink
/-!
Driver family `codec`: the `.rfsm` format model (C05, C18).

Model values travel as white-space separated tokens ("dump" form; the Rust side prints the real
`Fsm` tables in exactly the same form, see harness/src/dump.rs):

    data    := I <int> | D <hex> | S <hex> | B <0|1> | A <n> data* | M <n> (<hex> data)* | N
             | E <hex> | C <hex> <id> | O
    int     := <dec> | m<dec>                      (m = minus)
    optstr  := n | s <hex>
    common  := optstr optstr
    optcc   := 0 | 1 common
    param   := <hex> <hex> <hex>
    params  := n | p <k> param*
    ids     := <n> <id>*
    strs    := <n> <hex>*
    invoke  := <hex id> <hex parent> <docid> data data data data <hex idloc> <0|1> <finalize>
               optcc params strs
    trans   := <id> <docid> <source> ids strs <type 0|1> <wild 0|1> data <content>
    state   := <id> <docid> <hex name> <hist 0|1|2> <par> <fin> <initial> ids ids ids ids
               <n> invoke* ids <n> (<hex> data)* <parent> (0 | 1 optcc params)
    send    := <hex> data data optcc strs <hex> params data data data data <delay> data
    exec    := x0 data <id> <id> | x1 data | x2 ids | x3 <hex> data | x4 <id> <hex> data <hex>
             | x5 send | x6 <hex> | x7 <hex> data | x8 data data
    fsm     := <hex name> <hex datamodel> <binding 1|2> <root> <script> <n> state* <n> trans*
               <n> (<id> <k> exec*)*

Requests (after the family word):
    write  wop*                 primitive writer calls on one DefaultProtocolWriter<Vec<u8>>
                                wop := u <n> | s <hex> | b <0|1> | o optstr | d data
                                → <hex bytes>
    read <hex> rop*             primitive reader calls on one DefaultProtocolReader
                                rop := u | u8 | s | b | o | d
                                → results `u <n>` `s <hex>` `b <0|1>` `o optstr` `d data`, then `E <0|1>`
                                  (has_error) and `P <site>` if the model's fuel ran out
    sink <script> <0|1> wop*    the same calls against a scripted sink; script := . | <i>:(a<k>|e),…
                                (call i accepts at most k bytes / fails; other calls accept all)
                                → done <hex out> <ok 0|1> <calls>
    enc-fsm fsm                 → <hex image>
    dec-fsm <hex>               → `ok <haserr> fsm` | `cantread` | `version <hex>` | `panic <site>`
    sink-fsm <script> <0|1> fsm → as `sink`, for FsmWriter::write + close
    bounds-fsm fsm              → byte offsets after each primitive call of the image
    ops-fsm fsm                 → number of primitive calls and number of sink `write` calls (ideal sink)
    oracle-eq <k> tok*k tok*    → 1 iff both token lists are well-formed fsm dumps and equal (C05 oracle)
    oracle-prefix <kind>        → 1 iff the result kind of reading a strict prefix is an error (C18 oracle)
-/
namespace Driver.Codec
open Rfsm Rfsm.Wire Rfsm.Codec

abbrev P := StateT (List String) Option

def tok : P String := fun ts =>
  match ts with
  | [] => none
  | t :: r => some (t, r)

def pNat : P Nat := do
  let t ← tok
  match t.toNat? with
  | some n => pure n
  | none => failure

def pHex : P Str := do
  let t ← tok
  match unhex t with
  | some b => pure b
  | none => failure

def pBit : P Bool := do
  let t ← tok
  if t = "1" then pure true else if t = "0" then pure false else failure

def pInt : P Int := do
  let t ← tok
  if t.startsWith "m" then
    match (t.drop 1).toNat? with
    | some n => pure (- Int.ofNat n)
    | none => failure
  else
    match t.toNat? with
    | some n => pure (Int.ofNat n)
    | none => failure

def pRep {α} (p : P α) : Nat → P (List α)
  | 0 => pure []
  | n + 1 => do
    let a ← p
    let r ← pRep p n
    pure (a :: r)

def pCounted {α} (p : P α) : P (List α) := do
  let n ← pNat
  pRep p n

/-- data; the fuel bounds the nesting of the *request* (a malformed request answers bad-op) -/
def pDataF : Nat → P Data
  | 0 => failure
  | f + 1 => do
    let t ← tok
    match t with
    | "I" => do let v ← pInt; pure (.integer v)
    | "D" => do let s ← pHex; pure (.double s)
    | "S" => do let s ← pHex; pure (.string s)
    | "B" => do let b ← pBit; pure (.boolean b)
    | "A" => do let l ← pCounted (pDataF f); pure (.array l)
    | "M" => do
      let l ← pCounted (do let k ← pHex; let v ← pDataF f; pure (k, v))
      pure (.map l)
    | "N" => pure .null
    | "E" => do let s ← pHex; pure (.error s)
    | "C" => do let s ← pHex; let i ← pNat; pure (.source s i)
    | "O" => pure .none
    | _ => failure

def pData : P Data := pDataF 4096

def pOptStr : P (Option Str) := do
  let t ← tok
  if t = "n" then pure none
  else if t = "s" then do let s ← pHex; pure (some s)
  else failure

def pCommon : P CommonContent := do
  let a ← pOptStr
  let b ← pOptStr
  pure ⟨a, b⟩

def pOptCommon : P (Option CommonContent) := do
  let b ← pBit
  if b then do let c ← pCommon; pure (some c) else pure none

def pParam : P Param := do
  let a ← pHex
  let b ← pHex
  let c ← pHex
  pure ⟨a, b, c⟩

def pParams : P (Option (List Param)) := do
  let t ← tok
  if t = "n" then pure none
  else if t = "p" then do let l ← pCounted pParam; pure (some l)
  else failure

def pIds : P (List Nat) := pCounted pNat
def pStrs : P (List Str) := pCounted pHex

def pInvoke : P Invoke := do
  let invokeId ← pHex
  let parentStateName ← pHex
  let docId ← pNat
  let srcExpr ← pData
  let src ← pData
  let typeExpr ← pData
  let typeName ← pData
  let externalIdLocation ← pHex
  let autoforward ← pBit
  let finalize ← pNat
  let content ← pOptCommon
  let params ← pParams
  let nameList ← pStrs
  pure { invokeId, parentStateName, docId, srcExpr, src, typeExpr, typeName, externalIdLocation,
         autoforward, finalize, content, params, nameList }

def pTransition : P Transition := do
  let id ← pNat
  let docId ← pNat
  let source ← pNat
  let target ← pIds
  let events ← pStrs
  let ty ← pBit
  let wildcard ← pBit
  let cond ← pData
  let content ← pNat
  pure { id, docId, source, target, events, ttype := if ty then .external else .internal,
         wildcard, cond, content }

def pHist : P HistoryType := do
  let t ← tok
  if t = "0" then pure .none else if t = "1" then pure .shallow else if t = "2" then pure .deep
  else failure

def pState : P State := do
  let id ← pNat
  let docId ← pNat
  let name ← pHex
  let historyType ← pHist
  let isParallel ← pBit
  let isFinal ← pBit
  let initial ← pNat
  let states ← pIds
  let onentry ← pIds
  let onexit ← pIds
  let transitions ← pIds
  let invoke ← pCounted pInvoke
  let history ← pIds
  let data ← pCounted (do let k ← pHex; let v ← pData; pure (k, v))
  let parent ← pNat
  let hasDd ← pBit
  let donedata ← (if hasDd then do
      let c ← pOptCommon
      let ps ← pParams
      pure (some (DoneData.mk c ps))
    else pure none)
  pure { id, docId, name, historyType, isParallel, isFinal, initial, states, onentry, onexit,
         transitions, invoke, history, data, parent, donedata }

def pSend : P Send := do
  let name ← pHex
  let target ← pData
  let targetExpr ← pData
  let content ← pOptCommon
  let nameList ← pStrs
  let nameLocation ← pHex
  let params ← pParams
  let event ← pData
  let eventExpr ← pData
  let typeValue ← pData
  let typeExpr ← pData
  let delayMs ← pNat
  let delayExpr ← pData
  pure { name, target, targetExpr, content, nameList, nameLocation, params, event, eventExpr,
         typeValue, typeExpr, delayMs, delayExpr }

def pExec : P Exec := do
  let t ← tok
  match t with
  | "x0" => do let c ← pData; let a ← pNat; let b ← pNat; pure (.ifc c a b)
  | "x1" => do let c ← pData; pure (.expression c)
  | "x2" => do let l ← pIds; pure (.script l)
  | "x3" => do let l ← pHex; let e ← pData; pure (.log l e)
  | "x4" => do
    let c ← pNat
    let i ← pHex
    let a ← pData
    let it ← pHex
    pure (.foreach c i a it)
  | "x5" => do let s ← pSend; pure (.send s)
  | "x6" => do let e ← pHex; pure (.raise e)
  | "x7" => do let i ← pHex; let e ← pData; pure (.cancel i e)
  | "x8" => do let e ← pData; let l ← pData; pure (.assign e l)
  | _ => failure

def pFsm : P Fsm := do
  let name ← pHex
  let datamodel ← pHex
  let b ← tok
  let binding ← (if b = "1" then pure Binding.early else if b = "2" then pure Binding.late else failure)
  let pseudoRoot ← pNat
  let script ← pNat
  let states ← pCounted pState
  let transitions ← pCounted pTransition
  let content ← pCounted (do let i ← pNat; let l ← pCounted pExec; pure (i, l))
  pure { name, datamodel, binding, pseudoRoot, script, states, transitions, content }

/-- parse all tokens -/
def parseAll {α} (p : P α) (ts : List String) : Option α :=
  match p ts with
  | some (a, []) => some a
  | _ => none

/-! printing -/

def sBit (b : Bool) : String := if b then "1" else "0"
def sInt (v : Int) : String := if v < 0 then "m" ++ toString v.natAbs else toString v.natAbs

def sCounted {α} (f : α → List String) (l : List α) : List String :=
  toString l.length :: l.flatMap f

mutual
  def sData : Data → List String
    | .integer v => ["I", sInt v]
    | .double t => ["D", hex t]
    | .string s => ["S", hex s]
    | .boolean b => ["B", sBit b]
    | .array l => "A" :: toString l.length :: sDataList l
    | .map l => "M" :: toString l.length :: sDataMap l
    | .null => ["N"]
    | .error s => ["E", hex s]
    | .source s i => ["C", hex s, toString i]
    | .none => ["O"]
  def sDataList : List Data → List String
    | [] => []
    | d :: r => sData d ++ sDataList r
  def sDataMap : List (Str × Data) → List String
    | [] => []
    | (k, d) :: r => hex k :: (sData d ++ sDataMap r)
end

def sOptStr : Option Str → List String
  | none => ["n"]
  | some s => ["s", hex s]

def sCommon (c : CommonContent) : List String := sOptStr c.content ++ sOptStr c.contentExpr

def sOptCommon : Option CommonContent → List String
  | none => ["0"]
  | some c => "1" :: sCommon c

def sParam (p : Param) : List String := [hex p.name, hex p.expr, hex p.location]

def sParams : Option (List Param) → List String
  | none => ["n"]
  | some l => "p" :: sCounted sParam l

def sIds (l : List Nat) : List String := sCounted (fun i => [toString i]) l
def sStrs (l : List Str) : List String := sCounted (fun s => [hex s]) l

def sInvoke (i : Invoke) : List String :=
  [hex i.invokeId, hex i.parentStateName, toString i.docId] ++ sData i.srcExpr ++ sData i.src ++
  sData i.typeExpr ++ sData i.typeName ++ [hex i.externalIdLocation, sBit i.autoforward, toString i.finalize] ++
  sOptCommon i.content ++ sParams i.params ++ sStrs i.nameList

def sTransition (t : Transition) : List String :=
  [toString t.id, toString t.docId, toString t.source] ++ sIds t.target ++ sStrs t.events ++
  [toString t.ttype.ordinal, sBit t.wildcard] ++ sData t.cond ++ [toString t.content]

def sState (s : State) : List String :=
  [toString s.id, toString s.docId, hex s.name, toString s.historyType.ordinal, sBit s.isParallel,
   sBit s.isFinal, toString s.initial] ++ sIds s.states ++ sIds s.onentry ++ sIds s.onexit ++
  sIds s.transitions ++ sCounted sInvoke s.invoke ++ sIds s.history ++
  sCounted (fun (kv : Str × Data) => hex kv.1 :: sData kv.2) s.data ++ [toString s.parent] ++
  (match s.donedata with
   | none => ["0"]
   | some d => "1" :: (sOptCommon d.content ++ sParams d.params))

def sSend (s : Send) : List String :=
  [hex s.name] ++ sData s.target ++ sData s.targetExpr ++ sOptCommon s.content ++ sStrs s.nameList ++
  [hex s.nameLocation] ++ sParams s.params ++ sData s.event ++ sData s.eventExpr ++
  sData s.typeValue ++ sData s.typeExpr ++ [toString s.delayMs] ++ sData s.delayExpr

def sExec : Exec → List String
  | .ifc c a b => "x0" :: (sData c ++ [toString a, toString b])
  | .expression c => "x1" :: sData c
  | .script l => "x2" :: sIds l
  | .log l e => "x3" :: hex l :: sData e
  | .foreach c i a it => ["x4", toString c, hex i] ++ sData a ++ [hex it]
  | .send s => "x5" :: sSend s
  | .raise e => ["x6", hex e]
  | .cancel i e => "x7" :: hex i :: sData e
  | .assign e l => "x8" :: (sData e ++ sData l)

def sFsm (f : Fsm) : List String :=
  [hex f.name, hex f.datamodel, toString f.binding.ordinal, toString f.pseudoRoot, toString f.script] ++
  sCounted sState f.states ++ sCounted sTransition f.transitions ++
  sCounted (fun (c : Nat × List Exec) => toString c.1 :: sCounted sExec c.2) f.content

def join (l : List String) : String := " ".intercalate l

def sSite : Site → String
  | .contentType n => "content:" ++ toString n
  | .modelFuel => "model-fuel"

/-! primitive call scripts -/

def pWop : P (List Op) := do
  let t ← tok
  match t with
  | "u" => do let v ← pNat; pure [uintOp v]
  | "s" => do let s ← pHex; pure [Op.str s]
  | "b" => do let b ← pBit; pure [boolOp b]
  | "o" => do let o ← pOptStr; pure [optStrOp o]
  | "d" => do let d ← pData; pure (opsData d)
  | _ => failure

def pWops : Nat → P (List Op)
  | 0 => failure
  | f + 1 => fun ts =>
    match ts with
    | [] => some ([], [])
    | _ =>
      match pWop ts with
      | none => none
      | some (a, r) =>
        match pWops f r with
        | none => none
        | some (b, r') => some (a ++ b, r')

def parseWops (ts : List String) : Option (List Op) :=
  match pWops (ts.length + 1) ts with
  | some (ops, []) => some ops
  | _ => none

def runRops : List String → RState → Option (List String × RState)
  | [], st => some ([], st)
  | t :: r, st =>
    let step : Option (List String × RState) :=
      match t with
      | "u" => let x := pUInt.run st; some (["u", toString x.1], x.2)
      | "u8" => let x := pU8.run st; some (["u", toString x.1], x.2)
      | "s" => let x := pStr.run st; some (["s", hex x.1], x.2)
      | "b" => let x := pBool.run st; some (["b", sBit x.1], x.2)
      | "o" => let x := Rfsm.Codec.pOptStr.run st; some ("o" :: sOptStr x.1, x.2)
      | "d" => let x := readData.run st; some ("d" :: sData x.1, x.2)
      | _ => none
    match step with
    | none => none
    | some (out, st') =>
      match runRops r st' with
      | none => none
      | some (out', st'') => some (out ++ out', st'')

def parseScript (s : String) : Option (List (Nat × Resp)) :=
  if s = "." then some [] else
  (s.splitOn ",").mapM fun t =>
    match t.splitOn ":" with
    | [i, r] =>
      match i.toNat? with
      | some i =>
        if r = "e" then some (i, Resp.err)
        else if r.startsWith "a" then (r.drop 1).toNat?.map (fun k => (i, Resp.acc k))
        else none
      | none => none
    | _ => none

/-- cumulative byte offsets after each primitive call of an image (for boundary-biased cuts) -/
def opBounds (ops : List Op) : List Nat :=
  (ops.foldl (fun (acc : Nat × List Nat) op =>
    let n := acc.1 + op.bytes.length
    (n, n :: acc.2)) (0, [])).2.reverse

def sOutcome (w : WState) : String := join ["done", hex w.out, sBit w.ok, toString w.calls]

def handle : List String → String
  | "write" :: ts =>
    match parseWops ts with
    | some ops => hex (bytesOf ops)
    | none => "bad-op"
  | "read" :: h :: ts =>
    match unhex h with
    | some bytes =>
      match runRops ts (RState.init bytes) with
      | some (out, st) =>
        join (out ++ ["E", sBit (!st.ok)] ++
          (match st.panic with
           | some s => ["P", sSite s]
           | none => []))
      | none => "bad-op"
    | none => "bad-op"
  | "sink" :: sc :: fl :: ts =>
    match parseScript sc, parseWops ts with
    | some script, some ops =>
      if fl = "0" ∨ fl = "1" then sOutcome (runOps (scriptSink script (fl = "1")) ops WState.init)
      else "bad-op"
    | _, _ => "bad-op"
  | "enc-fsm" :: ts =>
    match parseAll pFsm ts with
    | some f => hex (imageOf f)
    | none => "bad-op"
  | ["dec-fsm", h] =>
    match unhex h with
    | some bytes =>
      match readImageFull bytes with
      | (.ok f, e) => join (["ok", sBit e] ++ sFsm f)
      | (.errCantRead, _) => "cantread"
      | (.errVersion v, _) => "version " ++ hex v
      | (.panic s, _) => "panic " ++ sSite s
    | none => "bad-op"
  | "sink-fsm" :: sc :: fl :: ts =>
    match parseScript sc, parseAll pFsm ts with
    | some script, some f =>
      if fl = "0" ∨ fl = "1" then sOutcome (writeFsmTo (scriptSink script (fl = "1")) f)
      else "bad-op"
    | _, _ => "bad-op"
  | "ops-fsm" :: ts =>
    match parseAll pFsm ts with
    | some f =>
      let ops := opsFsm f ++ [Op.flush]
      join [toString ops.length, toString (runOps idealSink ops WState.init).calls]
    | none => "bad-op"
  | "bounds-fsm" :: ts =>
    match parseAll pFsm ts with
    | some f => showNatList (opBounds (opsFsm f))
    | none => "bad-op"
  | "oracle-eq" :: k :: ts =>
    match k.toNat? with
    | some k =>
      match parseAll pFsm (ts.take k), parseAll pFsm (ts.drop k) with
      | some a, some b => sBit (sFsm a == sFsm b)
      | _, _ => "bad-op"
    | none => "bad-op"
  | ["oracle-prefix", kind] =>
    if kind = "cantread" ∨ kind = "version" then "1"
    else if kind = "ok" ∨ kind = "panic" then "0" else "bad-op"
  | _ => "bad-op"

end Driver.Codec
