import Rfsm.Model.Wire
import Rfsm.Model.LockTable
import Rfsm.Gen.LockSites
/-!
Driver family `locks` (C17).

* `locks table`                       → `edges=<n> sites=<n> rank=<…|none> cycles=<c1,c2,…|->` for the generated table
* `locks fixed`                       → the same for the table without the offending edge (`D → D any`)
* `locks cycles <edges>`              → independent cycles of an edge list (`-` = none)
* `locks rank <edges>`                → `TF=0,DF=0,…` or `none`
* `locks check <pairs>`               → observed (held, acquired) pairs that are *not* instances of an
                                        edge of the generated table, `ok` when all are covered
* `locks exec <progs> <sched> <set>`  → run abstract programs under a schedule:
                                        `deadlock` | `no-deadlock` | `not-enabled`

Encodings: edge `H:A:rel:priv` (`any|lt|ne`, `0|1`), comma separated, `.` = empty list;
lock `Cls.idx` (e.g. `G.3`); pair `G.3>E.0` or `G.3>E.0!` (`!`: the held lock is private to the
thread); program = ops separated by `;`, op `a<lock>` / `r<lock>`, programs separated by `|`;
schedule and set: comma separated thread numbers.
-/
namespace Driver.Locks
open Rfsm Rfsm.Wire Rfsm.Locks

def parseRel : String → Option Rel
  | "any" => some .any | "lt" => some .lt | "ne" => some .ne | _ => none

def parseEdge (s : String) : Option Edge :=
  match s.splitOn ":" with
  | [h, a, r, p] =>
    match Cls.ofName? h, Cls.ofName? a, parseRel r with
    | some h, some a, some r =>
      if p = "1" then some ⟨h, a, r, true, 0⟩ else if p = "0" then some ⟨h, a, r, false, 0⟩ else none
    | _, _, _ => none
  | _ => none

def parseEdges (s : String) : Option (List Edge) :=
  if s = "." then some [] else (s.splitOn ",").mapM parseEdge

def parseLk (s : String) : Option Lk :=
  match s.splitOn "." with
  | [c, i] =>
    match Cls.ofName? c, i.toNat? with
    | some c, some i => some ⟨c, i⟩
    | _, _ => none
  | _ => none

/-- (held, acquired, held-is-private) -/
def parsePair (s : String) : Option (Lk × Lk × Bool) :=
  let priv := s.endsWith "!"
  let body := if priv then (s.dropEnd 1).toString else s
  match body.splitOn ">" with
  | [h, a] =>
    match parseLk h, parseLk a with
    | some h, some a => some (h, a, priv)
    | _, _ => none
  | _ => none

def parseOp (s : String) : Option (Op Lk) :=
  if s.startsWith "a" then (parseLk (s.drop 1).toString).map Op.acquire
  else if s.startsWith "r" then (parseLk (s.drop 1).toString).map Op.release
  else none

def parseProg (s : String) : Option (List (Op Lk)) :=
  if s = "-" then some [] else (s.splitOn ";").mapM parseOp

def parseProgs (s : String) : Option (List (List (Op Lk))) :=
  (s.splitOn "|").mapM parseProg

def showCycles (t : List Edge) : String :=
  let cs := (minimalCycles t).map showCycle
  if cs.isEmpty then "-" else ",".intercalate cs

def showRank (t : List Edge) : String :=
  if hasRank t then
    ",".intercalate ((rankTable t).map fun (c, n) => c.name ++ "=" ++ toString n)
  else "none"

/-- the one edge behind the remaining cycle `D>D` (same definition as `Rfsm.Locks.offending` in
`Rfsm.Props.C17`; the edges `E → P`, `G → Gn`, `G → P` of the repaired cycles are no longer in the table) -/
def offending (e : Edge) : Bool := e.held == .D && e.acq == .D && e.rel == .any

def summary (t : List Edge) : String :=
  s!"edges={t.length} sites={Rfsm.Gen.LockSites.siteCount} rank={showRank t} cycles={showCycles t}"

/-- an observed pair is covered when some table edge has it as an instance; a pair observed with a
shared held lock needs a non-private edge or one that the order justifies anyway -/
def covered (t : List Edge) (p : Lk × Lk × Bool) : Bool :=
  t.any fun e => e.covers p.1 p.2.1 && (!e.priv || p.2.2)

def handle : List String → String
  | ["table"] => summary Rfsm.Gen.LockSites.edges
  | ["fixed"] => summary (Rfsm.Gen.LockSites.edges.filter fun e => !offending e)
  | ["cycles", es] =>
    match parseEdges es with
    | some t => showCycles t
    | none => "bad-op"
  | ["rank", es] =>
    match parseEdges es with
    | some t => showRank t
    | none => "bad-op"
  | ["check", ps] =>
    match (if ps = "." then some [] else (ps.splitOn ",").mapM parsePair) with
    | some pairs =>
      let bad := pairs.filter fun p => !covered Rfsm.Gen.LockSites.edges p
      if bad.isEmpty then "ok"
      else ",".intercalate (bad.map fun (h, a, _) =>
        s!"{h.cls.name}.{h.idx}>{a.cls.name}.{a.idx}")
    | none => "bad-op"
  | ["exec", ps, sched, set] =>
    match parseProgs ps, natList sched, natList set with
    | some progs, some sched, some set =>
      match exec (start progs) sched with
      | some s => if deadlockedSet s set then "deadlock" else "no-deadlock"
      | none => "not-enabled"
    | _, _, _ => "bad-op"
  | _ => "bad-op"

end Driver.Locks
