import Rfsm.Model.Wire
import Rfsm.Model.ReaderSpec
/-!
Driver family `reader` (C04).  Structured payloads travel as one word in a small s-expression
syntax: `(` … `)` lists, elements separated by `,`; bare atoms `[A-Za-z0-9_~.-]+` (tags, numbers,
`~` = none); byte strings as `'` followed by lower-case hex (`'` alone = empty string).

  reader read <sax>            → `ok <fsm>` | `panic <Site>`         (model of the reader)
  reader sax <doc>             → `<sax>`                              (canonical SAX of a tree)
  reader decompile <fsm>       → `ok <doc>` | `none`
  reader normalise <doc>       → `<doc>`
  reader oracle <fsm> <doc>    → `1` | `0 <decompiled doc | none> <normalised doc>`
                                  the property's predicate `decompile dump = normalise t`
  reader docorder <fsm>        → `1` | `0`                            (doc ids are a pre-order)
  reader wf <doc>              → `1` | `0`                            (`wfDoc`, hypothesis of C04_full)
-/
namespace Driver.Reader
open Rfsm Rfsm.Wire Rfsm.Reader Rfsm.Descriptor

inductive Sx where
  | atom (s : String)
  | str (b : List Nat)
  | list (l : List Sx)

/-! ### printing -/
mutual
def Sx.print : Sx → String
  | .atom s => s
  | .str b => "'" ++ (if b.isEmpty then "" else hex b)
  | .list l => "(" ++ printList l ++ ")"
def printList : List Sx → String
  | [] => ""
  | [x] => x.print
  | x :: r => x.print ++ "," ++ printList r
end

/-! ### parsing -/
inductive Tok where
  | lp | rp | atom (s : String) | str (b : List Nat)

def flush (cur : Option (Bool × List Char)) (acc : List Tok) : Option (List Tok) :=
  match cur with
  | none => some acc
  | some (false, cs) => some (Tok.atom (String.ofList cs.reverse) :: acc)
  | some (true, cs) => (unhexList cs.reverse).map fun b => Tok.str b :: acc

def tokAux : List Char → Option (Bool × List Char) → List Tok → Option (List Tok)
  | [], cur, acc => (flush cur acc).map List.reverse
  | c :: cs, cur, acc =>
    if c = '(' then (flush cur acc).bind fun acc => tokAux cs none (Tok.lp :: acc)
    else if c = ')' then (flush cur acc).bind fun acc => tokAux cs none (Tok.rp :: acc)
    else if c = ',' then (flush cur acc).bind fun acc => tokAux cs none acc
    else if c = '\'' then (flush cur acc).bind fun acc => tokAux cs (some (true, [])) acc
    else match cur with
      | none => tokAux cs (some (false, [c])) acc
      | some (k, l) => tokAux cs (some (k, c :: l)) acc

def parseToks : List Tok → List (List Sx) → Option Sx
  | [], [[x]] => some x
  | [], _ => none
  | .lp :: r, st => parseToks r ([] :: st)
  | .rp :: r, top :: below :: st => parseToks r ((Sx.list top.reverse :: below) :: st)
  | .rp :: _, _ => none
  | .atom s :: r, top :: st => parseToks r ((Sx.atom s :: top) :: st)
  | .str b :: r, top :: st => parseToks r ((Sx.str b :: top) :: st)
  | _, [] => none

def parseSx (s : String) : Option Sx :=
  (tokAux s.toList none []).bind fun ts => parseToks ts [[]]

/-! ### small decoders -/
def gStr : Sx → Option Str
  | .str b => some b
  | _ => none
def gOptStr : Sx → Option (Option Str)
  | .str b => some (some b)
  | .atom "~" => some none
  | _ => none
def gNat : Sx → Option Nat
  | .atom s => s.toNat?
  | _ => none
def gBool : Sx → Option Bool
  | .atom "1" => some true
  | .atom "0" => some false
  | _ => none
def gList {α} (f : Sx → Option α) : Sx → Option (List α)
  | .list l => l.mapM f
  | _ => none
def gOpt {α} (f : Sx → Option α) : Sx → Option (Option α)
  | .atom "~" => some none
  | x => (f x).map some

def pOptStr : Option Str → Sx
  | some b => .str b
  | none => .atom "~"
def pNat (n : Nat) : Sx := .atom (toString n)
def pBool (b : Bool) : Sx := .atom (if b then "1" else "0")
def pStrs (l : List Str) : Sx := .list (l.map Sx.str)
def pNats (l : List Nat) : Sx := .list (l.map pNat)
def pOpt {α} (f : α → Sx) : Option α → Sx
  | some x => f x
  | none => .atom "~"

/-! ### SAX -/
def gAttr : Sx → Option (Str × Str)
  | .list [.str k, .str v] => some (k, v)
  | _ => none

def gSax : Sx → Option Sax
  | .list (.atom "s" :: .str n :: as) => (as.mapM gAttr).map (Sax.start n)
  | .list (.atom "m" :: .str n :: as) => (as.mapM gAttr).map (Sax.empty n)
  | .list [.atom "e", .str n] => some (.stop n)
  | .list [.atom "t", .str t] => some (.text t)
  | _ => none

def pAttr (kv : Str × Str) : Sx := .list [.str kv.1, .str kv.2]
def pSax : Sax → Sx
  | .start n a => .list (.atom "s" :: .str n :: a.map pAttr)
  | .empty n a => .list (.atom "m" :: .str n :: a.map pAttr)
  | .stop n => .list [.atom "e", .str n]
  | .text t => .list [.atom "t", .str t]

/-! ### tables -/
def pData : Data → Sx
  | .none => .atom "~"
  | .null => .atom "null"
  | .source s id => .list [.atom "src", .str s, pNat id]
def gData : Sx → Option Data
  | .atom "~" => some .none
  | .atom "null" => some .null
  | .list [.atom "src", .str s, id] => (gNat id).map (Data.source s)
  | _ => none

def pParam (p : Param) : Sx := .list [.atom "p", .str p.name, .str p.expr, .str p.location]
def gParam : Sx → Option Param
  | .list [.atom "p", .str n, .str e, .str l] => some { name := n, expr := e, location := l }
  | _ => none
def pParams : Option (List Param) → Sx := pOpt fun l => .list (l.map pParam)
def gParams : Sx → Option (Option (List Param)) := gOpt (gList gParam)
def pCC (c : CContent) : Sx := .list [.atom "cc", pOptStr c.content, pOptStr c.expr]
def gCC : Sx → Option CContent
  | .list [.atom "cc", c, e] =>
    match gOptStr c, gOptStr e with
    | some c, some e => some { content := c, expr := e }
    | _, _ => none
  | _ => none

def pSendP (p : SendP) : Sx :=
  .list [.atom "send", .str p.nameLocation, .str p.name, .str p.parentStateName, pData p.event,
    pData p.eventExpr, pData p.target, pData p.targetExpr, pData p.typeValue, pData p.typeExpr,
    pNat p.delayMs, pData p.delayExpr, pStrs p.nameList, pParams p.params, pOpt pCC p.content]

def gSendP : Sx → Option SendP
  | .list [.atom "send", .str nl, .str n, .str ps, ev, evx, tg, tgx, ty, tyx, ms, dx, names, params, cc] => do
    let ev ← gData ev; let evx ← gData evx; let tg ← gData tg; let tgx ← gData tgx
    let ty ← gData ty; let tyx ← gData tyx; let ms ← gNat ms; let dx ← gData dx
    let names ← gList gStr names; let params ← gParams params; let cc ← gOpt gCC cc
    some { nameLocation := nl, name := n, parentStateName := ps, event := ev, eventExpr := evx, target := tg,
           targetExpr := tgx, typeValue := ty, typeExpr := tyx, delayMs := ms, delayExpr := dx,
           nameList := names, params := params, content := cc }
  | _ => none

def pExec : Exec → Sx
  | .ifE c ct e => .list [.atom "if", pData c, pNat ct, pNat e]
  | .expression d => .list [.atom "expr", pData d]
  | .script ids => .list [.atom "script", pNats ids]
  | .log l d => .list [.atom "log", .str l, pData d]
  | .foreach a i x ct => .list [.atom "foreach", pData a, .str i, .str x, pNat ct]
  | .send p => pSendP p
  | .raise e => .list [.atom "raise", .str e]
  | .cancel i d => .list [.atom "cancel", .str i, pData d]
  | .assign l e => .list [.atom "assign", pData l, pData e]

def gExec : Sx → Option Exec
  | .list [.atom "if", c, ct, e] => do
    let c ← gData c; let ct ← gNat ct; let e ← gNat e
    some (.ifE c ct e)
  | .list [.atom "expr", d] => (gData d).map Exec.expression
  | .list [.atom "script", ids] => (gList gNat ids).map Exec.script
  | .list [.atom "log", .str l, d] => (gData d).map (Exec.log l)
  | .list [.atom "foreach", a, .str i, .str x, ct] => do
    let a ← gData a; let ct ← gNat ct
    some (.foreach a i x ct)
  | .list [.atom "raise", .str e] => some (.raise e)
  | .list [.atom "cancel", .str i, d] => (gData d).map (Exec.cancel i)
  | .list [.atom "assign", l, e] => do
    let l ← gData l; let e ← gData e
    some (.assign l e)
  | x => (gSendP x).map Exec.send

def pInvoke (i : Invoke) : Sx :=
  .list [.atom "inv", pNat i.docId, .str i.externalIdLocation, pData i.typeName, pData i.typeExpr,
    pStrs i.nameList, pData i.src, pData i.srcExpr, pBool i.autoforward, pNat i.finalize, .str i.invokeId,
    .str i.parentStateName, pParams i.params, pOpt pCC i.content]

def gInvoke : Sx → Option Invoke
  | .list [.atom "inv", doc, .str il, ty, tyx, names, src, srcx, af, fin, .str iid, .str ps, params, cc] => do
    let doc ← gNat doc; let ty ← gData ty; let tyx ← gData tyx; let names ← gList gStr names
    let src ← gData src; let srcx ← gData srcx; let af ← gBool af; let fin ← gNat fin
    let params ← gParams params; let cc ← gOpt gCC cc
    some { docId := doc, externalIdLocation := il, typeName := ty, typeExpr := tyx, nameList := names, src := src,
           srcExpr := srcx, autoforward := af, finalize := fin, invokeId := iid, parentStateName := ps,
           params := params, content := cc }
  | _ => none

def pDoneData (d : DoneData) : Sx := .list [.atom "dd", pOpt pCC d.content, pParams d.params]
def gDoneData : Sx → Option DoneData
  | .list [.atom "dd", cc, params] => do
    let cc ← gOpt gCC cc; let params ← gParams params
    some { content := cc, params := params }
  | _ => none

def pHT : HistoryType → Sx
  | .shallow => .atom "s"
  | .deep => .atom "d"
  | .none => .atom "n"
def gHT : Sx → Option HistoryType
  | .atom "s" => some .shallow
  | .atom "d" => some .deep
  | .atom "n" => some .none
  | _ => none

def pState (s : State) : Sx :=
  .list [.atom "st", pNat s.id, pNat s.docId, .str s.name, pNat s.initial, pNats s.states, pBool s.isParallel,
    pBool s.isFinal, pHT s.historyType, pNats s.onentry, pNats s.onexit, pNats s.transitions,
    .list (s.invoke.map pInvoke), pNats s.history,
    .list (s.data.map fun kv => .list [.str kv.1, pData kv.2]), pNat s.parent, pOpt pDoneData s.donedata]

def gKV : Sx → Option (Str × Data)
  | .list [.str k, d] => (gData d).map fun d => (k, d)
  | _ => none

def gState : Sx → Option State
  | .list [.atom "st", id, doc, .str name, init, kids, par, fin, ht, onentry, onexit, trans, invs, hist, data, parent, dd] => do
    let id ← gNat id; let doc ← gNat doc; let init ← gNat init; let kids ← gList gNat kids
    let par ← gBool par; let fin ← gBool fin; let ht ← gHT ht; let onentry ← gList gNat onentry
    let onexit ← gList gNat onexit; let trans ← gList gNat trans; let invs ← gList gInvoke invs
    let hist ← gList gNat hist; let data ← gList gKV data; let parent ← gNat parent
    let dd ← gOpt gDoneData dd
    some { id := id, docId := doc, name := name, initial := init, states := kids, isParallel := par, isFinal := fin,
           historyType := ht, onentry := onentry, onexit := onexit, transitions := trans, invoke := invs,
           history := hist, data := data, parent := parent, donedata := dd }
  | _ => none

def pTrans (t : Transition) : Sx :=
  .list [.atom "tr", pNat t.id, pNat t.docId, pStrs t.events, pBool t.wildcard, pData t.cond, pNat t.source,
    pNats t.target, .atom (if t.ttype = .internal then "i" else "x"), pNat t.content]

def gTrans : Sx → Option Transition
  | .list [.atom "tr", id, doc, evs, wc, cond, src, tg, .atom ty, ct] => do
    let id ← gNat id; let doc ← gNat doc; let evs ← gList gStr evs; let wc ← gBool wc
    let cond ← gData cond; let src ← gNat src; let tg ← gList gNat tg; let ct ← gNat ct
    let ty ← if ty = "i" then some TType.internal else if ty = "x" then some TType.external else none
    some { id := id, docId := doc, events := evs, wildcard := wc, cond := cond, source := src, target := tg,
           ttype := ty, content := ct }
  | _ => none

def pRegion (r : Nat × List Exec) : Sx := .list (.atom "rg" :: pNat r.1 :: r.2.map pExec)
def gRegion : Sx → Option (Nat × List Exec)
  | .list (.atom "rg" :: id :: es) => do
    let id ← gNat id; let es ← es.mapM gExec
    some (id, es)
  | _ => none

/-- transitions and regions are printed sorted by id (they are `HashMap`s in the code) -/
def insertBy {α} (key : α → Nat) (x : α) : List α → List α
  | [] => [x]
  | y :: r => if key x ≤ key y then x :: y :: r else y :: insertBy key x r
def sortBy {α} (key : α → Nat) (l : List α) : List α := l.foldr (insertBy key) []

/-! ### canonical ids: ids from the global counters are renamed by rank (as the harness does for the
real `Fsm`), so that gaps (a doc id overwritten by a second declaration, …) do not matter -/
def dedupSorted : List Nat → List Nat
  | a :: b :: r => if a = b then dedupSorted (b :: r) else a :: dedupSorted (b :: r)
  | l => l

def rankIn (sorted : List Nat) (x : Nat) : Nat :=
  if x = 0 then 0 else
  match sorted.findIdx? (· = x) with
  | some i => i + 1
  | none => 900000 + x

def dataSrc : Data → List Nat
  | .source _ id => if id = 0 then [] else [id]
  | _ => []

def execSrcs : Exec → List Nat
  | .ifE c _ _ => dataSrc c
  | .expression d => dataSrc d
  | .log _ d => dataSrc d
  | .foreach a _ _ _ => dataSrc a
  | .send p => dataSrc p.event ++ dataSrc p.eventExpr ++ dataSrc p.target ++ dataSrc p.targetExpr ++
      dataSrc p.typeValue ++ dataSrc p.typeExpr ++ dataSrc p.delayExpr
  | .cancel _ d => dataSrc d
  | .assign l e => dataSrc l ++ dataSrc e
  | _ => []

def canonFsm (f : Fsm) : Fsm :=
  let ids := dedupSorted (sortBy id (f.transitions.map (·.id) ++ f.regions.map (·.1)))
  let docs := dedupSorted (sortBy id ((f.states.map (·.docId) ++ f.transitions.map (·.docId) ++
    f.states.flatMap (fun s => s.invoke.map (·.docId))).filter (· ≠ 0)))
  let srcs := dedupSorted (sortBy id (
    f.states.flatMap (fun s => s.data.flatMap (fun kv => dataSrc kv.2) ++
      s.invoke.flatMap (fun i => dataSrc i.typeName ++ dataSrc i.typeExpr ++ dataSrc i.src ++ dataSrc i.srcExpr)) ++
    f.transitions.flatMap (fun t => dataSrc t.cond) ++ f.regions.flatMap (fun r => r.2.flatMap execSrcs)))
  let ri := rankIn ids
  let rd := rankIn docs
  let rs : Data → Data := fun d => match d with
    | .source s id => .source s (rankIn srcs id)
    | d => d
  let rExec : Exec → Exec := fun e => match e with
    | .ifE c ct el => .ifE (rs c) (ri ct) (ri el)
    | .expression d => .expression (rs d)
    | .script l => .script (l.map ri)
    | .log l d => .log l (rs d)
    | .foreach a i x ct => .foreach (rs a) i x (ri ct)
    | .send p => .send { p with
        event := rs p.event
        eventExpr := rs p.eventExpr
        target := rs p.target
        targetExpr := rs p.targetExpr
        typeValue := rs p.typeValue
        typeExpr := rs p.typeExpr
        delayExpr := rs p.delayExpr }
    | .raise e => .raise e
    | .cancel i d => .cancel i (rs d)
    | .assign l e => .assign (rs l) (rs e)
  { f with
    script := ri f.script
    states := f.states.map fun s => { s with
      docId := rd s.docId
      initial := ri s.initial
      onentry := s.onentry.map ri
      onexit := s.onexit.map ri
      transitions := s.transitions.map ri
      data := s.data.map fun kv => (kv.1, rs kv.2)
      invoke := s.invoke.map fun i => { i with
        docId := rd i.docId
        typeName := rs i.typeName
        typeExpr := rs i.typeExpr
        src := rs i.src
        srcExpr := rs i.srcExpr
        finalize := ri i.finalize } }
    transitions := f.transitions.map fun t => { t with id := ri t.id, docId := rd t.docId, cond := rs t.cond, content := ri t.content }
    regions := f.regions.map fun r => (ri r.1, r.2.map rExec) }

def pFsm (f : Fsm) : Sx :=
  .list [.atom "fsm", .str f.name, .str f.datamodel, pBool f.bindingLate, .str f.version, pNat f.pseudoRoot,
    pNat f.script, .list (f.states.map pState), .list ((sortBy (·.id) f.transitions).map pTrans),
    .list ((sortBy (·.1) f.regions).map pRegion)]

def gFsm : Sx → Option Fsm
  | .list [.atom "fsm", .str name, .str dm, late, .str ver, root, script, states, trans, regions] => do
    let late ← gBool late; let root ← gNat root; let script ← gNat script
    let states ← gList gState states; let trans ← gList gTrans trans; let regions ← gList gRegion regions
    some { name := name, datamodel := dm, bindingLate := late, version := ver, pseudoRoot := root, script := script,
           states := states, transitions := trans, regions := regions }
  | _ => none

/-! ### document trees -/
def pParamT (p : ParamT) : Sx := .list [.atom "P", .str p.name, .str p.expr, .str p.location]
def gParamT : Sx → Option ParamT
  | .list [.atom "P", .str n, .str e, .str l] => some { name := n, expr := e, location := l }
  | _ => none
def pContentT (c : ContentT) : Sx := .list [.atom "C", pOptStr c.expr, pOptStr c.text]
def gContentT : Sx → Option ContentT
  | .list [.atom "C", e, t] =>
    match gOptStr e, gOptStr t with
    | some e, some t => some { expr := e, text := t }
    | _, _ => none
  | _ => none

def pSendT (s : SendT) : Sx :=
  .list [.atom "send", pOptStr s.event, pOptStr s.eventexpr, pOptStr s.target, pOptStr s.targetexpr,
    pOptStr s.type, pOptStr s.typeexpr, .str s.id, .str s.idlocation, pNat s.delayMs, pOptStr s.delayexpr,
    pStrs s.namelist, .list (s.params.map pParamT), pOpt pContentT s.content]

def gSendT : Sx → Option SendT
  | .list [.atom "send", ev, evx, tg, tgx, ty, tyx, .str id, .str il, ms, dx, names, params, cc] => do
    let ev ← gOptStr ev; let evx ← gOptStr evx; let tg ← gOptStr tg; let tgx ← gOptStr tgx
    let ty ← gOptStr ty; let tyx ← gOptStr tyx; let ms ← gNat ms; let dx ← gOptStr dx
    let names ← gList gStr names; let params ← gList gParamT params; let cc ← gOpt gContentT cc
    some { event := ev, eventexpr := evx, target := tg, targetexpr := tgx, type := ty, typeexpr := tyx, id := id,
           idlocation := il, delayMs := ms, delayexpr := dx, namelist := names, params := params, content := cc }
  | _ => none

mutual
def pContent : Content → Sx
  | .raise e => .list [.atom "raise", .str e]
  | .assign l e t => .list [.atom "assign", .str l, pOptStr e, pOptStr t]
  | .log l e => .list [.atom "log", .str l, pOptStr e]
  | .script t => .list [.atom "script", .str t]
  | .send s => pSendT s
  | .cancel i e => .list [.atom "cancel", pOptStr i, pOptStr e]
  | .ite c b t => .list [.atom "if", .str c, .list (pBlock b), pTail t]
  | .foreach a i x b => .list [.atom "foreach", .str a, .str i, .str x, .list (pBlock b)]
def pBlock : List Content → List Sx
  | [] => []
  | c :: r => pContent c :: pBlock r
def pTail : Tail → Sx
  | .none => .atom "~"
  | .els b => .list [.atom "else", .list (pBlock b)]
  | .elif c b t => .list [.atom "elif", .str c, .list (pBlock b), pTail t]
end

mutual
def gContent : Sx → Option Content
  | .list [.atom "raise", .str e] => some (.raise e)
  | .list [.atom "assign", .str l, e, t] =>
    match gOptStr e, gOptStr t with
    | some e, some t => some (.assign l e t)
    | _, _ => none
  | .list [.atom "log", .str l, e] => (gOptStr e).map (Content.log l)
  | .list [.atom "script", .str t] => some (.script t)
  | .list [.atom "cancel", i, e] =>
    match gOptStr i, gOptStr e with
    | some i, some e => some (.cancel i e)
    | _, _ => none
  | .list [.atom "if", .str c, .list b, t] =>
    match gBlock b, gTail t with
    | some b, some t => some (.ite c b t)
    | _, _ => none
  | .list [.atom "foreach", .str a, .str i, .str x, .list b] => (gBlock b).map (Content.foreach a i x)
  | .list [.atom "send", ev, evx, tg, tgx, ty, tyx, id, il, ms, dx, names, params, cc] =>
    (gSendT (.list [.atom "send", ev, evx, tg, tgx, ty, tyx, id, il, ms, dx, names, params, cc])).map Content.send
  | _ => none
def gBlock : List Sx → Option (List Content)
  | [] => some []
  | x :: r =>
    match gContent x, gBlock r with
    | some c, some cs => some (c :: cs)
    | _, _ => none
def gTail : Sx → Option Tail
  | .atom "~" => some .none
  | .list [.atom "else", .list b] => (gBlock b).map Tail.els
  | .list [.atom "elif", .str c, .list b, t] =>
    match gBlock b, gTail t with
    | some b, some t => some (.elif c b t)
    | _, _ => none
  | _ => none
end

def pBlockSx (b : Block) : Sx := .list (pBlock b)
def gBlockSx : Sx → Option Block
  | .list l => gBlock l
  | _ => none

def pTransT (t : TransT) : Sx :=
  .list [.atom "T", pStrs t.events, pOptStr t.cond, pStrs t.targets, pBool t.internal, pBlockSx t.content]
def gTransT : Sx → Option TransT
  | .list [.atom "T", evs, cond, tg, int, b] => do
    let evs ← gList gStr evs; let cond ← gOptStr cond; let tg ← gList gStr tg; let int ← gBool int
    let b ← gBlockSx b
    some { events := evs, cond := cond, targets := tg, internal := int, content := b }
  | _ => none

def pInitT : InitT → Sx
  | .none => .atom "~"
  | .attr tg => .list [.atom "attr", pStrs tg]
  | .elem tg c => .list [.atom "elem", pStrs tg, pBlockSx c]
def gInitT : Sx → Option InitT
  | .atom "~" => some .none
  | .list [.atom "attr", tg] => (gList gStr tg).map InitT.attr
  | .list [.atom "elem", tg, c] =>
    match gList gStr tg, gBlockSx c with
    | some tg, some c => some (.elem tg c)
    | _, _ => none
  | _ => none

def pDataT (d : DataT) : Sx := .list [.atom "D", .str d.id, pOptStr d.expr, pOptStr d.text]
def gDataT : Sx → Option DataT
  | .list [.atom "D", .str id, e, t] =>
    match gOptStr e, gOptStr t with
    | some e, some t => some { id := id, expr := e, text := t }
    | _, _ => none
  | _ => none

def pInvokeT (i : InvokeT) : Sx :=
  .list [.atom "I", pOptStr i.type, pOptStr i.typeexpr, pOptStr i.src, pOptStr i.srcexpr, .str i.id,
    .str i.idlocation, pStrs i.namelist, pBool i.autoforward, .list (i.params.map pParamT),
    pOpt pContentT i.content, pOpt pBlockSx i.finalize]
def gInvokeT : Sx → Option InvokeT
  | .list [.atom "I", ty, tyx, src, srcx, .str id, .str il, names, af, params, cc, fin] => do
    let ty ← gOptStr ty; let tyx ← gOptStr tyx; let src ← gOptStr src; let srcx ← gOptStr srcx
    let names ← gList gStr names; let af ← gBool af; let params ← gList gParamT params
    let cc ← gOpt gContentT cc; let fin ← gOpt gBlockSx fin
    some { type := ty, typeexpr := tyx, src := src, srcexpr := srcx, id := id, idlocation := il, namelist := names,
           autoforward := af, params := params, content := cc, finalize := fin }
  | _ => none

def pHistT (h : HistT) : Sx := .list [.atom "H", pOptStr h.id, pBool h.deep, .list (h.trans.map pTransT)]
def gHistT : Sx → Option HistT
  | .list [.atom "H", id, deep, ts] => do
    let id ← gOptStr id; let deep ← gBool deep; let ts ← gList gTransT ts
    some { id := id, deep := deep, trans := ts }
  | _ => none

def pDoneDataT (d : DoneDataT) : Sx := .list [.atom "DD", pOpt pContentT d.content, .list (d.params.map pParamT)]
def gDoneDataT : Sx → Option DoneDataT
  | .list [.atom "DD", cc, params] => do
    let cc ← gOpt gContentT cc; let params ← gList gParamT params
    some { content := cc, params := params }
  | _ => none

def pKind : Kind → Sx
  | .state => .atom "s"
  | .parallel => .atom "p"
  | .final => .atom "f"
def gKind : Sx → Option Kind
  | .atom "s" => some .state
  | .atom "p" => some .parallel
  | .atom "f" => some .final
  | _ => none

mutual
def pStateT : StateT → Sx
  | .mk k id init datas onentry onexit trans invokes hist kids dd =>
    .list [.atom "S", pKind k, pOptStr id, pInitT init, .list (datas.map pDataT), .list (onentry.map pBlockSx),
      .list (onexit.map pBlockSx), .list (trans.map pTransT), .list (invokes.map pInvokeT),
      .list (hist.map pHistT), .list (pKids kids), pOpt pDoneDataT dd]
def pKids : List StateT → List Sx
  | [] => []
  | s :: r => pStateT s :: pKids r
end

mutual
def gStateT : Sx → Option StateT
  | .list [.atom "S", k, id, init, datas, onentry, onexit, trans, invokes, hist, .list kids, dd] =>
    match gKind k, gOptStr id, gInitT init, gList gDataT datas, gList gBlockSx onentry, gList gBlockSx onexit,
          gList gTransT trans, gList gInvokeT invokes, gList gHistT hist, gKids kids, gOpt gDoneDataT dd with
    | some k, some id, some init, some datas, some onentry, some onexit, some trans, some invokes, some hist,
      some kids, some dd => some (.mk k id init datas onentry onexit trans invokes hist kids dd)
    | _, _, _, _, _, _, _, _, _, _, _ => none
  | _ => none
def gKids : List Sx → Option (List StateT)
  | [] => some []
  | x :: r =>
    match gStateT x, gKids r with
    | some s, some ss => some (s :: ss)
    | _, _ => none
end

def pDoc (d : Doc) : Sx :=
  .list [.atom "doc", pOptStr d.name, pOptStr d.datamodel, pOpt pBool d.binding, pOptStr d.version,
    pOptStr d.script, pStateT d.root]
def gDoc : Sx → Option Doc
  | .list [.atom "doc", name, dm, b, ver, script, root] => do
    let name ← gOptStr name; let dm ← gOptStr dm; let b ← gOpt gBool b; let ver ← gOptStr ver
    let script ← gOptStr script; let root ← gStateT root
    some { name := name, datamodel := dm, binding := b, version := ver, script := script, root := root }
  | _ => none

def siteName (s : Site) : String := (reprStr s).replace "Rfsm.Reader.Site." ""

def handle : List String → String
  | ["read", s] =>
    match (parseSx s).bind (gList gSax) with
    | some es =>
      match read es with
      | .ok f => "ok " ++ (pFsm (canonFsm f)).print
      | .error e => "panic " ++ siteName e
    | none => "bad-op"
  | ["sax", d] =>
    match (parseSx d).bind gDoc with
    | some d => (Sx.list ((sax d).map pSax)).print
    | none => "bad-op"
  | ["decompile", f] =>
    match (parseSx f).bind gFsm with
    | some f =>
      match decompile f with
      | some d => "ok " ++ (pDoc d).print
      | none => "none"
    | none => "bad-op"
  | ["normalise", d] =>
    match (parseSx d).bind gDoc with
    | some d => (pDoc (normalise d)).print
    | none => "bad-op"
  | ["oracle", f, d] =>
    match (parseSx f).bind gFsm, (parseSx d).bind gDoc with
    | some f, some d =>
      let n := (pDoc (normalise d)).print
      match decompile f with
      | some dd =>
        let ds := (pDoc dd).print
        if ds = n then "1" else "0 " ++ ds ++ " " ++ n
      | none => "0 none " ++ n
    | _, _ => "bad-op"
  | ["wf", d] =>
    match (parseSx d).bind gDoc with
    | some d => if wfDoc d then "1" else "0"
    | none => "bad-op"
  | ["docorder", f] =>
    match (parseSx f).bind gFsm with
    | some f => if docOrderOk f then "1" else "0"
    | none => "bad-op"
  | _ => "bad-op"

end Driver.Reader
