import Rfsm.Model.Wire
import Rfsm.Model.Queue
import Rfsm.Model.Route
/-!
Driver families `queue` (C13) and `route` (C15).

Encoding: strings are hex (`-` = empty string), `~` = `None`, `.` = empty list.

queue merge  <prods> <out>            prods = `/`-separated producers, each a `,`-list of hex tokens
                                      → 1|0   (`isMergeOfB`, the oracle)
queue accept <caller> <children> <name> <inv|~>            → 1|0   (`acceptRust`)
queue replay <caller> <children> <events>   events = `,`-list of `prod:name:inv|~` in dequeue order;
                                      runs the LTS `run docSys` on the canonical schedule
                                      (send, recv, ticks) → `<verdicts> <trace>` | `stuck`
queue run    <caller> <children> <prods> <sched>   prods = `/`-separated `,`-lists of `name:inv|~`,
                                      sched = `,`-list of `s<i>`|`r`|`t`
                                      → `<complete> <deq name:flag,…> <trace>` | `stuck`
route consts                          → the model's string constants, hex, space separated
route shownat <n>                     → hex
route parseu32 <hex>                  → `some <n>` | `none`
route counter <start> <sched>         → values handed out, `,`-list (sched = `,`-list of thread ids)
route send <world> <sender sid> <ctr> <spec>
      world = `/`-separated `sid;parent|~;caller|~;children` with children = `,`-list `inv=sid` | `.`
      spec  = `target;event;idliteral;idlocation 0|1;statename;hascontent 0|1;content|~;params;delay;type`
              with params = `,`-list `name=value` | `.`
      → `panic <site>` | `scheduled <ctr>` |
        `done <ok 0|1> <ctr> <records>` with records = `/`-separated `sid|ext/int|accepted 0|1|event`
        (`.` if none), event = `name;etype;sendid;origin;origintype;invokeid;params;content`
-/
namespace Driver.Conc
open Rfsm Rfsm.Wire

def b2s (b : Bool) : String := if b then "1" else "0"

def optHex (s : String) : Option (Option (List Nat)) :=
  if s = "~" then some none else (unhex s).map some

def showOpt : Option (List Nat) → String
  | none => "~"
  | some s => hex s

def listOf (s : String) (sep : String) : List String := if s = "." then [] else s.splitOn sep

/-! ### queue -/
open Rfsm.Queue in
def parseEv (s : String) : Option Ev :=
  match s.splitOn ":" with
  | [n, i] => match unhex n, optHex i with
    | some n, some i => some { name := n, invokeId := i }
    | _, _ => none
  | _ => none

open Rfsm.Queue in
def showObs : Obs → String
  | .ext n => "e:" ++ hex n
  | .mark n k => "m:" ++ hex n ++ ":" ++ toString k

open Rfsm.Queue in
def showTrace (t : List Obs) : String := if t.isEmpty then "." else ",".intercalate (t.map showObs)

open Rfsm.Queue in
def parseChoice (s : String) : Option Choice :=
  if s = "r" then some .recv else if s = "t" then some .tick
  else if s.startsWith "s" then (s.drop 1).toString.toNat?.map Choice.send else none

open Rfsm.Queue in
/-- canonical schedule for a dequeue order: each event is sent, received, and its effects emitted -/
def replay (s0 : Sess) (evs : List (Nat × Ev)) : Option (St Sess Ev Obs) :=
  let nprod := evs.foldl (fun m p => max m (p.1 + 1)) 0
  let ps : List (List Ev) := (List.range nprod).map fun i => (evs.filter (·.1 == i)).map (·.2)
  evs.foldl (fun st p =>
      match st with
      | none => none
      | some st =>
        match run docSys st [.send p.1, .recv] with
        | none => none
        | some st1 => run docSys st1 (List.replicate st1.pending.length .tick))
    (some (init ps s0))

open Rfsm.Queue in
def handleQueue : List String → String
  | ["merge", ps, out] =>
    match (ps.splitOn "/").mapM unhexMany, unhexMany out with
    | some ps, some out => b2s (isMergeOfB ps out)
    | _, _ => "bad-op"
  | ["accept", caller, children, name, inv] =>
    match unhex caller, unhexMany children, unhex name, optHex inv with
    | some c, some ch, some n, some i => b2s (acceptRust c ch { name := n, invokeId := i })
    | _, _, _, _ => "bad-op"
  | ["replay", caller, children, evs] =>
    let parsed := (listOf evs ",").mapM fun s =>
      match s.splitOn ":" with
      | [p, n, i] => match p.toNat?, parseEv (n ++ ":" ++ i) with
        | some p, some e => some (p, e)
        | _, _ => none
      | _ => none
    match unhex caller, unhexMany children, parsed with
    | some c, some ch, some evs =>
      match replay { caller := c, children := ch, count := 0 } evs with
      | some st =>
        if completeB st then
          String.join (st.deq.map fun d => b2s d.2) ++ (if st.deq.isEmpty then "." else "") ++ " " ++
            showTrace st.trace
        else "stuck"
      | none => "stuck"
    | _, _, _ => "bad-op"
  | ["run", caller, children, ps, sched] =>
    let pps := (ps.splitOn "/").mapM fun l => (listOf l ",").mapM parseEv
    match unhex caller, unhexMany children, pps, (listOf sched ",").mapM parseChoice with
    | some c, some ch, some ps, some sched =>
      match run docSys (init ps { caller := c, children := ch, count := 0 }) sched with
      | some st =>
        b2s (completeB st) ++ " " ++
          (if st.deq.isEmpty then "." else ",".intercalate (st.deq.map fun d => hex d.1.name ++ ":" ++ b2s d.2))
          ++ " " ++ showTrace st.trace
      | none => "stuck"
    | _, _, _, _ => "bad-op"
  | _ => "bad-op"

/-! ### route -/
open Rfsm.Route in
def parseSession (s : String) : Option (Session (List Nat)) :=
  match s.splitOn ";" with
  | [sid, parent, caller, children] =>
    let par : Option (Option Nat) := if parent = "~" then some none else parent.toNat?.map some
    let ch := (listOf children ",").mapM fun c =>
      match c.splitOn "=" with
      | [i, n] => match unhex i, n.toNat? with
        | some i, some n => some (i, n)
        | _, _ => none
      | _ => none
    match sid.toNat?, par, optHex caller, ch with
    | some sid, some par, some caller, some ch =>
      some { sid := sid, parent := par, caller := caller, children := ch, receiverDropped := false,
             extQ := [], intQ := [] }
    | _, _, _, _ => none
  | _ => none

def parseInt (s : String) : Option Int :=
  if s.startsWith "-" then (s.drop 1).toString.toNat?.map fun n => - (Int.ofNat n)
  else s.toNat?.map Int.ofNat

open Rfsm.Route in
def parseSpec (s : String) : Option (SendSpec (List Nat)) :=
  match s.splitOn ";" with
  | [target, event, idlit, idloc, st, hasc, content, params, delay, ty] =>
    let ps := (listOf params ",").mapM fun c =>
      match c.splitOn "=" with
      | [i, v] => match unhex i, unhex v with
        | some i, some v => some (i, v)
        | _, _ => none
      | _ => none
    match unhex target, unhex event, unhex idlit, unhex st, optHex content, ps, parseInt delay, unhex ty with
    | some target, some event, some idlit, some st, some content, some ps, some delay, some ty =>
      if (idloc = "0" ∨ idloc = "1") ∧ (hasc = "0" ∨ hasc = "1") then
        some { target := target, event := event, idLiteral := idlit, idLocation := idloc = "1",
               stateName := st, hasContent := hasc = "1", content := content, params := ps,
               delayMs := delay, type := ty }
      else none
    | _, _, _, _, _, _, _, _ => none
  | _ => none

open Rfsm.Route in
def showEType : EType → String
  | .platform => "platform" | .internal => "internal" | .external => "external"

open Rfsm.Route in
def showEvent (e : Event (List Nat)) : String :=
  ";".intercalate [hex e.name, showEType e.etype, showOpt e.sendid, showOpt e.origin,
    showOpt e.originType, showOpt e.invokeId,
    (match e.params with
     | none => "~"
     | some ps => if ps.isEmpty then "." else ",".intercalate (ps.map fun p => hex p.1 ++ "=" ++ hex p.2)),
    showOpt e.content]

open Rfsm.Route in
def showRecords (w : World (List Nat)) : String :=
  let recs := w.flatMap fun s =>
    (s.extQ.map fun e => toString s.sid ++ "|ext|" ++ b2s (accepts s e) ++ "|" ++ showEvent e) ++
    (s.intQ.map fun e => toString s.sid ++ "|int|1|" ++ showEvent e)
  if recs.isEmpty then "." else "/".intercalate recs

open Rfsm.Route in
def showSite : PanicSite → String
  | .unknownSession => "unknownSession" | .noParent => "noParent"

open Rfsm.Route in
def handleRoute : List String → String
  | ["consts"] =>
    " ".intercalate ([tInternal, tParent, pfxSession, pfxInvoke, procUrl, procShort, errComm, errExec,
      doneInvokePrefix, Rfsm.Queue.doneInvokePrefix].map hex)
  | ["shownat", n] => match n.toNat? with
    | some n => hex (showNat n)
    | none => "bad-op"
  | ["parseu32", s] => match unhex s with
    | some s => match parseU32 s with
      | some n => "some " ++ toString n
      | none => "none"
    | none => "bad-op"
  | ["counter", start, sched] =>
    match start.toNat?, natList sched with
    | some c, some sched => showNatList ((runCounter c sched).1.map Prod.snd)
    | _, _ => "bad-op"
  | ["send", world, sender, ctr, spec] =>
    match (world.splitOn "/").mapM parseSession, sender.toNat?, ctr.toNat?, parseSpec spec with
    | some w, some sender, some ctr, some sp =>
      match lookup w sender with
      | none => "bad-op"
      | some S =>
        match execSend w ctr S sp with
        | .panic site => "panic " ++ showSite site
        | .scheduled c => "scheduled " ++ toString c
        | .done w' c ok => "done " ++ b2s ok ++ " " ++ toString c ++ " " ++ showRecords w'
    | _, _, _, _ => "bad-op"
  | _ => "bad-op"

end Driver.Conc
