import Rfsm.Model.Wire
import Driver.Desc
import Driver.Int
import Driver.Http
import Driver.Timer
import Driver.Locks
import Driver.Reader
import Driver.Conc
import Driver.Expr
import Driver.Codec
/-!
The model driver: one request per line on stdin, one reply per line on stdout.
`<family> <op> <args…>`; payload strings are hex encoded.  Unknown or malformed requests answer
`bad-op` (never defaulted).
-/
open Rfsm.Wire

def dispatch (line : String) : String :=
  match words line with
  | "desc" :: rest => Driver.Desc.handle rest
  | "int" :: rest => Driver.Int.handle rest
  | "http" :: rest => Driver.Http.handle rest
  | "timer" :: rest => Driver.Timer.handle rest
  | "locks" :: rest => Driver.Locks.handle rest
  | "reader" :: rest => Driver.Reader.handle rest
  | "queue" :: rest => Driver.Conc.handleQueue rest
  | "route" :: rest => Driver.Conc.handleRoute rest
  | "expr" :: rest => Driver.Expr.handle rest
  | "codec" :: rest => Driver.Codec.handle rest
  | ["ping"] => "pong"
  | _ => "bad-op"

partial def loop (hin hout : IO.FS.Stream) : IO Unit := do
  let line ← hin.getLine
  if line.isEmpty then return ()
  hout.putStrLn (dispatch line)
  hout.flush
  loop hin hout

def main : IO Unit := do
  loop (← IO.getStdin) (← IO.getStdout)
