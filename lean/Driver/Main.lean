import Rfsm.Model.Wire
import Driver.Desc
import Driver.Codec
/-!
The model driver: one request per line on stdin, one reply per line on stdout.
`<family> <op> <args…>`; payload strings are hex encoded.  Unknown or malformed requests answer
`bad-op` (never defaulted).
-/
open Rfsm.Wire

def dispatch (line : String) : String :=
  match words line with
  | "desc" :: rest => Driver.Desc.handle rest
  | "codec" :: rest => Driver.Codec.handle rest
  | ["ping"] => "pong"
  | _ => "bad-op"

partial def loop (hin hout : IO.FS.Stream) : IO Unit := do
  let line ← hin.getLine
  if line.isEmpty then return ()
  hout.putStrLn (dispatch line)
  hout.flush
  loop hin hout

def main : IO Unit := do
  loop (← IO.getStdin) (← IO.getStdout)
