import Rfsm.Model.Wire
import Rfsm.Model.Http
/-!
Driver family `http` (C20).  Bytes travel as hex (`-` = empty); a list of pairs is the
comma separated list `k1,v1,k2,v2,…` (`.` = empty list).

    http encode <pairs>                       → hex of `formEncode`
    http decode <body>                        → pairs of `formDecode`
    http post <sids> <seg> <body>             → `<status> <n>` + per enqueued event
                                                 ` <sid> <name> <P:pairs|N> <C:hex|N> <data>`
    http sendbody <name> <params|N> <content|N>  → `<body hex> <form pairs>`   (`sendBody`)
    http text <datav>                         → hex of `dataText`
    http location <sid>                       → hex of `locationOf`
    http oracle <known 0|1> <sid> <body> <status> <obs|.>  → `ok` | `na` | `fail:<why>`

`<data>` is `N` (null), `T:<hex>` or `M:<pairs>`.  `<datav>` is a `;`-separated prefix term:
`i:<int>` `s:<hex>` `b:0|1` `n` `z` `e:<hex>` `c:<hex>` `o:<hex>` `a:<count>` followed by the items.
`<params>` = entries `<namehex>~<datav>` joined by `|`.  `<obs>` = entries `<sid>~<namehex>~<data>`
joined by `;`.
-/
namespace Driver.Http
open Rfsm Rfsm.Wire Rfsm.Http

def toB (l : List Nat) : Bytes := l.map UInt8.ofNat
def ofB (b : Bytes) : List Nat := b.map UInt8.toNat

def unhexB (s : String) : Option Bytes := (unhex s).map toB
def hexB (b : Bytes) : String := hex (ofB b)

def toPairs : List Bytes → Option (List (Bytes × Bytes))
  | [] => some []
  | [_] => none
  | k :: v :: r => (toPairs r).map (fun t => (k, v) :: t)

def unPairs (s : String) : Option (List (Bytes × Bytes)) :=
  match unhexMany s with
  | some l => toPairs (l.map toB)
  | none => none

def showPairs (ps : List (Bytes × Bytes)) : String :=
  hexMany (ps.flatMap fun p => [ofB p.1, ofB p.2])

def showData : EvData → String
  | .null => "N"
  | .text t => "T:" ++ hexB t
  | .map m => "M:" ++ showPairs m

def readData (s : String) : Option EvData :=
  if s = "N" then some .null
  else if s.startsWith "T:" then (unhexB (s.drop 2).toString).map .text
  else if s.startsWith "M:" then (unPairs (s.drop 2).toString).map .map
  else none

def showEvent (e : Event) : String :=
  hexB e.name ++ " " ++
  (match e.params with | some p => "P:" ++ showPairs p | none => "N") ++ " " ++
  (match e.content with | some c => "C:" ++ hexB c | none => "N") ++ " " ++
  showData (eventData e)

mutual
def parseD : Nat → List String → Option (DataV × List String)
  | 0, _ => none
  | _, [] => none
  | fuel + 1, t :: rest =>
    if t = "n" then some (.null, rest)
    else if t = "z" then some (.none, rest)
    else if t = "b:0" then some (.bool false, rest)
    else if t = "b:1" then some (.bool true, rest)
    else if t.startsWith "i:" then (t.drop 2).toString.toInt?.map (fun i => (.int i, rest))
    else if t.startsWith "s:" then (unhexB (t.drop 2).toString).map (fun b => (.str b, rest))
    else if t.startsWith "e:" then (unhexB (t.drop 2).toString).map (fun b => (.error b, rest))
    else if t.startsWith "c:" then (unhexB (t.drop 2).toString).map (fun b => (.source b, rest))
    else if t.startsWith "o:" then (unhexB (t.drop 2).toString).map (fun b => (.opaque b, rest))
    else if t.startsWith "a:" then
      match (t.drop 2).toString.toNat? with
      | some n => (parseItems fuel n rest).map (fun r => (.array r.1, r.2))
      | none => none
    else none
def parseItems : Nat → Nat → List String → Option (List DataV × List String)
  | 0, _, _ => none
  | _, 0, rest => some ([], rest)
  | fuel + 1, n + 1, rest =>
    match parseD fuel rest with
    | some (d, r1) => (parseItems fuel n r1).map (fun r => (d :: r.1, r.2))
    | none => none
end

def readDataV (s : String) : Option DataV :=
  let toks := s.splitOn ";"
  match parseD (2 * toks.length + 2) toks with
  | some (d, []) => some d
  | _ => none

def readParams (s : String) : Option (Option (List (Bytes × DataV))) :=
  if s = "N" then some none
  else ((s.splitOn "|").mapM fun (e : String) =>
    match e.splitOn "~" with
    | [n, d] => match unhexB n, readDataV d with
      | some n, some d => some (n, d)
      | _, _ => none
    | _ => none).map some

def readContent (s : String) : Option (Option DataV) :=
  if s = "N" then some none else (readDataV s).map some

def readObs (s : String) : Option (List (Nat × Bytes × EvData)) :=
  if s = "." then some []
  else (s.splitOn ";").mapM fun (e : String) =>
    match e.splitOn "~" with
    | [sid, n, d] => match sid.toNat?, unhexB n, readData d with
      | some sid, some n, some d => some (sid, n, d)
      | _, _, _ => none
    | _ => none

def handle : List String → String
  | ["encode", ps] =>
    match unPairs ps with
    | some ps => hexB (formEncode ps)
    | none => "bad-op"
  | ["decode", body] =>
    match unhexB body with
    | some b => showPairs (formDecode b)
    | none => "bad-op"
  | ["post", sids, seg, body] =>
    match natList sids, unhexB seg, unhexB body with
    | some sids, some seg, some body =>
      let t : Table := sids.map fun s => { sid := s, queue := [] }
      let (st, t') := receive t seg body
      let evs := t'.flatMap fun s => s.queue.map fun e => (s.sid, e)
      toString st ++ " " ++ toString evs.length ++
        String.join (evs.map fun (s, e) => " " ++ toString s ++ " " ++ showEvent e)
    | _, _, _ => "bad-op"
  | ["sendbody", name, params, content] =>
    match unhexB name, readParams params, readContent content with
    | some n, some p, some c =>
      let e : OutEvent := { name := n, params := p, content := c }
      hexB (sendBody e) ++ " " ++ showPairs (sendForm e)
    | _, _, _ => "bad-op"
  | ["text", d] =>
    match readDataV d with
    | some d => hexB (dataText d)
    | none => "bad-op"
  | ["location", sid] =>
    match sid.toNat? with
    | some s => hexB (locationOf s)
    | none => "bad-op"
  | ["oracle", known, sid, body, status, obs] =>
    match sid.toNat?, unhexB body, status.toNat?, readObs obs with
    | some sid, some body, some st, some obs =>
      if known = "1" then oracle true sid (formDecode body) st obs
      else if known = "0" then oracle false sid (formDecode body) st obs
      else "bad-op"
    | _, _, _, _ => "bad-op"
  | _ => "bad-op"

end Driver.Http
