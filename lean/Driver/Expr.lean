import Rfsm.Model.Wire
import Rfsm.Model.ExprEval
/-!
Driver family `expr`: the rfsm-expression lexer, parser and evaluator models (C10, C11).

    expr lex <stops: nat list> <text hex>            → tokens
    expr parse <text hex>                            → canonical AST text | err:<kind> | livelock | panic
    expr run <cells> <vars> <steps>                  → one outcome per step, then a dump of the store
    expr oracle <cells> <vars> <chain>               → reference value of an operator chain
                                                        (documented precedence, LEFT grouping)

`Float` instantiates `DoubleOps` here (the model files and the theorems are parametric in it).
Wire format of stores: see `parseCell` / `dump`.
-/
namespace Driver.Expr
open Rfsm Rfsm.Wire Rfsm.Expr

/-! ### Float as DoubleOps -/

def unmodelled : Nat := 0xFFFF   -- marks text the Float instance cannot produce faithfully

/-- decode a finite double into (negative, mantissa, exponent): value = ±m·2^e -/
def decode (d : Float) : Bool × Nat × Int :=
  let bits := d.toBits.toNat
  let neg := bits / 2 ^ 63 == 1
  let ex : Nat := bits / 2 ^ 52 % 2048
  let fr := bits % 2 ^ 52
  if ex == 0 then (neg, fr, -1074) else (neg, fr + 2 ^ 52, (ex : Int) - 1075)

def isFinite (d : Float) : Bool := !(d.isNaN || d.isInf)

def ofParts (neg : Bool) (m : Nat) (e : Int) : Float :=
  let f := (Float.ofNat m).scaleB e
  if neg then -f else f

/-- exact `fmod` through integers -/
def fmod (x y : Float) : Float :=
  if x.isNaN || y.isNaN || x.isInf || y == 0.0 then (0.0 / 0.0)
  else if y.isInf then x
  else
    let (nx, mx, ex) := decode x
    let (_, my, ey) := decode y
    if mx == 0 then x else
    let e := min ex ey
    let a := mx * 2 ^ (ex - e).toNat
    let b := my * 2 ^ (ey - e).toNat
    let r := a % b
    if r == 0 then (if nx then -0.0 else 0.0) else ofParts nx r e

/-! Exact decimal conversion through big naturals.  A rational is a pair `(num, den)`. -/

def rle (a b : Nat × Nat) : Bool := a.1 * b.2 ≤ b.1 * a.2
def rlt (a b : Nat × Nat) : Bool := a.1 * b.2 < b.1 * a.2

/-- `10^k` as a rational, `k` an integer -/
def pow10r (k : Int) : Nat × Nat := if k ≥ 0 then (10 ^ k.toNat, 1) else (1, 10 ^ (-k).toNat)
def pow2r (k : Int) : Nat × Nat := if k ≥ 0 then (2 ^ k.toNat, 1) else (1, 2 ^ (-k).toNat)
def rmul (a b : Nat × Nat) : Nat × Nat := (a.1 * b.1, a.2 * b.2)
def radd (a b : Nat × Nat) : Nat × Nat := (a.1 * b.2 + b.1 * a.2, a.2 * b.2)
def rsub (a b : Nat × Nat) : Nat × Nat := (a.1 * b.2 - b.1 * a.2, a.2 * b.2)

/-- smallest `k` with `v < 10^k`, searched upwards from `k0` -/
def decExpUp (v : Nat × Nat) : Nat → Int → Int
  | 0, k => k
  | fuel + 1, k => if rlt v (pow10r k) then k else decExpUp v fuel (k + 1)

def decExpDown (v : Nat × Nat) : Nat → Int → Int
  | 0, k => k
  | fuel + 1, k => if rle (pow10r (k - 1)) v then k else decExpDown v fuel (k - 1)

/-- the shortest decimal digit string that identifies the double `m·2^e` (then the closest one),
with its decimal exponent `k`: value ≈ 0.d₁d₂… × 10^k.  This is what Rust's `Display` prints. -/
def shortestDigits (m : Nat) (e : Int) : Str × Int :=
  let v : Nat × Nat := rmul (m, 1) (pow2r e)
  let halfUp := pow2r (e - 1)
  let halfDown := if m == 2 ^ 52 && e > -1074 then pow2r (e - 2) else pow2r (e - 1)
  let lo := rsub v halfDown
  let hi := radd v halfUp
  let incl := m % 2 == 0
  let inside (c : Nat × Nat) : Bool :=
    if incl then rle lo c && rle c hi else rlt lo c && rlt c hi
  -- 10^(k-1) ≤ v < 10^k
  let k0 : Int := decExpUp v 800 (-330)
  let k := decExpDown v 10 k0
  let rec go : Nat → Nat → Str × Int
    | 0, _ => ([48], k)
    | fuel + 1, n =>
      let scale := pow10r (k - n)
      -- q = floor (v / scale)
      let q := (v.1 * scale.2) / (v.2 * scale.1)
      let c1 := rmul (q, 1) scale
      let c2 := rmul (q + 1, 1) scale
      let d1 := rsub v c1
      let d2 := rsub c2 v
      let firstLow := rlt d1 d2 || (d1.1 * d2.2 == d2.1 * d1.2 && q % 2 == 0)
      let pick : Option Nat :=
        if firstLow then (if inside c1 && q > 0 then some q else if inside c2 then some (q + 1) else none)
        else (if inside c2 then some (q + 1) else if inside c1 && q > 0 then some q else none)
      match pick with
      | some c =>
        let ds := natToStr c
        -- a carry makes n+1 digits: 10^n
        let k' := if ds.length > n then k + 1 else k
        ((ds.reverse.dropWhile (· == 48)).reverse, k')
      | none => go fuel (n + 1)
  go 17 1

/-- `f64::to_string` (Rust `Display`: shortest round-trip digits, never an exponent) -/
def floatToStr (d : Float) : Str :=
  if d.isNaN then sOf "NaN"
  else if d.isInf then (if d < 0.0 then sOf "-inf" else sOf "inf")
  else
    let (neg, m, e) := decode d
    let sign : Str := if neg then [45] else []
    if m == 0 then sign ++ [48]
    else
      let (ds, k) := shortestDigits m e
      let n : Int := ds.length
      if k ≤ 0 then sign ++ [48, 46] ++ List.replicate (-k).toNat 48 ++ ds
      else if k < n then sign ++ ds.take k.toNat ++ [46] ++ ds.drop k.toNat
      else sign ++ ds ++ List.replicate (k - n).toNat 48

/-- nearest double (ties to even) of the decimal `m10 · 10^e10` -/
def decimalToFloat (m10 : Nat) (e10 : Int) : Float :=
  if m10 == 0 then 0.0
  else if e10 > 400 then (1.0 / 0.0)
  else if e10 < -500 then 0.0
  else
    let v : Nat × Nat := rmul (m10, 1) (pow10r e10)
    -- e2 with 2^52 ≤ v / 2^e2 < 2^53, at least -1074
    let l : Int := (Nat.log2 v.1 : Int) - (Nat.log2 v.2 : Int)
    let e2a : Int := l - 52
    -- adjust: ensure v / 2^e2 < 2^53 and ≥ 2^52
    let fix (e2 : Int) : Int :=
      let s := rmul v (pow2r (-e2))
      if rle (2 ^ 53, 1) s then e2 + 1 else if rlt s (2 ^ 52, 1) then e2 - 1 else e2
    let e2 := fix (fix e2a)
    let e2 := if e2 < -1074 then -1074 else e2
    let s := rmul v (pow2r (-e2))
    let q := s.1 / s.2
    let r := s.1 % s.2
    -- round half to even
    let q := if 2 * r > s.2 || (2 * r == s.2 && q % 2 == 1) then q + 1 else q
    (Float.ofNat q).scaleB e2

/-- `str::parse::<f64>` for `-?digits*(.digits*)?([eE][+-]?digits+)?` -/
def parseFloat (t : Str) : Float :=
  let (neg, t) := match t with | 45 :: r => (true, r) | r => (false, r)
  let ip := t.takeWhile isDigit
  let t := t.dropWhile isDigit
  let (fp, t) := match t with
    | 46 :: r => (r.takeWhile isDigit, r.dropWhile isDigit)
    | r => ([], r)
  let ex : Int := match t with
    | _ :: 45 :: r => - (digitsToNat r 0 : Int)
    | _ :: 43 :: r => (digitsToNat r 0 : Int)
    | _ :: r => (digitsToNat r 0 : Int)
    | [] => 0
  let m := digitsToNat (ip ++ fp) 0
  -- huge exponents: clamp (the result is 0 or inf anyway once |e10| is beyond the double range
  -- by more than the number of digits)
  let nd : Int := (ip ++ fp).length
  let e10 : Int := ex - fp.length
  let e10 := if e10 > 400 + 0 then 401 else if e10 + nd < -400 then -501 else e10
  let f := decimalToFloat m e10
  if neg then -f else f

def floatToIndex (v : Float) : Option Int :=
  let tr := if v < 0.0 then v.ceil else v.floor
  let fract := v - tr
  if fract.abs < 0.001 && v ≥ -9223372036854775808.0 && v ≤ 9223372036854775808.0 then
    some v.toInt64.toInt
  else none

def floatOps : DoubleOps Float where
  add := (· + ·)
  sub := (· - ·)
  mul := (· * ·)
  div := (· / ·)
  rem := fmod
  lt := fun a b => a < b
  le := fun a b => a ≤ b
  eq := fun a b => a == b
  isNaN := Float.isNaN
  abs := Float.abs
  ofInt := Float.ofInt
  toIndex := floatToIndex
  parse := parseFloat
  toStr := floatToStr

/-! ### small text helpers -/

def splitOnC (c : Char) (s : List Char) : List (List Char) :=
  let rec go : List Char → List Char → List (List Char)
    | [], acc => [acc.reverse]
    | x :: rest, acc => if x == c then acc.reverse :: go rest [] else go rest (x :: acc)
  go s []

def natOf? (s : List Char) : Option Nat :=
  if s.isEmpty then none
  else if s.all Char.isDigit then some (s.foldl (fun a c => a * 10 + (c.toNat - 48)) 0) else none

def intOf? (s : List Char) : Option Int :=
  match s with
  | '-' :: r => (natOf? r).map fun n => - (n : Int)
  | r => (natOf? r).map fun n => (n : Int)

/-- hex payload → code points (`-` = empty) -/
def strOf? (s : List Char) : Option Str :=
  match unhex (String.ofList s) with
  | some bs => some ((stringOfBytes bs).toList.map Char.toNat)
  | none => none

def hexOfStr (s : Str) : String :=
  hex (bytesOfString (String.ofList (s.map Char.ofNat)))

def hexNat? (s : List Char) : Option Nat :=
  s.foldlM (fun a c => (hexVal c).map fun v => a * 16 + v) 0

def hex16 (n : Nat) : String :=
  String.ofList ((List.range 16).reverse.map fun i => hexDigit (n / 16 ^ i % 16))

/-! ### rendering tokens / ASTs / errors -/

def opName : Op → String
  | .multiply => "Multiply" | .divide => "Divide" | .plus => "Plus" | .minus => "Minus"
  | .less => "Less" | .lessEqual => "LessEqual" | .greater => "Greater"
  | .greaterEqual => "GreaterEqual" | .assign => "Assign" | .assignUndefined => "AssignUndefined"
  | .equal => "Equal" | .notEqual => "NotEqual" | .and => "And" | .or => "Or"
  | .modulus => "Modulus" | .not => "Not"

def lexErrName : LexErr → String
  | .missingStringDelimiter => "missingStringDelimiter" | .illegalUSequence => "illegalUSequence"
  | .illegalEscape => "illegalEscape" | .internalError => "internalError"
  | .intParse => "intParse" | .floatParse => "floatParse"
  | .missingExponent => "missingExponent" | .internalNumber => "internalNumber"

def dblBits (t : Str) : String := hex16 (parseFloat t).toBits.toNat

def showToken : Token → String
  | .int i => s!"I{i}"
  | .dbl t => s!"D{dblBits t}"
  | .identifier s => s!"N{hexOfStr s}"
  | .tstring s => s!"S{hexOfStr s}"
  | .boolean b => if b then "B1" else "B0"
  | .operator o => s!"O{opName o}"
  | .bracket c => s!"K{c}"
  | .separator c => s!"P{c}"
  | .exprSep => "X"
  | .null => "U"
  | .error e => s!"E{lexErrName e}"
  | .eoe => "Z"

def pErrName : PErr → String
  | .lex e => s!"lex:{lexErrName e}"
  | .unexpectedBracket c => s!"unexpected:{c}"
  | .indexArgCount => "indexArgCount"
  | .internalAt c => s!"internalAt:{c}"
  | .failedEvaluate => "failedEvaluate"
  | .failedParse => "failedParse"
  | .failedAtOperator o => s!"failedAtOperator:{opName o}"
  | .failedAtSep _ => "failedAtSep"
  | .failedAtItem => "failedAtItem"
  | .memberListError => "memberListError"
  | .missingValue => "missingValue"
  | .argListError => "argListError"
  | .missing c => s!"missing:{c}"

def actName (n : Nat) : String :=
  match n with
  | 0 => "indexOf" | 1 => "length" | 2 => "isDefined" | 3 => "abs" | 4 => "toString" | _ => "log"

partial def evErrName : EvErr → String
  | .parse e => s!"p:{pErrName e}"
  | .varNotFound n => s!"varNotFound:{hexOfStr n}"
  | .cantIndex => "cantIndex"
  | .indexNotFound k => s!"indexNotFound:{hexOfStr k}"
  | .locked => "locked"
  | .indexOutOfRange => "indexOutOfRange"
  | .illegalIndexType => "illegalIndexType"
  | .noMembers => "noMembers"
  | .memberNotFound n => s!"memberNotFound:{hexOfStr n}"
  | .readOnly => "readOnly"
  | .cantAssignFrom => "cantAssignFrom"
  | .cantAssignTo => "cantAssignTo"
  | .notNonBoolean => "notNonBoolean"
  | .actionNotFound n => s!"actionNotFound:{hexOfStr n}"
  | .actionArgs n => s!"actionArgs:{actName n}"
  | .actionType n => s!"actionType:{actName n}"
  | .opInternal o => s!"opInternal:{opName o}"
  | .opWrongTypes o => s!"opWrongTypes:{opName o}"
  | .divideNaN => "divideNaN"
  | .remUndefined => "remUndefined"
  | .greaterUnsupported => "greaterUnsupported"
  | .internal => "internal"
  | .illegalResultArray => "illegalResultArray"
  | .illegalResultMap => "illegalResultMap"
  | .scriptError e => s!"script:{evErrName e}"
  | .text s => s!"text:{hexOfStr s}"

mutual
partial def showExpr : Expr → String
  | .const (.int i) => s!"i{i}"
  | .const (.dbl t) => s!"d{dblBits t}"
  | .const (.str s) => s!"s{hexOfStr s}"
  | .const (.bool b) => if b then "b1" else "b0"
  | .const .null => "n"
  | .var n => s!"v{hexOfStr n}"
  | .array items => s!"(A{showExprs items})"
  | .map fields => s!"(M{showExprs (fields.flatMap fun (k, v) => [k, v])})"
  | .method n args => s!"(C{hexOfStr n}{showExprs args})"
  | .index l i => s!"(I {showExpr l} {showExpr i})"
  | .member l n => s!"(D{hexOfStr n} {showExpr l})"
  | .assign l r => s!"(= {showExpr l} {showExpr r})"
  | .assignUndef l r => s!"(?= {showExpr l} {showExpr r})"
  | .op o l r => s!"(O{opName o} {showExpr l} {showExpr r})"
  | .not r => s!"(! {showExpr r})"
  | .seq es => s!"(S{showExprs es})"
partial def showExprs : List Expr → String
  | [] => ""
  | e :: rest => " " ++ showExpr e ++ showExprs rest
end

def showPRes : PRes Expr → String
  | .ok e => "ok " ++ showExpr e
  | .err e => "err:" ++ pErrName e
  | .panic => "panic"
  | .livelock => "livelock"
  | .outOfFuel => "fuelout"

/-! ### stores on the wire -/

def refOf? (s : List Char) : Option Ref :=
  match s.reverse with
  | 'r' :: r => (natOf? r.reverse).map fun n => ⟨n, true⟩
  | _ => (natOf? s).map fun n => ⟨n, false⟩

def listOf? {α} (f : List Char → Option α) (s : List Char) : Option (List α) :=
  if s.isEmpty then some [] else (splitOnC ',' s).mapM f

def fieldOf? (s : List Char) : Option (Str × Ref) :=
  match splitOnC '=' s with
  | [k, r] => do
    let k ← strOf? k
    let r ← refOf? r
    pure (k, r)
  | _ => none

def sortFields (l : List (Str × Ref)) : List (Str × Ref) :=
  l.foldl (fun m (k, v) => mapInsert m k v) []

/-- one cell: `i<int>` `d<bits>` `s<hex>` `b0|b1` `n` `N` `e<hex>` `S<id>.<hex>` `a<refs>` `m<k>=<ref>,…` -/
def parseCell (s : List Char) : Option (Data Float) :=
  match s with
  | 'i' :: r => (intOf? r).map .int
  | 'd' :: r => (hexNat? r).map fun n => .dbl (Float.ofBits n.toUInt64)
  | 's' :: r => (strOf? r).map .str
  | ['b', '0'] => some (.bool false)
  | ['b', '1'] => some (.bool true)
  | ['n'] => some .null
  | ['N'] => some .none
  | 'e' :: r => (strOf? r).map fun t => .error (.text t)
  | 'S' :: r =>
    match splitOnC '.' r with
    | [id, t] => do
      let id ← natOf? id
      let t ← strOf? t
      pure (.source t id)
    | _ => none
  | 'a' :: r => (listOf? refOf? r).map .array
  | 'm' :: r => (listOf? fieldOf? r).map fun l => .map (sortFields l)
  | _ => none

def refsOfData : Data Float → List Ref
  | .array items => items
  | .map fields => fields.map (·.2)
  | _ => []

def parseStore (cells vars : String) : Option (St Float) := do
  let cs ← if cells = "." then some [] else (splitOnC ';' cells.toList).mapM parseCell
  let vs ← if vars = "." then some [] else listOf? fieldOf? vars.toList
  -- no dangling references
  let n := cs.length
  if (cs.all fun d => (refsOfData d).all fun r => r.id < n) && vs.all (fun (_, r) => r.id < n) then
    some { cells := cs, vars := sortFields vs, held := [] }
  else none

def showRefWith (ren : List Nat) (r : Ref) : String :=
  let k := ren.idxOf r.id
  s!"{k}{if r.ro then "r" else ""}"

def showData (ren : List Nat) : Data Float → String
  | .int i => s!"i{i}"
  | .dbl d => if d.isNaN then "dNaN" else s!"d{hex16 d.toBits.toNat}"
  | .str s => s!"s{hexOfStr s}"
  | .bool b => if b then "b1" else "b0"
  | .null => "n"
  | .none => "N"
  | .error e => s!"e{hexs (evErrName e)}"
  | .source t id => s!"S{id}.{hexOfStr t}"
  | .array items => "a" ++ ",".intercalate (items.map (showRefWith ren))
  | .map fields => "m" ++ ",".intercalate (fields.map fun (k, r) => s!"{hexOfStr k}={showRefWith ren r}")
where
  hexs (s : String) : String := hex (bytesOfString s)

/-- cells reachable from the roots in first-visit order (depth first, map keys sorted);
cells in `blocked` are not entered -/
def reach (cells : Cells Float) (blocked : List Nat) : Nat → List Nat → List Nat → List Nat
  | 0, _, seen => seen
  | _, [], seen => seen
  | fuel + 1, id :: todo, seen =>
    if seen.contains id then reach cells blocked fuel todo seen
    else
      let kids := if blocked.contains id then [] else (refsOfData (getCell cells id)).map (·.id)
      reach cells blocked fuel (kids ++ todo) (seen ++ [id])

/-- canonical dump: `<result ref|->|<vars>|<cells>`; `poisoned` cells get a `!P` suffix -/
def dump (st : St Float) (result : Option Ref) (poisoned : List Nat) : String :=
  let roots := (match result with | some r => [r.id] | none => []) ++ st.vars.map (·.2.id)
  let fuel := 2 * (st.cells.length + 1) * (st.cells.length + 1) + roots.length + 4
  let ren := reach st.cells [] fuel roots []
  let res := match result with | some r => showRefWith ren r | none => "-"
  let vars := if st.vars.isEmpty then "." else
    ",".intercalate (st.vars.map fun (k, r) => s!"{hexOfStr k}={showRefWith ren r}")
  let cells := if ren.isEmpty then "." else
    ";".intercalate (ren.map fun id =>
      showData ren (getCell st.cells id) ++ (if poisoned.contains id then "!P" else ""))
  s!"{res}|{vars}|{cells}"

/-! ### running steps -/

def panicName : PanicSite → String
  | .parserInternal => "parser-internal"

def lockName : LockSite → String
  | .equal => "equal" | .other => "other"

inductive StepOut
  | ref (r : Option Ref)      -- continue; result value if any
  | fatal                     -- panic: the thread is gone, the store is poisoned
  | gone                      -- deadlock / livelock: nothing can be observed any more

def showOut {α} (f : α → String) : Out α → String
  | .ok a => "ok" ++ f a
  | .err e => "err:" ++ evErrName e
  | .panic s => "panic:" ++ panicName s
  | .deadlock s => "deadlock:" ++ lockName s
  | .livelock => "livelock"
  | .fuelOut => "fuelout"

def classify {α} (toRef : α → Option Ref) : Out α → StepOut
  | .ok a => .ref (toRef a)
  | .err _ => .ref none
  | .panic _ => .fatal
  | .deadlock _ => .gone
  | .livelock => .gone
  | .fuelOut => .gone

/-- one step: `x:<hex>` ExpressionParser::execute, `e:<id>:<hex>` Datamodel::execute,
`c:<id>:<hex>` execute_condition, `a:<id>:<hex>:<id>:<hex>` assign -/
def runStep (dm : DM Float) (step : List Char) : Option (DM Float × String × StepOut) :=
  match splitOnC ':' step with
  | [['x'], t] => do
    let t ← strOf? t
    let (st, o) := execute floatOps t dm.st
    pure ({ dm with st := st }, showOut (fun _ => "") o, classify some o)
  | [['e'], id, t] => do
    let id ← natOf? id
    let t ← strOf? t
    let (dm, o) := dmExecute floatOps dm t id
    pure (dm, showOut (fun _ => "") o, classify some o)
  | [['c'], id, t] => do
    let id ← natOf? id
    let t ← strOf? t
    let (dm, o) := dmCondition floatOps dm t id
    pure (dm, showOut (fun b => if b then ":true" else ":false") o, classify (fun _ => none) o)
  | [['a'], lid, lt, rid, rt] => do
    let lid ← natOf? lid
    let lt ← strOf? lt
    let rid ← natOf? rid
    let rt ← strOf? rt
    let (dm, o) := dmAssign floatOps dm lt lid rt rid
    pure (dm, showOut (fun b => if b then ":true" else ":false") o, classify (fun _ => none) o)
  | _ => none

def runSteps : DM Float → List (List Char) → List String → Option String
  | dm, [], outs => some (";".intercalate outs.reverse ++ " " ++ dump dm.st none [])
  | dm, step :: rest, outs =>
    match runStep dm step with
    | none => none
    | some (dm, o, cls) =>
      match cls with
      | .gone => some (";".intercalate (o :: outs).reverse ++ " gone")
      | .fatal => some (";".intercalate (o :: outs).reverse ++ " " ++ dump dm.st none dm.st.held)
      | .ref r =>
        if rest.isEmpty then
          some (";".intercalate (o :: outs).reverse ++ " " ++ dump dm.st r [])
        else runSteps dm rest (o :: outs)

/-! ### the oracle: reference evaluation with the documented grouping

The reference reading of an infix chain `a₀ o₁ a₁ … oₙ aₙ` (operands: any sub-expressions the
parser delivers as one stack item): `!` binds tightest, then the priority table, equal priorities
group to the LEFT (assignments to the right).  `regroup` rebuilds the tree the parser produced
into that reference tree; the oracle value is the evaluation of the regrouped tree. -/

def rightAssoc (o : Op) : Bool := o == .assign || o == .assignUndefined

/-- operator-precedence (shunting-yard) rebuild with left grouping for equal priorities -/
def reduceWhile : Nat → List Expr → List Op → (Op → Bool) → List Expr × List Op
  | 0, es, os, _ => (es, os)
  | fuel + 1, r :: l :: es, o :: os, p =>
    if p o then reduceWhile fuel (mkBinary o l r :: es) os p else (r :: l :: es, o :: os)
  | _, es, os, _ => (es, os)

def shunt : List Expr → List Op → List Expr → List Op → Option Expr
  | [], _, [e], [] => some e
  | [], _, es, os =>
    match reduceWhile (os.length + 1) es os (fun _ => true) with
    | ([e], []) => some e
    | _ => none
  | a :: as, [], es, os => shunt as [] (a :: es) os
  | a :: as, o :: ops, es, os =>
    let (es, os) := reduceWhile (os.length + 1) (a :: es) os
      (fun top => prio top < prio o || (prio top == prio o && !rightAssoc o))
    shunt as ops es (o :: os)

def opOfName? (n : List Char) : Option Op :=
  [Op.multiply, .divide, .plus, .minus, .less, .lessEqual, .greater, .greaterEqual, .assign,
   .assignUndefined, .equal, .notEqual, .and, .or, .modulus].find? fun o => (opName o).toList == n

/-- reference chains on the wire: `[item,Op,item,…]`, item = `a<hex>` (an operand the parser
delivers as one stack item; parsed with the model parser), `!item`, or a nested chain
(a parenthesised sub-expression) -/
inductive Chain
  | atom (e : Expr)
  | neg (c : Chain)
  | chain (first : Chain) (rest : List (Op × Chain))

mutual
partial def readItem : List Char → Option (Chain × List Char)
  | 'a' :: r =>
    let h := r.takeWhile fun c => c != ',' && c != ']'
    match strOf? h with
    | some t =>
      match parse t with
      | .ok e => some (.atom e, r.dropWhile fun c => c != ',' && c != ']')
      | _ => none
    | none => none
  | '!' :: r => (readItem r).map fun (c, r) => (.neg c, r)
  | '[' :: r =>
    match readItem r with
    | some (f, r) => readRest f [] r
    | none => none
  | _ => none
partial def readRest (f : Chain) (acc : List (Op × Chain)) : List Char → Option (Chain × List Char)
  | ']' :: r => some (.chain f acc.reverse, r)
  | ',' :: r =>
    let n := r.takeWhile (· != ',')
    match opOfName? n, r.dropWhile (· != ',') with
    | some o, ',' :: r =>
      match readItem r with
      | some (c, r) => readRest f ((o, c) :: acc) r
      | none => none
    | _, _ => none
  | _ => none
end

partial def refTree : Chain → Option Expr
  | .atom e => some e
  | .neg c => (refTree c).map .not
  | .chain f rest => do
    let f ← refTree f
    let es ← rest.mapM fun (_, c) => refTree c
    shunt (f :: es) (rest.map (·.1)) [] []

def handle : List String → String
  | ["lex", stops, t] =>
    match natList stops, strOf? t.toList with
    | some stops, some t =>
      let (ts, cut) := tokens stops (t.length + 2) t
      " ".intercalate (ts.map showToken) ++ (if cut then " CUT" else "")
    | _, _ => "bad-op"
  -- self tests of the Float instance against Rust: `fstr <bits hex>` = f64::to_string,
  -- `fparse <text hex>` = bits of str::parse::<f64>
  | ["fstr", b] =>
    match hexNat? b.toList with
    | some n => hexOfStr (floatToStr (Float.ofBits n.toUInt64))
    | none => "bad-op"
  | ["fparse", t] =>
    match strOf? t.toList with
    | some t => hex16 (parseFloat t).toBits.toNat
    | none => "bad-op"
  | ["parse", t] =>
    match strOf? t.toList with
    | some t => showPRes (parse t)
    | none => "bad-op"
  | ["run", cells, vars, steps] =>
    match parseStore cells vars with
    | some st =>
      match runSteps { st := st, cache := [] } (splitOnC ';' steps.toList) [] with
      | some s => s
      | none => "bad-op"
    | none => "bad-op"
  | ["oracle", cells, vars, c] =>
    match parseStore cells vars, readItem c.toList with
    | some st, some (ch, []) =>
      match refTree ch with
      | some e' =>
        let (st, o) := eval floatOps e' false st
        let tail := match classify some o with
          | .ref r => dump st r []
          | .fatal => dump st none st.held
          | .gone => "gone"
        showOut (fun _ => "") o ++ " " ++ tail ++ " " ++ showExpr e'
      | none => "no-tree"
    | _, _ => "bad-op"
  | _ => "bad-op"

end Driver.Expr
