#!/usr/bin/env python3
"""Three-way merge of known_findings.json during `git merge` (run in the repo root while the file is
in conflict): findings removed on their side are removed, findings added or changed on their side
are taken, everything else stays ours; `fixed` is the union (ours first)."""
import json, subprocess


def show(stage, f="known_findings.json"):
    return json.loads(subprocess.check_output(["git", "show", ":%d:%s" % (stage, f)]).decode())


base, ours, theirs = show(1), show(2), show(3)
bid = {f["id"]: f for f in base["findings"]}
tid = {f["id"]: f for f in theirs["findings"]}
out = []
for f in ours["findings"]:
    i = f["id"]
    if i in bid and i not in tid:
        continue  # removed by them
    if i in tid and i in bid and tid[i] != bid[i]:
        out.append(tid[i])  # changed by them
    else:
        out.append(f)
have = {f["id"] for f in out}
for f in theirs["findings"]:
    if f["id"] not in have and f["id"] not in bid:
        out.append(f)  # added by them
fixed = list(ours.get("fixed", []))
for x in theirs.get("fixed", []):
    if x not in fixed:
        fixed.append(x)
json.dump({"findings": out, "fixed": fixed}, open("known_findings.json", "w"), indent=1, ensure_ascii=False)
print("merged: %d findings, %d fixed" % (len(out), len(fixed)))
