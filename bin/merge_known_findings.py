import json,subprocess
def show(stage,f):
    return subprocess.check_output(['git','show',':%d:%s'%(stage,f)]).decode()
ours=json.loads(show(2,'known_findings.json')); theirs=json.loads(show(3,'known_findings.json'))
ids={f['id'] for f in ours['findings']}
for f in theirs['findings']:
    if f['id'] not in ids: ours['findings'].append(f)
for f in theirs.get('fixed',[]):
    if f not in ours['fixed']: ours['fixed'].append(f)
json.dump(ours,open('known_findings.json','w'),indent=1,ensure_ascii=False)
