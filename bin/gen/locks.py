#!/usr/bin/env python3
"""bin/gen/locks.py — lock-site inventory of the repository under test (C17, static tie).

1. Inventories every `.lock()`, `.try_lock()` and `get_global!(…)` in $VERIF_REPO/src/**/*.rs:
   file, enclosing item (`impl header::fn`), ordinal within that item, kind, receiver expression,
   and the current line/column (the column is the one `std::panic::Location::caller()` reports for
   a `#[track_caller]` mutex, so the instrumented run can name the site of every acquisition).
2. Compares the inventory with the committed table checks/lock_sites.json, which assigns each site
   its lock class and the classes held there (by reading the code).  A site of the source that the
   table does not know, a table entry without a site, or a site whose kind/receiver changed
   => exit 1 (the tie is broken).
3. On success writes lean/Rfsm/Gen/LockSites.lean (the held-while-acquiring edge table as a Lean
   `def`, re-checked by the theorems of Rfsm.Props.C17 on every run) and
   lean/Rfsm/Gen/lock_sites_resolved.json (table + current line/col, read by the harness).

Other modes:  --inventory  (print the inventory as JSON)   --draft  (print a draft table).
"""
import json
import os
import re
import sys

ROOT = os.path.dirname(os.path.dirname(os.path.dirname(os.path.abspath(__file__))))
REPO = os.environ.get("VERIF_REPO", "/repo")
TABLE = os.environ.get("VERIF_LOCK_TABLE", os.path.join(ROOT, "checks", "lock_sites.json"))
GEN_LEAN = os.path.join(ROOT, "lean", "Rfsm", "Gen", "LockSites.lean")
GEN_JSON = os.path.join(ROOT, "lean", "Rfsm", "Gen", "lock_sites_resolved.json")

# the instrument itself (feature Verif_Hooks): its internal std mutexes are not platform locks
NOT_PLATFORM = {"src/verif_sync.rs"}

# the lock classes the Lean side knows (Rfsm.Locks.Cls); a table using another one is rejected
CLASSES = ["TF", "DF", "Gn", "Gi", "P", "G", "E", "D", "A", "R"]


def blank_comments_and_strings(src):
    """same length as src; comments, string and char literals replaced by spaces (newlines kept)"""
    out = list(src)
    i, n = 0, len(src)

    def blank(a, b):
        for k in range(a, b):
            if out[k] != "\n":
                out[k] = " "

    while i < n:
        c = src[i]
        if src.startswith("//", i):
            j = src.find("\n", i)
            j = n if j < 0 else j
            blank(i, j)
            i = j
        elif src.startswith("/*", i):
            depth, j = 1, i + 2
            while j < n and depth:
                if src.startswith("/*", j):
                    depth += 1
                    j += 2
                elif src.startswith("*/", j):
                    depth -= 1
                    j += 2
                else:
                    j += 1
            blank(i, j)
            i = j
        elif c == "r" and re.match(r'r#*"', src[i:i + 12]) and (i == 0 or not (src[i - 1].isalnum() or src[i - 1] == "_")):
            m = re.match(r'r(#*)"', src[i:])
            hashes = m.group(1)
            end = src.find('"' + hashes, i + len(m.group(0)))
            end = n if end < 0 else end + 1 + len(hashes)
            blank(i + 1, end)
            i = end
        elif c == '"':
            j = i + 1
            while j < n and src[j] != '"':
                j += 2 if src[j] == "\\" else 1
            blank(i + 1, min(j, n))
            i = j + 1
        elif c == "'":
            # char literal or lifetime
            m = re.match(r"'(\\.[^']*|[^\\'])'", src[i:])
            if m:
                blank(i + 1, i + len(m.group(0)) - 1)
                i += len(m.group(0))
            else:
                i += 1
        else:
            i += 1
    return "".join(out)


def receiver_before(code, dot):
    """the postfix-expression text ending just before position `dot` (which holds '.')"""
    i = dot - 1
    while True:
        while i >= 0 and code[i].isspace():
            i -= 1
        if i < 0:
            break
        c = code[i]
        if c in ")]":
            close, open_ = c, "(" if c == ")" else "["
            depth = 0
            while i >= 0:
                if code[i] == close:
                    depth += 1
                elif code[i] == open_:
                    depth -= 1
                    if depth == 0:
                        break
                i -= 1
            i -= 1
            # a call: the callee name / path precedes
            continue
        if c.isalnum() or c == "_":
            while i >= 0 and (code[i].isalnum() or code[i] == "_"):
                i -= 1
            # path or field separators continue the chain
            j = i
            while j >= 0 and code[j].isspace():
                j -= 1
            if j >= 0 and code[j] == ".":
                i = j - 1
                continue
            if j >= 1 and code[j - 1:j + 1] == "::":
                i = j - 2
                continue
            if j >= 0 and code[j] == "!":  # macro call such as get_global!(x) — keep the name
                i = j - 1
                continue
            break
        if c == "?":
            i -= 1
            continue
        break
    text = code[i + 1:dot]
    text = re.sub(r"\s+", "", text)
    return text.lstrip("&*")


def guard_form(code, start, end):
    """how long the guard lives, from the shape of the statement around the lock call code[start:end]:
    `let`   bound to a name (lives to the end of the block, or until dropped),
    `head`  temporary in the head of a for / match / if let / while let (lives through the body),
    `tmp`   temporary of an ordinary statement or expression (dropped at its end)"""
    # statement start: previous ';', '{' or '}' outside any bracket
    i, depth = start - 1, 0
    while i >= 0:
        c = code[i]
        if c in ")]":
            depth += 1
        elif c in "([":
            if depth == 0:
                break
            depth -= 1
        elif c in ";{}" and depth == 0:
            break
        i -= 1
    head = code[i + 1:start].strip()
    # attributes in front of the statement (`#[cfg(feature = "…")] for x in get_global!(…)…`) are not its head
    head = re.sub(r"^(#\s*\[[^\]]*\]\s*)+", "", head)
    # what follows the call up to the end of the statement
    j, depth = end, 0
    while j < len(code):
        c = code[j]
        if c in "([{":
            depth += 1
        elif c in ")]}":
            if depth == 0:
                break
            depth -= 1
        elif c == ";" and depth == 0:
            break
        j += 1
    tail = re.sub(r"\s+", "", code[end:j])
    first = re.match(r"[A-Za-z_]+", head)
    kw = first.group(0) if first else ""
    if kw == "let" and re.fullmatch(r"(\.unwrap\(\)|\?)*", tail) and i >= 0 and code[i] != "(":
        return "let"
    if kw in ("for", "match", "while") or head.startswith("if let") or (kw == "if" and "let " in head):
        return "head"
    return "tmp"


def scan_file(path, rel):
    src = open(path, encoding="utf-8").read()
    code = blank_comments_and_strings(src)
    # line starts for line/col computation
    starts = [0]
    for m in re.finditer("\n", src):
        starts.append(m.end())

    def linecol(pos):
        import bisect
        ln = bisect.bisect_right(starts, pos) - 1
        # Location::caller reports 1-based columns counted in characters
        return ln + 1, pos - starts[ln] + 1

    sites = []
    stack = []  # (kind, name, is_test)
    pending = None  # item header seen, waiting for its '{'
    tok = re.compile(r"macro_rules\s*!\s*(\w+)|\b(fn|impl|trait|mod)\b|get_global\s*!\s*\(|\.\s*(lock|try_lock)\s*\(\s*\)|[{};]")
    i = 0
    for m in tok.finditer(code):
        t = m.group(0)
        if m.group(1):
            pending = ("macro", m.group(1), False)
        elif m.group(2):
            kw = m.group(2)
            # attributes directly before the item (look back over a few lines)
            back = code[max(0, m.start() - 400):m.start()]
            attrs = re.findall(r"#\[[^\]]*\]", back.split(";")[-1].split("}")[-1])
            is_test = any(("cfg(test)" in a.replace(" ", "")) or a.replace(" ", "") == "#[test]" for a in attrs)
            if kw == "fn":
                nm = re.match(r"fn\s+(\w+)", code[m.start():])
                if nm and (pending is None or pending[0] != "macro"):
                    pending = ("fn", nm.group(1), is_test)
            elif kw == "impl":
                # header up to the opening brace
                end = code.find("{", m.end())
                semi = code.find(";", m.end())
                if end >= 0 and (semi < 0 or end < semi) and (pending is None or pending[0] not in ("fn", "macro")):
                    hdr = re.sub(r"\s+", " ", code[m.end():end]).strip()
                    hdr = re.sub(r"^<[^>]*>\s*", "", hdr)
                    hdr = re.sub(r"\s+where\b.*$", "", hdr)
                    pending = ("impl", hdr, is_test)
            elif kw in ("trait", "mod"):
                nm = re.match(r"(?:trait|mod)\s+(\w+)", code[m.start():])
                if nm and (pending is None or pending[0] not in ("fn", "macro")):
                    pending = (kw, nm.group(1), is_test)
        elif t == "{":
            if pending:
                stack.append(pending)
                pending = None
            else:
                stack.append(("block", "", False))
        elif t == "}":
            if stack:
                stack.pop()
        elif t == ";":
            if pending and pending[0] != "macro":
                pending = None  # declaration without body
        else:
            # a lock site
            if any(k == "macro" for k, _, _ in stack):
                continue  # inside a macro_rules! definition
            names = [n for k, n, _ in stack if k in ("fn", "impl", "trait", "mod") and n]
            in_fn = any(k == "fn" for k, _, _ in stack)
            scope = "::".join(names) if names else "<top>"
            if not in_fn:
                scope += "::<static>"
            is_test = any(tst for _, _, tst in stack)
            if t.startswith("get_global"):
                kind = "get_global"
                par = m.end() - 1
                depth, j = 0, par
                while j < len(code):
                    if code[j] == "(":
                        depth += 1
                    elif code[j] == ")":
                        depth -= 1
                        if depth == 0:
                            break
                    j += 1
                recv = re.sub(r"\s+", "", code[par + 1:j])
                pos = m.start()
                expr_start, expr_end = m.start(), j + 1
            else:
                kind = m.group(3)
                recv = receiver_before(code, m.start())
                pos = m.start() + t.index(kind)
                expr_end = m.end()
                # start of the receiver expression in the code
                k2, need = m.start(), len(recv)
                while k2 > 0 and need > 0:
                    k2 -= 1
                    if not code[k2].isspace():
                        need -= 1
                while k2 > 0 and code[k2 - 1] in "&*":
                    k2 -= 1
                expr_start = k2
            ln, col = linecol(pos)
            sites.append({"file": rel, "scope": scope, "kind": kind, "recv": recv, "guard": guard_form(code, expr_start, expr_end),
                          "line": ln, "col": col, "test": is_test})
    # ordinals within (file, scope)
    counts = {}
    for s in sites:
        k = (s["file"], s["scope"])
        s["ord"] = counts.get(k, 0)
        counts[k] = s["ord"] + 1
        s["key"] = "%s|%s#%d" % (s["file"], s["scope"], s["ord"])
    return sites


def inventory():
    sites = []
    src = os.path.join(REPO, "src")
    for dp, dns, fns in os.walk(src):
        dns.sort()
        for fn in sorted(fns):
            if fn.endswith(".rs"):
                p = os.path.join(dp, fn)
                rel = os.path.relpath(p, REPO)
                if rel in NOT_PLATFORM:
                    continue
                sites += scan_file(p, rel)
    return sites


def guess_class(s):
    r = s["recv"]
    if s["kind"] == "get_global" or "global" in r or r in ("gd", "fsm.global_data", "ec.global_data"):
        return "G"
    if "state" in r and "executor" in r or r in ("self.state", "executor_state.arc", "execute_state", "self.arc") and "fsm_executor" in s["file"] or "execut" in r:
        return "E"
    if "receiver" in r or "Queue" in r:
        return "R"
    if "actions" in r:
        return "A"
    if "datamodel_factories" in r:
        return "DF"
    if "tracer_factory" in r:
        return "TF"
    if r in ("p", "pp", "ic", "iopc", "processor"):
        return "P"
    return "D"


def load_table():
    return json.load(open(TABLE))


def site_edges(table):
    """[(held, acq, rel, priv, key)] for every blocking site and every calling context"""
    ctxs = table.get("contexts", {})
    out = []
    for s in table["sites"]:
        if s.get("test") or s.get("tool") or s.get("wrapper") or s["cls"] == "-" or s.get("kind") == "try_lock":
            continue
        fnkey = s["key"].rsplit("#", 1)[0]
        contexts = ctxs.get(fnkey, [{"name": "", "held": []}])
        if s.get("noctx"):
            contexts = [{"name": "", "held": []}]
        for c in contexts:
            held = []
            for h in list(c["held"]) + list(s.get("held", [])):
                if h not in held:
                    held.append(h)
            for h in held:
                rel = "any"
                if h == s["cls"]:
                    rel = s.get("same", "any")
                out.append((h, s["cls"], rel, h == "D", s["key"], c["name"]))
    return out


def main():
    args = sys.argv[1:]
    inv = inventory()
    if "--inventory" in args:
        json.dump(inv, sys.stdout, indent=1)
        return 0
    if "--draft" in args:
        sites = []
        for s in inv:
            e = {"key": s["key"], "kind": s["kind"], "recv": s["recv"], "guard": s["guard"]}
            if s["test"]:
                e.update({"cls": "-", "test": True})
            else:
                e.update({"cls": guess_class(s), "held": []})
            sites.append(e)
        print("{\n \"sites\": [")
        print(",\n".join("  " + json.dumps(e) for e in sites))
        print(" ]\n}")
        return 0

    table = load_table()
    problems = []
    by_key = {s["key"]: s for s in inv}
    seen = set()
    for t in table["sites"]:
        s = by_key.get(t["key"])
        if s is None:
            problems.append("table entry without a site in the source (removed or moved): %s" % t["key"])
            continue
        seen.add(t["key"])
        if s["kind"] != t["kind"] or s["recv"] != t["recv"] or s["guard"] != t.get("guard"):
            problems.append("site changed: %s is now %s `%s` guard=%s (table: %s `%s` guard=%s) at %s:%d" % (
                t["key"], s["kind"], s["recv"], s["guard"], t["kind"], t["recv"], t.get("guard"), s["file"], s["line"]))
        if bool(t.get("test")) != s["test"]:
            problems.append("site %s: test-only flag differs (source says %s)" % (t["key"], s["test"]))
        if not t.get("test") and not t.get("tool") and t["cls"] not in CLASSES:
            problems.append("site %s: unknown lock class %s" % (t["key"], t["cls"]))
        for h in t.get("held", []):
            if h not in CLASSES:
                problems.append("site %s: unknown held class %s" % (t["key"], h))
    for s in inv:
        if s["key"] not in seen:
            problems.append("site not in the table (new or moved): %s  %s `%s` at %s:%d" % (s["key"], s["kind"], s["recv"], s["file"], s["line"]))
    for fnkey, cs in table.get("contexts", {}).items():
        if not any(t["key"].rsplit("#", 1)[0] == fnkey for t in table["sites"]):
            problems.append("context for a function without lock sites: %s" % fnkey)
        for c in cs:
            for h in c["held"]:
                if h not in CLASSES:
                    problems.append("context %s: unknown held class %s" % (fnkey, h))
    if problems:
        print("lock-site table and source disagree (%d):" % len(problems))
        for p in problems[:40]:
            print("  " + p)
        return 1

    edges = site_edges(table)
    # distinct edges, keeping the first site as the witness; all sites listed in the JSON
    distinct = {}
    for h, a, rel, priv, key, ctx in edges:
        distinct.setdefault((h, a, rel, priv), []).append(key + ("@" + ctx if ctx else ""))
    os.makedirs(os.path.dirname(GEN_LEAN), exist_ok=True)
    site_ids = {t["key"]: i for i, t in enumerate(table["sites"])}
    lines = []
    lines.append("import Rfsm.Model.LockTable")
    lines.append("/-! GENERATED by bin/gen/locks.py from checks/lock_sites.json after checking it against every")
    lines.append("`.lock()` / `try_lock()` / `get_global!` site of the repository's src/**/*.rs — do not edit.")
    lines.append("%d sites (%d test-only, %d try_lock), %d held-while-acquiring pairs, %d distinct edges. -/" % (
        len(table["sites"]), sum(1 for t in table["sites"] if t.get("test")),
        sum(1 for t in table["sites"] if t["kind"] == "try_lock" and not t.get("test")), len(edges), len(distinct)))
    lines.append("namespace Rfsm.Gen.LockSites")
    lines.append("open Rfsm.Locks")
    lines.append("")
    lines.append("/-- (held class, acquired class, relation between the instances when the classes are equal,")
    lines.append("held lock is private to the acquiring thread, id of the first site with this edge) -/")
    lines.append("def edges : List Edge := [")
    rows = []
    for (h, a, rel, priv), keys in sorted(distinct.items(), key=lambda kv: (CLASSES.index(kv[0][0]), CLASSES.index(kv[0][1]), kv[0][2])):
        k0 = keys[0].split("@")[0]
        rows.append("  ⟨.%s, .%s, .%s, %s, %d⟩" % (h, a, rel, "true" if priv else "false", site_ids[k0]))
    lines.append(",\n".join(rows))
    lines.append("]")
    lines.append("")
    lines.append("def siteCount : Nat := %d" % len(table["sites"]))
    lines.append("")
    lines.append("end Rfsm.Gen.LockSites")
    new = "\n".join(lines) + "\n"
    old = open(GEN_LEAN).read() if os.path.exists(GEN_LEAN) else None
    if old != new:
        open(GEN_LEAN, "w").write(new)
    resolved = {
        "repo": REPO,
        "classes": CLASSES,
        "contexts": table.get("contexts", {}),
        "sites": [dict(t, id=site_ids[t["key"]], file=by_key[t["key"]]["file"], line=by_key[t["key"]]["line"], col=by_key[t["key"]]["col"]) for t in table["sites"]],
        "edges": [{"held": h, "acq": a, "rel": rel, "priv": priv, "sites": keys} for (h, a, rel, priv), keys in sorted(distinct.items())],
    }
    newj = json.dumps(resolved, indent=1, sort_keys=True) + "\n"
    oldj = open(GEN_JSON).read() if os.path.exists(GEN_JSON) else None
    if oldj != newj:
        open(GEN_JSON, "w").write(newj)
    print("locks: %d sites match checks/lock_sites.json; %d distinct edges -> %s%s" % (
        len(table["sites"]), len(distinct), os.path.relpath(GEN_LEAN, ROOT), "" if old == new else " (changed)"))
    return 0


if __name__ == "__main__":
    sys.exit(main())
