#!/usr/bin/env python3
"""bin/extract_gen.py <name>...  — regenerate lean/Rfsm/Gen/*.lean from /repo/src.

Dispatcher only: each <name> runs bin/gen/<name>.py (same interpreter, cwd = framework root,
environment variable VERIF_REPO = the repository under test, default /repo).  A generator exits
non-zero when the source no longer matches what its table expects (the tie is broken; bin/check
reports it).  Add your own generator as bin/gen/<name>.py and list it in checks/Cxx.json "gen".
"""
import os
import subprocess
import sys

ROOT = os.path.dirname(os.path.dirname(os.path.abspath(__file__)))


def main():
    names = sys.argv[1:]
    if not names:
        print(__doc__)
        return 2
    env = dict(os.environ)
    env.setdefault("VERIF_REPO", "/repo")
    rc = 0
    for n in names:
        script = os.path.join(ROOT, "bin", "gen", n + ".py")
        if not os.path.exists(script):
            print("extract_gen: no generator bin/gen/%s.py" % n)
            rc = 2
            continue
        p = subprocess.run([sys.executable, script], cwd=ROOT, env=env)
        if p.returncode != 0:
            print("extract_gen: generator %s failed (rc=%d)" % (n, p.returncode))
            rc = p.returncode or 1
    return rc


if __name__ == "__main__":
    sys.exit(main())
