use rufsm::executable_content::*;
use rufsm::scxml_reader;
use std::panic::catch_unwind;

fn show(xml: &str) {
    let x = xml.to_string();
    let inc = vec![std::path::PathBuf::from("/tmp/reader/inc")];
    let r = catch_unwind(move || scxml_reader::parse_from_xml_with_includes(x, &inc));
    println!("--- {}", xml);
    match r {
        Err(e) => {
            let msg = if let Some(s) = e.downcast_ref::<String>() { s.clone() } else if let Some(s) = e.downcast_ref::<&str>() { s.to_string() } else { "?".into() };
            println!("PANIC {}", msg)
        }
        Ok(Err(e)) => println!("ERR {}", e),
        Ok(Ok(fsm)) => {
            for s in &fsm.states {
                println!(
                    "state id={} doc={} name={} parent={} kids={:?} init={} par={} fin={} hist={:?} tr={:?} onentry={:?} data={:?}",
                    s.id, s.doc_id, s.name, s.parent, s.states, s.initial, s.is_parallel, s.is_final, s.history_type,
                    s.transitions.iterator().collect::<Vec<_>>(), s.onentry,
                    s.data.iter().map(|(k, v)| format!("{}={:?}", k, v.arc.lock().unwrap())).collect::<Vec<_>>()
                );
                for i in s.invoke.iterator() {
                    println!("  invoke {:?} fin={}", i, i.finalize);
                }
                if let Some(dd) = &s.donedata {
                    println!("  donedata {:?}", dd);
                }
            }
            let mut ks: Vec<_> = fsm.transitions.keys().collect();
            ks.sort();
            for k in ks {
                println!("  trans {:?}", fsm.transitions.get(k).unwrap());
            }
            let mut ks: Vec<_> = fsm.executableContent.keys().collect();
            ks.sort();
            for k in ks {
                let v = fsm.executableContent.get(k).unwrap();
                print!("  region {}:", k);
                for e in v {
                    print!(" {:?}", e);
                    if let Some(s) = e.as_any().downcast_ref::<SendParameters>() {
                        print!("[content={:?} params={:?} delay={}]", s.content, s.params, s.delay_ms);
                    }
                }
                println!();
            }
            println!("  script={}", fsm.script);
        }
    }
}

fn main() {
    std::panic::set_hook(Box::new(|_| {}));
    let args: Vec<String> = std::env::args().collect();
    if args.len() > 1 {
        for a in &args[1..] {
            show(&std::fs::read_to_string(a).unwrap());
        }
        return;
    }
    show("<scxml><state id='a'><onentry><script>x &lt; 1 &amp;&amp; y</script></onentry></state></scxml>");
    show("<scxml><state id='a'><onentry><script><![CDATA[x < 1]]></script></onentry></state></scxml>");
    show("<scxml><state id='a'><onentry><script>a<!-- c -->b</script></onentry></state></scxml>");
    show("<sc:scxml xmlns:sc='http://www.w3.org/2005/07/scxml'><sc:state id='a'><sc:onentry><sc:script>x</sc:script></sc:onentry></sc:state></sc:scxml>");
    show("<sc:scxml xmlns:sc='http://www.w3.org/2005/07/scxml'><sc:state id='a'><sc:onentry><sc:script/><sc:log expr='1'/></sc:onentry></sc:state></sc:scxml>");
    show("<scxml><datamodel><data id='d1'>  &quot;q&quot; </data><data id='d2' expr='&quot;q&quot;'/><data id='d3' expr='1'></data></datamodel><state id='a'/></scxml>");
    show("<scxml><state id='a'><onentry><assign location='x' expr='1'></assign></onentry></state></scxml>");
    show("<scxml><state id='a'><onentry><assign location='x' expr='1'/></onentry></state></scxml>");
    show("<scxml><state id='a'><onentry><assign location='x'>a \"b\"\n c &amp; d</assign></onentry></state></scxml>");
    show("<scxml><state id='a'><onentry><send event='e'><content expr='1'></content></send></onentry></state></scxml>");
    show("<scxml><state id='a'><onentry><send event='e'><content></content></send><send event='f'><content/></send></onentry></state></scxml>");
    show("<scxml><state id='a'><onentry><if cond='c1'><log expr='1'/><elseif cond='c2'/><log expr='2'/><elseif cond='c3'/><log expr='3'/><else/><log expr='4'/></if></onentry></state></scxml>");
    show("<scxml><state id='a'><onentry><if cond='c1'><log expr='1'/><else/><if cond='c2'><log expr='2'/></if></if></onentry></state></scxml>");
    show("<scxml xmlns:xi='http://www.w3.org/2001/XInclude'><state id='a'><xi:include href='f1.xml' parse='text'/></state></scxml>");
    show("<scxml initial='b'><state id='a'><transition target='c b'/></state><state id='b'><state id='c'/><history id='h' type='deep'><transition target='c'/></history></state></scxml>");
    show("<scxml><state id='a'><transition event='e  f.*\tg.\nh' target='a'/></state></scxml>");
    show("<scxml><state id='a'><invoke type='t' id='i'><param name='p' expr='1'/><content>x&amp;y</content><finalize><log expr='1'/></finalize></invoke></state><final id='f'><donedata><content expr='2'/></donedata></final></scxml>");
    show("<scxml><state id='a'><onentry><send event='e' delay='2s' namelist='a b'/><send delay='1.5s'/><send delay='10ms'/><send delay='3'/><send delay='1m'/></onentry></state></scxml>");
    show("<scxml><script>top</script><state id='a'><invoke><finalize><raise event='x'/></finalize></invoke></state></scxml>");
    show("<scxml><state id='a'><invoke><finalize><if cond='c'><raise event='x'/></if></finalize></invoke></state></scxml>");
    show("<scxml>text<state id='a'>more<onentry>abc<log expr='1'/>def</onentry></state></scxml>");
    show("<scxml><state id='a'><onentry><log label='l'/><log label='m' expr='1'/></onentry></state></scxml>");
}
