//! What a correspondence run reports back to `bin/check` (JSON on a file).
use serde_json::{json, Map, Value};
use std::collections::{BTreeMap, BTreeSet};

#[derive(Default)]
pub struct Report {
    pub family: String,
    pub evaluations: u64,
    /// keys of distinct non-trivial cases (by the family's stated rule)
    pub nontrivial: BTreeSet<String>,
    pub rule: String,
    pub dist: BTreeMap<String, u64>,
    pub samples: Vec<Value>,
    /// model vs implementation: observable behaviour differs
    pub disagreements: Vec<Value>,
    /// implementation vs property oracle: the property's predicate is false on an implementation run
    pub oracle_failures: Vec<Value>,
    pub model_requests: u64,
    pub extra: Map<String, Value>,
}

impl Report {
    pub fn new(family: &str, rule: &str) -> Report {
        Report { family: family.to_string(), rule: rule.to_string(), ..Default::default() }
    }
    pub fn count(&mut self, key: &str) {
        *self.dist.entry(key.to_string()).or_insert(0) += 1;
    }
    pub fn add(&mut self, key: &str, n: u64) {
        *self.dist.entry(key.to_string()).or_insert(0) += n;
    }
    pub fn sample(&mut self, v: Value) {
        if self.samples.len() < 6 {
            self.samples.push(v);
        }
    }
    pub fn disagree(&mut self, v: Value) {
        if self.disagreements.len() < 50 {
            self.disagreements.push(v);
        }
        self.count("disagreements");
    }
    pub fn oracle_fail(&mut self, signature: &str, v: Value) {
        if self.oracle_failures.len() < 200 {
            let mut o = v;
            o["signature"] = json!(signature);
            self.oracle_failures.push(o);
        }
        self.count("oracle_failures");
    }
    pub fn to_json(&self) -> Value {
        json!({
            "family": self.family,
            "evaluations": self.evaluations,
            "distinct_nontrivial": self.nontrivial.len(),
            "rule": self.rule,
            "distribution": self.dist,
            "samples": self.samples,
            "disagreements": self.disagreements,
            "oracle_failures": self.oracle_failures,
            "model_requests": self.model_requests,
            "extra": self.extra,
        })
    }
    pub fn write(&self, path: &str) {
        std::fs::write(path, serde_json::to_string_pretty(&self.to_json()).unwrap()).unwrap();
    }
}
