//! C04 — abstract SCXML document trees (mirror of lean/Rfsm/Model/ReaderDoc.lean `Doc`), their
//! generator, the element tree (`XNode`) they are rendered through and the lexical renderer that
//! produces, in one pass, the XML text, the include files and the SAX list the Lean model is fed.
use crate::prng::Prng;
use super::rdump::{sx_list, sx_opt_str, sx_str, sx_strs};
use std::collections::BTreeSet;

// ------------------------------------------------------------------------------------------
// document trees
// ------------------------------------------------------------------------------------------

#[derive(Clone, Debug, PartialEq)]
pub struct ParamT {
    pub name: String,
    pub expr: String,
    pub location: String,
}

#[derive(Clone, Debug, PartialEq, Default)]
pub struct ContentT {
    pub expr: Option<String>,
    pub text: Option<String>,
}

#[derive(Clone, Debug, PartialEq, Default)]
pub struct SendT {
    pub event: Option<String>,
    pub eventexpr: Option<String>,
    pub target: Option<String>,
    pub targetexpr: Option<String>,
    pub type_: Option<String>,
    pub typeexpr: Option<String>,
    pub id: String,
    pub idlocation: String,
    pub delay_ms: u64,
    pub delayexpr: Option<String>,
    pub namelist: Vec<String>,
    pub params: Vec<ParamT>,
    pub content: Option<ContentT>,
}

#[derive(Clone, Debug, PartialEq)]
pub enum Content {
    Raise(String),
    Assign { location: String, expr: Option<String>, text: Option<String> },
    Log { label: String, expr: Option<String> },
    Script(String),
    Send(SendT),
    Cancel { sendid: Option<String>, sendidexpr: Option<String> },
    If { cond: String, body: Vec<Content>, tail: Tail },
    Foreach { array: String, item: String, index: String, body: Vec<Content> },
}

#[derive(Clone, Debug, PartialEq)]
pub enum Tail {
    None,
    Else(Vec<Content>),
    Elif(String, Vec<Content>, Box<Tail>),
}

#[derive(Clone, Debug, PartialEq, Default)]
pub struct TransT {
    pub events: Vec<String>,
    pub cond: Option<String>,
    pub targets: Vec<String>,
    pub internal: bool,
    pub content: Vec<Content>,
}

#[derive(Clone, Debug, PartialEq)]
pub enum InitT {
    None,
    Attr(Vec<String>),
    Elem(Vec<String>, Vec<Content>),
}

#[derive(Clone, Debug, PartialEq)]
pub struct DataT {
    pub id: String,
    pub expr: Option<String>,
    pub text: Option<String>,
}

#[derive(Clone, Debug, PartialEq, Default)]
pub struct InvokeT {
    pub type_: Option<String>,
    pub typeexpr: Option<String>,
    pub src: Option<String>,
    pub srcexpr: Option<String>,
    pub id: String,
    pub idlocation: String,
    pub namelist: Vec<String>,
    pub autoforward: bool,
    pub params: Vec<ParamT>,
    pub content: Option<ContentT>,
    pub finalize: Option<Vec<Content>>,
}

#[derive(Clone, Debug, PartialEq, Default)]
pub struct DoneDataT {
    pub content: Option<ContentT>,
    pub params: Vec<ParamT>,
}

#[derive(Clone, Debug, PartialEq)]
pub struct HistT {
    pub id: Option<String>,
    pub deep: bool,
    pub trans: Vec<TransT>,
}

#[derive(Clone, Copy, Debug, PartialEq)]
pub enum Kind {
    State,
    Parallel,
    Final,
}

#[derive(Clone, Debug, PartialEq)]
pub struct StateT {
    pub kind: Kind,
    pub id: Option<String>,
    pub initial: InitT,
    pub datas: Vec<DataT>,
    pub onentry: Vec<Vec<Content>>,
    pub onexit: Vec<Vec<Content>>,
    pub trans: Vec<TransT>,
    pub invokes: Vec<InvokeT>,
    pub hist: Vec<HistT>,
    pub kids: Vec<StateT>,
    pub donedata: Option<DoneDataT>,
}

impl StateT {
    pub fn new(kind: Kind, id: Option<&str>) -> StateT {
        StateT {
            kind,
            id: id.map(|s| s.to_string()),
            initial: InitT::None,
            datas: vec![],
            onentry: vec![],
            onexit: vec![],
            trans: vec![],
            invokes: vec![],
            hist: vec![],
            kids: vec![],
            donedata: None,
        }
    }
}

#[derive(Clone, Debug, PartialEq)]
pub struct Doc {
    pub name: Option<String>,
    pub datamodel: Option<String>,
    pub binding: Option<bool>,
    pub version: Option<String>,
    pub script: Option<String>,
    pub root: StateT,
}

// ---- s-expression printers (format of lean/Driver/Reader.lean `gDoc`)

fn sx_bool(b: bool) -> String {
    if b { "1" } else { "0" }.to_string()
}

fn sx_param(p: &ParamT) -> String {
    format!("(P,{},{},{})", sx_str(&p.name), sx_str(&p.expr), sx_str(&p.location))
}

fn sx_contentt(c: &Option<ContentT>) -> String {
    match c {
        None => "~".into(),
        Some(c) => format!("(C,{},{})", sx_opt_str(&c.expr), sx_opt_str(&c.text)),
    }
}

fn sx_send(s: &SendT) -> String {
    format!(
        "(send,{},{},{},{},{},{},{},{},{},{},{},{},{})",
        sx_opt_str(&s.event),
        sx_opt_str(&s.eventexpr),
        sx_opt_str(&s.target),
        sx_opt_str(&s.targetexpr),
        sx_opt_str(&s.type_),
        sx_opt_str(&s.typeexpr),
        sx_str(&s.id),
        sx_str(&s.idlocation),
        s.delay_ms,
        sx_opt_str(&s.delayexpr),
        sx_strs(&s.namelist),
        sx_list(&s.params.iter().map(sx_param).collect::<Vec<_>>()),
        sx_contentt(&s.content)
    )
}

pub fn sx_block(b: &[Content]) -> String {
    sx_list(&b.iter().map(sx_content).collect::<Vec<_>>())
}

fn sx_tail(t: &Tail) -> String {
    match t {
        Tail::None => "~".into(),
        Tail::Else(b) => format!("(else,{})", sx_block(b)),
        Tail::Elif(c, b, t) => format!("(elif,{},{},{})", sx_str(c), sx_block(b), sx_tail(t)),
    }
}

fn sx_content(c: &Content) -> String {
    match c {
        Content::Raise(e) => format!("(raise,{})", sx_str(e)),
        Content::Assign { location, expr, text } => format!("(assign,{},{},{})", sx_str(location), sx_opt_str(expr), sx_opt_str(text)),
        Content::Log { label, expr } => format!("(log,{},{})", sx_str(label), sx_opt_str(expr)),
        Content::Script(t) => format!("(script,{})", sx_str(t)),
        Content::Send(s) => sx_send(s),
        Content::Cancel { sendid, sendidexpr } => format!("(cancel,{},{})", sx_opt_str(sendid), sx_opt_str(sendidexpr)),
        Content::If { cond, body, tail } => format!("(if,{},{},{})", sx_str(cond), sx_block(body), sx_tail(tail)),
        Content::Foreach { array, item, index, body } => {
            format!("(foreach,{},{},{},{})", sx_str(array), sx_str(item), sx_str(index), sx_block(body))
        }
    }
}

fn sx_trans(t: &TransT) -> String {
    format!(
        "(T,{},{},{},{},{})",
        sx_strs(&t.events),
        sx_opt_str(&t.cond),
        sx_strs(&t.targets),
        sx_bool(t.internal),
        sx_block(&t.content)
    )
}

fn sx_init(i: &InitT) -> String {
    match i {
        InitT::None => "~".into(),
        InitT::Attr(tg) => format!("(attr,{})", sx_strs(tg)),
        InitT::Elem(tg, c) => format!("(elem,{},{})", sx_strs(tg), sx_block(c)),
    }
}

fn sx_invoke(i: &InvokeT) -> String {
    format!(
        "(I,{},{},{},{},{},{},{},{},{},{},{})",
        sx_opt_str(&i.type_),
        sx_opt_str(&i.typeexpr),
        sx_opt_str(&i.src),
        sx_opt_str(&i.srcexpr),
        sx_str(&i.id),
        sx_str(&i.idlocation),
        sx_strs(&i.namelist),
        sx_bool(i.autoforward),
        sx_list(&i.params.iter().map(sx_param).collect::<Vec<_>>()),
        sx_contentt(&i.content),
        match &i.finalize {
            None => "~".to_string(),
            Some(b) => sx_block(b),
        }
    )
}

fn sx_state(s: &StateT) -> String {
    format!(
        "(S,{},{},{},{},{},{},{},{},{},{},{})",
        match s.kind {
            Kind::State => "s",
            Kind::Parallel => "p",
            Kind::Final => "f",
        },
        sx_opt_str(&s.id),
        sx_init(&s.initial),
        sx_list(&s.datas.iter().map(|d| format!("(D,{},{},{})", sx_str(&d.id), sx_opt_str(&d.expr), sx_opt_str(&d.text))).collect::<Vec<_>>()),
        sx_list(&s.onentry.iter().map(|b| sx_block(b)).collect::<Vec<_>>()),
        sx_list(&s.onexit.iter().map(|b| sx_block(b)).collect::<Vec<_>>()),
        sx_list(&s.trans.iter().map(sx_trans).collect::<Vec<_>>()),
        sx_list(&s.invokes.iter().map(sx_invoke).collect::<Vec<_>>()),
        sx_list(
            &s.hist
                .iter()
                .map(|h| format!("(H,{},{},{})", sx_opt_str(&h.id), sx_bool(h.deep), sx_list(&h.trans.iter().map(sx_trans).collect::<Vec<_>>())))
                .collect::<Vec<_>>()
        ),
        sx_list(&s.kids.iter().map(sx_state).collect::<Vec<_>>()),
        match &s.donedata {
            None => "~".to_string(),
            Some(d) => format!("(DD,{},{})", sx_contentt(&d.content), sx_list(&d.params.iter().map(sx_param).collect::<Vec<_>>())),
        }
    )
}

pub fn sx_doc(d: &Doc) -> String {
    format!(
        "(doc,{},{},{},{},{},{})",
        sx_opt_str(&d.name),
        sx_opt_str(&d.datamodel),
        match d.binding {
            None => "~".to_string(),
            Some(b) => sx_bool(b),
        },
        sx_opt_str(&d.version),
        sx_opt_str(&d.script),
        sx_state(&d.root)
    )
}

// ---- traversals

/// applies `f(element kind, text)` to every raw child text of the document
pub fn map_texts(d: &mut Doc, f: &mut dyn FnMut(&str, &mut String)) {
    fn ct(c: &mut Option<ContentT>, f: &mut dyn FnMut(&str, &mut String)) {
        if let Some(c) = c {
            if let Some(t) = &mut c.text {
                f("content", t)
            }
        }
    }
    fn block(b: &mut Vec<Content>, f: &mut dyn FnMut(&str, &mut String)) {
        for c in b {
            match c {
                Content::Assign { text: Some(t), .. } => f("assign", t),
                Content::Script(t) => f("script", t),
                Content::Send(s) => ct(&mut s.content, f),
                Content::If { body, tail, .. } => {
                    block(body, f);
                    let mut t = tail;
                    loop {
                        match t {
                            Tail::None => break,
                            Tail::Else(b) => {
                                block(b, f);
                                break;
                            }
                            Tail::Elif(_, b, n) => {
                                block(b, f);
                                t = n;
                            }
                        }
                    }
                }
                Content::Foreach { body, .. } => block(body, f),
                _ => {}
            }
        }
    }
    fn trans(ts: &mut Vec<TransT>, f: &mut dyn FnMut(&str, &mut String)) {
        for t in ts {
            block(&mut t.content, f)
        }
    }
    fn state(s: &mut StateT, f: &mut dyn FnMut(&str, &mut String)) {
        for d in &mut s.datas {
            if let Some(t) = &mut d.text {
                f("data", t)
            }
        }
        for b in &mut s.onentry {
            block(b, f)
        }
        for b in &mut s.onexit {
            block(b, f)
        }
        if let InitT::Elem(_, c) = &mut s.initial {
            block(c, f)
        }
        trans(&mut s.trans, f);
        for i in &mut s.invokes {
            ct(&mut i.content, f);
            if let Some(b) = &mut i.finalize {
                block(b, f)
            }
        }
        for h in &mut s.hist {
            trans(&mut h.trans, f)
        }
        for k in &mut s.kids {
            state(k, f)
        }
        if let Some(dd) = &mut s.donedata {
            ct(&mut dd.content, f)
        }
    }
    if let Some(t) = &mut d.script {
        f("script", t)
    }
    state(&mut d.root, f);
}

/// removes every `<log>` without `expr`; returns how many were removed
pub fn drop_empty_logs(d: &mut Doc) -> usize {
    fn block(b: &mut Vec<Content>, n: &mut usize) {
        let before = b.len();
        b.retain(|c| !matches!(c, Content::Log { expr: None, .. }));
        *n += before - b.len();
        for c in b {
            match c {
                Content::If { body, tail, .. } => {
                    block(body, n);
                    let mut t = tail;
                    loop {
                        match t {
                            Tail::None => break,
                            Tail::Else(b) => {
                                block(b, n);
                                break;
                            }
                            Tail::Elif(_, b, nx) => {
                                block(b, n);
                                t = nx;
                            }
                        }
                    }
                }
                Content::Foreach { body, .. } => block(body, n),
                _ => {}
            }
        }
    }
    fn state(s: &mut StateT, n: &mut usize) {
        for b in &mut s.onentry {
            block(b, n)
        }
        for b in &mut s.onexit {
            block(b, n)
        }
        if let InitT::Elem(_, c) = &mut s.initial {
            block(c, n)
        }
        for t in &mut s.trans {
            block(&mut t.content, n)
        }
        for i in &mut s.invokes {
            if let Some(b) = &mut i.finalize {
                block(b, n)
            }
        }
        for h in &mut s.hist {
            for t in &mut h.trans {
                block(&mut t.content, n)
            }
        }
        for k in &mut s.kids {
            state(k, n)
        }
    }
    let mut n = 0;
    state(&mut d.root, &mut n);
    n
}

/// swaps the form of `initial` where both forms can express it
pub fn swap_initial(d: &mut Doc) -> usize {
    fn state(s: &mut StateT, root: bool, n: &mut usize) {
        let new = match &s.initial {
            InitT::Attr(tg) if !root => Some(InitT::Elem(tg.clone(), vec![])),
            InitT::Elem(tg, c) if c.is_empty() => Some(InitT::Attr(tg.clone())),
            _ => None,
        };
        if let Some(i) = new {
            s.initial = i;
            *n += 1;
        }
        for k in &mut s.kids {
            state(k, false, n)
        }
    }
    let mut n = 0;
    state(&mut d.root, true, &mut n);
    n
}

pub fn has_anonymous(d: &Doc) -> bool {
    fn state(s: &StateT) -> bool {
        s.id.is_none() || s.hist.iter().any(|h| h.id.is_none()) || s.kids.iter().any(state)
    }
    d.root.kids.iter().any(state)
}

// ------------------------------------------------------------------------------------------
// element trees
// ------------------------------------------------------------------------------------------

#[derive(Clone, Debug)]
pub enum XKid {
    El(XNode),
    /// raw child text exactly as it is written into the source
    Text(String),
}

#[derive(Clone, Debug)]
pub struct XNode {
    pub name: String,
    pub attrs: Vec<(String, String)>,
    pub kids: Vec<XKid>,
    /// `<data> <script> <content> <assign>`: the reader takes the raw source span
    pub raw: bool,
    /// written as `<a></a>` even without children (`<if>`, `<foreach>` in the canonical form)
    pub pair: bool,
}

pub fn el(name: &str, attrs: Vec<(String, String)>, kids: Vec<XNode>) -> XNode {
    XNode { name: name.to_string(), attrs, kids: kids.into_iter().map(XKid::El).collect(), raw: false, pair: false }
}

fn raw_el(name: &str, attrs: Vec<(String, String)>, text: Option<String>) -> XNode {
    XNode { name: name.to_string(), attrs, kids: text.into_iter().map(XKid::Text).collect(), raw: true, pair: false }
}

pub fn at(k: &str, v: &str) -> (String, String) {
    (k.to_string(), v.to_string())
}

#[derive(Clone, Copy, Debug, PartialEq)]
pub enum TextMode {
    Plain,
    Entity,
    Numeric,
    Cdata,
    Comment,
}

/// how a logical child text is written into the source
pub fn spell(t: &str, mode: TextMode) -> String {
    if t.is_empty() {
        return String::new();
    }
    let minimal = |s: &str| s.replace('&', "&amp;").replace('<', "&lt;");
    let first_numeric = |s: &str, hexa: bool| {
        let c = s.chars().next().unwrap();
        let rest = &s[c.len_utf8()..];
        if hexa {
            format!("&#x{:X};{}", c as u32, minimal(rest))
        } else {
            format!("&#{};{}", c as u32, minimal(rest))
        }
    };
    match mode {
        TextMode::Plain => minimal(t),
        TextMode::Entity => {
            let special = t.contains(|c| "<>&\"'".contains(c));
            if special {
                t.replace('&', "&amp;").replace('<', "&lt;").replace('>', "&gt;").replace('"', "&quot;").replace('\'', "&apos;")
            } else {
                first_numeric(t, true)
            }
        }
        TextMode::Numeric => {
            let mut o = String::new();
            for (i, c) in t.chars().enumerate() {
                if i == 0 || "<>&\"'".contains(c) {
                    o.push_str(&format!("&#{};", c as u32));
                } else {
                    o.push(c);
                }
            }
            o
        }
        TextMode::Cdata => {
            if t.contains("]]>") {
                minimal(t)
            } else {
                format!("<![CDATA[{}]]>", t)
            }
        }
        TextMode::Comment => {
            let m = minimal(t);
            // split at a character boundary that is not inside an entity
            let cut = t.chars().next().unwrap();
            if "<&".contains(cut) {
                format!("<!--c-->{}", m)
            } else {
                format!("{}<!--c-->{}", cut, minimal(&t[cut.len_utf8()..]))
            }
        }
    }
}

/// options of the tree → element-tree step (everything except `Canonical` is a variation that the
/// reader is expected to neutralise)
#[derive(Clone, Debug)]
pub struct XOpts {
    pub text_mode: TextMode,
    /// spell descriptors with insignificant suffixes, delays in other units, lists with other separators
    pub respell: bool,
    /// write defaults explicitly / omit them, vary the case of keywords
    pub keywords: bool,
    /// interleave the children categories of state-like elements differently
    pub shuffle_children: bool,
    pub seed: u64,
}

impl XOpts {
    pub fn canonical() -> XOpts {
        XOpts { text_mode: TextMode::Plain, respell: false, keywords: false, shuffle_children: false, seed: 0 }
    }
}

struct XB {
    o: XOpts,
    p: Prng,
}

impl XB {
    fn opt(&self, k: &str, v: &Option<String>, out: &mut Vec<(String, String)>) {
        if let Some(v) = v {
            out.push(at(k, v))
        }
    }
    fn nonempty(&self, k: &str, v: &str, out: &mut Vec<(String, String)>) {
        if !v.is_empty() {
            out.push(at(k, v))
        }
    }
    fn list(&mut self, k: &str, l: &[String], out: &mut Vec<(String, String)>) {
        if l.is_empty() {
            return;
        }
        if self.o.respell {
            let seps = [" ", "  ", "\t", "\n", " \n\t ", "\r\n"];
            let mut s = String::new();
            if self.p.chance(1, 4) {
                s.push_str(*self.p.pick(&seps[..]));
            }
            for (i, x) in l.iter().enumerate() {
                if i > 0 {
                    s.push_str(*self.p.pick(&seps[..]));
                }
                s.push_str(x);
            }
            if self.p.chance(1, 4) {
                s.push_str(*self.p.pick(&seps[..]));
            }
            out.push(at(k, &s))
        } else {
            out.push(at(k, &l.join(" ")))
        }
    }
    fn kw(&mut self, w: &str) -> String {
        if self.o.keywords {
            match self.p.below(3) {
                0 => w.to_uppercase(),
                1 => {
                    let mut c = w.chars();
                    let f = c.next().unwrap().to_uppercase().to_string();
                    f + c.as_str()
                }
                _ => w.to_string(),
            }
        } else {
            w.to_string()
        }
    }
    fn text(&self, t: &str) -> String {
        spell(t, self.o.text_mode)
    }
    fn raw(&self, name: &str, attrs: Vec<(String, String)>, text: &Option<String>) -> XNode {
        raw_el(name, attrs, text.as_ref().map(|t| self.text(t)))
    }
    fn param(&self, p: &ParamT) -> XNode {
        let mut a = vec![at("name", &p.name)];
        self.nonempty("expr", &p.expr, &mut a);
        self.nonempty("location", &p.location, &mut a);
        el("param", a, vec![])
    }
    fn contentt(&self, c: &ContentT) -> XNode {
        let mut a = vec![];
        self.opt("expr", &c.expr, &mut a);
        self.raw("content", a, &c.text)
    }
    fn delay(&mut self, ms: u64) -> String {
        if self.o.respell {
            let mut forms = vec![format!("{}ms", ms), format!("{}MS", ms)];
            if ms % 1000 == 0 {
                forms.push(format!("{}s", ms / 1000));
                forms.push(format!("{}S", ms / 1000));
            }
            if ms % 60000 == 0 {
                forms.push(format!("{}m", ms / 60000));
                forms.push(format!("{}M", ms / 60000));
            }
            if ms % 3600000 == 0 {
                forms.push(format!("{}h", ms / 3600000));
                forms.push(format!("0{}H", ms / 3600000));
            }
            if ms % 86400000 == 0 {
                forms.push(format!("{}d", ms / 86400000));
                forms.push(format!("{}D", ms / 86400000));
            }
            self.p.pick(&forms).clone()
        } else {
            format!("{}ms", ms)
        }
    }
    fn send(&mut self, s: &SendT) -> XNode {
        let mut a = vec![];
        self.opt("event", &s.event, &mut a);
        self.opt("eventexpr", &s.eventexpr, &mut a);
        self.opt("target", &s.target, &mut a);
        self.opt("targetexpr", &s.targetexpr, &mut a);
        self.opt("type", &s.type_, &mut a);
        self.opt("typeexpr", &s.typeexpr, &mut a);
        self.nonempty("id", &s.id, &mut a);
        self.nonempty("idlocation", &s.idlocation, &mut a);
        if s.delay_ms != 0 {
            let d = self.delay(s.delay_ms);
            a.push(at("delay", &d));
        } else if self.o.keywords && s.delayexpr.is_none() && self.p.chance(1, 3) {
            a.push(at("delay", ""));
        }
        self.opt("delayexpr", &s.delayexpr, &mut a);
        self.list("namelist", &s.namelist, &mut a);
        let mut kids: Vec<XNode> = s.params.iter().map(|p| self.param(p)).collect();
        if let Some(c) = &s.content {
            kids.push(self.contentt(c));
        }
        el("send", a, kids)
    }
    fn block(&mut self, b: &[Content]) -> Vec<XNode> {
        let mut out = vec![];
        for c in b {
            match c {
                Content::Raise(e) => out.push(el("raise", vec![at("event", e)], vec![])),
                Content::Assign { location, expr, text } => {
                    let mut a = vec![at("location", location)];
                    self.opt("expr", expr, &mut a);
                    out.push(self.raw("assign", a, text))
                }
                Content::Log { label, expr } => {
                    let mut a = vec![];
                    self.nonempty("label", label, &mut a);
                    self.opt("expr", expr, &mut a);
                    out.push(el("log", a, vec![]))
                }
                Content::Script(t) => out.push(self.raw("script", vec![], &if t.is_empty() { None } else { Some(t.clone()) })),
                Content::Send(s) => out.push(self.send(s)),
                Content::Cancel { sendid, sendidexpr } => {
                    let mut a = vec![];
                    self.opt("sendid", sendid, &mut a);
                    self.opt("sendidexpr", sendidexpr, &mut a);
                    out.push(el("cancel", a, vec![]))
                }
                Content::If { cond, body, tail } => {
                    let mut kids = self.block(body);
                    let mut t = tail;
                    loop {
                        match t {
                            Tail::None => break,
                            Tail::Else(b) => {
                                kids.push(el("else", vec![], vec![]));
                                kids.extend(self.block(b));
                                break;
                            }
                            Tail::Elif(c, b, n) => {
                                kids.push(el("elseif", vec![at("cond", c)], vec![]));
                                kids.extend(self.block(b));
                                t = n;
                            }
                        }
                    }
                    let mut x = el("if", vec![at("cond", cond)], kids);
                    x.pair = !(self.o.keywords && self.p.chance(1, 2));
                    out.push(x)
                }
                Content::Foreach { array, item, index, body } => {
                    let mut a = vec![at("array", array), at("item", item)];
                    self.nonempty("index", index, &mut a);
                    let kids = self.block(body);
                    let mut x = el("foreach", a, kids);
                    x.pair = !(self.o.keywords && self.p.chance(1, 2));
                    out.push(x)
                }
            }
        }
        out
    }
    fn descriptor(&mut self, d: &str) -> String {
        if self.o.respell {
            let suf = ["", ".", ".*", ".*.", "..*", ".*.*"];
            format!("{}{}", d, self.p.pick(&suf))
        } else {
            d.to_string()
        }
    }
    fn trans(&mut self, t: &TransT) -> XNode {
        let mut a = vec![];
        let evs: Vec<String> = t.events.iter().map(|e| self.descriptor(e)).collect();
        self.list("event", &evs, &mut a);
        self.opt("cond", &t.cond, &mut a);
        self.list("target", &t.targets, &mut a);
        if t.internal {
            let w = self.kw("internal");
            a.push(at("type", &w));
        } else if self.o.keywords && self.p.chance(1, 2) {
            let w = if self.p.chance(1, 4) { String::new() } else { self.kw("external") };
            a.push(at("type", &w));
        }
        let kids = self.block(&t.content);
        el("transition", a, kids)
    }
    fn data(&self, d: &DataT) -> XNode {
        let mut a = vec![at("id", &d.id)];
        self.opt("expr", &d.expr, &mut a);
        self.raw("data", a, &d.text)
    }
    fn invoke(&mut self, i: &InvokeT) -> XNode {
        let mut a = vec![];
        self.opt("type", &i.type_, &mut a);
        self.opt("typeexpr", &i.typeexpr, &mut a);
        self.opt("src", &i.src, &mut a);
        self.opt("srcexpr", &i.srcexpr, &mut a);
        self.nonempty("id", &i.id, &mut a);
        self.nonempty("idlocation", &i.idlocation, &mut a);
        self.list("namelist", &i.namelist, &mut a);
        if i.autoforward {
            let w = self.kw("true");
            a.push(at("autoforward", &w));
        } else if self.o.keywords && self.p.chance(1, 2) {
            a.push(at("autoforward", "false"));
        }
        let mut kids: Vec<XNode> = i.params.iter().map(|p| self.param(p)).collect();
        if let Some(c) = &i.content {
            kids.push(self.contentt(c));
        }
        if let Some(b) = &i.finalize {
            let k = self.block(b);
            kids.push(el("finalize", vec![], k));
        }
        el("invoke", a, kids)
    }
    fn hist(&mut self, h: &HistT) -> XNode {
        let mut a = vec![];
        self.opt("id", &h.id, &mut a);
        if h.deep {
            let w = self.kw("deep");
            a.push(at("type", &w));
        } else if !(self.o.keywords && self.p.chance(1, 2)) {
            let w = self.kw("shallow");
            a.push(at("type", &w));
        }
        let kids = h.trans.iter().map(|t| self.trans(t)).collect();
        el("history", a, kids)
    }
    fn donedata(&self, d: &DoneDataT) -> XNode {
        let mut kids = vec![];
        if let Some(c) = &d.content {
            kids.push(self.contentt(c));
        }
        kids.extend(d.params.iter().map(|p| self.param(p)));
        el("donedata", vec![], kids)
    }
    fn init_elem(&mut self, init: &InitT) -> Option<XNode> {
        if let InitT::Elem(tg, c) = init {
            let t = self.trans(&TransT { targets: tg.clone(), content: c.clone(), ..Default::default() });
            Some(el("initial", vec![], vec![t]))
        } else {
            None
        }
    }
    /// children of a state-like element; categories are kept in order internally
    fn body(&mut self, s: &StateT) -> Vec<XNode> {
        let mut cats: Vec<Vec<XNode>> = vec![];
        if !s.datas.is_empty() {
            let ds = s.datas.iter().map(|d| self.data(d)).collect();
            cats.push(vec![el("datamodel", vec![], ds)]);
        }
        let mut oe = vec![];
        for b in &s.onentry {
            let k = self.block(b);
            oe.push(el("onentry", vec![], k));
        }
        cats.push(oe);
        let mut ox = vec![];
        for b in &s.onexit {
            let k = self.block(b);
            ox.push(el("onexit", vec![], k));
        }
        cats.push(ox);
        cats.push(self.init_elem(&s.initial).into_iter().collect());
        let ts = s.trans.iter().map(|t| self.trans(t)).collect();
        cats.push(ts);
        let is = s.invokes.iter().map(|i| self.invoke(i)).collect();
        cats.push(is);
        // histories and children keep their relative order (generated names count them in order)
        let mut hk: Vec<XNode> = s.hist.iter().map(|h| self.hist(h)).collect();
        hk.extend(s.kids.iter().map(|k| self.state(k)));
        cats.push(hk);
        cats.push(s.donedata.iter().map(|d| self.donedata(d)).collect());
        if self.o.shuffle_children {
            // random merge of the category lists (order inside each category is preserved)
            let mut out = vec![];
            let mut qs: Vec<std::collections::VecDeque<XNode>> = cats.into_iter().map(|c| c.into_iter().collect()).collect();
            loop {
                let live: Vec<usize> = (0..qs.len()).filter(|i| !qs[*i].is_empty()).collect();
                if live.is_empty() {
                    break;
                }
                let i = *self.p.pick(&live);
                out.push(qs[i].pop_front().unwrap());
            }
            out
        } else {
            cats.into_iter().flatten().collect()
        }
    }
    fn state(&mut self, s: &StateT) -> XNode {
        let mut a = vec![];
        self.opt("id", &s.id, &mut a);
        if let InitT::Attr(tg) = &s.initial {
            self.list("initial", tg, &mut a);
        }
        let kids = self.body(s);
        el(
            match s.kind {
                Kind::State => "state",
                Kind::Parallel => "parallel",
                Kind::Final => "final",
            },
            a,
            kids,
        )
    }
    fn doc(&mut self, d: &Doc) -> XNode {
        let mut a = vec![];
        self.opt("name", &d.name, &mut a);
        self.opt("datamodel", &d.datamodel, &mut a);
        match d.binding {
            Some(true) => {
                let w = self.kw("late");
                a.push(at("binding", &w))
            }
            Some(false) => {
                let w = self.kw("early");
                a.push(at("binding", &w))
            }
            None => {}
        }
        self.opt("version", &d.version, &mut a);
        if let InitT::Attr(tg) = &d.root.initial {
            self.list("initial", tg, &mut a);
        }
        let mut kids = vec![];
        if !d.root.datas.is_empty() {
            let ds = d.root.datas.iter().map(|x| self.data(x)).collect();
            kids.push(el("datamodel", vec![], ds));
        }
        if let Some(s) = &d.script {
            kids.push(raw_el("script", vec![], Some(self.text(s))));
        }
        kids.extend(self.init_elem(&d.root.initial));
        for k in &d.root.kids {
            let x = self.state(k);
            kids.push(x);
        }
        el("scxml", a, kids)
    }
}

pub fn to_xnode(d: &Doc, o: &XOpts) -> XNode {
    let mut b = XB { o: o.clone(), p: Prng::new(o.seed ^ 0x5151) };
    b.doc(d)
}

// ------------------------------------------------------------------------------------------
// lexical rendering
// ------------------------------------------------------------------------------------------

#[derive(Clone, Debug, Default)]
pub struct Style {
    pub ws: bool,
    pub comments: bool,
    /// 0 = double, 1 = single, 2 = mixed
    pub quotes: u8,
    /// 0 = minimal, 1 = named entities for all five, 2 = numeric references sprinkled in
    pub escapes: u8,
    pub prefix: Option<String>,
    pub shuffle_attrs: bool,
    /// write childless non-raw elements as `<a></a>`
    pub pair_empty: bool,
    /// write childless raw-text elements as `<a></a>` (changes `has_content` in the reader)
    pub pair_empty_raw: bool,
    pub includes: bool,
    pub decl: bool,
    pub xmlns: bool,
    /// decorate elements with attributes of a foreign namespace whose LOCAL names are SCXML attribute
    /// names (`ed:target`, `xml:id`, …), written after the real ones: they mean nothing to SCXML
    pub foreign_attrs: bool,
    pub seed: u64,
}

pub struct Rendered {
    pub xml: String,
    /// SAX events in the driver's syntax
    pub sax: Vec<String>,
    /// include files (name, content)
    pub files: Vec<(String, String)>,
}

struct Rn<'a> {
    st: &'a Style,
    p: Prng,
    files: Vec<(String, String)>,
    file_prefix: String,
    inc_depth: u32,
}

impl<'a> Rn<'a> {
    fn gap(&mut self, out: &mut String) {
        if self.st.ws {
            out.push_str(*self.p.pick(&["", " ", "\n", "\n  ", "\t", "\r\n", "\n\n    "]));
        }
        if self.st.comments && self.p.chance(1, 4) {
            out.push_str(*self.p.pick(&["<!-- c -->", "<!--<state id=\"x\"/>-->", "<!---->", "<!-- a & b < c -->"]));
            if self.st.ws {
                out.push_str(*self.p.pick(&["", "\n", " "]));
            }
        }
    }
    fn tagws(&mut self) -> &'static str {
        if self.st.ws {
            *self.p.pick(&[" ", "  ", "\n", "\n   ", "\t"])
        } else {
            " "
        }
    }
    fn attr_value(&mut self, v: &str) -> String {
        let q = match self.st.quotes {
            0 => '"',
            1 => '\'',
            _ => {
                if self.p.chance(1, 2) {
                    '"'
                } else {
                    '\''
                }
            }
        };
        let mut o = String::new();
        o.push(q);
        for c in v.chars() {
            let must = c == '<' || c == '&' || c == q;
            let named = |c: char| match c {
                '<' => "&lt;".to_string(),
                '>' => "&gt;".to_string(),
                '&' => "&amp;".to_string(),
                '"' => "&quot;".to_string(),
                '\'' => "&apos;".to_string(),
                _ => c.to_string(),
            };
            match self.st.escapes {
                0 => {
                    if must {
                        o.push_str(&named(c))
                    } else {
                        o.push(c)
                    }
                }
                1 => o.push_str(&named(c)),
                _ => {
                    // white space is written as a character reference so that it survives
                    // attribute-value handling unchanged
                    if must || c == '\n' || c == '\t' || c == '\r' || self.p.chance(1, 5) {
                        if self.p.chance(1, 2) {
                            o.push_str(&format!("&#{};", c as u32))
                        } else {
                            o.push_str(&format!("&#x{:x};", c as u32))
                        }
                    } else {
                        o.push(c)
                    }
                }
            }
        }
        o.push(q);
        o
    }
    fn qname(&self, n: &str) -> String {
        match &self.st.prefix {
            Some(p) => format!("{}:{}", p, n),
            None => n.to_string(),
        }
    }
    fn open_tag(&mut self, name: &str, attrs: &[(String, String)], out: &mut String, close: &str) {
        out.push('<');
        out.push_str(name);
        let mut a: Vec<&(String, String)> = attrs.iter().collect();
        if self.st.shuffle_attrs {
            for i in (1..a.len()).rev() {
                let j = self.p.below(i as u64 + 1) as usize;
                a.swap(i, j);
            }
        }
        for (k, v) in a {
            out.push_str(self.tagws());
            out.push_str(k);
            if self.st.ws && self.p.chance(1, 5) {
                out.push_str(" = ");
            } else {
                out.push('=');
            }
            let val = self.attr_value(v);
            out.push_str(&val);
        }
        if self.st.ws && self.p.chance(1, 3) {
            out.push_str(self.tagws());
        }
        out.push_str(close);
    }
    fn sax_attrs(attrs: &[(String, String)]) -> String {
        attrs.iter().map(|(k, v)| format!(",({},{})", sx_str(k), sx_str(v))).collect::<String>()
    }
    fn node(&mut self, x: &XNode, extra: &[(String, String)], out: &mut String, sax: &mut Vec<String>) {
        let mut attrs: Vec<(String, String)> = x.attrs.clone();
        attrs.extend_from_slice(extra);
        if self.st.foreign_attrs {
            for k in ["id", "target", "event", "initial", "type", "cond", "expr", "location", "name", "src", "delay"] {
                if self.p.chance(1, 3) {
                    attrs.push((format!("ed:{}", k), format!("ed-{}", k)));
                }
            }
            if self.p.chance(1, 4) {
                attrs.push(("xml:id".to_string(), "node-1".to_string()));
            }
        }
        let qn = self.qname(&x.name);
        if x.raw {
            match x.kids.first() {
                None => {
                    if self.st.pair_empty_raw {
                        self.open_tag(&qn, &attrs, out, ">");
                        out.push_str(&format!("</{}>", qn));
                        sax.push(format!("(s,{}{})", sx_str(&qn), Self::sax_attrs(&attrs)));
                        sax.push(format!("(e,{})", sx_str(&qn)));
                    } else {
                        self.open_tag(&qn, &attrs, out, "/>");
                        sax.push(format!("(m,{}{})", sx_str(&qn), Self::sax_attrs(&attrs)));
                    }
                }
                Some(XKid::Text(t)) => {
                    self.open_tag(&qn, &attrs, out, ">");
                    let mut span = String::new();
                    if self.st.ws {
                        span.push_str(*self.p.pick(&["", " ", "\n   ", "\t"]));
                    }
                    span.push_str(t);
                    if self.st.ws {
                        span.push_str(*self.p.pick(&["", " ", "\n", "\n  "]));
                    }
                    out.push_str(&span);
                    out.push_str(&format!("</{}>", qn));
                    sax.push(format!("(s,{}{})", sx_str(&qn), Self::sax_attrs(&attrs)));
                    if !span.is_empty() {
                        sax.push(format!("(t,{})", sx_str(&span)));
                    }
                    sax.push(format!("(e,{})", sx_str(&qn)));
                }
                Some(XKid::El(_)) => unreachable!(),
            }
            return;
        }
        if x.kids.is_empty() {
            if x.pair || (self.st.pair_empty && self.p.chance(1, 2)) {
                self.open_tag(&qn, &attrs, out, ">");
                if self.st.ws && self.p.chance(1, 2) {
                    out.push_str("\n ");
                }
                out.push_str(&format!("</{}>", qn));
                sax.push(format!("(s,{}{})", sx_str(&qn), Self::sax_attrs(&attrs)));
                sax.push(format!("(e,{})", sx_str(&qn)));
            } else {
                self.open_tag(&qn, &attrs, out, "/>");
                sax.push(format!("(m,{}{})", sx_str(&qn), Self::sax_attrs(&attrs)));
            }
            return;
        }
        self.open_tag(&qn, &attrs, out, ">");
        sax.push(format!("(s,{}{})", sx_str(&qn), Self::sax_attrs(&attrs)));
        let kids: Vec<&XNode> = x
            .kids
            .iter()
            .map(|k| match k {
                XKid::El(n) => n,
                XKid::Text(_) => unreachable!(),
            })
            .collect();
        self.children(&kids, out, sax);
        self.gap(out);
        if self.st.ws && self.p.chance(1, 4) {
            out.push_str(&format!("</{} >", qn));
        } else {
            out.push_str(&format!("</{}>", qn));
        }
        sax.push(format!("(e,{})", sx_str(&qn)));
    }
    fn children(&mut self, kids: &[&XNode], out: &mut String, sax: &mut Vec<String>) {
        let mut i = 0;
        while i < kids.len() {
            self.gap(out);
            if self.st.includes && self.inc_depth < 3 && self.p.chance(1, 4) {
                // move kids[i..j] into an include file
                let j = i + 1 + self.p.below((kids.len() - i) as u64).min(2) as usize;
                let fname = format!("{}_{}.xml", self.file_prefix, self.files.len());
                self.files.push((fname.clone(), String::new()));
                let slot = self.files.len() - 1;
                let mut body = String::new();
                let mut inner_sax = Vec::new();
                self.inc_depth += 1;
                self.children(&kids[i..j], &mut body, &mut inner_sax);
                self.gap(&mut body);
                self.inc_depth -= 1;
                self.files[slot].1 = body;
                let with_ns = self.p.chance(2, 3);
                let mut attrs = vec![at("href", &fname), at("parse", "text")];
                let name = if with_ns {
                    attrs.push(at("xmlns:xi", "http://www.w3.org/2001/XInclude"));
                    "xi:include"
                } else {
                    "include"
                };
                if self.st.pair_empty && self.p.chance(1, 3) {
                    self.open_tag(name, &attrs, out, ">");
                    out.push_str(&format!("</{}>", name));
                } else {
                    self.open_tag(name, &attrs, out, "/>");
                }
                sax.push(format!("(s,{}{})", sx_str(name), Self::sax_attrs(&attrs)));
                sax.extend(inner_sax);
                sax.push(format!("(e,{})", sx_str(name)));
                i = j;
            } else {
                self.node(kids[i], &[], out, sax);
                i += 1;
            }
        }
    }
}

pub fn render(x: &XNode, st: &Style, file_prefix: &str) -> Rendered {
    let mut r = Rn { st, p: Prng::new(st.seed ^ 0x7272), files: vec![], file_prefix: file_prefix.to_string(), inc_depth: 0 };
    let mut out = String::new();
    let mut sax = Vec::new();
    if st.decl {
        out.push_str("<?xml version=\"1.0\" encoding=\"UTF-8\"?>");
        if st.ws {
            out.push('\n');
        }
        out.push_str("<?pi something?>");
    }
    r.gap(&mut out);
    let mut extra = vec![];
    match &st.prefix {
        Some(p) => extra.push((format!("xmlns:{}", p), "http://www.w3.org/2005/07/scxml".to_string())),
        None => {
            if st.xmlns {
                extra.push(at("xmlns", "http://www.w3.org/2005/07/scxml"))
            }
        }
    }
    if st.foreign_attrs {
        extra.push(("xmlns:ed".to_string(), "urn:example:editor".to_string()));
    }
    r.node(x, &extra, &mut out, &mut sax);
    r.gap(&mut out);
    Rendered { xml: out, sax, files: r.files }
}

// ------------------------------------------------------------------------------------------
// generator
// ------------------------------------------------------------------------------------------

const EXPRS: &[&str] = &[
    "x", "1", "x < 1", "a && b", "'str'", "\"q\"", "x > 2 & y", "é", "日本", "a  b", "In('s1')", "x == 'a\"b'", " lead", "trail ", "a<b>c", "_event.data",
];
const TEXTS_PLAIN: &[&str] = &["var x = 1;", "a \"quoted\" b", "line1\nline2", "é = '日本'", "x]]y", "f(1, 2)", "  inner  spaces  ", "{ \"k\": [1, 2] }", ""];
const TEXTS_SPECIAL: &[&str] = &["x<1 && y", "a & b", "if (a < b) { c = \"<tag>\"; }", "<foo a=\"1\">bar</foo>", "&amp;"];
const EVENTS: &[&str] = &["e", "e.f", "error.x", "*", "done.state.s1", "é", "go", "a.b.c", "e1"];
const LOCS: &[&str] = &["x", "y", "v.1", "d[0]", "é"];

pub struct Stats {
    pub states: usize,
    pub depth: usize,
    pub transitions: usize,
    pub forward_refs: usize,
    pub multi_targets: usize,
    pub histories: usize,
    pub ifs: usize,
    pub elifs: usize,
    pub elses: usize,
    pub foreachs: usize,
    pub max_content_depth: usize,
    pub sends: usize,
    pub invokes: usize,
    pub donedatas: usize,
    pub datas: usize,
    pub texts: usize,
    pub special_texts: usize,
    pub anonymous: usize,
    pub kinds: BTreeSet<&'static str>,
}

pub struct Gen<'a> {
    pub p: &'a mut Prng,
    ids: Vec<String>,
    pub st: Stats,
    next_id: usize,
    next_data: usize,
}

impl<'a> Gen<'a> {
    pub fn new(p: &'a mut Prng) -> Gen<'a> {
        Gen {
            p,
            ids: vec![],
            next_id: 0,
            next_data: 0,
            st: Stats {
                states: 0,
                depth: 0,
                transitions: 0,
                forward_refs: 0,
                multi_targets: 0,
                histories: 0,
                ifs: 0,
                elifs: 0,
                elses: 0,
                foreachs: 0,
                max_content_depth: 0,
                sends: 0,
                invokes: 0,
                donedatas: 0,
                datas: 0,
                texts: 0,
                special_texts: 0,
                anonymous: 0,
                kinds: BTreeSet::new(),
            },
        }
    }
    fn s(&mut self, xs: &[&str]) -> String {
        self.p.pick(xs).to_string()
    }
    fn expr(&mut self) -> String {
        if self.p.chance(1, 40) {
            String::new()
        } else {
            self.s(EXPRS)
        }
    }
    fn opt_expr(&mut self, num: u64, den: u64) -> Option<String> {
        if self.p.chance(num, den) {
            Some(self.expr())
        } else {
            None
        }
    }
    fn text(&mut self) -> String {
        self.st.texts += 1;
        if self.p.chance(1, 12) {
            self.st.special_texts += 1;
            self.s(TEXTS_SPECIAL)
        } else {
            self.s(TEXTS_PLAIN)
        }
    }
    fn fresh_id(&mut self) -> String {
        let n = self.next_id;
        self.next_id += 1;
        match self.p.below(12) {
            0 => format!("é{}", n),
            1 => format!("s.{}", n),
            2 => format!("S-{}", n),
            3 => format!("x_{}", n),
            _ => format!("s{}", n),
        }
    }
    fn params(&mut self) -> Vec<ParamT> {
        let n = if self.p.chance(1, 2) { 0 } else { self.p.range(1, 2) };
        (0..n)
            .map(|i| {
                let name = format!("p{}", i);
                if self.p.chance(1, 2) {
                    ParamT { name, expr: self.s(&EXPRS[..12]), location: String::new() }
                } else if self.p.chance(2, 3) {
                    ParamT { name, expr: String::new(), location: self.s(LOCS) }
                } else {
                    ParamT { name, expr: String::new(), location: String::new() }
                }
            })
            .collect()
    }
    fn contentt(&mut self) -> Option<ContentT> {
        match self.p.below(8) {
            0 | 1 | 2 => None,
            3 | 4 => Some(ContentT { expr: Some(self.expr()), text: None }),
            5 | 6 => Some(ContentT { expr: None, text: Some(self.text()) }),
            _ => Some(ContentT { expr: None, text: None }),
        }
    }
    fn send(&mut self) -> SendT {
        self.st.sends += 1;
        let mut s = SendT::default();
        match self.p.below(4) {
            0 => s.event = Some(self.s(EVENTS)),
            1 => s.eventexpr = Some(self.expr()),
            2 => s.event = Some("ev ent".to_string()),
            _ => {}
        }
        match self.p.below(5) {
            0 => s.target = Some(self.s(&["#_internal", "#_parent", "#_scxml_1", "http://h/p?a=1&b=2"])),
            1 => s.targetexpr = Some(self.expr()),
            _ => {}
        }
        match self.p.below(6) {
            0 => s.type_ = Some(self.s(&["http://www.w3.org/TR/scxml/#SCXMLEventProcessor", "scxml", "_internal", "basichttp"])),
            1 => s.typeexpr = Some(self.expr()),
            _ => {}
        }
        match self.p.below(4) {
            0 => s.id = format!("send{}", self.p.below(5)),
            1 => s.idlocation = self.s(LOCS),
            _ => {}
        }
        match self.p.below(5) {
            0 | 1 => {
                if s.type_.as_deref() != Some("_internal") {
                    s.delay_ms = *self.p.pick(&[1u64, 10, 999, 1000, 1500, 60000, 120000, 3600000, 7200000, 86400000, 172800000]);
                }
            }
            2 => s.delayexpr = Some(self.expr()),
            _ => {}
        }
        if self.p.chance(1, 3) {
            let n = self.p.range(1, 3);
            s.namelist = (0..n).map(|_| self.s(LOCS)).collect();
        }
        s.params = self.params();
        s.content = self.contentt();
        s
    }
    fn leaf(&mut self, in_finalize_top: bool) -> Content {
        loop {
            let k = self.p.below(if in_finalize_top { 3 } else { 7 });
            return match k {
                0 => {
                    self.st.kinds.insert("assign");
                    if self.p.chance(2, 3) {
                        Content::Assign { location: self.s(LOCS), expr: Some(self.expr()), text: None }
                    } else {
                        Content::Assign { location: self.s(LOCS), expr: None, text: Some(self.text()) }
                    }
                }
                1 => {
                    self.st.kinds.insert("log");
                    Content::Log { label: if self.p.chance(1, 2) { self.s(&["l", "a label", "é"]) } else { String::new() }, expr: Some(self.expr()) }
                }
                2 => {
                    self.st.kinds.insert("script");
                    if self.p.chance(1, 8) {
                        Content::Script(String::new())
                    } else {
                        Content::Script(self.text())
                    }
                }
                3 => {
                    self.st.kinds.insert("raise");
                    Content::Raise(self.s(EVENTS))
                }
                4 => {
                    self.st.kinds.insert("send");
                    Content::Send(self.send())
                }
                5 => {
                    self.st.kinds.insert("cancel");
                    if self.p.chance(1, 2) {
                        Content::Cancel { sendid: Some(format!("send{}", self.p.below(5))), sendidexpr: None }
                    } else {
                        Content::Cancel { sendid: None, sendidexpr: Some(self.expr()) }
                    }
                }
                _ => continue,
            };
        }
    }
    pub fn block(&mut self, depth: usize, in_finalize_top: bool) -> Vec<Content> {
        self.st.max_content_depth = self.st.max_content_depth.max(depth);
        let n = match self.p.below(6) {
            0 => 0,
            1 | 2 => 1,
            3 | 4 => 2,
            _ => 3,
        };
        let mut out = vec![];
        for _ in 0..n {
            let nested = depth < 4 && self.p.chance(if depth == 0 { 2 } else { 1 }, 5);
            if !nested {
                out.push(self.leaf(in_finalize_top));
            } else if self.p.chance(3, 4) {
                self.st.ifs += 1;
                self.st.kinds.insert("if");
                let cond = self.expr();
                let body = self.block(depth + 1, false);
                let nel = match self.p.below(6) {
                    0 | 1 => 0,
                    2 | 3 => 1,
                    4 => 2,
                    _ => 3,
                };
                let mut tail = if self.p.chance(1, 2) {
                    self.st.elses += 1;
                    Tail::Else(self.block(depth + 1, false))
                } else {
                    Tail::None
                };
                for _ in 0..nel {
                    self.st.elifs += 1;
                    let c = self.expr();
                    let b = self.block(depth + 1, false);
                    tail = Tail::Elif(c, b, Box::new(tail));
                }
                out.push(Content::If { cond, body, tail });
            } else {
                self.st.foreachs += 1;
                self.st.kinds.insert("foreach");
                out.push(Content::Foreach {
                    array: self.s(&["arr", "[1,2,3]", "d.list"]),
                    item: self.s(&["it", "v"]),
                    index: if self.p.chance(1, 2) { "i".to_string() } else { String::new() },
                    body: self.block(depth + 1, false),
                });
            }
        }
        out
    }
    fn skeleton(&mut self, kind: Kind, depth: usize, budget: &mut i32) -> StateT {
        self.st.states += 1;
        self.st.depth = self.st.depth.max(depth);
        let anonymous = depth > 0 && self.p.chance(1, 14);
        let id = if anonymous {
            self.st.anonymous += 1;
            None
        } else {
            let i = self.fresh_id();
            self.ids.push(i.clone());
            Some(i)
        };
        let mut s = StateT::new(kind, id.as_deref());
        if kind != Kind::Final && depth < 5 && *budget > 0 {
            let n = if depth == 0 { self.p.range(1, 4) } else { self.p.below(4).saturating_sub(if depth > 2 { 1 } else { 0 }) };
            for _ in 0..n {
                if *budget <= 0 {
                    break;
                }
                *budget -= 1;
                let k = match self.p.below(10) {
                    0 | 1 => Kind::Parallel,
                    2 | 3 if kind != Kind::Parallel => Kind::Final,
                    _ => Kind::State,
                };
                let kid = self.skeleton(k, depth + 1, budget);
                s.kids.push(kid);
            }
            if depth > 0 && !s.kids.is_empty() && self.p.chance(1, 3) {
                let nh = if self.p.chance(1, 5) { 2 } else { 1 };
                for _ in 0..nh {
                    self.st.histories += 1;
                    let hid = if self.p.chance(1, 12) {
                        self.st.anonymous += 1;
                        None
                    } else {
                        let i = format!("h{}", self.next_id);
                        self.next_id += 1;
                        self.ids.push(i.clone());
                        Some(i)
                    };
                    s.hist.push(HistT { id: hid, deep: self.p.chance(1, 2), trans: vec![] });
                }
            }
        }
        s
    }
    fn targets(&mut self, declared_before: &BTreeSet<String>) -> Vec<String> {
        if self.ids.is_empty() {
            return vec![];
        }
        let n = match self.p.below(8) {
            0 => 0,
            1 => 2,
            2 if self.ids.len() > 2 => 3,
            _ => 1,
        };
        let mut out: Vec<String> = vec![];
        for _ in 0..n {
            let ids = self.ids.clone();
            let t = self.p.pick(&ids).clone();
            if !out.contains(&t) {
                if !declared_before.contains(&t) {
                    self.st.forward_refs += 1;
                }
                out.push(t);
            }
        }
        if out.len() > 1 {
            self.st.multi_targets += 1;
        }
        out
    }
    fn trans(&mut self, declared: &BTreeSet<String>, eventless_ok: bool) -> TransT {
        self.st.transitions += 1;
        let ne = if eventless_ok && self.p.chance(1, 4) { 0 } else { self.p.range(1, 3) };
        let events = (0..ne).map(|_| self.s(EVENTS)).collect();
        TransT {
            events,
            cond: self.opt_expr(1, 3),
            targets: self.targets(declared),
            internal: self.p.chance(1, 4),
            content: if self.p.chance(1, 2) { self.block(0, false) } else { vec![] },
        }
    }
    fn descendants(s: &StateT, out: &mut Vec<String>) {
        for k in &s.kids {
            if let Some(i) = &k.id {
                out.push(i.clone())
            }
            Self::descendants(k, out);
        }
    }
    fn fill(&mut self, s: &mut StateT, depth: usize, declared: &mut BTreeSet<String>) {
        if let Some(i) = &s.id {
            declared.insert(i.clone());
        }
        let is_root = depth == 0;
        // initial
        if s.kind == Kind::State && !s.kids.is_empty() {
            let mut desc = vec![];
            Self::descendants(s, &mut desc);
            let first_named = s.kids[0].id.is_some();
            let choice = self.p.below(10);
            if !desc.is_empty() && (choice >= 4 || !first_named) {
                let mut tg = vec![self.p.pick(&desc).clone()];
                if self.p.chance(1, 6) && desc.len() > 1 {
                    let t2 = self.p.pick(&desc).clone();
                    if !tg.contains(&t2) {
                        tg.push(t2);
                        self.st.multi_targets += 1;
                    }
                }
                self.st.forward_refs += tg.len();
                if choice >= 7 && !is_root {
                    let c = if self.p.chance(1, 3) { self.block(0, false) } else { vec![] };
                    s.initial = InitT::Elem(tg, c);
                } else {
                    s.initial = InitT::Attr(tg);
                }
            }
        }
        // data
        if s.kind != Kind::Final && self.p.chance(if is_root { 2 } else { 1 }, 4) {
            let n = self.p.range(1, 3);
            for _ in 0..n {
                self.st.datas += 1;
                let id = format!("d{}", self.next_data);
                self.next_data += 1;
                let d = match self.p.below(5) {
                    0 | 1 => DataT { id, expr: Some(self.expr()), text: None },
                    2 | 3 => DataT { id, expr: None, text: Some(self.text()) },
                    _ => DataT { id, expr: None, text: None },
                };
                s.datas.push(d);
            }
        }
        if !is_root {
            for _ in 0..self.p.below(3).saturating_sub(if self.p.chance(1, 2) { 1 } else { 0 }) {
                let b = self.block(0, false);
                s.onentry.push(b);
            }
            for _ in 0..self.p.below(3).saturating_sub(1) {
                let b = self.block(0, false);
                s.onexit.push(b);
            }
            if s.kind != Kind::Final {
                let n = self.p.below(4);
                for _ in 0..n {
                    let t = self.trans(declared, true);
                    s.trans.push(t);
                }
                let ninv = match self.p.below(10) {
                    0 => 2,
                    1 | 2 => 1,
                    _ => 0,
                };
                for _ in 0..ninv {
                    self.st.invokes += 1;
                    let mut i = InvokeT::default();
                    match self.p.below(3) {
                        0 => i.type_ = Some(self.s(&["scxml", "http://www.w3.org/TR/scxml/"])),
                        1 => i.typeexpr = Some(self.expr()),
                        _ => {}
                    }
                    match self.p.below(4) {
                        0 => i.src = Some(self.s(&["file:child.scxml", "http://h/x?a=1&b=2"])),
                        1 => i.srcexpr = Some(self.expr()),
                        _ => {}
                    }
                    match self.p.below(3) {
                        0 => i.id = format!("inv{}", self.p.below(4)),
                        1 => i.idlocation = self.s(LOCS),
                        _ => {}
                    }
                    if self.p.chance(1, 3) {
                        i.namelist = vec![self.s(LOCS), self.s(LOCS)];
                    }
                    i.autoforward = self.p.chance(1, 3);
                    i.params = self.params();
                    i.content = self.contentt();
                    if self.p.chance(1, 2) {
                        i.finalize = Some(self.block(0, true));
                    }
                    s.invokes.push(i);
                }
            } else if self.p.chance(1, 2) {
                self.st.donedatas += 1;
                s.donedata = Some(DoneDataT { content: self.contentt(), params: self.params() });
            }
        }
        let hn = s.hist.len();
        for hi in 0..hn {
            if let Some(i) = &s.hist[hi].id {
                declared.insert(i.clone());
            }
            if self.p.chance(3, 4) {
                let mut t = self.trans(declared, true);
                t.events.clear();
                t.cond = None;
                s.hist[hi].trans.push(t);
            }
        }
        let mut kids = std::mem::take(&mut s.kids);
        for k in &mut kids {
            self.fill(k, depth + 1, declared);
        }
        s.kids = kids;
    }
    pub fn doc(&mut self) -> Doc {
        let mut budget = self.p.range(1, 14) as i32;
        let mut root = self.skeleton(Kind::State, 0, &mut budget);
        root.id = None;
        self.ids.retain(|_| true);
        // the root's own id is not a target
        if !self.ids.is_empty() {
            self.ids.remove(0);
        }
        let mut declared = BTreeSet::new();
        self.fill(&mut root, 0, &mut declared);
        Doc {
            name: if self.p.chance(1, 2) { Some(self.s(&["m", "My Machine", "é"])) } else { None },
            datamodel: match self.p.below(4) {
                0 => None,
                1 => Some("ecmascript".into()),
                2 => Some("rfsm-expression".into()),
                _ => Some("null".into()),
            },
            binding: match self.p.below(4) {
                0 => Some(true),
                1 => Some(false),
                _ => None,
            },
            version: if self.p.chance(2, 3) { Some("1.0".into()) } else { None },
            script: if self.p.chance(1, 5) { Some(self.text()) } else { None },
            root,
        }
    }
}
