//! Talks to the compiled Lean model (`rfsm_model`) over the line protocol.
use std::io::{BufRead, BufReader, Write};
use std::process::{Child, ChildStdin, ChildStdout, Command, Stdio};

pub struct Model {
    child: Child,
    stdin: ChildStdin,
    stdout: BufReader<ChildStdout>,
    pub requests: u64,
}

impl Model {
    pub fn spawn(path: &str) -> Model {
        let mut child = Command::new(path)
            .stdin(Stdio::piped())
            .stdout(Stdio::piped())
            .spawn()
            .unwrap_or_else(|e| panic!("cannot start model driver {}: {}", path, e));
        let stdin = child.stdin.take().unwrap();
        let stdout = BufReader::new(child.stdout.take().unwrap());
        let mut m = Model { child, stdin, stdout, requests: 0 };
        assert_eq!(m.ask("ping"), "pong", "model driver does not answer");
        m
    }

    pub fn ask(&mut self, line: &str) -> String {
        debug_assert!(!line.contains('\n'));
        self.requests += 1;
        self.stdin.write_all(line.as_bytes()).unwrap();
        self.stdin.write_all(b"\n").unwrap();
        self.stdin.flush().unwrap();
        let mut out = String::new();
        let n = self.stdout.read_line(&mut out).unwrap();
        if n == 0 {
            panic!("model driver closed its output on request: {}", &line[..line.len().min(200)]);
        }
        out.trim_end().to_string()
    }
}

impl Drop for Model {
    fn drop(&mut self) {
        let _ = self.child.kill();
        let _ = self.child.wait();
    }
}

pub fn hex(bytes: &[u8]) -> String {
    if bytes.is_empty() {
        return "-".to_string();
    }
    let mut s = String::with_capacity(bytes.len() * 2);
    for b in bytes {
        s.push_str(&format!("{:02x}", b));
    }
    s
}

pub fn hexs(s: &str) -> String {
    hex(s.as_bytes())
}

pub fn unhex(s: &str) -> Option<Vec<u8>> {
    if s == "-" {
        return Some(vec![]);
    }
    if s.len() % 2 != 0 {
        return None;
    }
    (0..s.len() / 2).map(|i| u8::from_str_radix(&s[2 * i..2 * i + 2], 16).ok()).collect()
}

pub fn hex_many<S: AsRef<str>>(xs: &[S]) -> String {
    if xs.is_empty() {
        ".".to_string()
    } else {
        xs.iter().map(|x| hexs(x.as_ref())).collect::<Vec<_>>().join(",")
    }
}

pub fn nat_list(xs: &[u32]) -> String {
    if xs.is_empty() {
        ".".to_string()
    } else {
        xs.iter().map(|x| x.to_string()).collect::<Vec<_>>().join(",")
    }
}
