//! Generator of conformant SCXML documents for the interpreter correspondence (datamodel "vdm"):
//! nesting, parallel regions, shallow/deep history in compound and parallel parents, finals at
//! every level (with donedata), internal / external / targetless / multi-target transitions,
//! guards over In() and counters, eventless guarded transitions, raise / send #_internal /
//! assign / log / if-elseif-else / foreach / script content in every kind of block.
use crate::obs::xml_attr;
use crate::prng::Prng;

#[derive(Clone, Copy, PartialEq, Debug)]
pub enum Kind {
    State,
    Parallel,
    Final,
}

#[derive(Clone, Debug)]
pub enum GItem {
    Raise(String),
    Assign(String, String),
    Log(String),
    If(Vec<(String, Vec<GItem>)>, Option<Vec<GItem>>),
    Foreach(String, String, String, Vec<GItem>),
    SendInternal(String),
    SendSelf(String),
    SendBadType(String),
    Script(String),
    Cancel(String),
}

#[derive(Clone, Debug, Default)]
pub struct GTrans {
    pub events: Vec<String>,
    pub cond: Option<String>,
    pub targets: Vec<String>,
    pub internal: bool,
    pub content: Vec<GItem>,
}

#[derive(Clone, Debug)]
pub struct GHist {
    pub id: String,
    pub deep: bool,
    pub targets: Vec<String>,
    pub content: Vec<GItem>,
}

#[derive(Clone, Debug)]
pub enum Init {
    Default,
    Attr(Vec<String>),
    Elem(Vec<String>, Vec<GItem>),
}

#[derive(Clone, Debug)]
pub struct GState {
    pub id: String,
    pub kind: Kind,
    pub kids: Vec<GState>,
    pub hist: Vec<GHist>,
    pub trans: Vec<GTrans>,
    pub onentry: Vec<Vec<GItem>>,
    pub onexit: Vec<Vec<GItem>>,
    pub init: Init,
    pub data: Vec<(String, String)>,
    pub donedata: Option<Vec<(String, String)>>,
    pub invokes: Vec<GInvoke>,
}

/// `<invoke type="scxml" id=… [autoforward]><content>child document</content>[<finalize>]</invoke>`
#[derive(Clone, Debug)]
pub struct GInvoke {
    pub id: String,
    pub autoforward: bool,
    pub finalize: Option<Vec<GItem>>,
    pub child_xml: String,
    /// `namelist` attribute
    pub namelist: Option<String>,
}

#[derive(Clone, Debug)]
pub struct GDoc {
    pub late: bool,
    pub root_init: Init,
    pub kids: Vec<GState>,
    pub data: Vec<(String, String)>,
    pub script: Option<String>,
    pub datamodel: String,
}

pub struct Knobs {
    pub max_states: usize,
    pub history_bias: u64,  // out of 10
    pub final_bias: u64,    // out of 10
    pub parallel_bias: u64, // out of 10
    pub content_bias: u64,  // out of 10
    pub error_bias: u64,    // out of 100: erroring conditions / expressions
    pub eventless_bias: u64, // out of 10
    pub nested_parallel_bias: u64, // out of 10: a region of a parallel is itself a parallel
    pub finisher_bias: u64, // out of 10: a sibling of a final state gets a transition to it
}

impl Default for Knobs {
    fn default() -> Self {
        Knobs { max_states: 14, history_bias: 3, final_bias: 2, parallel_bias: 3, content_bias: 5, error_bias: 6, eventless_bias: 2, nested_parallel_bias: 2, finisher_bias: 2 }
    }
}

pub const EVENTS: &[&str] = &["a", "b", "c", "a.b", "d.e", "a.b.c", "x"];
const VARS: &[&str] = &["v0", "v1", "v2"];

struct Ctx<'a> {
    p: &'a mut Prng,
    k: &'a Knobs,
    next: usize,
    count: usize,
    /// may the content being generated put events on the internal queue?
    raise_ok: bool,
}

impl<'a> Ctx<'a> {
    fn fresh(&mut self, prefix: &str) -> String {
        let s = format!("{}{}", prefix, self.next);
        self.next += 1;
        s
    }
}

fn gen_state(c: &mut Ctx, depth: usize, allow_final: bool, force_kind: Option<Kind>) -> GState {
    c.count += 1;
    let id = c.fresh("s");
    let room = c.count < c.k.max_states && depth < 4;
    let kind = force_kind.unwrap_or_else(|| {
        if allow_final && c.p.chance(c.k.final_bias, 10) {
            Kind::Final
        } else if room && c.p.chance(c.k.parallel_bias, 10) {
            Kind::Parallel
        } else {
            Kind::State
        }
    });
    let mut st = GState {
        id,
        kind,
        kids: vec![],
        hist: vec![],
        trans: vec![],
        onentry: vec![],
        onexit: vec![],
        init: Init::Default,
        data: vec![],
        donedata: None,
        invokes: vec![],
    };
    match kind {
        Kind::Final => {}
        Kind::Parallel => {
            let n = c.p.range(2, 3);
            for _ in 0..n {
                let fk = if c.p.chance(c.k.nested_parallel_bias, 10) && c.count < c.k.max_states { Some(Kind::Parallel) } else { Some(Kind::State) };
                st.kids.push(gen_state(c, depth + 1, false, fk));
            }
        }
        Kind::State => {
            if room && c.p.chance(5, 10) {
                let n = c.p.range(1, 3);
                for _ in 0..n {
                    st.kids.push(gen_state(c, depth + 1, true, None));
                }
                if c.p.chance(c.k.final_bias, 10) && !st.kids.iter().any(|k| k.kind == Kind::Final) && c.count < c.k.max_states + 2 {
                    st.kids.push(gen_state(c, depth + 1, true, Some(Kind::Final)));
                }
            }
        }
    }
    if !st.kids.is_empty() && c.p.chance(c.k.history_bias, 10) {
        let hid = c.fresh("h");
        st.hist.push(GHist { id: hid, deep: c.p.chance(1, 2), targets: vec![], content: vec![] });
        if c.p.chance(1, 5) {
            let hid = c.fresh("h");
            st.hist.push(GHist { id: hid, deep: c.p.chance(1, 2), targets: vec![], content: vec![] });
        }
    }
    st
}

#[derive(Clone)]
struct Info {
    id: String,
    kind: Kind,
    parent: Option<usize>,
    kids: Vec<usize>,
    is_hist: bool,
}

fn collect(s: &GState, parent: Option<usize>, out: &mut Vec<Info>) -> usize {
    let me = out.len();
    out.push(Info { id: s.id.clone(), kind: s.kind, parent, kids: vec![], is_hist: false });
    for h in &s.hist {
        out.push(Info { id: h.id.clone(), kind: Kind::State, parent: Some(me), kids: vec![], is_hist: true });
    }
    for k in &s.kids {
        let ki = collect(k, Some(me), out);
        out[me].kids.push(ki);
    }
    me
}

fn descendants(infos: &[Info], i: usize, out: &mut Vec<usize>) {
    for &k in &infos[i].kids {
        out.push(k);
        descendants(infos, k, out);
    }
}

fn gen_cond(c: &mut Ctx, infos: &[Info]) -> String {
    if c.p.chance(c.k.error_bias, 100) {
        return (*c.p.pick(&["bogus(", "v9 == 1", "In(", "v0 <"])).to_string();
    }
    match c.p.below(6) {
        0 | 1 => {
            let i = c.p.below(infos.len() as u64) as usize;
            format!("In('{}')", infos[i].id)
        }
        2 => format!("{} == {}", c.p.pick(VARS), c.p.below(3)),
        3 => format!("{} < {}", c.p.pick(VARS), c.p.range(1, 4)),
        4 => format!("{} != {}", c.p.pick(VARS), c.p.below(3)),
        _ => (if c.p.chance(2, 3) { "true" } else { "false" }).to_string(),
    }
}

fn gen_value(c: &mut Ctx) -> String {
    if c.p.chance(c.k.error_bias, 100) {
        return (*c.p.pick(&["v9 + 1", "nope", "1 +"])).to_string();
    }
    match c.p.below(4) {
        0 => format!("{}", c.p.below(5)),
        1 => format!("{} + 1", c.p.pick(VARS)),
        2 => format!("{} + {}", c.p.pick(VARS), c.p.pick(VARS)),
        _ => (*c.p.pick(VARS)).to_string(),
    }
}

fn gen_items(c: &mut Ctx, infos: &[Info], depth: usize) -> Vec<GItem> {
    let n = c.p.range(1, 3);
    (0..n).map(|_| gen_item(c, infos, depth)).collect()
}

fn gen_item(c: &mut Ctx, infos: &[Info], depth: usize) -> GItem {
    let pick = c.p.below(if depth >= 2 { 7 } else { 10 });
    match pick {
        0 if c.raise_ok => GItem::Raise(format!("r{}", c.p.below(3))),
        0 => GItem::Log(gen_value(c)),
        1 | 2 | 3 => {
            let var = if c.p.chance(c.k.error_bias, 100) { "v9".to_string() } else { c.p.pick(VARS).to_string() };
            GItem::Assign(var, gen_value(c))
        }
        4 => GItem::Log(gen_value(c)),
        5 => match c.p.below(4) {
            0 => GItem::SendSelf(format!("q{}", c.p.below(2))),
            1 if c.p.chance(1, 3) => GItem::SendBadType("zz".to_string()),
            2 if c.p.chance(1, 3) => GItem::Cancel("sid1".to_string()),
            3 if c.raise_ok => GItem::SendInternal(format!("i{}", c.p.below(2))),
            _ => GItem::Log(gen_value(c)),
        },
        6 => GItem::Script(format!("{} = {}", c.p.pick(VARS), gen_value(c))),
        7 | 8 => {
            let nb = c.p.range(1, 3);
            let branches = (0..nb).map(|_| (gen_cond(c, infos), gen_items(c, infos, depth + 1))).collect();
            let els = if c.p.chance(1, 2) { Some(gen_items(c, infos, depth + 1)) } else { None };
            GItem::If(branches, els)
        }
        _ => {
            let arr = if c.p.chance(c.k.error_bias, 100) {
                "nope".to_string()
            } else {
                let n = c.p.below(4);
                format!("[{}]", (0..n).map(|_| c.p.below(5).to_string()).collect::<Vec<_>>().join(","))
            };
            let index = if c.p.chance(1, 2) { "i0".to_string() } else { String::new() };
            GItem::Foreach(arr, "it".to_string(), index, gen_items(c, infos, depth + 1))
        }
    }
}

fn maybe_content(c: &mut Ctx, infos: &[Info]) -> Vec<GItem> {
    if c.p.chance(c.k.content_bias, 10) {
        gen_items(c, infos, 0)
    } else {
        vec![]
    }
}

/// a legal multi-target specification: descendants in distinct regions of one parallel state
fn multi_targets(c: &mut Ctx, infos: &[Info]) -> Option<Vec<String>> {
    let pars: Vec<usize> = (0..infos.len()).filter(|&i| infos[i].kind == Kind::Parallel && !infos[i].is_hist).collect();
    if pars.is_empty() {
        return None;
    }
    let p = *c.p.pick(&pars);
    let mut out = vec![];
    for &region in &infos[p].kids {
        if c.p.chance(2, 3) {
            let mut ds = vec![region];
            descendants(infos, region, &mut ds);
            // keep to non-history states so that the specification stays legal
            let ds: Vec<usize> = ds.into_iter().filter(|&i| !infos[i].is_hist).collect();
            out.push(infos[*c.p.pick(&ds)].id.clone());
        }
    }
    if out.len() >= 2 {
        Some(out)
    } else {
        None
    }
}

fn fill(s: &mut GState, c: &mut Ctx, infos: &[Info]) {
    let me = infos.iter().position(|i| i.id == s.id).unwrap();
    let all: Vec<usize> = (1..infos.len()).collect(); // 0 is a placeholder for the root
    // history defaults
    for h in s.hist.iter_mut() {
        let mut ds: Vec<usize> = vec![];
        if h.deep {
            descendants(infos, me, &mut ds);
        } else {
            ds = infos[me].kids.clone();
        }
        let ds: Vec<usize> = ds.into_iter().filter(|&i| !infos[i].is_hist).collect();
        h.targets = vec![infos[*c.p.pick(&ds)].id.clone()];
        h.content = maybe_content(c, infos);
    }
    if s.kind != Kind::Final {
        let nt = c.p.below(4);
        for _ in 0..nt {
            let mut t = GTrans::default();
            let eventless = c.p.chance(c.k.eventless_bias, 10);
            if !eventless {
                let ne = c.p.range(1, 2);
                for _ in 0..ne {
                    let e = match c.p.below(24) {
                        0 => "*".to_string(),
                        1 | 2 => format!("done.state.{}", infos[*c.p.pick(&all)].id),
                        3 | 4 | 5 => format!("r{}", c.p.below(3)),
                        6 | 7 => format!("i{}", c.p.below(2)),
                        8 => "error.execution".to_string(),
                        9 => "error".to_string(),
                        _ => {
                            let e = *c.p.pick(EVENTS);
                            format!("{}{}", e, c.p.pick(&["", "", ".*", "."]))
                        }
                    };
                    t.events.push(e);
                }
            }
            if c.p.chance(4, 10) || eventless {
                t.cond = Some(gen_cond(c, infos));
            }
            match c.p.below(10) {
                0 | 1 => {} // targetless
                2 => {
                    if let Some(m) = multi_targets(c, infos) {
                        t.targets = m;
                    } else {
                        t.targets = vec![infos[*c.p.pick(&all)].id.clone()];
                    }
                }
                3 | 4 => {
                    // a descendant (makes internal transitions meaningful)
                    let mut ds = vec![];
                    descendants(infos, me, &mut ds);
                    if ds.is_empty() {
                        t.targets = vec![infos[*c.p.pick(&all)].id.clone()];
                    } else {
                        t.targets = vec![infos[*c.p.pick(&ds)].id.clone()];
                    }
                }
                5 => t.targets = vec![s.id.clone()],
                _ => t.targets = vec![infos[*c.p.pick(&all)].id.clone()],
            }
            t.internal = c.p.chance(3, 10);
            // handlers of internally generated events do not generate further ones (keeps most
            // documents from diverging); external-event handlers may
            let internal_trigger = t.events.iter().any(|e| e == "*" || e.starts_with('r') || e.starts_with('i') || e.starts_with("error") || e.starts_with("done."));
            c.raise_ok = !internal_trigger && !eventless;
            t.content = maybe_content(c, infos);
            c.raise_ok = true;
            if eventless {
                // make progress observable and bounded: guard on a counter and bump it
                let v = *c.p.pick(VARS);
                t.cond = Some(format!("{} < {}", v, c.p.range(1, 3)));
                t.content.insert(0, GItem::Assign(v.to_string(), format!("{} + 1", v)));
            }
            s.trans.push(t);
        }
    }
    // a state next to a final sibling often gets a plain transition into it, so that regions
    // actually finish (done.state.* and parallel completion are exercised)
    if s.kind != Kind::Final {
        if let Some(pi) = infos[me].parent {
            let finals: Vec<usize> = infos[pi].kids.iter().cloned().filter(|&k| infos[k].kind == Kind::Final).collect();
            if !finals.is_empty() && c.p.chance(c.k.finisher_bias, 10) {
                let mut t = GTrans::default();
                t.events.push((*c.p.pick(EVENTS)).to_string());
                t.targets = vec![infos[*c.p.pick(&finals)].id.clone()];
                s.trans.insert(0, t);
            }
        }
    }
    let ne = c.p.below(3);
    for _ in 0..ne {
        c.raise_ok = c.p.chance(1, 4);
        let items = gen_items(c, infos, 0);
        s.onentry.push(items);
    }
    let nx = c.p.below(3);
    for _ in 0..nx {
        c.raise_ok = c.p.chance(1, 4);
        let items = gen_items(c, infos, 0);
        s.onexit.push(items);
    }
    c.raise_ok = true;
    if s.kind == Kind::State && !s.kids.is_empty() {
        let mut ds = infos[me].kids.clone();
        if c.p.chance(1, 4) {
            descendants(infos, me, &mut ds);
        }
        let ds: Vec<usize> = ds.into_iter().filter(|&i| !infos[i].is_hist).collect();
        let tgt = vec![infos[*c.p.pick(&ds)].id.clone()];
        s.init = match c.p.below(10) {
            0 | 1 | 2 => Init::Attr(tgt),
            3 | 4 => Init::Elem(tgt, maybe_content(c, infos)),
            _ => Init::Default,
        };
    }
    if s.kind != Kind::Final && c.p.chance(1, 5) {
        s.data.push((format!("w{}", c.p.below(2)), gen_value(c)));
    }
    if s.kind == Kind::Final && c.p.chance(1, 2) {
        s.donedata = Some(vec![("p".to_string(), gen_value(c))]);
    }
    for k in s.kids.iter_mut() {
        fill(k, c, infos);
    }
}

pub fn gen_doc(p: &mut Prng, k: &Knobs) -> GDoc {
    let mut c = Ctx { p, k, next: 1, count: 0, raise_ok: true };
    let n = c.p.range(1, 3);
    let mut kids = vec![];
    for i in 0..n {
        let fk = if i == 0 { Some(if c.p.chance(c.k.parallel_bias, 10) { Kind::Parallel } else { Kind::State }) } else { None };
        kids.push(gen_state(&mut c, 1, i > 0, fk));
    }
    let mut infos = vec![Info { id: "#root".to_string(), kind: Kind::State, parent: None, kids: vec![], is_hist: false }];
    for kdx in 0..kids.len() {
        let ki = collect(&kids[kdx], Some(0), &mut infos);
        infos[0].kids.push(ki);
    }
    let _ = infos.iter().map(|i| i.parent).count();
    for kdx in 0..kids.len() {
        let mut s = kids[kdx].clone();
        fill(&mut s, &mut c, &infos);
        kids[kdx] = s;
    }
    let root_init = if c.p.chance(1, 3) {
        let mut ds = infos[0].kids.clone();
        if c.p.chance(1, 3) {
            descendants(&infos, 0, &mut ds);
        }
        let ds: Vec<usize> = ds.into_iter().filter(|&i| !infos[i].is_hist).collect();
        Init::Attr(vec![infos[*c.p.pick(&ds)].id.clone()])
    } else {
        Init::Default
    };
    let data = VARS.iter().map(|v| (v.to_string(), c.p.below(2).to_string())).collect();
    let script = if c.p.chance(1, 6) { Some(format!("v0 = {}", c.p.below(3))) } else { None };
    GDoc { late: c.p.chance(1, 3), root_init, kids, data, script, datamodel: "vdm".to_string() }
}

fn render_items(items: &[GItem], out: &mut String) {
    for it in items {
        match it {
            GItem::Raise(e) => out.push_str(&format!("<raise event=\"{}\"/>", xml_attr(e))),
            GItem::Assign(l, e) => out.push_str(&format!("<assign location=\"{}\" expr=\"{}\"/>", xml_attr(l), xml_attr(e))),
            GItem::Log(e) => out.push_str(&format!("<log label=\"l\" expr=\"{}\"/>", xml_attr(e))),
            GItem::SendInternal(e) => out.push_str(&format!("<send event=\"{}\" target=\"#_internal\"/>", xml_attr(e))),
            GItem::SendSelf(e) => out.push_str(&format!("<send event=\"{}\"/>", xml_attr(e))),
            GItem::SendBadType(e) => out.push_str(&format!("<send event=\"{}\" type=\"nosuchtype\"/>", xml_attr(e))),
            GItem::Cancel(s) => out.push_str(&format!("<cancel sendid=\"{}\"/>", xml_attr(s))),
            GItem::Script(s) => out.push_str(&format!("<script>{}</script>", xml_attr(s))),
            GItem::If(branches, els) => {
                for (i, (c, body)) in branches.iter().enumerate() {
                    if i == 0 {
                        out.push_str(&format!("<if cond=\"{}\">", xml_attr(c)));
                    } else {
                        out.push_str(&format!("<elseif cond=\"{}\"/>", xml_attr(c)));
                    }
                    render_items(body, out);
                }
                if let Some(e) = els {
                    out.push_str("<else/>");
                    render_items(e, out);
                }
                out.push_str("</if>");
            }
            GItem::Foreach(a, item, index, body) => {
                out.push_str(&format!("<foreach array=\"{}\" item=\"{}\"", xml_attr(a), xml_attr(item)));
                if !index.is_empty() {
                    out.push_str(&format!(" index=\"{}\"", xml_attr(index)));
                }
                out.push('>');
                render_items(body, out);
                out.push_str("</foreach>");
            }
        }
    }
}

fn render_trans(t: &GTrans, out: &mut String) {
    out.push_str("<transition");
    if !t.events.is_empty() {
        out.push_str(&format!(" event=\"{}\"", xml_attr(&t.events.join(" "))));
    }
    if let Some(c) = &t.cond {
        out.push_str(&format!(" cond=\"{}\"", xml_attr(c)));
    }
    if !t.targets.is_empty() {
        out.push_str(&format!(" target=\"{}\"", t.targets.join(" ")));
    }
    if t.internal {
        out.push_str(" type=\"internal\"");
    }
    out.push('>');
    render_items(&t.content, out);
    out.push_str("</transition>");
}

fn render_data(data: &[(String, String)], out: &mut String) {
    if !data.is_empty() {
        out.push_str("<datamodel>");
        for (k, v) in data {
            out.push_str(&format!("<data id=\"{}\" expr=\"{}\"/>", k, xml_attr(v)));
        }
        out.push_str("</datamodel>");
    }
}

fn render_state(s: &GState, out: &mut String) {
    let tag = match s.kind {
        Kind::State => "state",
        Kind::Parallel => "parallel",
        Kind::Final => "final",
    };
    out.push_str(&format!("<{} id=\"{}\"", tag, s.id));
    if let Init::Attr(t) = &s.init {
        out.push_str(&format!(" initial=\"{}\"", t.join(" ")));
    }
    out.push('>');
    render_data(&s.data, out);
    if let Init::Elem(t, content) = &s.init {
        out.push_str("<initial>");
        render_trans(&GTrans { targets: t.clone(), content: content.clone(), ..Default::default() }, out);
        out.push_str("</initial>");
    }
    for b in &s.onentry {
        out.push_str("<onentry>");
        render_items(b, out);
        out.push_str("</onentry>");
    }
    for b in &s.onexit {
        out.push_str("<onexit>");
        render_items(b, out);
        out.push_str("</onexit>");
    }
    for t in &s.trans {
        render_trans(t, out);
    }
    for i in &s.invokes {
        out.push_str(&format!(
            "<invoke type=\"scxml\" id=\"{}\"{}{}><content>{}</content>",
            i.id,
            if i.autoforward { " autoforward=\"true\"" } else { "" },
            i.namelist.as_ref().map(|n| format!(" namelist=\"{}\"", n)).unwrap_or_default(),
            i.child_xml
        ));
        if let Some(f) = &i.finalize {
            out.push_str("<finalize>");
            render_items(f, out);
            out.push_str("</finalize>");
        }
        out.push_str("</invoke>");
    }
    for h in &s.hist {
        out.push_str(&format!("<history id=\"{}\" type=\"{}\">", h.id, if h.deep { "deep" } else { "shallow" }));
        render_trans(&GTrans { targets: h.targets.clone(), content: h.content.clone(), ..Default::default() }, out);
        out.push_str("</history>");
    }
    for k in &s.kids {
        render_state(k, out);
    }
    if let Some(dd) = &s.donedata {
        out.push_str("<donedata>");
        for (n, e) in dd {
            out.push_str(&format!("<param name=\"{}\" expr=\"{}\"/>", n, xml_attr(e)));
        }
        out.push_str("</donedata>");
    }
    out.push_str(&format!("</{}>", tag));
}

pub fn render(d: &GDoc) -> String {
    let mut out = String::new();
    out.push_str(&format!(
        "<scxml xmlns=\"http://www.w3.org/2005/07/scxml\" version=\"1.0\" datamodel=\"{}\" name=\"m\"{}",
        d.datamodel,
        if d.late { " binding=\"late\"" } else { "" }
    ));
    if let Init::Attr(t) = &d.root_init {
        out.push_str(&format!(" initial=\"{}\"", t.join(" ")));
    }
    out.push('>');
    render_data(&d.data, &mut out);
    if let Some(s) = &d.script {
        out.push_str(&format!("<script>{}</script>", xml_attr(s)));
    }
    for k in &d.kids {
        render_state(k, &mut out);
    }
    out.push_str("</scxml>");
    out
}

pub fn count_states(d: &GDoc) -> usize {
    fn c(s: &GState) -> usize {
        1 + s.hist.len() + s.kids.iter().map(c).sum::<usize>()
    }
    d.kids.iter().map(c).sum()
}

pub fn gen_events(p: &mut Prng, n_max: u64) -> Vec<String> {
    let n = p.range(2, n_max);
    (0..n).map(|_| (*p.pick(EVENTS)).to_string()).collect()
}


// ---------------------------------------------------------------------------------------------
// Template: regions that finish.  A parallel state whose regions (compound states with a final
// child, or nested parallels of such) are driven into their final states by dedicated events, in a
// random order, with handlers for the resulting done.state.* events.  Used for C07 (and C03).

fn leaf_region(id: &mut usize, ev: &mut usize, events: &mut Vec<String>, p: &mut Prng) -> GState {
    *id += 1;
    let rid = format!("r{}", *id);
    *ev += 1;
    let e = format!("e{}", *ev);
    events.push(e.clone());
    let mk = |id: String, kind: Kind| GState {
        id,
        kind,
        kids: vec![],
        hist: vec![],
        trans: vec![],
        onentry: vec![],
        onexit: vec![],
        init: Init::Default,
        data: vec![],
        donedata: None,
        invokes: vec![],
    };
    let mut a = mk(format!("{}a", rid), Kind::State);
    let mut f = mk(format!("{}f", rid), Kind::Final);
    a.trans.push(GTrans { events: vec![e], targets: vec![f.id.clone()], ..Default::default() });
    if p.chance(1, 3) {
        f.donedata = Some(vec![("p".to_string(), "v0 + 1".to_string())]);
    }
    if p.chance(1, 3) {
        f.onentry.push(vec![GItem::Log("v0".to_string())]);
    }
    let mut r = mk(rid.clone(), Kind::State);
    // sometimes a second ordinary state, so that the final is not reached in one step
    if p.chance(1, 3) {
        *ev += 1;
        let e2 = format!("e{}", *ev);
        events.push(e2.clone());
        let mut b = mk(format!("{}b", rid), Kind::State);
        b.trans.push(GTrans { events: vec![e2], targets: vec![a.id.clone()], ..Default::default() });
        r.kids.push(b);
    }
    r.kids.push(a);
    r.kids.push(f);
    r
}

fn par_region(depth: usize, id: &mut usize, ev: &mut usize, events: &mut Vec<String>, dones: &mut Vec<String>, p: &mut Prng) -> GState {
    *id += 1;
    let pid = format!("p{}", *id);
    dones.push(pid.clone());
    let n = p.range(2, 3);
    let mut kids = vec![];
    for _ in 0..n {
        if depth < 2 && p.chance(2, 5) {
            kids.push(par_region(depth + 1, id, ev, events, dones, p));
        } else {
            let r = leaf_region(id, ev, events, p);
            dones.push(r.id.clone());
            kids.push(r);
        }
    }
    GState {
        id: pid,
        kind: Kind::Parallel,
        kids,
        hist: vec![],
        trans: vec![],
        onentry: vec![],
        onexit: if p.chance(1, 2) { vec![vec![GItem::Log("v1".to_string())]] } else { vec![] },
        init: Init::Default,
        data: vec![],
        donedata: None,
        invokes: vec![],
    }
}

pub fn gen_finals_doc(p: &mut Prng) -> (GDoc, Vec<String>) {
    let mut id = 0usize;
    let mut ev = 0usize;
    let mut events = vec![];
    let mut dones = vec![];
    let mut par = par_region(0, &mut id, &mut ev, &mut events, &mut dones, p);
    let mk = |id: &str, kind: Kind| GState {
        id: id.to_string(),
        kind,
        kids: vec![],
        hist: vec![],
        trans: vec![],
        onentry: vec![],
        onexit: vec![],
        init: Init::Default,
        data: vec![],
        donedata: None,
        invokes: vec![],
    };
    // handlers for done.state.* on the outermost parallel: each logs, one of them leaves
    let outer = par.id.clone();
    for d in &dones {
        if p.chance(2, 3) {
            par.trans.push(GTrans {
                events: vec![format!("done.state.{}", d)],
                targets: if *d == outer && p.chance(2, 3) { vec!["after".to_string()] } else { vec![] },
                content: vec![GItem::Assign("v2".to_string(), "v2 + 1".to_string()), GItem::Log("v2".to_string())],
                ..Default::default()
            });
        }
    }
    let mut after = mk("after", Kind::State);
    after.onentry.push(vec![GItem::Log("v2 + 1".to_string())]);
    after.onexit.push(vec![GItem::Log("v2".to_string())]);
    after.trans.push(GTrans { events: vec!["x".to_string()], targets: vec!["fin".to_string()], ..Default::default() });
    let mut top = mk("top", Kind::State);
    top.onexit.push(vec![GItem::Log("v0".to_string())]);
    top.kids = vec![par, after];
    let fin = mk("fin", Kind::Final);
    // event order: a shuffle of the region events, sometimes with repeats / noise, then maybe x
    let mut order = events.clone();
    for i in (1..order.len()).rev() {
        let j = p.below(i as u64 + 1) as usize;
        order.swap(i, j);
    }
    if p.chance(1, 2) {
        let extra = order[p.below(order.len() as u64) as usize].clone();
        let at = p.below(order.len() as u64 + 1) as usize;
        order.insert(at, extra);
    }
    if p.chance(1, 3) {
        order.truncate(order.len().saturating_sub(1).max(1));
    }
    if p.chance(2, 3) {
        order.push("x".to_string());
    }
    if p.chance(1, 2) {
        order.push("a".to_string());
    }
    let data = VARS.iter().map(|v| (v.to_string(), "0".to_string())).collect();
    (
        GDoc { late: p.chance(1, 4), root_init: Init::Default, kids: vec![top, fin], data, script: None, datamodel: "vdm".to_string() },
        order,
    )
}


// ---------------------------------------------------------------------------------------------
// Structural generator: small documents, hardly any content, but dense in the structural corner
// cases of the interpretation algorithm: many transitions per state with arbitrary (legal) target
// sets — descendants, ancestors, self, siblings, history pseudo-states, several targets in
// different regions of a parallel —, internal and external, initial attributes / <initial>
// elements that name deep descendants, several states or history states, shallow and deep history
// in compound and parallel parents.

fn st(id: String, kind: Kind) -> GState {
    GState { id, kind, kids: vec![], hist: vec![], trans: vec![], onentry: vec![], onexit: vec![], init: Init::Default, data: vec![], donedata: None, invokes: vec![] }
}

fn gen_tree(p: &mut Prng, depth: usize, budget: &mut i32, next: &mut usize, force: Option<Kind>) -> GState {
    *next += 1;
    *budget -= 1;
    let id = format!("s{}", *next);
    let kind = force.unwrap_or_else(|| match p.below(10) {
        0 | 1 | 2 if depth < 3 && *budget > 2 => Kind::Parallel,
        3 if depth > 0 => Kind::Final,
        _ => Kind::State,
    });
    let mut s = st(id, kind);
    match kind {
        Kind::Final => {}
        Kind::Parallel => {
            let n = p.range(2, 3);
            for _ in 0..n {
                let fk = if p.chance(1, 4) && *budget > 2 && depth < 2 { Kind::Parallel } else { Kind::State };
                s.kids.push(gen_tree(p, depth + 1, budget, next, Some(fk)));
            }
        }
        Kind::State => {
            if depth < 3 && *budget > 0 && p.chance(3, 5) {
                let n = p.range(1, 3);
                for i in 0..n {
                    if *budget <= 0 && i > 0 {
                        break;
                    }
                    let fk = if i == 0 { Some(if p.chance(1, 4) && *budget > 2 { Kind::Parallel } else { Kind::State }) } else { None };
                    s.kids.push(gen_tree(p, depth + 1, budget, next, fk));
                }
            }
        }
    }
    if !s.kids.is_empty() && p.chance(1, 2) {
        *next += 1;
        s.hist.push(GHist { id: format!("h{}", *next), deep: p.chance(1, 2), targets: vec![], content: vec![] });
    }
    s
}

fn is_anc_or_self(infos: &[Info], a: usize, mut x: usize) -> bool {
    loop {
        if x == a {
            return true;
        }
        match infos[x].parent {
            Some(p) => x = p,
            None => return false,
        }
    }
}

fn lca(infos: &[Info], a: usize, b: usize) -> usize {
    let mut x = a;
    loop {
        if is_anc_or_self(infos, x, b) {
            return x;
        }
        x = infos[x].parent.unwrap_or(0);
    }
}

/// may `a` and `b` be named together in one target list?  Only ordinary states that lie in
/// different regions of a parallel state (history pseudo-states are only used as single targets,
/// which is always a legal state specification).
fn compatible(infos: &[Info], a: usize, b: usize) -> bool {
    if infos[a].is_hist || infos[b].is_hist {
        return false;
    }
    if is_anc_or_self(infos, a, b) || is_anc_or_self(infos, b, a) {
        return false;
    }
    let l = lca(infos, a, b);
    l != 0 && infos[l].kind == Kind::Parallel
}

fn pick_targets(p: &mut Prng, infos: &[Info], pool: &[usize], max: usize) -> Vec<String> {
    if pool.is_empty() {
        return vec![];
    }
    let mut chosen: Vec<usize> = vec![*p.pick(pool)];
    let want = if p.chance(1, 3) { max } else { 1 };
    let mut tries = 0;
    while chosen.len() < want && tries < 12 {
        tries += 1;
        let c = *p.pick(pool);
        if !chosen.contains(&c) && chosen.iter().all(|x| compatible(infos, *x, c)) {
            chosen.push(c);
        }
    }
    chosen.iter().map(|i| infos[*i].id.clone()).collect()
}

fn fill_structural(s: &mut GState, p: &mut Prng, infos: &[Info], events: &[&str]) {
    let me = infos.iter().position(|i| i.id == s.id).unwrap();
    let all: Vec<usize> = (1..infos.len()).collect();
    let mut below: Vec<usize> = vec![];
    descendants(infos, me, &mut below);
    let below_with_hist: Vec<usize> = (1..infos.len()).filter(|i| *i != me && is_anc_or_self(infos, me, *i)).collect();
    for h in s.hist.iter_mut() {
        let pool: Vec<usize> = if h.deep { below.clone() } else { infos[me].kids.clone() };
        let pool: Vec<usize> = pool.into_iter().filter(|i| !infos[*i].is_hist).collect();
        h.targets = pick_targets(p, infos, &pool, 2);
        if p.chance(1, 3) {
            h.content = vec![GItem::Log("1".to_string())];
        }
    }
    if s.kind != Kind::Final {
        let nt = p.range(1, 4);
        for _ in 0..nt {
            let mut t = GTrans::default();
            t.events.push((*p.pick(events)).to_string());
            if p.chance(1, 6) {
                t.events.push((*p.pick(events)).to_string());
            }
            if p.chance(1, 4) {
                let i = *p.pick(&all);
                t.cond = Some(format!("In('{}')", infos[i].id));
            }
            let pool: &Vec<usize> = match p.below(4) {
                0 => &below_with_hist,
                _ => &all,
            };
            if !p.chance(1, 8) {
                t.targets = pick_targets(p, infos, if pool.is_empty() { &all } else { pool }, 3);
            }
            t.internal = p.chance(2, 5);
            if p.chance(1, 4) {
                t.content = vec![GItem::Log("2".to_string())];
            }
            s.trans.push(t);
        }
        // an internal transition from a compound state to one target inside it and one in a
        // sibling region of an enclosing parallel (domain must then be the common ancestor)
        if !below.is_empty() && p.chance(1, 4) {
            let inside = *p.pick(&below);
            let others: Vec<usize> = all.iter().cloned().filter(|x| compatible(infos, inside, *x) && !is_anc_or_self(infos, me, *x)).collect();
            if !infos[inside].is_hist && !others.is_empty() {
                let o = *p.pick(&others);
                s.trans.insert(0, GTrans {
                    events: vec![(*p.pick(events)).to_string()],
                    targets: vec![infos[inside].id.clone(), infos[o].id.clone()],
                    internal: true,
                    ..Default::default()
                });
            }
        }
        if p.chance(1, 4) {
            s.onentry.push(vec![GItem::Log("3".to_string())]);
        }
        if p.chance(1, 4) {
            s.onexit.push(vec![GItem::Log("4".to_string())]);
        }
    }
    if s.kind == Kind::State && !s.kids.is_empty() {
        // initial: default, a child, a deeper descendant, a history child, or several states
        let pool: Vec<usize> = match p.below(4) {
            0 => below_with_hist.clone(),
            1 => below.clone(),
            _ => infos[me].kids.clone(),
        };
        let tg = pick_targets(p, infos, &pool, 2);
        s.init = match p.below(5) {
            0 | 1 => Init::Default,
            2 | 3 => Init::Attr(tg),
            _ => Init::Elem(tg, if p.chance(1, 2) { vec![GItem::Log("5".to_string())] } else { vec![] }),
        };
    }
    for k in s.kids.iter_mut() {
        fill_structural(k, p, infos, events);
    }
}

pub fn gen_structural(p: &mut Prng) -> (GDoc, Vec<String>) {
    let mut next = 0usize;
    let mut budget = p.range(3, 9) as i32;
    let n = p.range(1, 2);
    let mut kids = vec![];
    for i in 0..n {
        let fk = if i == 0 { Some(if p.chance(1, 3) { Kind::Parallel } else { Kind::State }) } else { None };
        kids.push(gen_tree(p, 0, &mut budget, &mut next, fk));
    }
    let mut infos = vec![Info { id: "#root".to_string(), kind: Kind::State, parent: None, kids: vec![], is_hist: false }];
    for kdx in 0..kids.len() {
        let ki = collect(&kids[kdx], Some(0), &mut infos);
        infos[0].kids.push(ki);
    }
    let events = ["a", "b", "c"];
    for kdx in 0..kids.len() {
        let mut s = kids[kdx].clone();
        fill_structural(&mut s, p, &infos, &events);
        kids[kdx] = s;
    }
    let mut root_init = if p.chance(1, 2) {
        let mut pool: Vec<usize> = (1..infos.len()).collect();
        if p.chance(1, 2) {
            pool = infos[0].kids.clone();
        }
        let tg = pick_targets(p, &infos, &pool, 2);
        // the first top-level state must not be skipped into a top-level final right away too often
        Init::Attr(tg)
    } else {
        Init::Default
    };
    // a compound state whose default initial names several states in different regions of a
    // parallel below it (each possibly not its region's default child), entered by default: the
    // descendants of ALL initial targets are added before the ancestors of any of them
    if p.chance(1, 3) {
        let mut m0 = st("m0".to_string(), Kind::State);
        let mut m1 = st("m1".to_string(), Kind::Parallel);
        let nreg = p.range(2, 3) as usize;
        let mut picks: Vec<String> = vec![];
        for r in 0..nreg {
            let rid = format!("m{}", r + 2);
            let mut reg = st(rid.clone(), Kind::State);
            let a = st(format!("{}a", rid), Kind::State);
            let mut b = st(format!("{}b", rid), Kind::State);
            if p.chance(1, 3) {
                b.kids.push(st(format!("{}b1", rid), Kind::State));
                b.kids.push(st(format!("{}b2", rid), Kind::State));
            }
            if p.chance(1, 4) {
                reg.onentry.push(vec![GItem::Log("6".to_string())]);
            }
            // which state of this region the initial names (if any): mostly NOT the default child
            match p.below(6) {
                0 => {}
                1 => picks.push(a.id.clone()),
                2 | 3 => picks.push(b.id.clone()),
                _ => picks.push(if b.kids.is_empty() { b.id.clone() } else { b.kids[1].id.clone() }),
            }
            reg.trans.push(GTrans { events: vec![(*p.pick(&events)).to_string()], targets: vec![if p.chance(1, 2) { a.id.clone() } else { b.id.clone() }], ..Default::default() });
            reg.kids.push(a);
            reg.kids.push(b);
            m1.kids.push(reg);
        }
        if picks.is_empty() {
            picks.push("m2b".to_string());
        }
        if p.chance(1, 2) {
            picks.reverse();
        }
        m0.init = if p.chance(1, 2) { Init::Attr(picks) } else { Init::Elem(picks, vec![]) };
        m0.kids.push(m1);
        let back = kids[0].id.clone();
        m0.trans.push(GTrans { events: vec![(*p.pick(&events)).to_string()], targets: vec![back], ..Default::default() });
        // reachable: from the first top-level state, and sometimes as the document's initial state
        kids[0].trans.insert(0, GTrans { events: vec![(*p.pick(&events)).to_string()], targets: vec!["m0".to_string()], ..Default::default() });
        if p.chance(1, 3) {
            root_init = Init::Attr(vec!["m0".to_string()]);
        }
        kids.push(m0);
    }
    let ne = p.range(3, 9);
    let evs = (0..ne).map(|_| (*p.pick(&events)).to_string()).collect();
    let data = VARS.iter().map(|v| (v.to_string(), "0".to_string())).collect();
    (GDoc { late: false, root_init, kids, data, script: None, datamodel: "vdm".to_string() }, evs)
}


// ---------------------------------------------------------------------------------------------
// Template: leaving and re-entering states that own history pseudo-states.  A state P with a
// (shallow or deep) history child, whose content is a compound chain and/or parallel regions; events
// move the regions out of their default sub-states, leave P, and come back via the history state,
// via P itself, or via a deeper target.

fn two_state_region(id: &mut usize, ev: &mut usize, evs: &mut Vec<String>, p: &mut Prng) -> GState {
    *id += 1;
    let rid = format!("r{}", *id);
    let mut r = st(rid.clone(), Kind::State);
    let n = p.range(2, 3);
    let names: Vec<String> = (0..n).map(|i| format!("{}{}", rid, (b'a' + i as u8) as char)).collect();
    for i in 0..n as usize {
        let mut x = st(names[i].clone(), Kind::State);
        *ev += 1;
        let e = format!("e{}", *ev);
        evs.push(e.clone());
        x.trans.push(GTrans { events: vec![e], targets: vec![names[(i + 1) % n as usize].clone()], ..Default::default() });
        if p.chance(1, 3) {
            x.onentry.push(vec![GItem::Log("1".to_string())]);
        }
        r.kids.push(x);
    }
    if p.chance(1, 3) {
        *id += 1;
        r.hist.push(GHist { id: format!("h{}", *id), deep: p.chance(1, 2), targets: vec![names[p.below(n) as usize].clone()], content: vec![] });
    }
    r
}

fn hist_body(depth: usize, id: &mut usize, ev: &mut usize, evs: &mut Vec<String>, p: &mut Prng) -> GState {
    match p.below(if depth >= 2 { 2 } else { 4 }) {
        0 | 1 => two_state_region(id, ev, evs, p),
        2 => {
            // a parallel with 2-3 regions
            *id += 1;
            let mut q = st(format!("q{}", *id), Kind::Parallel);
            let n = p.range(2, 3);
            for _ in 0..n {
                q.kids.push(hist_body(depth + 1, id, ev, evs, p));
            }
            if p.chance(1, 3) {
                *id += 1;
                let t = q.kids[0].id.clone();
                q.hist.push(GHist { id: format!("h{}", *id), deep: p.chance(1, 2), targets: vec![t], content: vec![] });
            }
            q
        }
        _ => {
            // a compound wrapper around a body
            *id += 1;
            let mut w = st(format!("w{}", *id), Kind::State);
            w.kids.push(hist_body(depth + 1, id, ev, evs, p));
            if p.chance(1, 2) {
                w.kids.push(two_state_region(id, ev, evs, p));
            }
            w
        }
    }
}

fn first_leaf(s: &GState) -> String {
    if s.kids.is_empty() {
        s.id.clone()
    } else {
        first_leaf(&s.kids[0])
    }
}

fn all_ids(s: &GState, out: &mut Vec<String>) {
    out.push(s.id.clone());
    for k in &s.kids {
        all_ids(k, out);
    }
}

pub fn gen_history_doc(p: &mut Prng) -> (GDoc, Vec<String>) {
    let mut id = 0usize;
    let mut ev = 0usize;
    let mut evs = vec![];
    // P: compound (body [+ second child]) or parallel (2 bodies)
    let mut pst = if p.chance(1, 3) {
        let mut q = st("P".to_string(), Kind::Parallel);
        q.kids.push(hist_body(1, &mut id, &mut ev, &mut evs, p));
        q.kids.push(hist_body(1, &mut id, &mut ev, &mut evs, p));
        q
    } else {
        let mut c = st("P".to_string(), Kind::State);
        c.kids.push(hist_body(0, &mut id, &mut ev, &mut evs, p));
        if p.chance(1, 2) {
            c.kids.push(two_state_region(&mut id, &mut ev, &mut evs, p));
        }
        c
    };
    let deep = p.chance(2, 3);
    let mut inner = vec![];
    for k in &pst.kids {
        all_ids(k, &mut inner);
    }
    let default_target = if deep && p.chance(1, 2) { first_leaf(&pst.kids[0]) } else { pst.kids[0].id.clone() };
    pst.hist.push(GHist {
        id: "H".to_string(),
        deep,
        targets: vec![default_target],
        content: if p.chance(1, 2) { vec![GItem::Log("7".to_string())] } else { vec![] },
    });
    pst.onentry.push(vec![GItem::Log("8".to_string())]);
    pst.trans.push(GTrans { events: vec!["x".to_string()], targets: vec!["Out".to_string()], ..Default::default() });
    let mut out = st("Out".to_string(), Kind::State);
    out.trans.push(GTrans { events: vec!["y".to_string()], targets: vec!["H".to_string()], ..Default::default() });
    out.trans.push(GTrans { events: vec!["z".to_string()], targets: vec!["P".to_string()], ..Default::default() });
    let deeper = inner[p.below(inner.len() as u64) as usize].clone();
    out.trans.push(GTrans { events: vec!["w".to_string()], targets: vec![deeper], ..Default::default() });
    // a parallel P: its regions get histories of their own, and `v` comes back through SEVERAL targets at
    // once — two region histories, or a plain state of one region followed by the other region's
    // history (the recorded value of a later history target must be merged with the earlier targets)
    let mut multi_back = false;
    if pst.kind == Kind::Parallel {
        let mut region_hist: Vec<(usize, String)> = vec![];
        for (i, k) in pst.kids.iter_mut().enumerate() {
            if k.kind == Kind::State && !k.kids.is_empty() {
                let hid = format!("hr{}", i);
                let t = k.kids[0].id.clone();
                k.hist.push(GHist { id: hid.clone(), deep: p.chance(1, 2), targets: vec![t], content: vec![] });
                region_hist.push((i, hid));
            }
        }
        if region_hist.len() >= 2 {
            let (a, b) = (region_hist[0].1.clone(), region_hist[1].1.clone());
            let tg = if p.chance(1, 2) { vec![b, a] } else { vec![first_leaf(&pst.kids[region_hist[1].0]), a] };
            out.trans.push(GTrans { events: vec!["v".to_string()], targets: tg, ..Default::default() });
            multi_back = true;
        } else if region_hist.len() == 1 {
            let other = if region_hist[0].0 == 0 { 1 } else { 0 };
            let tg = vec![first_leaf(&pst.kids[other]), region_hist[0].1.clone()];
            out.trans.push(GTrans { events: vec!["v".to_string()], targets: tg, ..Default::default() });
            multi_back = true;
        }
    }
    // sometimes P's own default entry goes through its history
    if pst.kind == Kind::State && p.chance(1, 4) {
        pst.init = Init::Attr(vec!["H".to_string()]);
    }
    let start_out = p.chance(1, 3);
    let kids = if start_out { vec![out, pst] } else { vec![pst, out] };
    // events: some region moves, leave, come back (y / z / w), more moves, leave, back ...
    let mut order = vec![];
    let rounds = p.range(2, 3);
    for _ in 0..rounds {
        let k = p.range(0, 4);
        for _ in 0..k {
            order.push(evs[p.below(evs.len() as u64) as usize].clone());
        }
        order.push("x".to_string());
        order.push(if multi_back && p.chance(1, 2) { "v".to_string() } else { (*p.pick(&["y", "y", "z", "w"])).to_string() });
    }
    let k = p.range(0, 2);
    for _ in 0..k {
        order.push(evs[p.below(evs.len() as u64) as usize].clone());
    }
    let data = VARS.iter().map(|v| (v.to_string(), "0".to_string())).collect();
    (GDoc { late: false, root_init: Init::Default, kids, data, script: None, datamodel: "vdm".to_string() }, order)
}
