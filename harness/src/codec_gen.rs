//! Generator of SCXML documents for the codec checks (C05, C18): every element kind and attribute
//! combination the XML reader accepts.  Two flavours: `behave = true` gives documents that are
//! safe to *run* (rfsm-expression datamodel, valid expressions, no invoke, no delays) so that the
//! original and the reloaded machine can be compared on event sequences; `behave = false` gives
//! arbitrary attribute texts (multi-byte, long) and uses every element incl. invoke.
use crate::obs::xml_attr;
use crate::prng::Prng;

pub const EVENTS: &[&str] = &["e1", "e2", "go", "x.y", "x", "done.state.p1", "error.execution", "é.z"];
/// events used in runnable documents (no platform events: a handler of `error.execution` that itself
/// fails would loop for ever)
pub const TRIGGERS: &[&str] = &["e1", "e2", "go", "x.y", "x", "é.z"];
/// runnable documents spend one unit of `budget` per raise / send / eventless transition, so that
/// every run terminates
const BUDGET_OPEN: &str = "<if cond=\"budget >= 1\"><assign location=\"budget\" expr=\"budget - 1\"/>";
const WORDS: &[&str] = &["a", "foo", "Bar_1", "zustand_ä", "日本", "x.y", "€uro", "𝄞clef", "", "q r", "it's", "a\"b"];
const LABELS: &[&str] = &["", "L", "label ä", "日本語", "a-long-label-with-sixteen+"];

#[derive(Clone, Copy, PartialEq, Debug)]
pub enum Kind {
    State,
    Parallel,
    Final,
    History(bool),
}

pub struct Node {
    pub name: String,
    pub kind: Kind,
    pub children: Vec<Node>,
}

pub struct DocGen<'a> {
    pub p: &'a mut Prng,
    pub behave: bool,
    /// allow strings at and beyond the 4096 byte boundary / numbers beyond 2^60
    pub big: bool,
    /// few states, little content (images of a few hundred bytes)
    pub small: bool,
    pub names: Vec<String>,
    pub vars: Vec<String>,
    pub counts: std::collections::BTreeMap<String, u64>,
    next: usize,
    hist_target: String,
}

impl<'a> DocGen<'a> {
    pub fn new(p: &'a mut Prng, behave: bool, big: bool) -> DocGen<'a> {
        DocGen { p, behave, big, small: false, names: vec![], vars: vec![], counts: Default::default(), next: 0, hist_target: String::new() }
    }

    fn cnt(&mut self, k: &str) {
        *self.counts.entry(k.to_string()).or_insert(0) += 1;
    }

    fn fresh(&mut self) -> String {
        self.next += 1;
        let deco = if self.behave { "" } else { *self.p.pick(&["", "", "_ä", "日", "-long-identifier-x"]) };
        format!("s{}{}", self.next, deco)
    }

    fn tree(&mut self, depth: u32, parent_parallel: bool, top: bool) -> Vec<Node> {
        let n = if self.small {
            self.p.range(if parent_parallel { 2 } else { 1 }, 2)
        } else if depth == 0 {
            self.p.range(1, 3)
        } else {
            self.p.range(if parent_parallel { 2 } else { 1 }, 3)
        };
        let mut v = Vec::new();
        for _ in 0..n {
            let name = self.fresh();
            let k = self.p.below(10);
            let kind = if k < 2 && !parent_parallel && depth < 3 {
                Kind::Final
            } else if k < 4 && depth < 2 {
                Kind::Parallel
            } else {
                Kind::State
            };
            let maxd = if self.small { 1 } else { 2 };
            let children = if kind != Kind::Final && depth < maxd && (kind == Kind::Parallel || self.p.chance(1, 2)) {
                let mut c = self.tree(depth + 1, kind == Kind::Parallel, false);
                if self.p.chance(1, 3) {
                    let hname = self.fresh();
                    c.push(Node { name: hname, kind: Kind::History(self.p.chance(1, 2)), children: vec![] });
                }
                c
            } else {
                vec![]
            };
            self.names.push(name.clone());
            v.push(Node { name, kind, children });
        }
        let _ = top;
        v
    }

    // ---------------------------------------------------------------- texts

    fn text(&mut self) -> String {
        let w = *self.p.pick(WORDS);
        w.to_string()
    }

    /// attribute text that is an expression in behave mode
    fn expr(&mut self) -> String {
        if self.behave {
            let v = self.var();
            match self.p.below(7) {
                0 => format!("{} + 1", v),
                1 => "1".to_string(),
                2 => "'txt'".to_string(),
                3 => format!("{} * 2", v),
                4 => "[1,2,3]".to_string(),
                5 => "{'a':1}".to_string(),
                // never the bare variable: `a = a` blocks for ever on its own mutex (finding P4 of C11)
                _ => format!("{} + 0", v),
            }
        } else {
            match self.p.below(6) {
                0 => self.long_text(),
                1 => String::new(),
                _ => format!("{} {}", self.text(), self.text()),
            }
        }
    }

    fn cond(&mut self) -> String {
        if self.behave {
            let v = self.var();
            let n = self.names.len() as u64;
            match self.p.below(6) {
                0 => format!("{} == 1", v),
                1 => format!("{} >= 2", v),
                2 => "true".to_string(),
                3 => "false".to_string(),
                4 => format!("In('{}')", self.names[self.p.below(n) as usize]),
                _ => format!("{} <= 3", v),
            }
        } else {
            self.expr()
        }
    }

    fn var(&mut self) -> String {
        if self.vars.is_empty() {
            "v0".to_string()
        } else {
            self.p.pick(&self.vars).clone()
        }
    }

    fn long_text(&mut self) -> String {
        let lens: &[usize] = if self.big {
            &[15, 16, 17, 255, 256, 4094, 4095, 4096, 4097, 5000, 8192, 70000]
        } else {
            &[15, 16, 17, 100, 255, 256, 257, 1000, 4094, 4095]
        };
        let len = *self.p.pick(lens);
        self.cnt(&format!("long_text_len_{}", len));
        let unit = *self.p.pick(&["a", "é", "日", "𝄞", "ab é"]);
        let mut s = String::new();
        if self.p.chance(1, 2) {
            s.push('x');
        }
        while s.len() + unit.len() <= len {
            s.push_str(unit);
        }
        while s.len() < len {
            s.push('_');
        }
        s
    }

    fn target(&mut self) -> String {
        let n = self.names.len() as u64;
        self.names[self.p.below(n) as usize].clone()
    }

    // ---------------------------------------------------------------- executable content

    fn params_or_content(&mut self, o: &mut String, allow_content: bool) {
        match self.p.below(4) {
            0 if allow_content => {
                if self.p.chance(1, 2) {
                    o.push_str(&format!("<content expr=\"{}\"/>", xml_attr(&self.expr())));
                    self.cnt("content_expr");
                } else {
                    let t = if self.behave { "some text".to_string() } else { self.plain_text() };
                    o.push_str(&format!("<content>{}</content>", t));
                    self.cnt("content_text");
                }
            }
            1 | 2 => {
                for _ in 0..self.p.range(1, 3) {
                    if self.p.chance(1, 2) {
                        o.push_str(&format!(
                            "<param name=\"{}\" expr=\"{}\"/>",
                            xml_attr(&self.ident()),
                            xml_attr(&self.expr())
                        ));
                        self.cnt("param_expr");
                    } else {
                        o.push_str(&format!(
                            "<param name=\"{}\" location=\"{}\"/>",
                            xml_attr(&self.ident()),
                            xml_attr(&self.var())
                        ));
                        self.cnt("param_location");
                    }
                }
            }
            _ => {}
        }
    }

    fn ident(&mut self) -> String {
        if self.behave {
            format!("p{}", self.p.below(4))
        } else {
            let t = self.text();
            if t.is_empty() {
                "n".to_string()
            } else {
                t
            }
        }
    }

    /// element text: the reader takes the raw source span, so no markup characters
    fn plain_text(&mut self) -> String {
        let t = match self.p.below(4) {
            0 => self.long_text(),
            _ => format!("{} {}", self.text(), self.text()),
        };
        t.replace(['<', '&', '>'], "_")
    }

    fn send(&mut self, o: &mut String) {
        self.cnt("ec_send");
        let mut a = String::new();
        if self.behave {
            a.push_str(&format!(" event=\"{}\"", *self.p.pick(TRIGGERS)));
            // always the internal queue: an event sent to the own external queue races with the events
            // the harness pre-queues, which would make the trace depend on thread timing
            a.push_str(" target=\"#_internal\"");
            match self.p.below(3) {
                0 => a.push_str(&format!(" id=\"sid{}\"", self.p.below(5))),
                _ => {}
            }
            if self.p.chance(1, 4) {
                a.push_str(&format!(" namelist=\"{}\"", self.var()));
            }
        } else {
            match self.p.below(3) {
                0 => a.push_str(&format!(" event=\"{}\"", xml_attr(&self.text()))),
                1 => a.push_str(&format!(" eventexpr=\"{}\"", xml_attr(&self.expr()))),
                _ => {}
            }
            match self.p.below(3) {
                0 => a.push_str(&format!(" target=\"{}\"", xml_attr(&self.text()))),
                1 => a.push_str(&format!(" targetexpr=\"{}\"", xml_attr(&self.expr()))),
                _ => {}
            }
            match self.p.below(3) {
                0 => a.push_str(&format!(" type=\"{}\"", xml_attr(&self.text()))),
                1 => a.push_str(&format!(" typeexpr=\"{}\"", xml_attr(&self.expr()))),
                _ => {}
            }
            match self.p.below(3) {
                0 => a.push_str(&format!(" id=\"{}\"", xml_attr(&self.text()))),
                1 => a.push_str(&format!(" idlocation=\"{}\"", xml_attr(&self.text()))),
                _ => {}
            }
            match self.p.below(3) {
                0 => {
                    let d = *self.p.pick(&["0s", "15ms", "1s", "4095ms", "4096ms", "2m", "1h", "7d", "1048576ms", "12345678s"]);
                    a.push_str(&format!(" delay=\"{}\"", d));
                    self.cnt("send_delay");
                }
                1 => a.push_str(&format!(" delayexpr=\"{}\"", xml_attr(&self.expr()))),
                _ => {}
            }
            if self.p.chance(1, 3) {
                a.push_str(&format!(" namelist=\"{} {}\"", xml_attr(&self.ident()), xml_attr(&self.ident())));
            }
        }
        if self.behave {
            o.push_str(BUDGET_OPEN);
        }
        o.push_str(&format!("<send{}>", a));
        self.params_or_content(o, true);
        o.push_str("</send>");
        if self.behave {
            o.push_str("</if>");
        }
    }

    pub fn content(&mut self, o: &mut String, depth: u32, in_finalize: bool) {
        let n = if self.small { self.p.range(0, 2) } else { self.p.range(0, 3) };
        for _ in 0..n {
            let k = self.p.below(if depth >= 3 || (self.small && depth >= 1) { 6 } else { 9 });
            match k {
                0 if !in_finalize => {
                    self.cnt("ec_raise");
                    let e = if self.behave { self.p.pick(TRIGGERS).to_string() } else { self.text() };
                    if self.behave {
                        o.push_str(BUDGET_OPEN);
                    }
                    o.push_str(&format!("<raise event=\"{}\"/>", xml_attr(&e)));
                    if self.behave {
                        o.push_str("</if>");
                    }
                }
                1 => {
                    self.cnt("ec_log");
                    let l = *self.p.pick(LABELS);
                    if l.is_empty() {
                        o.push_str(&format!("<log expr=\"{}\"/>", xml_attr(&self.expr())));
                    } else {
                        o.push_str(&format!("<log label=\"{}\" expr=\"{}\"/>", xml_attr(l), xml_attr(&self.expr())));
                    }
                }
                2 => {
                    self.cnt("ec_assign");
                    if self.behave || self.p.chance(2, 3) {
                        o.push_str(&format!(
                            "<assign location=\"{}\" expr=\"{}\"/>",
                            xml_attr(&self.var()),
                            xml_attr(&self.expr())
                        ));
                    } else {
                        let t = self.plain_text();
                        o.push_str(&format!("<assign location=\"{}\">{}</assign>", xml_attr(&self.var()), t));
                    }
                }
                3 => {
                    self.cnt("ec_script");
                    let t = if self.behave { format!("{} = {}", self.var(), self.expr()) } else { self.plain_text() };
                    o.push_str(&format!("<script>{}</script>", t.replace(['<', '&', '>'], "_")));
                }
                4 if !in_finalize => {
                    self.cnt("ec_cancel");
                    if self.p.chance(1, 2) {
                        let id = if self.behave { format!("sid{}", self.p.below(5)) } else { self.text() };
                        o.push_str(&format!("<cancel sendid=\"{}\"/>", xml_attr(&id)));
                    } else {
                        let e = if self.behave { "'sid1'".to_string() } else { self.expr() };
                        o.push_str(&format!("<cancel sendidexpr=\"{}\"/>", xml_attr(&e)));
                    }
                }
                5 if !in_finalize => self.send(o),
                6 | 7 => {
                    self.cnt("ec_if");
                    o.push_str(&format!("<if cond=\"{}\">", xml_attr(&self.cond())));
                    self.content(o, depth + 1, in_finalize);
                    let ne = self.p.below(3);
                    for _ in 0..ne {
                        self.cnt("ec_elseif");
                        o.push_str(&format!("<elseif cond=\"{}\"/>", xml_attr(&self.cond())));
                        self.content(o, depth + 1, in_finalize);
                    }
                    if self.p.chance(1, 2) {
                        self.cnt("ec_else");
                        o.push_str("<else/>");
                        self.content(o, depth + 1, in_finalize);
                    }
                    o.push_str("</if>");
                }
                8 => {
                    self.cnt("ec_foreach");
                    let arr = if self.behave { "[1,2]".to_string() } else { self.expr() };
                    let item = if self.behave { "it".to_string() } else { self.ident() };
                    if self.p.chance(1, 2) {
                        let idx = if self.behave { "ix".to_string() } else { self.ident() };
                        o.push_str(&format!(
                            "<foreach array=\"{}\" item=\"{}\" index=\"{}\">",
                            xml_attr(&arr),
                            xml_attr(&item),
                            xml_attr(&idx)
                        ));
                    } else {
                        o.push_str(&format!("<foreach array=\"{}\" item=\"{}\">", xml_attr(&arr), xml_attr(&item)));
                    }
                    self.content(o, depth + 1, in_finalize);
                    o.push_str("</foreach>");
                }
                _ => {}
            }
        }
    }

    // ---------------------------------------------------------------- states

    fn transition(&mut self, o: &mut String, eventless_ok: bool) {
        self.cnt("transition");
        let mut a = String::new();
        let has_event = !eventless_ok || self.p.chance(4, 5);
        if has_event {
            let ne = self.p.range(1, 2);
            let mut evs = Vec::new();
            for _ in 0..ne {
                let e = if self.behave || self.p.chance(2, 3) {
                    let suffix = *self.p.pick(&["", "", ".", ".*"]);
                    format!("{}{}", if self.behave { self.p.pick(TRIGGERS) } else { self.p.pick(EVENTS) }, suffix)
                } else if self.p.chance(1, 3) {
                    "*".to_string()
                } else {
                    self.text().replace(' ', "_")
                };
                if !e.is_empty() {
                    evs.push(e);
                }
            }
            if evs.is_empty() {
                evs.push("e1".into());
            }
            a.push_str(&format!(" event=\"{}\"", xml_attr(&evs.join(" "))));
        }
        if self.behave && !has_event {
            a.push_str(" cond=\"budget >= 1\"");
            self.cnt("transition_eventless");
        } else if self.p.chance(1, 3) || !has_event {
            a.push_str(&format!(" cond=\"{}\"", xml_attr(&self.cond())));
            self.cnt("transition_cond");
        }
        match self.p.below(5) {
            0 => self.cnt("transition_targetless"),
            1 if !self.behave => {
                a.push_str(&format!(" target=\"{} {}\"", xml_attr(&self.target()), xml_attr(&self.target())));
                self.cnt("transition_multi_target");
            }
            _ => a.push_str(&format!(" target=\"{}\"", xml_attr(&self.target()))),
        }
        match self.p.below(4) {
            0 => {
                a.push_str(" type=\"internal\"");
                self.cnt("transition_internal");
            }
            1 => a.push_str(" type=\"external\""),
            _ => {}
        }
        o.push_str(&format!("<transition{}>", a));
        if self.behave && !has_event {
            o.push_str("<assign location=\"budget\" expr=\"budget - 1\"/>");
        }
        self.content(o, 0, false);
        o.push_str("</transition>");
    }

    fn invoke(&mut self, o: &mut String) {
        self.cnt("invoke");
        let mut a = String::new();
        match self.p.below(3) {
            0 => a.push_str(&format!(" type=\"{}\"", xml_attr(&self.text()))),
            1 => a.push_str(&format!(" typeexpr=\"{}\"", xml_attr(&self.expr()))),
            _ => {}
        }
        let mut has_src = false;
        match self.p.below(3) {
            0 => {
                a.push_str(&format!(" src=\"{}\"", xml_attr(&self.text())));
                has_src = true;
            }
            1 => {
                a.push_str(&format!(" srcexpr=\"{}\"", xml_attr(&self.expr())));
                has_src = true;
            }
            _ => {}
        }
        match self.p.below(3) {
            0 => {
                a.push_str(&format!(" id=\"{}\"", xml_attr(&self.ident())));
                self.cnt("invoke_id");
            }
            1 => {
                a.push_str(&format!(" idlocation=\"{}\"", xml_attr(&self.ident())));
                self.cnt("invoke_idlocation");
            }
            _ => self.cnt("invoke_noid"),
        }
        if self.p.chance(1, 3) {
            a.push_str(&format!(" namelist=\"{}\"", xml_attr(&self.ident())));
        }
        if self.p.chance(1, 2) {
            a.push_str(if self.p.chance(1, 2) { " autoforward=\"true\"" } else { " autoforward=\"false\"" });
        }
        o.push_str(&format!("<invoke{}>", a));
        self.params_or_content(o, !has_src);
        if self.p.chance(1, 2) {
            self.cnt("invoke_finalize");
            o.push_str("<finalize>");
            self.content(o, 1, true);
            o.push_str("</finalize>");
        }
        o.push_str("</invoke>");
    }

    fn datamodel(&mut self, o: &mut String, prefix: &str) {
        let n = self.p.range(1, 3);
        o.push_str("<datamodel>");
        for i in 0..n {
            let id = format!("{}{}", prefix, i);
            self.cnt("data");
            if self.behave {
                o.push_str(&format!("<data id=\"{}\" expr=\"{}\"/>", id, self.p.below(4)));
            } else {
                match self.p.below(3) {
                    0 => o.push_str(&format!("<data id=\"{}\" expr=\"{}\"/>", id, xml_attr(&self.expr()))),
                    1 => {
                        let t = self.plain_text();
                        o.push_str(&format!("<data id=\"{}\">{}</data>", id, t));
                    }
                    _ => o.push_str(&format!("<data id=\"{}\"/>", id)),
                }
            }
            self.vars.push(id);
        }
        o.push_str("</datamodel>");
    }

    fn state(&mut self, n: &Node, o: &mut String) {
        match n.kind {
            Kind::History(deep) => {
                self.cnt("history");
                // the default transition targets a sibling; filled by the caller through `hist_target`
                o.push_str(&format!(
                    "<history id=\"{}\"{}>",
                    xml_attr(&n.name),
                    if deep {
                        " type=\"deep\""
                    } else if self.p.chance(1, 2) {
                        " type=\"shallow\""
                    } else {
                        ""
                    }
                ));
                let t = self.hist_target.clone();
                o.push_str(&format!("<transition target=\"{}\">", xml_attr(&t)));
                self.content(o, 1, false);
                o.push_str("</transition></history>");
                return;
            }
            Kind::Final => {
                self.cnt("final");
                o.push_str(&format!("<final id=\"{}\">", xml_attr(&n.name)));
                self.on_blocks(o);
                if self.p.chance(1, 2) {
                    self.cnt("donedata");
                    o.push_str("<donedata>");
                    self.params_or_content(o, true);
                    o.push_str("</donedata>");
                }
                o.push_str("</final>");
                return;
            }
            _ => {}
        }
        let tag = if n.kind == Kind::Parallel { "parallel" } else { "state" };
        self.cnt(tag);
        let real_children: Vec<&Node> = n.children.iter().filter(|c| !matches!(c.kind, Kind::History(_))).collect();
        let mut a = String::new();
        let mut initial_elem = false;
        if n.kind == Kind::State && !real_children.is_empty() {
            let first = real_children[self.p.below(real_children.len() as u64) as usize].name.clone();
            match self.p.below(3) {
                0 => {
                    a.push_str(&format!(" initial=\"{}\"", xml_attr(&first)));
                    self.cnt("initial_attr");
                }
                1 => {
                    initial_elem = true;
                    self.cnt("initial_element");
                }
                _ => self.cnt("initial_default"),
            }
            self.hist_target = first;
        } else if !real_children.is_empty() {
            self.hist_target = real_children[0].name.clone();
        }
        o.push_str(&format!("<{} id=\"{}\"{}>", tag, xml_attr(&n.name), a));
        if initial_elem {
            let t = self.hist_target.clone();
            o.push_str(&format!("<initial><transition target=\"{}\">", xml_attr(&t)));
            self.content(o, 1, false);
            o.push_str("</transition></initial>");
        }
        if self.p.chance(1, 4) {
            let pfx = format!("d{}_", self.next);
            self.next += 1;
            self.datamodel(o, &pfx);
        }
        self.on_blocks(o);
        for _ in 0..self.p.range(0, if self.small { 2 } else { 3 }) {
            self.transition(o, true);
        }
        if !self.behave && self.p.chance(1, 3) {
            for _ in 0..self.p.range(1, 2) {
                self.invoke(o);
            }
        }
        let ht = self.hist_target.clone();
        for c in &n.children {
            self.hist_target = ht.clone();
            self.state(c, o);
        }
        o.push_str(&format!("</{}>", tag));
    }

    fn on_blocks(&mut self, o: &mut String) {
        for _ in 0..self.p.below(3) {
            self.cnt("onentry");
            o.push_str("<onentry>");
            self.content(o, 0, false);
            o.push_str("</onentry>");
        }
        for _ in 0..self.p.below(3) {
            self.cnt("onexit");
            o.push_str("<onexit>");
            self.content(o, 0, false);
            o.push_str("</onexit>");
        }
    }

    pub fn document(&mut self) -> String {
        let nodes = self.tree(0, false, true);
        let dm = if self.behave {
            "rfsm-expression"
        } else {
            *self.p.pick(&["rfsm-expression", "null", "ecmascript", "rfsm-expression"])
        };
        let mut a = String::new();
        if self.p.chance(2, 3) {
            let nm = if self.behave { "M".to_string() } else { self.text() };
            a.push_str(&format!(" name=\"{}\"", xml_attr(&nm)));
        }
        match self.p.below(3) {
            0 => {
                a.push_str(" binding=\"late\"");
                self.cnt("binding_late");
            }
            1 => a.push_str(" binding=\"early\""),
            _ => {}
        }
        if self.p.chance(1, 2) {
            let first: Vec<&Node> = nodes.iter().collect();
            a.push_str(&format!(" initial=\"{}\"", xml_attr(&first[self.p.below(first.len() as u64) as usize].name)));
        }
        let mut o = format!(
            "<scxml xmlns=\"http://www.w3.org/2005/07/scxml\" version=\"1.0\" datamodel=\"{}\"{}>",
            dm, a
        );
        self.vars.clear();
        self.datamodel(&mut o, "v");
        if self.behave {
            o.push_str("<datamodel><data id=\"budget\" expr=\"6\"/></datamodel>");
        }
        if self.p.chance(1, 3) {
            self.cnt("global_script");
            let t = if self.behave { "v0 = 2".to_string() } else { self.plain_text() };
            o.push_str(&format!("<script>{}</script>", t));
        }
        for n in &nodes {
            self.hist_target = String::new();
            self.state(n, &mut o);
        }
        o.push_str("</scxml>");
        o
    }
}

