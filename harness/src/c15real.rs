//! C15 on the real data models, two routes the `c15` world scenarios do not take:
//!  (1) a DELAYED `<send>` without target goes through the SCXML event I/O processor like an
//!      immediate one: the event in the sender's external queue carries `origintype` and `origin`,
//!      and a reply addressed to that origin comes back;
//!  (2) a `<send>` to the session id of a session that is registered but has not started to run yet
//!      (its thread is still starting) is queued and processed once the session runs — the queue
//!      exists from the moment the session is registered.
use crate::obs::{mark_actions, RecTracer};
use crate::report::Report;
use rufsm::fsm::{self, Event, FinishMode, EVENT_CANCEL_SESSION};
use rufsm::fsm_executor::FsmExecutor;
use serde_json::json;
use std::time::{Duration, Instant};

fn marks(log: &crate::obs::Log) -> Vec<String> {
    log.lock().unwrap_or_else(|e| e.into_inner()).iter().filter_map(|l| l.strip_prefix("mark ").map(|r| r.split(" cfg=").next().unwrap_or("").to_string())).collect()
}

fn wait_marks(log: &crate::obs::Log, n: usize, t: Duration) {
    let s = Instant::now();
    while marks(log).len() < n && s.elapsed() < t {
        std::thread::sleep(Duration::from_millis(1));
    }
}

fn delayed_origin(dm: &str, how: &str, rep: &mut Report) {
    rep.evaluations += 1;
    rep.count("real_delayed_send_origin");
    let send = match how {
        "immediate" => "<send event=\"ping\"/>",
        "delay" => "<send event=\"ping\" delay=\"25ms\"/>",
        _ => "<send event=\"ping\" delayexpr=\"'25ms'\"/>",
    };
    let xml = format!(
        "<scxml xmlns=\"http://www.w3.org/2005/07/scxml\" version=\"1.0\" datamodel=\"{dm}\" name=\"m\" initial=\"s0\">\
         <state id=\"s0\"><onentry>{send}</onentry>\
           <transition event=\"ping\"><script>mark('ping', _event.origintype, _event.origin, _sessionid)</script>\
             <send event=\"pong\" targetexpr=\"_event.origin\"/></transition>\
           <transition event=\"pong\"><script>mark('pong')</script></transition>\
           <transition event=\"error.*\"><script>mark('error', _event.name)</script></transition></state></scxml>",
        dm = dm,
        send = send
    );
    let fsm = match crate::int::parse(&xml) {
        Ok(f) => f,
        Err(e) => {
            rep.disagree(json!({"xml": xml, "reader_error": e}));
            return;
        }
    };
    let mut fsm = fsm;
    let (tracer, log) = RecTracer::new(true);
    fsm.tracer = Box::new(tracer);
    let executor = FsmExecutor::new_without_io_processor();
    let mut session = fsm::start_fsm_with_data_and_finish_mode(fsm, mark_actions(&log), Box::new(executor), &[], FinishMode::KEEP_CONFIGURATION);
    let h = session.thread.take().unwrap();
    wait_marks(&log, 2, Duration::from_secs(3));
    std::thread::sleep(Duration::from_millis(20));
    let _ = session.sender.send(Box::new(Event::new_simple(EVENT_CANCEL_SESSION)));
    let s2 = Instant::now();
    while !h.is_finished() && s2.elapsed() < Duration::from_secs(5) {
        std::thread::sleep(Duration::from_millis(1));
    }
    let ms = marks(&log);
    let info = json!({"datamodel": dm, "how": how, "xml": xml, "marks": ms});
    let ping: Option<Vec<String>> = ms.iter().find(|m| m.starts_with("ping|")).map(|m| m.split('|').map(|x| x.to_string()).collect());
    match ping {
        None => rep.oracle_fail(&format!("C15:delayed-self-send:{}:not-delivered", how), info),
        Some(f) => {
            let sid = f.get(3).cloned().unwrap_or_default();
            let ot_ok = f.get(1).map(|x| x == "http://www.w3.org/TR/scxml/#SCXMLEventProcessor").unwrap_or(false);
            let o_ok = f.get(2).map(|x| *x == format!("#_scxml_{}", sid)).unwrap_or(false);
            if !ot_ok || !o_ok {
                rep.oracle_fail(&format!("C15:delayed-self-send:{}:origin-fields", how), info);
            } else if !ms.iter().any(|m| m == "pong") {
                rep.oracle_fail(&format!("C15:delayed-self-send:{}:reply-by-origin-lost", how), info);
            } else {
                rep.nontrivial.insert(format!("c15real|origin|{}|{}", dm, how));
            }
        }
    }
}

fn send_to_starting_session(dm: &str, rep: &mut Report) {
    rep.evaluations += 1;
    rep.count("real_send_to_starting_session");
    let target_xml = format!(
        "<scxml xmlns=\"http://www.w3.org/2005/07/scxml\" version=\"1.0\" datamodel=\"{dm}\" name=\"b\" initial=\"s0\">\
         <state id=\"s0\"><transition event=\"hello\"><script>mark('b-got-hello')</script></transition></state></scxml>",
        dm = dm
    );
    let executor = FsmExecutor::new_without_io_processor();
    // B starts slowly: 300 ms between its registration and the start of `interpret`
    let mut fb = match crate::int::parse(&target_xml) {
        Ok(f) => f,
        Err(e) => {
            rep.disagree(json!({"xml": target_xml, "reader_error": e}));
            return;
        }
    };
    let (mut tb, logb) = RecTracer::new(true);
    tb.start_delay_ms = 300;
    fb.tracer = Box::new(tb);
    let mut sb = fsm::start_fsm_with_data_and_finish_mode(fb, mark_actions(&logb), Box::new(executor.clone()), &[], FinishMode::KEEP_CONFIGURATION);
    let hb = sb.thread.take().unwrap();
    let sender_xml = format!(
        "<scxml xmlns=\"http://www.w3.org/2005/07/scxml\" version=\"1.0\" datamodel=\"{dm}\" name=\"a\" initial=\"s0\">\
         <state id=\"s0\"><onentry><send event=\"hello\" target=\"#_scxml_{sid}\"/></onentry>\
           <transition event=\"error.*\"><script>mark('a-error', _event.name)</script></transition></state></scxml>",
        dm = dm,
        sid = sb.session_id
    );
    let mut fa = match crate::int::parse(&sender_xml) {
        Ok(f) => f,
        Err(e) => {
            rep.disagree(json!({"xml": sender_xml, "reader_error": e}));
            return;
        }
    };
    let (ta, loga) = RecTracer::new(true);
    fa.tracer = Box::new(ta);
    let mut sa = fsm::start_fsm_with_data_and_finish_mode(fa, mark_actions(&loga), Box::new(executor.clone()), &[], FinishMode::KEEP_CONFIGURATION);
    let ha = sa.thread.take().unwrap();
    wait_marks(&logb, 1, Duration::from_secs(3));
    std::thread::sleep(Duration::from_millis(30));
    let _ = sa.sender.send(Box::new(Event::new_simple(EVENT_CANCEL_SESSION)));
    let _ = sb.sender.send(Box::new(Event::new_simple(EVENT_CANCEL_SESSION)));
    let s2 = Instant::now();
    while (!ha.is_finished() || !hb.is_finished()) && s2.elapsed() < Duration::from_secs(5) {
        std::thread::sleep(Duration::from_millis(1));
    }
    let (ma, mb) = (marks(&loga), marks(&logb));
    let info = json!({"datamodel": dm, "sender_xml": sender_xml, "target_xml": target_xml, "sender_marks": ma, "target_marks": mb});
    if !mb.iter().any(|m| m == "b-got-hello") {
        rep.oracle_fail("C15:send-to-starting-session:not-delivered", info);
    } else if ma.iter().any(|m| m.starts_with("a-error")) {
        rep.oracle_fail("C15:send-to-starting-session:error-event-although-delivered", info);
    } else {
        rep.nontrivial.insert(format!("c15real|starting|{}", dm));
    }
}

pub fn run(rep: &mut Report) {
    for dm in ["rfsm-expression", "ecmascript"] {
        for how in ["immediate", "delay", "delayexpr"] {
            delayed_origin(dm, how, rep);
        }
        send_to_starting_session(dm, rep);
    }
}
