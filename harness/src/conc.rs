//! C13 / C15 — families `c13` (producers / FIFO / one consumer against a real session) and `c15`
//! (routing of `<send>` through the SCXML event I/O processor between real sessions).
//!
//! Observation goes through public API only: a recording `Tracer` (own type, installed directly on
//! harness-parsed FSMs and through `tracer::set_tracer_factory` on invoked children), and custom
//! `Action`s (`mark`, `rec`) registered in the `ActionWrapper`.
use crate::prng::Prng;
use crate::proto::{hex, hexs, Model};
use crate::report::Report;
use crate::Args;
use rufsm::actions::{Action, ActionWrapper};
use rufsm::datamodel::Data;
use rufsm::fsm::{self, Event, FinishMode, GlobalData, ScxmlSession, State, EVENT_CANCEL_SESSION};
use rufsm::fsm_executor::FsmExecutor;
use rufsm::scxml_reader;
use rufsm::tracer::{TraceMode, Tracer, TracerFactory};
use serde_json::{json, Value};
use std::collections::{BTreeMap, HashMap};
use std::fmt::{Debug, Display};
use std::sync::atomic::{AtomicU64, Ordering};
use std::sync::{Arc, Barrier, Mutex, OnceLock};
use std::time::{Duration, Instant};

// ------------------------------------------------------------------------------------------
// observation
// ------------------------------------------------------------------------------------------

#[derive(Clone, Debug)]
pub enum Rec {
    DeqStart,
    DeqEnd,
    Ext(Event),
    Int(Event),
    State(String, String),
    Mark(Vec<String>),
}
pub type RLog = Arc<Mutex<Vec<Rec>>>;

fn rl_push(l: &RLog, r: Rec) {
    l.lock().unwrap_or_else(|e| e.into_inner()).push(r);
}
fn rl_snapshot(l: &RLog) -> Vec<Rec> {
    l.lock().unwrap_or_else(|e| e.into_inner()).clone()
}

pub struct ConcTracer {
    pub log: RLog,
}
impl Debug for ConcTracer {
    fn fmt(&self, f: &mut std::fmt::Formatter<'_>) -> std::fmt::Result {
        write!(f, "ConcTracer")
    }
}
impl ConcTracer {
    pub fn new() -> (ConcTracer, RLog) {
        let log: RLog = Arc::new(Mutex::new(Vec::new()));
        (ConcTracer { log: log.clone() }, log)
    }
}
impl Tracer for ConcTracer {
    fn trace(&self, _msg: &str) {}
    fn enter(&self) {}
    fn leave(&self) {}
    fn enable_trace(&mut self, _flag: TraceMode) {}
    fn disable_trace(&mut self, _flag: TraceMode) {}
    fn is_trace(&self, _flag: TraceMode) -> bool {
        true
    }
    fn enter_method(&self, what: &str) {
        if what == "externalQueue.dequeue" {
            rl_push(&self.log, Rec::DeqStart);
        }
    }
    fn exit_method(&self, what: &str) {
        if what == "externalQueue.dequeue" {
            rl_push(&self.log, Rec::DeqEnd);
        }
    }
    fn event_internal_send(&self, _what: &Event) {}
    fn event_internal_received(&self, what: &Event) {
        rl_push(&self.log, Rec::Int(what.clone()));
    }
    fn event_external_send(&self, _what: &Event) {}
    fn event_external_received(&mut self, what: &Event) {
        rl_push(&self.log, Rec::Ext(what.clone()));
    }
    fn trace_state(&self, what: &str, s: &State) {
        rl_push(&self.log, Rec::State(what.to_lowercase(), s.name.clone()));
    }
    fn trace_argument(&self, _what: &str, _d: &dyn Display) {}
    fn trace_result(&self, _what: &str, _d: &dyn Display) {}
    fn trace_mode(&self) -> TraceMode {
        TraceMode::ALL
    }
}

/// every `Fsm::new()` (also the ones the platform creates for invoked children) gets a recording
/// tracer whose log is kept in this registry; a child's log is recognised by the name of the first
/// state it enters
fn registry() -> &'static Arc<Mutex<Vec<RLog>>> {
    static R: OnceLock<Arc<Mutex<Vec<RLog>>>> = OnceLock::new();
    R.get_or_init(|| Arc::new(Mutex::new(Vec::new())))
}
struct ConcFactory;
impl TracerFactory for ConcFactory {
    fn create(&mut self) -> Box<dyn Tracer> {
        let (t, log) = ConcTracer::new();
        registry().lock().unwrap().push(log);
        Box::new(t)
    }
}
fn install_factory() {
    rufsm::tracer::set_tracer_factory(Box::new(ConcFactory));
}
fn registry_clear() {
    registry().lock().unwrap().clear();
}
/// the log of the (factory-made) tracer of the session whose first entered state is `state`
fn registry_find(state: &str) -> Option<RLog> {
    for l in registry().lock().unwrap().iter() {
        for r in l.lock().unwrap_or_else(|e| e.into_inner()).iter() {
            if let Rec::State(w, n) = r {
                if w == "enter" {
                    if n == state {
                        return Some(l.clone());
                    }
                    break;
                }
            }
        }
    }
    None
}

pub fn canon(d: &Data) -> String {
    match d {
        Data::Integer(i) => format!("i:{}", i),
        Data::Double(f) => format!("d:{:016x}", f.to_bits()),
        Data::String(s) => format!("s:{}", s),
        Data::Boolean(b) => format!("b:{}", b),
        Data::Array(a) => {
            let v: Vec<String> = a.iter().map(|x| canon(&x.lock().unwrap())).collect();
            format!("[{}]", v.join(","))
        }
        Data::Map(m) => {
            let mut v: Vec<String> =
                m.iter().map(|(k, x)| format!("{}={}", k, canon(&x.lock().unwrap()))).collect();
            v.sort();
            format!("{{{}}}", v.join(","))
        }
        Data::Null() => "null".to_string(),
        Data::Error(e) => format!("error:{}", e),
        Data::Source(s) => format!("src:{}", s),
        Data::None() => "none".to_string(),
    }
}

/// `mark(a, b, …)`: appends the canonical text of its arguments to the session's log; optionally
/// burns a little time so that the queue fills up behind a macrostep in progress
#[derive(Clone)]
pub struct MarkAction {
    pub log: RLog,
    pub slow: u64,
    pub state: Arc<AtomicU64>,
}
impl Action for MarkAction {
    fn execute(&self, arguments: &[Data], _global: &GlobalData) -> Result<Data, String> {
        let s: Vec<String> = arguments.iter().map(canon).collect();
        rl_push(&self.log, Rec::Mark(s));
        if self.slow > 0 {
            let x = self.state.fetch_add(0x9E37_79B9_7F4A_7C15, Ordering::Relaxed);
            let r = (x >> 33) % 8;
            if r < self.slow {
                spin(Duration::from_micros(5 + (x >> 40) % 60));
            }
        }
        Ok(Data::Boolean(true))
    }
    fn get_copy(&self) -> Box<dyn Action> {
        Box::new(self.clone())
    }
}

fn spin(d: Duration) {
    let t = Instant::now();
    while t.elapsed() < d {
        std::hint::spin_loop();
    }
}

fn wait_until<F: FnMut() -> bool>(timeout: Duration, mut f: F) -> bool {
    let t = Instant::now();
    loop {
        if f() {
            return true;
        }
        if t.elapsed() > timeout {
            return false;
        }
        std::thread::sleep(Duration::from_micros(150));
    }
}

fn cancel_all(executor: &FsmExecutor) {
    let senders: Vec<_> = {
        let g = executor.state.lock().unwrap_or_else(|e| e.into_inner());
        g.sessions.values().map(|s| s.sender.clone()).collect()
    };
    for s in senders {
        let _ = s.send(Box::new(Event::new_simple(EVENT_CANCEL_SESSION)));
    }
}

fn join_session(s: &mut ScxmlSession, timeout: Duration) -> (bool, bool) {
    // (panicked, timed_out)
    if let Some(h) = s.thread.take() {
        let ok = wait_until(timeout, || h.is_finished());
        if !ok {
            return (false, true);
        }
        return (h.join().is_err(), false);
    }
    (false, false)
}

const XMLNS: &str = "xmlns=\"http://www.w3.org/2005/07/scxml\" version=\"1.0\" datamodel=\"rfsm-expression\"";

// ------------------------------------------------------------------------------------------
// C13
// ------------------------------------------------------------------------------------------

#[derive(Clone, Debug, PartialEq)]
pub enum PK {
    /// `session.sender.clone()`
    Clone,
    /// `FsmExecutor::send_to_session`
    Exec,
    /// another session's `<send target="#_scxml_ID">`
    Sess,
}

#[derive(Clone, Debug)]
pub struct PEvent {
    pub name: String,
    pub inv: Option<String>,
}

#[derive(Clone, Debug)]
pub struct Producer {
    pub kind: PK,
    pub events: Vec<PEvent>,
    pub jitter: u64,
    pub jseed: u64,
}

#[derive(Clone, Debug)]
pub struct C13Case {
    pub prods: Vec<Producer>,
    pub with_child: bool,
    pub slow: u64,
}

fn pk_name(k: &PK) -> &'static str {
    match k {
        PK::Clone => "clone",
        PK::Exec => "exec",
        PK::Sess => "sess",
    }
}

fn c13_case_json(c: &C13Case) -> Value {
    json!({
        "with_child": c.with_child,
        "slow": c.slow,
        "prods": c.prods.iter().map(|p| json!({
            "kind": pk_name(&p.kind), "jitter": p.jitter, "jseed": p.jseed,
            "events": p.events.iter().map(|e| json!([e.name, e.inv])).collect::<Vec<_>>()
        })).collect::<Vec<_>>()
    })
}

fn c13_case_from_json(v: &Value) -> C13Case {
    C13Case {
        with_child: v["with_child"].as_bool().unwrap_or(false),
        slow: v["slow"].as_u64().unwrap_or(0),
        prods: v["prods"]
            .as_array()
            .unwrap()
            .iter()
            .map(|p| Producer {
                kind: match p["kind"].as_str().unwrap() {
                    "clone" => PK::Clone,
                    "exec" => PK::Exec,
                    _ => PK::Sess,
                },
                jitter: p["jitter"].as_u64().unwrap_or(0),
                jseed: p["jseed"].as_u64().unwrap_or(1),
                events: p["events"]
                    .as_array()
                    .unwrap()
                    .iter()
                    .map(|e| PEvent {
                        name: e[0].as_str().unwrap().to_string(),
                        inv: e[1].as_str().map(|s| s.to_string()),
                    })
                    .collect(),
            })
            .collect(),
    }
}

fn consumer_xml(with_child: bool) -> String {
    let inv = if with_child {
        format!(
            "<invoke id=\"c1\" type=\"scxml\"><content><scxml {} initial=\"idle\"><state id=\"idle\"/></scxml></content></invoke>",
            XMLNS
        )
    } else {
        String::new()
    };
    format!(
        "<scxml {} initial=\"s\"><datamodel><data id=\"n\" expr=\"0\"/></datamodel><state id=\"s\">{}\
         <transition event=\"*\"><log expr=\"mark(_event.name, n)\"/><assign location=\"n\" expr=\"n + 1\"/></transition>\
         </state></scxml>",
        XMLNS, inv
    )
}

fn producer_xml(target_sid: u32, events: &[PEvent]) -> String {
    let mut sends = String::new();
    for e in events {
        sends.push_str(&format!("<send event=\"{}\" target=\"#_scxml_{}\"/>", e.name, target_sid));
    }
    format!(
        "<scxml {} initial=\"p\"><state id=\"p\"><transition event=\"go\">{}<log expr=\"mark('pdone')\"/></transition></state></scxml>",
        XMLNS, sends
    )
}

fn jitter(mode: u64, p: &mut Prng) {
    match mode {
        0 => {}
        1 => std::thread::yield_now(),
        2 => spin(Duration::from_micros(p.below(40))),
        3 => {
            if p.chance(1, 6) {
                std::thread::sleep(Duration::from_micros(p.below(150)));
            }
        }
        _ => {
            if p.chance(1, 10) {
                spin(Duration::from_micros(100 + p.below(300)));
            }
        }
    }
}

struct Started {
    session: ScxmlSession,
    log: RLog,
}

fn start_doc(xml: &str, executor: &FsmExecutor, slow: u64) -> Result<Started, String> {
    let mut fsm = scxml_reader::parse_from_xml(xml.to_string())?;
    let (tracer, log) = ConcTracer::new();
    fsm.tracer = Box::new(tracer);
    let mut actions = ActionWrapper::new();
    actions.add_action(
        "mark",
        Box::new(MarkAction { log: log.clone(), slow, state: Arc::new(AtomicU64::new(0x1234_5678)) }),
    );
    let session = fsm::start_fsm_with_data_and_finish_mode(
        fsm,
        actions,
        Box::new(executor.clone()),
        &[],
        FinishMode::KEEP_CONFIGURATION,
    );
    Ok(Started { session, log })
}

fn count_deq_start(l: &RLog) -> usize {
    l.lock().unwrap_or_else(|e| e.into_inner()).iter().filter(|r| matches!(r, Rec::DeqStart)).count()
}
fn has_mark(l: &RLog, first: &str) -> bool {
    l.lock()
        .unwrap_or_else(|e| e.into_inner())
        .iter()
        .any(|r| matches!(r, Rec::Mark(v) if v.first().map(|s| s.as_str()) == Some(first)))
}

pub struct C13Obs {
    /// per dequeue segment: (event name, invoke id, the records between `ext` and the next dequeue)
    pub segments: Vec<(String, Option<String>, Vec<String>)>,
    pub structure_errors: Vec<String>,
    pub panicked: bool,
    pub timed_out: bool,
}

const END_MARK: &str = "zz.end";

/// runs the real sessions for one case
fn c13_run_impl(c: &C13Case) -> Result<C13Obs, String> {
    let executor = FsmExecutor::new_without_io_processor();
    let mut consumer = start_doc(&consumer_xml(c.with_child), &executor, c.slow)?;
    let clog = consumer.log.clone();
    if !wait_until(Duration::from_secs(20), || count_deq_start(&clog) >= 1) {
        cancel_all(&executor);
        return Err("consumer did not reach its first dequeue".into());
    }
    if c.with_child {
        // the child is registered before the parent's first dequeue (invoke precedes it)
        let n = executor.state.lock().unwrap().sessions.len();
        if n < 2 {
            cancel_all(&executor);
            return Err("child session not registered".into());
        }
    }
    let csid = consumer.session.session_id;
    // producer sessions
    let mut psessions: Vec<Option<Started>> = Vec::new();
    for p in &c.prods {
        if p.kind == PK::Sess {
            let st = start_doc(&producer_xml(csid, &p.events), &executor, 0)?;
            let l = st.log.clone();
            if !wait_until(Duration::from_secs(20), || count_deq_start(&l) >= 1) {
                cancel_all(&executor);
                return Err("producer session did not start".into());
            }
            psessions.push(Some(st));
        } else {
            psessions.push(None);
        }
    }
    let barrier = Arc::new(Barrier::new(c.prods.len()));
    let mut handles = Vec::new();
    for (i, p) in c.prods.iter().enumerate() {
        let p = p.clone();
        let b = barrier.clone();
        let sender = consumer.session.sender.clone();
        let ex = executor.clone();
        let go = psessions[i].as_ref().map(|s| s.session.sender.clone());
        handles.push(std::thread::spawn(move || {
            let mut rng = Prng::new(p.jseed);
            b.wait();
            match p.kind {
                PK::Clone => {
                    for e in &p.events {
                        let mut ev = Event::new_simple(&e.name);
                        ev.invoke_id = e.inv.clone();
                        let _ = sender.send(Box::new(ev));
                        jitter(p.jitter, &mut rng);
                    }
                }
                PK::Exec => {
                    for e in &p.events {
                        let mut ev = Event::new_simple(&e.name);
                        ev.invoke_id = e.inv.clone();
                        let _ = ex.send_to_session(csid, ev);
                        jitter(p.jitter, &mut rng);
                    }
                }
                PK::Sess => {
                    jitter(p.jitter, &mut rng);
                    let _ = go.unwrap().send(Box::new(Event::new_simple("go")));
                }
            }
        }));
    }
    for h in handles {
        let _ = h.join();
    }
    let mut timed_out = false;
    for s in psessions.iter().flatten() {
        let l = s.log.clone();
        if !wait_until(Duration::from_secs(60), || has_mark(&l, "s:pdone")) {
            timed_out = true;
        }
    }
    let _ = consumer.session.sender.send(Box::new(Event::new_simple(END_MARK)));
    if !wait_until(Duration::from_secs(120), || has_mark(&clog, &format!("s:{}", END_MARK))) {
        timed_out = true;
    }
    cancel_all(&executor);
    let (panicked, to2) = join_session(&mut consumer.session, Duration::from_secs(20));
    timed_out |= to2;
    for s in psessions.iter_mut().flatten() {
        let _ = join_session(&mut s.session, Duration::from_secs(20));
    }
    // segment the consumer's log
    let recs = rl_snapshot(&clog);
    let mut segments: Vec<(String, Option<String>, Vec<String>)> = Vec::new();
    let mut errs = Vec::new();
    #[derive(PartialEq)]
    enum Ph {
        Start,
        InDeq,
        AfterDeq,
        InSeg,
    }
    let mut ph = Ph::Start;
    for r in &recs {
        match r {
            Rec::DeqStart => {
                if ph == Ph::InDeq || ph == Ph::AfterDeq {
                    errs.push("dequeue started twice without an event".to_string());
                }
                ph = Ph::InDeq;
            }
            Rec::DeqEnd => {
                if ph != Ph::InDeq {
                    errs.push("dequeue end without start".to_string());
                }
                ph = Ph::AfterDeq;
            }
            Rec::Ext(e) => {
                if ph != Ph::AfterDeq {
                    errs.push(format!("external event {} received outside a dequeue", e.name));
                }
                segments.push((e.name.clone(), e.invoke_id.clone(), vec![format!("e:{}", hexs(&e.name))]));
                ph = Ph::InSeg;
            }
            Rec::Int(e) => {
                if let Some(s) = segments.last_mut() {
                    s.2.push(format!("int:{}", e.name));
                }
            }
            Rec::State(w, n) => {
                if ph == Ph::InSeg {
                    segments.last_mut().unwrap().2.push(format!("{}:{}", w, n));
                }
            }
            Rec::Mark(v) => {
                if ph != Ph::InSeg {
                    errs.push(format!("mark {:?} outside a macrostep segment", v));
                } else if v.len() == 2 && v[0].starts_with("s:") && v[1].starts_with("i:") {
                    segments.last_mut().unwrap().2.push(format!("m:{}:{}", hexs(&v[0][2..]), &v[1][2..]));
                } else {
                    segments.last_mut().unwrap().2.push(format!("mark?{:?}", v));
                }
            }
        }
    }
    Ok(C13Obs { segments, structure_errors: errs, panicked, timed_out })
}

fn tok(e: &PEvent) -> String {
    // one opaque token per event for the merge oracle: name, and the invoke id if any
    match &e.inv {
        None => hexs(&e.name),
        Some(i) => format!("{}00{}", hexs(&e.name), if i.is_empty() { "ff".to_string() } else { hexs(i) }),
    }
}

fn c13_check(c: &C13Case, model: &mut Model, rep: &mut Report, origin: &str) {
    rep.evaluations += 1;
    let cj = c13_case_json(c);
    let total: usize = c.prods.iter().map(|p| p.events.len()).sum();
    rep.count(&format!("producers={}", c.prods.len()));
    rep.count(&format!(
        "events_per_case={}",
        match total {
            0..=9 => "1-9",
            10..=99 => "10-99",
            100..=499 => "100-499",
            _ => "500+",
        }
    ));
    for p in &c.prods {
        rep.count(&format!("producer_kind={}", pk_name(&p.kind)));
        rep.count(&format!("jitter_mode={}", p.jitter));
    }
    if c.with_child {
        rep.count("consumer_with_invoked_child");
    }
    if c.slow > 0 {
        rep.count("consumer_slowed");
    }
    let obs = match c13_run_impl(c) {
        Ok(o) => o,
        Err(e) => {
            rep.disagree(json!({"origin": origin, "case": cj, "impl_error": e}));
            return;
        }
    };
    if obs.panicked || obs.timed_out {
        rep.oracle_fail(
            if obs.panicked { "C13:session-panicked" } else { "C13:session-wedged" },
            json!({"origin": origin, "case": cj}),
        );
        return;
    }
    // the end marker must be the last segment
    let mut segs = obs.segments.clone();
    // the platform cancel event that ends the session is traced as a received event too
    if matches!(segs.last(), Some((n, _, _)) if n == EVENT_CANCEL_SESSION) {
        segs.pop();
    }
    match segs.pop() {
        Some((n, _, _)) if n == END_MARK => {}
        _ => {
            rep.oracle_fail("C13:end-marker-not-last", json!({"origin": origin, "case": cj}));
            return;
        }
    }
    // ---- oracle (i): bracketing — one `ext`, then only this event's effects, until the next dequeue
    let mut overlap = obs.structure_errors.clone();
    for (k, (n, _, lines)) in segs.iter().enumerate() {
        let want = vec![format!("e:{}", hexs(n)), format!("m:{}:{}", hexs(n), k)];
        if *lines != want {
            overlap.push(format!("segment {} of {}: {:?}", k, n, lines));
        }
    }
    if !overlap.is_empty() {
        rep.oracle_fail(
            "C13:overlap",
            json!({"origin": origin, "case": cj, "detail": overlap.iter().take(5).collect::<Vec<_>>()}),
        );
    }
    // ---- attribute observed events to producers (names are unique per producer unless shared)
    let mut sent_count: HashMap<(String, Option<String>), i64> = HashMap::new();
    for p in &c.prods {
        for e in &p.events {
            *sent_count.entry((e.name.clone(), e.inv.clone())).or_insert(0) += 1;
        }
    }
    let mut seen_count: HashMap<(String, Option<String>), i64> = HashMap::new();
    for (n, i, _) in &segs {
        *seen_count.entry((n.clone(), i.clone())).or_insert(0) += 1;
    }
    let mut dup = Vec::new();
    let mut unknown = Vec::new();
    for (k, v) in &seen_count {
        match sent_count.get(k) {
            None => unknown.push(k.0.clone()),
            Some(s) if v > s => dup.push(k.0.clone()),
            _ => {}
        }
    }
    if !unknown.is_empty() {
        rep.oracle_fail("C13:unknown-event", json!({"origin": origin, "case": cj, "events": unknown}));
        return;
    }
    if !dup.is_empty() {
        rep.oracle_fail("C13:duplicated", json!({"origin": origin, "case": cj, "events": dup}));
        return;
    }
    let mut lost = Vec::new();
    let mut filtered = 0u64;
    for (k, s) in &sent_count {
        let v = seen_count.get(k).cloned().unwrap_or(0);
        if v < *s {
            if k.1.is_none() {
                lost.push(k.0.clone());
            } else {
                filtered += (*s - v) as u64;
            }
        }
    }
    if !lost.is_empty() {
        rep.oracle_fail("C13:lost", json!({"origin": origin, "case": cj, "events": lost}));
        return;
    }
    rep.add("events_processed", segs.len() as u64);
    rep.add("events_dropped_by_filter", filtered);
    // ---- oracle (ii): sender order of what was processed — ask the Lean checker
    let accepted: Vec<String> = segs.iter().map(|(n, i, _)| tok(&PEvent { name: n.clone(), inv: i.clone() })).collect();
    // each producer's list restricted to the events that were processed (multiset-wise, in order)
    let mut remaining = seen_count.clone();
    let mut plists: Vec<Vec<String>> = Vec::new();
    let mut pfull: Vec<Vec<(PEvent, bool)>> = Vec::new();
    // decide, per producer in order, which of its events were processed: for unique names this is
    // exact; for names shared between producers any split is fine for the checker (it backtracks)
    let shared_names = {
        let mut m: HashMap<&str, usize> = HashMap::new();
        for p in &c.prods {
            let mut seen = std::collections::HashSet::new();
            for e in &p.events {
                if seen.insert(e.name.as_str()) {
                    *m.entry(e.name.as_str()).or_insert(0) += 1;
                }
            }
        }
        m.values().any(|v| *v > 1)
    };
    for p in &c.prods {
        let mut l = Vec::new();
        let mut f = Vec::new();
        for e in &p.events {
            let key = (e.name.clone(), e.inv.clone());
            let r = remaining.get_mut(&key);
            let acc = match r {
                Some(x) if *x > 0 => {
                    *x -= 1;
                    true
                }
                _ => false,
            };
            if acc {
                l.push(tok(e));
            }
            f.push((e.clone(), acc));
        }
        plists.push(l);
        pfull.push(f);
    }
    let fmt_list = |l: &Vec<String>| if l.is_empty() { ".".to_string() } else { l.join(",") };
    let q = format!(
        "queue merge {} {}",
        plists.iter().map(fmt_list).collect::<Vec<_>>().join("/"),
        fmt_list(&accepted)
    );
    let ans = model.ask(&q);
    if ans != "1" {
        rep.oracle_fail(
            "C13:sender-order",
            json!({"origin": origin, "case": cj, "observed": segs.iter().map(|s| s.0.clone()).collect::<Vec<_>>(), "checker": ans}),
        );
        return;
    }
    // ---- correspondence: replay the observed dequeue order through the Lean transition system
    if !shared_names {
        // owner of each processed event
        let mut owner: HashMap<(String, Option<String>), usize> = HashMap::new();
        for (pi, p) in c.prods.iter().enumerate() {
            for e in &p.events {
                owner.insert((e.name.clone(), e.inv.clone()), pi);
            }
        }
        // full dequeue order: processed events at their observed position, dropped events
        // immediately before the next processed event of the same producer (or at the end)
        let mut next_idx: Vec<usize> = vec![0; c.prods.len()];
        let mut order: Vec<(usize, PEvent, bool)> = Vec::new();
        let mut switches = 0u64;
        let mut last_owner: Option<usize> = None;
        for (n, i, _) in &segs {
            let pi = owner[&(n.clone(), i.clone())];
            if let Some(lo) = last_owner {
                if lo != pi {
                    switches += 1;
                }
            }
            last_owner = Some(pi);
            while next_idx[pi] < pfull[pi].len() {
                let (e, acc) = pfull[pi][next_idx[pi]].clone();
                next_idx[pi] += 1;
                if acc {
                    order.push((pi, e, true));
                    break;
                } else {
                    order.push((pi, e, false));
                }
            }
        }
        for pi in 0..c.prods.len() {
            while next_idx[pi] < pfull[pi].len() {
                let (e, acc) = pfull[pi][next_idx[pi]].clone();
                next_idx[pi] += 1;
                order.push((pi, e, acc));
            }
        }
        rep.add("producer_switches_in_observed_order", switches);
        if c.prods.len() > 1 && switches > 0 {
            rep.count("cases_with_interleaving");
        }
        let evs: Vec<String> = order
            .iter()
            .map(|(pi, e, _)| {
                format!("{}:{}:{}", pi, hexs(&e.name), match &e.inv {
                    None => "~".to_string(),
                    Some(i) => hexs(i),
                })
            })
            .collect();
        let children = if c.with_child { hexs("c1") } else { ".".to_string() };
        let q = format!("queue replay - {} {}", children, if evs.is_empty() { ".".to_string() } else { evs.join(",") });
        let ans = model.ask(&q);
        let want_verdicts: String = if order.is_empty() {
            ".".to_string()
        } else {
            order.iter().map(|(_, _, a)| if *a { '1' } else { '0' }).collect()
        };
        let want_trace: Vec<String> = segs.iter().flat_map(|s| s.2.clone()).collect();
        let want = format!("{} {}", want_verdicts, if want_trace.is_empty() { ".".to_string() } else { want_trace.join(",") });
        if ans != want {
            rep.disagree(json!({"origin": origin, "case": cj, "impl": want.chars().take(400).collect::<String>(), "model": ans.chars().take(400).collect::<String>()}));
        }
        let key = format!(
            "{}|{}",
            c.prods.len(),
            segs.iter().map(|(n, i, _)| owner[&(n.clone(), i.clone())].to_string()).collect::<Vec<_>>().join("")
        );
        rep.nontrivial.insert(format!("{:x}", fxhash(&key)));
    } else {
        rep.count("cases_with_shared_names(merge oracle only)");
        rep.nontrivial.insert(format!("shared{:x}", fxhash(&accepted.join(","))));
    }
    rep.sample(json!({"producers": c.prods.len(), "events": total, "first_observed": segs.iter().take(12).map(|s| s.0.clone()).collect::<Vec<_>>()}));
}

fn fxhash(s: &str) -> u64 {
    let mut h: u64 = 0xcbf29ce484222325;
    for b in s.bytes() {
        h ^= b as u64;
        h = h.wrapping_mul(0x100000001b3);
    }
    h
}

fn c13_gen(p: &mut Prng, thorough: bool) -> C13Case {
    let n = match p.below(10) {
        0 => 1,
        1..=3 => 2,
        4..=5 => 3,
        6 => 4,
        7 => p.range(5, 6),
        _ => p.range(7, 8),
    } as usize;
    let big = if thorough { 200 } else { 120 };
    let with_child = p.chance(1, 5);
    let shared = p.chance(1, 12);
    let slow = if p.chance(1, 3) { p.range(1, 6) } else { 0 };
    let mut prods = Vec::new();
    for i in 0..n {
        let m = if shared {
            p.range(1, 6)
        } else {
            match p.below(8) {
                0 => 1,
                1 => 2,
                2..=4 => p.range(3, 30),
                5..=6 => p.range(31, big),
                _ => big,
            }
        } as usize;
        let kind = match p.below(5) {
            0 | 1 => PK::Clone,
            2 | 3 => PK::Exec,
            _ => PK::Sess,
        };
        let mut events = Vec::new();
        let mut child_done = false;
        for k in 0..m {
            let mut name = if shared { format!("x{}", k % 3) } else { format!("p{}.{}", i, k) };
            let mut inv = None;
            if kind != PK::Sess && !shared && p.chance(1, 6) {
                match p.below(6) {
                    0 => inv = Some("zz".to_string()),
                    1 => inv = Some(String::new()),
                    2 => {
                        name = format!("done.invoke.q{}.{}", i, k);
                        inv = Some("zz".to_string());
                    }
                    3 | 4 => inv = Some("c1".to_string()),
                    _ => {
                        if with_child && !child_done && p.chance(1, 2) {
                            // ends the child's membership in child_sessions: later c1 events are dropped
                            name = format!("done.invoke.c1.{}.{}", i, k);
                            inv = Some("c1".to_string());
                            child_done = true;
                        } else {
                            inv = Some("c1".to_string());
                        }
                    }
                }
            }
            events.push(PEvent { name, inv });
        }
        prods.push(Producer { kind, events, jitter: p.below(5), jseed: p.next() });
    }
    C13Case { prods, with_child, slow }
}

fn c13_corpus() -> Vec<C13Case> {
    let ev = |n: &str, i: Option<&str>| PEvent { name: n.to_string(), inv: i.map(|s| s.to_string()) };
    let pr = |k: PK, es: Vec<PEvent>, j: u64| Producer { kind: k, events: es, jitter: j, jseed: 7 };
    let many = |pi: usize, m: usize| (0..m).map(|k| PEvent { name: format!("p{}.{}", pi, k), inv: None }).collect::<Vec<_>>();
    vec![
        // one producer, one schedule
        C13Case { prods: vec![pr(PK::Clone, many(0, 5), 0)], with_child: false, slow: 0 },
        // the filter: foreign id dropped, empty id (= caller "") accepted, done.invoke. bypasses
        C13Case {
            prods: vec![pr(
                PK::Clone,
                vec![ev("a", None), ev("b", Some("zz")), ev("c", Some("")), ev("done.invoke.zz", Some("zz")), ev("d", Some("c1")), ev("e", None)],
                0,
            )],
            with_child: false,
            slow: 0,
        },
        // running child: its id is accepted until done.invoke.c1 arrives, dropped afterwards
        C13Case {
            prods: vec![pr(
                PK::Exec,
                vec![ev("a", Some("c1")), ev("done.invoke.c1", Some("c1")), ev("b", Some("c1")), ev("c", None)],
                0,
            )],
            with_child: true,
            slow: 0,
        },
        // all three producer kinds at once, maximal size, slow consumer
        C13Case {
            prods: vec![pr(PK::Clone, many(0, 200), 0), pr(PK::Exec, many(1, 200), 1), pr(PK::Sess, many(2, 200), 0), pr(PK::Sess, many(3, 50), 2)],
            with_child: false,
            slow: 3,
        },
        // eight tight producers
        C13Case { prods: (0..8).map(|i| pr(if i % 2 == 0 { PK::Clone } else { PK::Exec }, many(i, 100), 0)).collect(), with_child: false, slow: 1 },
        // names shared between producers (the checker has to backtrack)
        C13Case {
            prods: vec![pr(PK::Clone, vec![ev("x", None), ev("y", None), ev("x", None)], 1), pr(PK::Exec, vec![ev("x", None), ev("x", None), ev("y", None)], 1)],
            with_child: false,
            slow: 2,
        },
    ]
}

pub fn run_c13(args: &Args, model: &mut Model) -> Report {
    let mut rep = Report::new(
        "c13",
        "case = N producer threads (1..8) x M events each (1..200) against one REAL session; producers send through \
         session.sender.clone(), FsmExecutor::send_to_session or another real session's <send target=#_scxml_ID>; seeded \
         send-side jitter (none/yield/spin/sleep/bursts), optionally a slowed consumer and a consumer with a running \
         invoked child; a sixth of the host events carry invoke ids (foreign, empty, the child's, done.invoke.*) to \
         exercise the dequeue filter. Real schedules are only SAMPLED. A case is distinct by the observed owner \
         sequence (which producer's event was dequeued at each position); all cases are non-trivial",
    );
    install_factory();
    if let Some(path) = &args.replay {
        let v: Value = serde_json::from_str(&std::fs::read_to_string(path).unwrap()).unwrap();
        let c = c13_case_from_json(&v["case"]);
        let reps = if v["signature"].is_string() { 20 } else { 1 };
        for _ in 0..reps {
            c13_check(&c, model, &mut rep, "replay");
        }
        return rep;
    }
    for c in c13_corpus() {
        c13_check(&c, model, &mut rep, "corpus");
        registry_clear();
    }
    let n = if args.thorough { 1500 } else { 220 };
    for i in 0..n {
        let mut p = Prng::for_case(args.seed, i);
        let c = c13_gen(&mut p, args.thorough);
        c13_check(&c, model, &mut rep, &format!("gen seed={} index={}", args.seed, i));
        registry_clear();
    }
    // the string constants of the model are the crate's
    let consts = model.ask("route consts");
    let want = [fsm::EVENT_DONE_INVOKE_PREFIX];
    let got: Vec<&str> = consts.split(' ').collect();
    if got.len() < 10 || got[9] != hexs(want[0]) {
        rep.disagree(json!({"what": "constant done.invoke. prefix", "model": consts}));
    }
    let _ = (hex(&[]), BTreeMap::<String, String>::new());
    rep
}
