//! C13 / C15 — families `c13` (producers / FIFO / one consumer against a real session) and `c15`
//! (routing of `<send>` through the SCXML event I/O processor between real sessions).
//!
//! Observation goes through public API only: a recording `Tracer` (own type, installed directly on
//! harness-parsed FSMs and through `tracer::set_tracer_factory` on invoked children), and custom
//! `Action`s (`mark`, `rec`) registered in the `ActionWrapper`.
use crate::prng::Prng;
use crate::proto::{hex, hexs, Model};
use crate::report::Report;
use crate::Args;
use rufsm::actions::{Action, ActionWrapper};
use rufsm::datamodel::Data;
use rufsm::fsm::{self, Event, FinishMode, GlobalData, ScxmlSession, State, EVENT_CANCEL_SESSION};
use rufsm::fsm_executor::FsmExecutor;
use rufsm::scxml_reader;
use rufsm::tracer::{TraceMode, Tracer, TracerFactory};
use serde_json::{json, Value};
use std::collections::{BTreeMap, HashMap};
use std::fmt::{Debug, Display};
use std::sync::atomic::{AtomicU64, Ordering};
use std::sync::{Arc, Barrier, Mutex, OnceLock};
use std::time::{Duration, Instant};

// ------------------------------------------------------------------------------------------
// observation
// ------------------------------------------------------------------------------------------

#[derive(Clone, Debug)]
pub enum Rec {
    DeqStart,
    DeqEnd,
    Ext(Event),
    Int(Event),
    State(String, String),
    Mark(Vec<String>),
}
pub type RLog = Arc<Mutex<Vec<Rec>>>;

fn rl_push(l: &RLog, r: Rec) {
    l.lock().unwrap_or_else(|e| e.into_inner()).push(r);
}
fn rl_snapshot(l: &RLog) -> Vec<Rec> {
    l.lock().unwrap_or_else(|e| e.into_inner()).clone()
}

pub struct ConcTracer {
    pub log: RLog,
}
impl Debug for ConcTracer {
    fn fmt(&self, f: &mut std::fmt::Formatter<'_>) -> std::fmt::Result {
        write!(f, "ConcTracer")
    }
}
impl ConcTracer {
    pub fn new() -> (ConcTracer, RLog) {
        let log: RLog = Arc::new(Mutex::new(Vec::new()));
        (ConcTracer { log: log.clone() }, log)
    }
}
impl Tracer for ConcTracer {
    fn trace(&self, _msg: &str) {}
    fn enter(&self) {}
    fn leave(&self) {}
    fn enable_trace(&mut self, _flag: TraceMode) {}
    fn disable_trace(&mut self, _flag: TraceMode) {}
    fn is_trace(&self, _flag: TraceMode) -> bool {
        true
    }
    fn enter_method(&self, what: &str) {
        if what == "externalQueue.dequeue" {
            rl_push(&self.log, Rec::DeqStart);
        }
    }
    fn exit_method(&self, what: &str) {
        if what == "externalQueue.dequeue" {
            rl_push(&self.log, Rec::DeqEnd);
        }
    }
    fn event_internal_send(&self, _what: &Event) {}
    fn event_internal_received(&self, what: &Event) {
        rl_push(&self.log, Rec::Int(what.clone()));
    }
    fn event_external_send(&self, _what: &Event) {}
    fn event_external_received(&mut self, what: &Event) {
        rl_push(&self.log, Rec::Ext(what.clone()));
    }
    fn trace_state(&self, what: &str, s: &State) {
        rl_push(&self.log, Rec::State(what.to_lowercase(), s.name.clone()));
    }
    fn trace_argument(&self, _what: &str, _d: &dyn Display) {}
    fn trace_result(&self, _what: &str, _d: &dyn Display) {}
    fn trace_mode(&self) -> TraceMode {
        TraceMode::ALL
    }
}

/// every `Fsm::new()` (also the ones the platform creates for invoked children) gets a recording
/// tracer whose log is kept in this registry; a child's log is recognised by the name of the first
/// state it enters
fn registry() -> &'static Arc<Mutex<Vec<RLog>>> {
    static R: OnceLock<Arc<Mutex<Vec<RLog>>>> = OnceLock::new();
    R.get_or_init(|| Arc::new(Mutex::new(Vec::new())))
}
struct ConcFactory;
impl TracerFactory for ConcFactory {
    fn create(&mut self) -> Box<dyn Tracer> {
        let (t, log) = ConcTracer::new();
        registry().lock().unwrap().push(log);
        Box::new(t)
    }
}
fn install_factory() {
    rufsm::tracer::set_tracer_factory(Box::new(ConcFactory));
}
fn registry_clear() {
    registry().lock().unwrap().clear();
}
/// the log of the (factory-made) tracer of the session that has entered `state` (state names are
/// unique per role within a world and the registry is cleared per world)
fn registry_find(state: &str) -> Option<RLog> {
    for l in registry().lock().unwrap().iter() {
        for r in l.lock().unwrap_or_else(|e| e.into_inner()).iter() {
            if let Rec::State(w, n) = r {
                if w == "enter" && n == state {
                    return Some(l.clone());
                }
            }
        }
    }
    None
}

pub fn canon(d: &Data) -> String {
    match d {
        Data::Integer(i) => format!("i:{}", i),
        Data::Double(f) => format!("d:{:016x}", f.to_bits()),
        Data::String(s) => format!("s:{}", s),
        Data::Boolean(b) => format!("b:{}", b),
        Data::Array(a) => {
            let v: Vec<String> = a.iter().map(|x| canon(&x.lock().unwrap())).collect();
            format!("[{}]", v.join(","))
        }
        Data::Map(m) => {
            let mut v: Vec<String> =
                m.iter().map(|(k, x)| format!("{}={}", k, canon(&x.lock().unwrap()))).collect();
            v.sort();
            format!("{{{}}}", v.join(","))
        }
        Data::Null() => "null".to_string(),
        Data::Error(e) => format!("error:{}", e),
        Data::Source(s) => format!("src:{}", s),
        Data::None() => "none".to_string(),
    }
}

/// `mark(a, b, …)`: appends the canonical text of its arguments to the session's log; optionally
/// burns a little time so that the queue fills up behind a macrostep in progress
#[derive(Clone)]
pub struct MarkAction {
    pub log: RLog,
    pub slow: u64,
    pub state: Arc<AtomicU64>,
}
impl Action for MarkAction {
    fn execute(&self, arguments: &[Data], _global: &GlobalData) -> Result<Data, String> {
        let s: Vec<String> = arguments.iter().map(canon).collect();
        rl_push(&self.log, Rec::Mark(s));
        if self.slow > 0 {
            let x = self.state.fetch_add(0x9E37_79B9_7F4A_7C15, Ordering::Relaxed);
            let r = (x >> 33) % 8;
            if r < self.slow {
                spin(Duration::from_micros(5 + (x >> 40) % 60));
            }
        }
        Ok(Data::Boolean(true))
    }
    fn get_copy(&self) -> Box<dyn Action> {
        Box::new(self.clone())
    }
}

fn spin(d: Duration) {
    let t = Instant::now();
    while t.elapsed() < d {
        std::hint::spin_loop();
    }
}

fn wait_until<F: FnMut() -> bool>(timeout: Duration, mut f: F) -> bool {
    let t = Instant::now();
    loop {
        if f() {
            return true;
        }
        if t.elapsed() > timeout {
            return false;
        }
        std::thread::sleep(Duration::from_micros(150));
    }
}

fn cancel_all(executor: &FsmExecutor) {
    let senders: Vec<_> = {
        let g = executor.state.lock().unwrap_or_else(|e| e.into_inner());
        g.sessions.values().map(|s| s.sender.clone()).collect()
    };
    for s in senders {
        let _ = s.send(Box::new(Event::new_simple(EVENT_CANCEL_SESSION)));
    }
}

fn join_session(s: &mut ScxmlSession, timeout: Duration) -> (bool, bool) {
    // (panicked, timed_out)
    if let Some(h) = s.thread.take() {
        let ok = wait_until(timeout, || h.is_finished());
        if !ok {
            return (false, true);
        }
        return (h.join().is_err(), false);
    }
    (false, false)
}

const XMLNS: &str = "xmlns=\"http://www.w3.org/2005/07/scxml\" version=\"1.0\" datamodel=\"rfsm-expression\"";

// ------------------------------------------------------------------------------------------
// C13
// ------------------------------------------------------------------------------------------

#[derive(Clone, Debug, PartialEq)]
pub enum PK {
    /// `session.sender.clone()`
    Clone,
    /// `FsmExecutor::send_to_session`
    Exec,
    /// another session's `<send target="#_scxml_ID">`
    Sess,
}

#[derive(Clone, Debug)]
pub struct PEvent {
    pub name: String,
    pub inv: Option<String>,
}

#[derive(Clone, Debug)]
pub struct Producer {
    pub kind: PK,
    pub events: Vec<PEvent>,
    pub jitter: u64,
    pub jseed: u64,
}

#[derive(Clone, Debug)]
pub struct C13Case {
    pub prods: Vec<Producer>,
    pub with_child: bool,
    pub slow: u64,
}

fn pk_name(k: &PK) -> &'static str {
    match k {
        PK::Clone => "clone",
        PK::Exec => "exec",
        PK::Sess => "sess",
    }
}

fn c13_case_json(c: &C13Case) -> Value {
    json!({
        "with_child": c.with_child,
        "slow": c.slow,
        "prods": c.prods.iter().map(|p| json!({
            "kind": pk_name(&p.kind), "jitter": p.jitter, "jseed": p.jseed,
            "events": p.events.iter().map(|e| json!([e.name, e.inv])).collect::<Vec<_>>()
        })).collect::<Vec<_>>()
    })
}

fn c13_case_from_json(v: &Value) -> C13Case {
    C13Case {
        with_child: v["with_child"].as_bool().unwrap_or(false),
        slow: v["slow"].as_u64().unwrap_or(0),
        prods: v["prods"]
            .as_array()
            .unwrap()
            .iter()
            .map(|p| Producer {
                kind: match p["kind"].as_str().unwrap() {
                    "clone" => PK::Clone,
                    "exec" => PK::Exec,
                    _ => PK::Sess,
                },
                jitter: p["jitter"].as_u64().unwrap_or(0),
                jseed: p["jseed"].as_u64().unwrap_or(1),
                events: p["events"]
                    .as_array()
                    .unwrap()
                    .iter()
                    .map(|e| PEvent {
                        name: e[0].as_str().unwrap().to_string(),
                        inv: e[1].as_str().map(|s| s.to_string()),
                    })
                    .collect(),
            })
            .collect(),
    }
}

fn consumer_xml(with_child: bool) -> String {
    let inv = if with_child {
        format!(
            "<invoke id=\"c1\" type=\"scxml\"><content><scxml {} initial=\"idle\"><state id=\"idle\"/></scxml></content></invoke>",
            XMLNS
        )
    } else {
        String::new()
    };
    format!(
        "<scxml {} initial=\"s\"><datamodel><data id=\"n\" expr=\"0\"/></datamodel><state id=\"s\">{}\
         <transition event=\"*\"><log expr=\"mark(_event.name, n)\"/><assign location=\"n\" expr=\"n + 1\"/></transition>\
         </state></scxml>",
        XMLNS, inv
    )
}

fn producer_xml(target_sid: u32, events: &[PEvent]) -> String {
    let mut sends = String::new();
    for e in events {
        sends.push_str(&format!("<send event=\"{}\" target=\"#_scxml_{}\"/>", e.name, target_sid));
    }
    format!(
        "<scxml {} initial=\"p\"><state id=\"p\"><transition event=\"go\">{}<log expr=\"mark('pdone')\"/></transition></state></scxml>",
        XMLNS, sends
    )
}

fn jitter(mode: u64, p: &mut Prng) {
    match mode {
        0 => {}
        1 => std::thread::yield_now(),
        2 => spin(Duration::from_micros(p.below(40))),
        3 => {
            if p.chance(1, 6) {
                std::thread::sleep(Duration::from_micros(p.below(150)));
            }
        }
        _ => {
            if p.chance(1, 10) {
                spin(Duration::from_micros(100 + p.below(300)));
            }
        }
    }
}

struct Started {
    session: ScxmlSession,
    log: RLog,
}

fn start_doc(xml: &str, executor: &FsmExecutor, slow: u64) -> Result<Started, String> {
    let mut fsm = scxml_reader::parse_from_xml(xml.to_string())?;
    let (tracer, log) = ConcTracer::new();
    fsm.tracer = Box::new(tracer);
    let mut actions = ActionWrapper::new();
    actions.add_action(
        "mark",
        Box::new(MarkAction { log: log.clone(), slow, state: Arc::new(AtomicU64::new(0x1234_5678)) }),
    );
    let session = fsm::start_fsm_with_data_and_finish_mode(
        fsm,
        actions,
        Box::new(executor.clone()),
        &[],
        FinishMode::KEEP_CONFIGURATION,
    );
    Ok(Started { session, log })
}

fn count_deq_start(l: &RLog) -> usize {
    l.lock().unwrap_or_else(|e| e.into_inner()).iter().filter(|r| matches!(r, Rec::DeqStart)).count()
}
fn has_mark(l: &RLog, first: &str) -> bool {
    l.lock()
        .unwrap_or_else(|e| e.into_inner())
        .iter()
        .any(|r| matches!(r, Rec::Mark(v) if v.first().map(|s| s.as_str()) == Some(first)))
}

pub struct C13Obs {
    /// per dequeue segment: (event name, invoke id, the records between `ext` and the next dequeue)
    pub segments: Vec<(String, Option<String>, Vec<String>)>,
    pub structure_errors: Vec<String>,
    pub panicked: bool,
    pub timed_out: bool,
}

const END_MARK: &str = "zz.end";

/// runs the real sessions for one case
fn c13_run_impl(c: &C13Case) -> Result<C13Obs, String> {
    let executor = FsmExecutor::new_without_io_processor();
    let mut consumer = start_doc(&consumer_xml(c.with_child), &executor, c.slow)?;
    let clog = consumer.log.clone();
    if !wait_until(Duration::from_secs(20), || count_deq_start(&clog) >= 1) {
        cancel_all(&executor);
        return Err("consumer did not reach its first dequeue".into());
    }
    if c.with_child {
        // the child is registered before the parent's first dequeue (invoke precedes it)
        let n = executor.state.lock().unwrap().sessions.len();
        if n < 2 {
            cancel_all(&executor);
            return Err("child session not registered".into());
        }
    }
    let csid = consumer.session.session_id;
    // producer sessions
    let mut psessions: Vec<Option<Started>> = Vec::new();
    for p in &c.prods {
        if p.kind == PK::Sess {
            let st = start_doc(&producer_xml(csid, &p.events), &executor, 0)?;
            let l = st.log.clone();
            if !wait_until(Duration::from_secs(20), || count_deq_start(&l) >= 1) {
                cancel_all(&executor);
                return Err("producer session did not start".into());
            }
            psessions.push(Some(st));
        } else {
            psessions.push(None);
        }
    }
    let barrier = Arc::new(Barrier::new(c.prods.len()));
    let mut handles = Vec::new();
    for (i, p) in c.prods.iter().enumerate() {
        let p = p.clone();
        let b = barrier.clone();
        let sender = consumer.session.sender.clone();
        let ex = executor.clone();
        let go = psessions[i].as_ref().map(|s| s.session.sender.clone());
        handles.push(std::thread::spawn(move || {
            let mut rng = Prng::new(p.jseed);
            b.wait();
            match p.kind {
                PK::Clone => {
                    for e in &p.events {
                        let mut ev = Event::new_simple(&e.name);
                        ev.invoke_id = e.inv.clone();
                        let _ = sender.send(Box::new(ev));
                        jitter(p.jitter, &mut rng);
                    }
                }
                PK::Exec => {
                    for e in &p.events {
                        let mut ev = Event::new_simple(&e.name);
                        ev.invoke_id = e.inv.clone();
                        let _ = ex.send_to_session(csid, ev);
                        jitter(p.jitter, &mut rng);
                    }
                }
                PK::Sess => {
                    jitter(p.jitter, &mut rng);
                    let _ = go.unwrap().send(Box::new(Event::new_simple("go")));
                }
            }
        }));
    }
    for h in handles {
        let _ = h.join();
    }
    let mut timed_out = false;
    for s in psessions.iter().flatten() {
        let l = s.log.clone();
        if !wait_until(Duration::from_secs(60), || has_mark(&l, "s:pdone")) {
            timed_out = true;
        }
    }
    let _ = consumer.session.sender.send(Box::new(Event::new_simple(END_MARK)));
    if !wait_until(Duration::from_secs(120), || has_mark(&clog, &format!("s:{}", END_MARK))) {
        timed_out = true;
    }
    cancel_all(&executor);
    let (panicked, to2) = join_session(&mut consumer.session, Duration::from_secs(20));
    timed_out |= to2;
    for s in psessions.iter_mut().flatten() {
        let _ = join_session(&mut s.session, Duration::from_secs(20));
    }
    // segment the consumer's log
    let recs = rl_snapshot(&clog);
    let mut segments: Vec<(String, Option<String>, Vec<String>)> = Vec::new();
    let mut errs = Vec::new();
    #[derive(PartialEq)]
    enum Ph {
        Start,
        InDeq,
        AfterDeq,
        InSeg,
    }
    let mut ph = Ph::Start;
    for r in &recs {
        match r {
            Rec::DeqStart => {
                if ph == Ph::InDeq || ph == Ph::AfterDeq {
                    errs.push("dequeue started twice without an event".to_string());
                }
                ph = Ph::InDeq;
            }
            Rec::DeqEnd => {
                if ph != Ph::InDeq {
                    errs.push("dequeue end without start".to_string());
                }
                ph = Ph::AfterDeq;
            }
            Rec::Ext(e) => {
                if ph != Ph::AfterDeq {
                    errs.push(format!("external event {} received outside a dequeue", e.name));
                }
                segments.push((e.name.clone(), e.invoke_id.clone(), vec![format!("e:{}", hexs(&e.name))]));
                ph = Ph::InSeg;
            }
            Rec::Int(e) => {
                if let Some(s) = segments.last_mut() {
                    s.2.push(format!("int:{}", e.name));
                }
            }
            Rec::State(w, n) => {
                if ph == Ph::InSeg {
                    segments.last_mut().unwrap().2.push(format!("{}:{}", w, n));
                }
            }
            Rec::Mark(v) => {
                if ph != Ph::InSeg {
                    errs.push(format!("mark {:?} outside a macrostep segment", v));
                } else if v.len() == 2 && v[0].starts_with("s:") && v[1].starts_with("i:") {
                    segments.last_mut().unwrap().2.push(format!("m:{}:{}", hexs(&v[0][2..]), &v[1][2..]));
                } else {
                    segments.last_mut().unwrap().2.push(format!("mark?{:?}", v));
                }
            }
        }
    }
    Ok(C13Obs { segments, structure_errors: errs, panicked, timed_out })
}

fn tok(e: &PEvent) -> String {
    // one opaque token per event for the merge oracle: name, and the invoke id if any
    match &e.inv {
        None => hexs(&e.name),
        Some(i) => format!("{}00{}", hexs(&e.name), if i.is_empty() { "ff".to_string() } else { hexs(i) }),
    }
}

fn c13_check(c: &C13Case, model: &mut Model, rep: &mut Report, origin: &str) {
    rep.evaluations += 1;
    let cj = c13_case_json(c);
    let total: usize = c.prods.iter().map(|p| p.events.len()).sum();
    rep.count(&format!("producers={}", c.prods.len()));
    rep.count(&format!(
        "events_per_case={}",
        match total {
            0..=9 => "1-9",
            10..=99 => "10-99",
            100..=499 => "100-499",
            _ => "500+",
        }
    ));
    for p in &c.prods {
        rep.count(&format!("producer_kind={}", pk_name(&p.kind)));
        rep.count(&format!("jitter_mode={}", p.jitter));
    }
    if c.with_child {
        rep.count("consumer_with_invoked_child");
    }
    if c.slow > 0 {
        rep.count("consumer_slowed");
    }
    let obs = match c13_run_impl(c) {
        Ok(o) => o,
        Err(e) => {
            rep.disagree(json!({"origin": origin, "case": cj, "impl_error": e}));
            return;
        }
    };
    if obs.panicked || obs.timed_out {
        rep.oracle_fail(
            if obs.panicked { "C13:session-panicked" } else { "C13:session-wedged" },
            json!({"origin": origin, "case": cj}),
        );
        return;
    }
    // the end marker must be the last segment
    let mut segs = obs.segments.clone();
    // the platform cancel event that ends the session is traced as a received event too
    if matches!(segs.last(), Some((n, _, _)) if n == EVENT_CANCEL_SESSION) {
        segs.pop();
    }
    match segs.pop() {
        Some((n, _, _)) if n == END_MARK => {}
        _ => {
            rep.oracle_fail("C13:end-marker-not-last", json!({"origin": origin, "case": cj}));
            return;
        }
    }
    // ---- oracle (i): bracketing — one `ext`, then only this event's effects, until the next dequeue
    let mut overlap = obs.structure_errors.clone();
    for (k, (n, _, lines)) in segs.iter().enumerate() {
        let want = vec![format!("e:{}", hexs(n)), format!("m:{}:{}", hexs(n), k)];
        if *lines != want {
            overlap.push(format!("segment {} of {}: {:?}", k, n, lines));
        }
    }
    if !overlap.is_empty() {
        rep.oracle_fail(
            "C13:overlap",
            json!({"origin": origin, "case": cj, "detail": overlap.iter().take(5).collect::<Vec<_>>()}),
        );
    }
    // ---- attribute observed events to producers (names are unique per producer unless shared)
    let mut sent_count: HashMap<(String, Option<String>), i64> = HashMap::new();
    for p in &c.prods {
        for e in &p.events {
            *sent_count.entry((e.name.clone(), e.inv.clone())).or_insert(0) += 1;
        }
    }
    let mut seen_count: HashMap<(String, Option<String>), i64> = HashMap::new();
    for (n, i, _) in &segs {
        *seen_count.entry((n.clone(), i.clone())).or_insert(0) += 1;
    }
    let mut dup = Vec::new();
    let mut unknown = Vec::new();
    for (k, v) in &seen_count {
        match sent_count.get(k) {
            None => unknown.push(k.0.clone()),
            Some(s) if v > s => dup.push(k.0.clone()),
            _ => {}
        }
    }
    if !unknown.is_empty() {
        rep.oracle_fail("C13:unknown-event", json!({"origin": origin, "case": cj, "events": unknown}));
        return;
    }
    if !dup.is_empty() {
        rep.oracle_fail("C13:duplicated", json!({"origin": origin, "case": cj, "events": dup}));
        return;
    }
    let mut lost = Vec::new();
    let mut filtered = 0u64;
    for (k, s) in &sent_count {
        let v = seen_count.get(k).cloned().unwrap_or(0);
        if v < *s {
            if k.1.is_none() {
                lost.push(k.0.clone());
            } else {
                filtered += (*s - v) as u64;
            }
        }
    }
    if !lost.is_empty() {
        rep.oracle_fail("C13:lost", json!({"origin": origin, "case": cj, "events": lost}));
        return;
    }
    rep.add("events_processed", segs.len() as u64);
    rep.add("events_dropped_by_filter", filtered);
    // ---- oracle (ii): sender order of what was processed — ask the Lean checker
    let accepted: Vec<String> = segs.iter().map(|(n, i, _)| tok(&PEvent { name: n.clone(), inv: i.clone() })).collect();
    // each producer's list restricted to the events that were processed (multiset-wise, in order)
    let mut remaining = seen_count.clone();
    let mut plists: Vec<Vec<String>> = Vec::new();
    let mut pfull: Vec<Vec<(PEvent, bool)>> = Vec::new();
    // decide, per producer in order, which of its events were processed: for unique names this is
    // exact; for names shared between producers any split is fine for the checker (it backtracks)
    let shared_names = {
        let mut m: HashMap<&str, usize> = HashMap::new();
        for p in &c.prods {
            let mut seen = std::collections::HashSet::new();
            for e in &p.events {
                if seen.insert(e.name.as_str()) {
                    *m.entry(e.name.as_str()).or_insert(0) += 1;
                }
            }
        }
        m.values().any(|v| *v > 1)
    };
    for p in &c.prods {
        let mut l = Vec::new();
        let mut f = Vec::new();
        for e in &p.events {
            let key = (e.name.clone(), e.inv.clone());
            let r = remaining.get_mut(&key);
            let acc = match r {
                Some(x) if *x > 0 => {
                    *x -= 1;
                    true
                }
                _ => false,
            };
            if acc {
                l.push(tok(e));
            }
            f.push((e.clone(), acc));
        }
        plists.push(l);
        pfull.push(f);
    }
    let fmt_list = |l: &Vec<String>| if l.is_empty() { ".".to_string() } else { l.join(",") };
    let q = format!(
        "queue merge {} {}",
        plists.iter().map(fmt_list).collect::<Vec<_>>().join("/"),
        fmt_list(&accepted)
    );
    let ans = model.ask(&q);
    if ans != "1" {
        rep.oracle_fail(
            "C13:sender-order",
            json!({"origin": origin, "case": cj, "observed": segs.iter().map(|s| s.0.clone()).collect::<Vec<_>>(), "checker": ans}),
        );
        return;
    }
    // ---- correspondence: replay the observed dequeue order through the Lean transition system
    if !shared_names {
        // owner of each processed event
        let mut owner: HashMap<(String, Option<String>), usize> = HashMap::new();
        for (pi, p) in c.prods.iter().enumerate() {
            for e in &p.events {
                owner.insert((e.name.clone(), e.inv.clone()), pi);
            }
        }
        // full dequeue order: processed events at their observed position, dropped events
        // immediately before the next processed event of the same producer (or at the end)
        let mut next_idx: Vec<usize> = vec![0; c.prods.len()];
        let mut order: Vec<(usize, PEvent, bool)> = Vec::new();
        let mut switches = 0u64;
        let mut last_owner: Option<usize> = None;
        for (n, i, _) in &segs {
            let pi = owner[&(n.clone(), i.clone())];
            if let Some(lo) = last_owner {
                if lo != pi {
                    switches += 1;
                }
            }
            last_owner = Some(pi);
            while next_idx[pi] < pfull[pi].len() {
                let (e, acc) = pfull[pi][next_idx[pi]].clone();
                next_idx[pi] += 1;
                if acc {
                    order.push((pi, e, true));
                    break;
                } else {
                    order.push((pi, e, false));
                }
            }
        }
        for pi in 0..c.prods.len() {
            while next_idx[pi] < pfull[pi].len() {
                let (e, acc) = pfull[pi][next_idx[pi]].clone();
                next_idx[pi] += 1;
                order.push((pi, e, acc));
            }
        }
        rep.add("producer_switches_in_observed_order", switches);
        if c.prods.len() > 1 && switches > 0 {
            rep.count("cases_with_interleaving");
        }
        let evs: Vec<String> = order
            .iter()
            .map(|(pi, e, _)| {
                format!("{}:{}:{}", pi, hexs(&e.name), match &e.inv {
                    None => "~".to_string(),
                    Some(i) => hexs(i),
                })
            })
            .collect();
        let children = if c.with_child { hexs("c1") } else { ".".to_string() };
        let q = format!("queue replay - {} {}", children, if evs.is_empty() { ".".to_string() } else { evs.join(",") });
        let ans = model.ask(&q);
        let want_verdicts: String = if order.is_empty() {
            ".".to_string()
        } else {
            order.iter().map(|(_, _, a)| if *a { '1' } else { '0' }).collect()
        };
        let want_trace: Vec<String> = segs.iter().flat_map(|s| s.2.clone()).collect();
        let want = format!("{} {}", want_verdicts, if want_trace.is_empty() { ".".to_string() } else { want_trace.join(",") });
        if ans != want {
            rep.disagree(json!({"origin": origin, "case": cj, "impl": want.chars().take(400).collect::<String>(), "model": ans.chars().take(400).collect::<String>()}));
        }
        let key = format!(
            "{}|{}",
            c.prods.len(),
            segs.iter().map(|(n, i, _)| owner[&(n.clone(), i.clone())].to_string()).collect::<Vec<_>>().join("")
        );
        rep.nontrivial.insert(format!("{:x}", fxhash(&key)));
    } else {
        rep.count("cases_with_shared_names(merge oracle only)");
        rep.nontrivial.insert(format!("shared{:x}", fxhash(&accepted.join(","))));
    }
    rep.sample(json!({"producers": c.prods.len(), "events": total, "first_observed": segs.iter().take(12).map(|s| s.0.clone()).collect::<Vec<_>>()}));
}

fn fxhash(s: &str) -> u64 {
    let mut h: u64 = 0xcbf29ce484222325;
    for b in s.bytes() {
        h ^= b as u64;
        h = h.wrapping_mul(0x100000001b3);
    }
    h
}

fn c13_gen(p: &mut Prng, thorough: bool) -> C13Case {
    let n = match p.below(10) {
        0 => 1,
        1..=3 => 2,
        4..=5 => 3,
        6 => 4,
        7 => p.range(5, 6),
        _ => p.range(7, 8),
    } as usize;
    let big = if thorough { 200 } else { 120 };
    let with_child = p.chance(1, 5);
    let shared = p.chance(1, 12);
    let slow = if p.chance(1, 3) { p.range(1, 6) } else { 0 };
    let mut prods = Vec::new();
    for i in 0..n {
        let m = if shared {
            p.range(1, 6)
        } else {
            match p.below(8) {
                0 => 1,
                1 => 2,
                2..=4 => p.range(3, 30),
                5..=6 => p.range(31, big),
                _ => big,
            }
        } as usize;
        let kind = match p.below(5) {
            0 | 1 => PK::Clone,
            2 | 3 => PK::Exec,
            _ => PK::Sess,
        };
        let mut events = Vec::new();
        let mut child_done = false;
        for k in 0..m {
            let mut name = if shared { format!("x{}", k % 3) } else { format!("p{}.{}", i, k) };
            let mut inv = None;
            if kind != PK::Sess && !shared && p.chance(1, 6) {
                match p.below(6) {
                    0 => inv = Some("zz".to_string()),
                    1 => inv = Some(String::new()),
                    2 => {
                        name = format!("done.invoke.q{}.{}", i, k);
                        inv = Some("zz".to_string());
                    }
                    3 | 4 => inv = Some("c1".to_string()),
                    _ => {
                        if with_child && !child_done && p.chance(1, 2) {
                            // ends the child's membership in child_sessions: later c1 events are dropped
                            name = format!("done.invoke.c1.{}.{}", i, k);
                            inv = Some("c1".to_string());
                            child_done = true;
                        } else {
                            inv = Some("c1".to_string());
                        }
                    }
                }
            }
            events.push(PEvent { name, inv });
        }
        prods.push(Producer { kind, events, jitter: p.below(5), jseed: p.next() });
    }
    C13Case { prods, with_child, slow }
}

fn c13_corpus() -> Vec<C13Case> {
    let ev = |n: &str, i: Option<&str>| PEvent { name: n.to_string(), inv: i.map(|s| s.to_string()) };
    let pr = |k: PK, es: Vec<PEvent>, j: u64| Producer { kind: k, events: es, jitter: j, jseed: 7 };
    let many = |pi: usize, m: usize| (0..m).map(|k| PEvent { name: format!("p{}.{}", pi, k), inv: None }).collect::<Vec<_>>();
    vec![
        // one producer, one schedule
        C13Case { prods: vec![pr(PK::Clone, many(0, 5), 0)], with_child: false, slow: 0 },
        // the filter: foreign id dropped, empty id (= caller "") accepted, done.invoke. bypasses
        C13Case {
            prods: vec![pr(
                PK::Clone,
                vec![ev("a", None), ev("b", Some("zz")), ev("c", Some("")), ev("done.invoke.zz", Some("zz")), ev("d", Some("c1")), ev("e", None)],
                0,
            )],
            with_child: false,
            slow: 0,
        },
        // running child: its id is accepted until done.invoke.c1 arrives, dropped afterwards
        C13Case {
            prods: vec![pr(
                PK::Exec,
                vec![ev("a", Some("c1")), ev("done.invoke.c1", Some("c1")), ev("b", Some("c1")), ev("c", None)],
                0,
            )],
            with_child: true,
            slow: 0,
        },
        // all three producer kinds at once, maximal size, slow consumer
        C13Case {
            prods: vec![pr(PK::Clone, many(0, 200), 0), pr(PK::Exec, many(1, 200), 1), pr(PK::Sess, many(2, 200), 0), pr(PK::Sess, many(3, 50), 2)],
            with_child: false,
            slow: 3,
        },
        // eight tight producers
        C13Case { prods: (0..8).map(|i| pr(if i % 2 == 0 { PK::Clone } else { PK::Exec }, many(i, 100), 0)).collect(), with_child: false, slow: 1 },
        // names shared between producers (the checker has to backtrack)
        C13Case {
            prods: vec![pr(PK::Clone, vec![ev("x", None), ev("y", None), ev("x", None)], 1), pr(PK::Exec, vec![ev("x", None), ev("x", None), ev("y", None)], 1)],
            with_child: false,
            slow: 2,
        },
    ]
}

pub fn run_c13(args: &Args, model: &mut Model) -> Report {
    let mut rep = Report::new(
        "c13",
        "case = N producer threads (1..8) x M events each (1..200) against one REAL session; producers send through \
         session.sender.clone(), FsmExecutor::send_to_session or another real session's <send target=#_scxml_ID>; seeded \
         send-side jitter (none/yield/spin/sleep/bursts), optionally a slowed consumer and a consumer with a running \
         invoked child; a sixth of the host events carry invoke ids (foreign, empty, the child's, done.invoke.*) to \
         exercise the dequeue filter. Real schedules are only SAMPLED. A case is distinct by the observed owner \
         sequence (which producer's event was dequeued at each position); all cases are non-trivial",
    );
    install_factory();
    if let Some(path) = &args.replay {
        let v: Value = serde_json::from_str(&std::fs::read_to_string(path).unwrap()).unwrap();
        let c = c13_case_from_json(&v["case"]);
        let reps = if v["signature"].is_string() { 20 } else { 1 };
        for _ in 0..reps {
            c13_check(&c, model, &mut rep, "replay");
        }
        return rep;
    }
    for c in c13_corpus() {
        c13_check(&c, model, &mut rep, "corpus");
        registry_clear();
    }
    let n = if args.thorough { 10000 } else { 220 };
    for i in 0..n {
        let mut p = Prng::for_case(args.seed, i);
        let c = c13_gen(&mut p, args.thorough);
        c13_check(&c, model, &mut rep, &format!("gen seed={} index={}", args.seed, i));
        registry_clear();
        // a platform that loses or wedges events makes every case wait for its time-out: enough is enough
        if rep.oracle_failures.len() >= 25 || rep.disagreements.len() >= 40 {
            rep.count("stopped_early_after_many_failures");
            break;
        }
    }
    // the string constants of the model are the crate's
    let consts = model.ask("route consts");
    let want = [fsm::EVENT_DONE_INVOKE_PREFIX];
    let got: Vec<&str> = consts.split(' ').collect();
    if got.len() < 10 || got[9] != hexs(want[0]) {
        rep.disagree(json!({"what": "constant done.invoke. prefix", "model": consts}));
    }
    let _ = (hex(&[]), BTreeMap::<String, String>::new());
    rep
}

// ------------------------------------------------------------------------------------------
// C15
// ------------------------------------------------------------------------------------------

const PROC_URL: &str = "http://www.w3.org/TR/scxml/#SCXMLEventProcessor";

type RecLog = Arc<Mutex<Vec<(u32, Vec<String>)>>>;

/// `rec(tag, …)`: records (session id of the calling session, canonical arguments)
#[derive(Clone)]
pub struct RecAction {
    pub log: RecLog,
}
impl Action for RecAction {
    fn execute(&self, arguments: &[Data], global: &GlobalData) -> Result<Data, String> {
        let s: Vec<String> = arguments.iter().map(canon).collect();
        self.log.lock().unwrap_or_else(|e| e.into_inner()).push((global.session_id, s));
        Ok(Data::Boolean(true))
    }
    fn get_copy(&self) -> Box<dyn Action> {
        Box::new(self.clone())
    }
}

#[derive(Clone, Debug)]
struct RoleDef {
    name: &'static str,
    parent: Option<usize>,
    /// invoke id under which the parent invokes this role (None: started by the host)
    invoke_id: Option<&'static str>,
}

#[derive(Clone, Debug, PartialEq)]
enum Tgt {
    NoTarget,
    Internal,
    Parent,
    /// `#_scxml_<id of role>`, spelling 0 = plain, 1 = `+id`, 2 = `00id`
    Session(usize, u8),
    /// `#_<invoke id of the child role>`
    Child(usize),
    /// a well-formed session target for an id nobody has
    UnknownSession,
    /// `#_scxml_<text>` where text is not a u32
    BadSession(&'static str),
    /// `#_<id>` where id is not a running child
    NoSuchChild(&'static str),
    /// not an SCXML target at all
    Foreign(&'static str),
}

#[derive(Clone, Debug, PartialEq)]
enum How {
    Literal,
    ExprQuoted,
    ExprVar,
}

#[derive(Clone, Debug, PartialEq)]
enum Payload {
    None,
    Params(Vec<usize>),
    Namelist(Vec<usize>),
    Both(Vec<usize>, Vec<usize>),
    ContentText(&'static str),
    ContentExpr,
}

#[derive(Clone, Debug, PartialEq)]
enum SendIdForm {
    None,
    Literal(&'static str),
    Location,
}

#[derive(Clone, Debug, PartialEq)]
enum TypeForm {
    Absent,
    Short,
    Url,
    ExprShort,
    Bad,
}

#[derive(Clone, Debug)]
struct SendCase {
    sender: usize,
    tgt: Tgt,
    how: How,
    payload: Payload,
    sendid: SendIdForm,
    ty: TypeForm,
    name: String,
    name_expr: bool,
}

#[derive(Clone, Debug)]
struct WorldSpec {
    roles: Vec<RoleDef>,
    cases: Vec<SendCase>,
}

/// (xml of the `<param>`, name, canonical value)
const PARAMS: &[(&str, &str, &str)] = &[
    ("<param name=\"p0\" expr=\"v1 + 1\"/>", "p0", "i:43"),
    ("<param name=\"p1\" expr=\"'lit'\"/>", "p1", "s:lit"),
    ("<param name=\"p2\" location=\"v2\"/>", "p2", "s:str"),
    ("<param name=\"p3\" expr=\"2.5\"/>", "p3", "d:4004000000000000"),
];
const NAMES: &[(&str, &str)] = &[("v1", "i:42"), ("v2", "s:str")];

fn topo(i: u64) -> Vec<RoleDef> {
    let r = |name, parent, invoke_id| RoleDef { name, parent, invoke_id };
    match i {
        0 => vec![r("P", None, None), r("S", None, None)],
        1 => vec![r("P", None, None), r("M", Some(0), Some("mid"))],
        2 => vec![r("P", None, None), r("M", Some(0), Some("mid")), r("S", None, None)],
        3 => vec![r("P", None, None), r("M", Some(0), Some("mid")), r("G", Some(1), Some("leaf")), r("S", None, None)],
        4 => vec![r("P", None, None), r("M", Some(0), Some("mid")), r("N", Some(0), Some("kid.2")), r("S", None, None), r("T", None, None)],
        _ => vec![r("P", None, None), r("M", Some(0), Some("parent")), r("S", None, None)],
    }
}

fn target_string(t: &Tgt, roles: &[RoleDef], ids: &[u32]) -> String {
    match t {
        Tgt::NoTarget => String::new(),
        Tgt::Internal => "#_internal".into(),
        Tgt::Parent => "#_parent".into(),
        Tgt::Session(r, sp) => match sp {
            0 => format!("#_scxml_{}", ids[*r]),
            1 => format!("#_scxml_+{}", ids[*r]),
            _ => format!("#_scxml_00{}", ids[*r]),
        },
        Tgt::Child(r) => format!("#_{}", roles[*r].invoke_id.unwrap_or("?")),
        Tgt::UnknownSession => "#_scxml_4000000001".into(),
        Tgt::BadSession(s) => format!("#_scxml_{}", s),
        Tgt::NoSuchChild(s) => format!("#_{}", s),
        Tgt::Foreign(s) => s.to_string(),
    }
}

fn tgt_kind(t: &Tgt) -> &'static str {
    match t {
        Tgt::NoTarget => "none",
        Tgt::Internal => "#_internal",
        Tgt::Parent => "#_parent",
        Tgt::Session(_, 0) => "#_scxml_<id>",
        Tgt::Session(_, 1) => "#_scxml_+<id>",
        Tgt::Session(_, _) => "#_scxml_00<id>",
        Tgt::Child(_) => "#_<invokeid>",
        Tgt::UnknownSession => "#_scxml_<unknown>",
        Tgt::BadSession(_) => "#_scxml_<malformed>",
        Tgt::NoSuchChild(_) => "#_<no such child>",
        Tgt::Foreign(_) => "<foreign>",
    }
}

fn type_string(t: &TypeForm) -> &'static str {
    match t {
        TypeForm::Absent => "",
        TypeForm::Short | TypeForm::ExprShort => "scxml",
        TypeForm::Url => PROC_URL,
        TypeForm::Bad => "x-unknown-processor",
    }
}

/// the payload as (has content, content value, data_vec)
fn payload_values(p: &Payload) -> (bool, Option<String>, Vec<(String, String)>) {
    let ps = |v: &Vec<usize>| v.iter().map(|i| (PARAMS[*i].1.to_string(), PARAMS[*i].2.to_string())).collect::<Vec<_>>();
    let ns = |v: &Vec<usize>| v.iter().map(|i| (NAMES[*i].0.to_string(), NAMES[*i].1.to_string())).collect::<Vec<_>>();
    match p {
        Payload::None => (false, None, vec![]),
        Payload::Params(v) => (false, None, ps(v)),
        Payload::Namelist(v) => (false, None, ns(v)),
        Payload::Both(a, b) => {
            let mut x = ps(a);
            x.extend(ns(b));
            (false, None, x)
        }
        Payload::ContentText(t) => {
            let v = match t.parse::<f64>() {
                Ok(f) if f.fract() == 0.0 => format!("i:{}", f as i64),
                Ok(f) => format!("d:{:016x}", f.to_bits()),
                Err(_) => format!("s:{}", t),
            };
            (true, Some(v), vec![])
        }
        Payload::ContentExpr => (true, Some("s:str".to_string()), vec![]),
    }
}

fn send_xml(k: usize, c: &SendCase, roles: &[RoleDef], ids: &[u32]) -> (String, String) {
    let mut decl = String::new();
    let mut attrs = String::new();
    let t = target_string(&c.tgt, roles, ids);
    if c.tgt != Tgt::NoTarget {
        match c.how {
            How::Literal => attrs.push_str(&format!(" target=\"{}\"", t)),
            How::ExprQuoted => attrs.push_str(&format!(" targetexpr=\"'{}'\"", t)),
            How::ExprVar => {
                decl.push_str(&format!("<data id=\"tv{}\" expr=\"'{}'\"/>", k, t));
                attrs.push_str(&format!(" targetexpr=\"tv{}\"", k));
            }
        }
    }
    if c.name_expr {
        attrs.push_str(&format!(" eventexpr=\"'{}'\"", c.name));
    } else {
        attrs.push_str(&format!(" event=\"{}\"", c.name));
    }
    match &c.sendid {
        SendIdForm::None => {}
        SendIdForm::Literal(s) => attrs.push_str(&format!(" id=\"{}\"", s)),
        SendIdForm::Location => attrs.push_str(" idlocation=\"loc\""),
    }
    match c.ty {
        TypeForm::Absent => {}
        TypeForm::Short => attrs.push_str(" type=\"scxml\""),
        TypeForm::Url => attrs.push_str(&format!(" type=\"{}\"", PROC_URL)),
        TypeForm::ExprShort => attrs.push_str(" typeexpr=\"'scxml'\""),
        TypeForm::Bad => attrs.push_str(" type=\"x-unknown-processor\""),
    }
    let mut body = String::new();
    let nl = |v: &Vec<usize>| v.iter().map(|i| NAMES[*i].0).collect::<Vec<_>>().join(" ");
    match &c.payload {
        Payload::None => {}
        Payload::Params(v) => v.iter().for_each(|i| body.push_str(PARAMS[*i].0)),
        Payload::Namelist(v) => attrs.push_str(&format!(" namelist=\"{}\"", nl(v))),
        Payload::Both(a, b) => {
            a.iter().for_each(|i| body.push_str(PARAMS[*i].0));
            attrs.push_str(&format!(" namelist=\"{}\"", nl(b)));
        }
        Payload::ContentText(t) => body.push_str(&format!("<content>{}</content>", t)),
        Payload::ContentExpr => body.push_str("<content expr=\"v2\"/>"),
    }
    (format!("<send{}>{}</send>", attrs, body), decl)
}

fn role_xml(r: usize, w: &WorldSpec, ids: &[u32]) -> String {
    let role = &w.roles[r];
    let mut decls = String::new();
    let mut gos = String::new();
    for (k, c) in w.cases.iter().enumerate() {
        if c.sender == r {
            let (s, d) = send_xml(k, c, &w.roles, ids);
            decls.push_str(&d);
            gos.push_str(&format!(
                "<transition event=\"go.{}\">{}<log expr=\"rec('sent', {}, loc)\"/></transition>",
                k, s, k
            ));
        }
    }
    let mut invokes = String::new();
    for (ci, c) in w.roles.iter().enumerate() {
        if c.parent == Some(r) {
            invokes.push_str(&format!(
                "<invoke id=\"{}\" type=\"scxml\"><content>{}</content></invoke>",
                c.invoke_id.unwrap(),
                role_xml(ci, w, ids)
            ));
        }
    }
    format!(
        "<scxml {} initial=\"R_{}\" name=\"{}\"><datamodel><data id=\"v1\" expr=\"42\"/><data id=\"v2\" expr=\"'str'\"/>\
         <data id=\"loc\" expr=\"''\"/>{}</datamodel><state id=\"R_{}\">\
         <onentry><log expr=\"rec('start', '{}', _sessionid, _ioprocessors)\"/></onentry>{}{}\
         <transition event=\"t\"><log expr=\"rec('ev', _event)\"/>\
         <send event=\"reply\" targetexpr=\"_event.origin\" typeexpr=\"_event.origintype\"><param name=\"re\" expr=\"_event.name\"/></send></transition>\
         <transition event=\"fence\"/>\
         <transition event=\"*\"><log expr=\"rec('ev', _event)\"/></transition>\
         </state></scxml>",
        XMLNS, role.name, role.name, decls, role.name, role.name, invokes, gos
    )
}

fn opt_s(o: &Option<String>) -> String {
    match o {
        None => "~".into(),
        Some(s) => s.clone(),
    }
}

fn canon_event(queue: &str, e: &Event) -> String {
    let params = match &e.param_values {
        None => "~".to_string(),
        Some(v) => v.iter().map(|p| format!("{}={}", p.name, canon(&p.value))).collect::<Vec<_>>().join(","),
    };
    let content = match &e.content {
        None => "~".to_string(),
        Some(d) => canon(d),
    };
    format!(
        "{}|{}|{}|{}|{}|{}|{}|{}|{}",
        queue,
        e.name,
        e.etype.name(),
        opt_s(&e.sendid),
        opt_s(&e.origin),
        opt_s(&e.origin_type),
        opt_s(&e.invoke_id),
        params,
        content
    )
}

fn unhex_s(s: &str) -> String {
    String::from_utf8_lossy(&crate::proto::unhex(s).unwrap_or_default()).to_string()
}
fn unhex_opt(s: &str) -> String {
    if s == "~" {
        "~".into()
    } else {
        unhex_s(s)
    }
}

/// a model record `sid|ext/int|accepted|event` → (sid, accepted, canonical event text as above)
fn decode_record(r: &str) -> Option<(u32, bool, String, ModelEvent)> {
    let parts: Vec<&str> = r.split('|').collect();
    if parts.len() != 4 {
        return None;
    }
    let f: Vec<&str> = parts[3].split(';').collect();
    if f.len() != 8 {
        return None;
    }
    let params = match f[6] {
        "~" => "~".to_string(),
        "." => String::new(),
        s => s
            .split(',')
            .map(|kv| {
                let mut it = kv.split('=');
                format!("{}={}", unhex_s(it.next().unwrap_or("")), unhex_s(it.next().unwrap_or("")))
            })
            .collect::<Vec<_>>()
            .join(","),
    };
    let me = ModelEvent {
        name: unhex_s(f[0]),
        origin: unhex_opt(f[3]),
        origintype: unhex_opt(f[4]),
        invokeid: if f[5] == "~" { None } else { Some(unhex_s(f[5])) },
    };
    let text = format!(
        "{}|{}|{}|{}|{}|{}|{}|{}|{}",
        parts[1],
        me.name,
        f[1],
        unhex_opt(f[2]),
        me.origin,
        me.origintype,
        unhex_opt(f[5]),
        params,
        unhex_opt(f[7])
    );
    Some((parts[0].parse().ok()?, parts[2] == "1", text, me))
}

#[derive(Clone, Debug)]
struct ModelEvent {
    name: String,
    origin: String,
    origintype: String,
    invokeid: Option<String>,
}

/// `removed[i]` = invoke ids that role i has already dropped from its `child_sessions` (it processed a
/// `done.invoke.`-named event carrying that invoke id)
fn world_string(roles: &[RoleDef], ids: &[u32], removed: &[Vec<String>]) -> String {
    roles
        .iter()
        .enumerate()
        .map(|(i, r)| {
            let children: Vec<String> = roles
                .iter()
                .enumerate()
                .filter(|(_, c)| c.parent == Some(i) && !removed[i].iter().any(|x| x == c.invoke_id.unwrap()))
                .map(|(ci, c)| format!("{}={}", hexs(c.invoke_id.unwrap()), ids[ci]))
                .collect();
            format!(
                "{};{};{};{}",
                ids[i],
                match r.parent {
                    None => "~".to_string(),
                    Some(p) => ids[p].to_string(),
                },
                match r.invoke_id {
                    None => "~".to_string(),
                    Some(s) => hexs(s),
                },
                if children.is_empty() { ".".to_string() } else { children.join(",") }
            )
        })
        .collect::<Vec<_>>()
        .join("/")
}

fn spec_string(
    target: &str,
    event: &str,
    idlit: &str,
    idloc: bool,
    state: &str,
    hasc: bool,
    content: &Option<String>,
    params: &[(String, String)],
    ty: &str,
) -> String {
    format!(
        "{};{};{};{};{};{};{};{};0;{}",
        hexs(target),
        hexs(event),
        hexs(idlit),
        if idloc { 1 } else { 0 },
        hexs(state),
        if hasc { 1 } else { 0 },
        match content {
            None => "~".to_string(),
            Some(c) => hexs(c),
        },
        if params.is_empty() {
            ".".to_string()
        } else {
            params.iter().map(|(k, v)| format!("{}={}", hexs(k), hexs(v))).collect::<Vec<_>>().join(",")
        },
        hexs(ty)
    )
}

struct Live {
    /// host-started sessions (join handle available)
    session: Option<ScxmlSession>,
    sender: std::sync::mpsc::Sender<Box<Event>>,
    log: RLog,
    /// how many records of `log` were consumed by earlier cases
    pos: usize,
    fences: usize,
    dead: bool,
}

fn count_ext(l: &RLog, name: &str) -> usize {
    l.lock().unwrap_or_else(|e| e.into_inner()).iter().filter(|r| matches!(r, Rec::Ext(e) if e.name == name)).count()
}

/// sends a `fence` event to every live session and waits until each has processed it
fn fence_all(live: &mut [Live], only: Option<usize>) {
    for (i, l) in live.iter_mut().enumerate() {
        if l.dead || only.map(|o| o != i).unwrap_or(false) {
            continue;
        }
        l.fences += 1;
        let _ = l.sender.send(Box::new(Event::new_simple("fence")));
    }
    for (i, l) in live.iter_mut().enumerate() {
        if l.dead || only.map(|o| o != i).unwrap_or(false) {
            continue;
        }
        let want = l.fences;
        let log = l.log.clone();
        let fin = |l: &Live| l.session.as_ref().and_then(|s| s.thread.as_ref()).map(|h| h.is_finished()).unwrap_or(false);
        let t = Instant::now();
        loop {
            if count_ext(&log, "fence") >= want {
                break;
            }
            if fin(l) {
                l.dead = true;
                break;
            }
            // invoked sessions have no join handle here: a bounded wait decides
            if t.elapsed() > Duration::from_millis(if l.session.is_some() { 20000 } else { 2500 }) {
                l.dead = true;
                break;
            }
            std::thread::sleep(Duration::from_micros(100));
        }
    }
}

fn start_world_doc(xml: &str, executor: &FsmExecutor, rec: &RecLog) -> Result<(ScxmlSession, RLog), String> {
    let mut fsm = scxml_reader::parse_from_xml(xml.to_string())?;
    let (tracer, log) = ConcTracer::new();
    fsm.tracer = Box::new(tracer);
    let mut actions = ActionWrapper::new();
    actions.add_action("rec", Box::new(RecAction { log: rec.clone() }));
    let session = fsm::start_fsm_with_data_and_finish_mode(
        fsm,
        actions,
        Box::new(executor.clone()),
        &[],
        FinishMode::KEEP_CONFIGURATION,
    );
    Ok((session, log))
}

struct Ids {
    seen_sessions: std::collections::HashSet<u32>,
    seen_generated: std::collections::HashSet<String>,
    /// worlds whose sessions did not come up (after three the family stops starting worlds)
    start_failures: u32,
}

fn c15_run_world(w: &WorldSpec, model: &mut Model, rep: &mut Report, origin: &str, ids_seen: &mut Ids) {
    if ids_seen.start_failures >= 3 {
        rep.count("worlds_not_started_after_repeated_start_failures");
        return;
    }
    registry_clear();
    let executor = FsmExecutor::new_without_io_processor();
    let rec: RecLog = Arc::new(Mutex::new(Vec::new()));
    // learn where the session id counter stands
    let base = {
        let (mut s, l) = match start_world_doc(
            &format!("<scxml {} initial=\"z\"><state id=\"z\"/></scxml>", XMLNS),
            &executor,
            &rec,
        ) {
            Ok(x) => x,
            Err(e) => {
                rep.disagree(json!({"origin": origin, "impl_error": e}));
                return;
            }
        };
        wait_until(Duration::from_secs(20), || count_deq_start(&l) >= 1);
        let _ = s.sender.send(Box::new(Event::new_simple(EVENT_CANCEL_SESSION)));
        let _ = join_session(&mut s, Duration::from_secs(20));
        s.session_id
    };
    // predicted ids: host-started roles in order, each followed by its invoked descendants
    let n = w.roles.len();
    let mut ids = vec![0u32; n];
    let mut next = base + 1;
    fn assign(r: usize, roles: &[RoleDef], ids: &mut [u32], next: &mut u32) {
        ids[r] = *next;
        *next += 1;
        for (ci, c) in roles.iter().enumerate() {
            if c.parent == Some(r) {
                assign(ci, roles, ids, next);
            }
        }
    }
    for r in 0..n {
        if w.roles[r].parent.is_none() {
            assign(r, &w.roles, &mut ids, &mut next);
        }
    }
    // start
    let mut live: Vec<Option<Live>> = (0..n).map(|_| None).collect();
    for r in 0..n {
        if w.roles[r].parent.is_some() {
            continue;
        }
        let xml = role_xml(r, w, &ids);
        let (session, log) = match start_world_doc(&xml, &executor, &rec) {
            Ok(x) => x,
            Err(e) => {
                rep.disagree(json!({"origin": origin, "impl_error": e, "xml": xml}));
                cancel_all(&executor);
                return;
            }
        };
        wait_until(Duration::from_secs(20), || count_deq_start(&log) >= 1);
        let sender = session.sender.clone();
        live[r] = Some(Live { session: Some(session), sender, log, pos: 0, fences: 0, dead: false });
        // descendants, in the order they are invoked
        fn wait_desc(r: usize, w: &WorldSpec, live: &mut Vec<Option<Live>>, executor: &FsmExecutor, ids: &[u32]) -> bool {
            for ci in 0..w.roles.len() {
                if w.roles[ci].parent == Some(r) {
                    let state = format!("R_{}", w.roles[ci].name);
                    let mut found = None;
                    wait_until(Duration::from_secs(20), || {
                        found = registry_find(&state);
                        found.as_ref().map(|l| count_deq_start(l) >= 1).unwrap_or(false)
                    });
                    let (log, sender) = match (found, executor.get_session_sender(ids[ci])) {
                        (Some(l), Some(s)) => (l, s),
                        _ => return false,
                    };
                    live[ci] = Some(Live { session: None, sender, log, pos: 0, fences: 0, dead: false });
                    if !wait_desc(ci, w, live, executor, ids) {
                        return false;
                    }
                }
            }
            true
        }
        if !wait_desc(r, w, &mut live, &executor, &ids) {
            rep.count("world_start_failed");
            ids_seen.start_failures += 1;
            rep.disagree(json!({"origin": origin, "impl_error": "invoked session did not start or id prediction failed", "ids": ids}));
            cancel_all(&executor);
            return;
        }
    }
    let mut live: Vec<Live> = live.into_iter().map(|l| l.unwrap()).collect();
    // ---- start records: _sessionid, _ioprocessors
    {
        let recs = rec.lock().unwrap().clone();
        for r in 0..n {
            let mine: Vec<&(u32, Vec<String>)> = recs
                .iter()
                .filter(|(_, a)| a.len() == 4 && a[0] == "s:start" && a[1] == format!("s:{}", w.roles[r].name))
                .collect();
            let loc = unhex_s(&model.ask(&format!("route shownat {}", ids[r])));
            let want_loc = format!("#_scxml_{}", loc);
            let ok = mine.len() == 1
                && mine[0].0 == ids[r]
                && mine[0].1[2] == format!("i:{}", ids[r])
                && mine[0].1[3]
                    == format!("{{{}={{location=s:{}}},scxml={{location=s:{}}}}}", PROC_URL, want_loc, want_loc);
            if let Some(s) = &live[r].session {
                if s.session_id != ids[r] {
                    rep.disagree(json!({"origin": origin, "what": "session id prediction", "role": w.roles[r].name}));
                }
            }
            if !ok {
                rep.oracle_fail(
                    "C15:sessionid-or-location",
                    json!({"origin": origin, "role": w.roles[r].name, "expected_id": ids[r], "records": mine.iter().map(|m| m.1.clone()).collect::<Vec<_>>()}),
                );
            }
            if !ids_seen.seen_sessions.insert(ids[r]) {
                rep.oracle_fail("C15:duplicate-session-id", json!({"origin": origin, "id": ids[r]}));
            }
        }
    }
    let mut removed: Vec<Vec<String>> = vec![Vec::new(); n];
    rep.count(&format!("worlds_with_{}_sessions", n));
    // ---- the cases
    for (k, c) in w.cases.iter().enumerate() {
        if live[c.sender].dead {
            rep.count("cases_skipped_sender_dead");
            continue;
        }
        rep.evaluations += 1;
        let wstr = world_string(&w.roles, &ids, &removed);
        let removed_before = removed.clone();
        let case_json = json!({"origin": origin, "case_index": k, "sender": w.roles[c.sender].name,
            "roles": w.roles.iter().map(|r| r.name).collect::<Vec<_>>(), "case": format!("{:?}", c)});
        rep.count(&format!("target={}", tgt_kind(&c.tgt)));
        rep.count(&format!("target_given={:?}", c.how));
        rep.count(&format!("payload={}", match &c.payload {
            Payload::None => "none",
            Payload::Params(_) => "params",
            Payload::Namelist(_) => "namelist",
            Payload::Both(_, _) => "params+namelist",
            Payload::ContentText(_) => "content-text",
            Payload::ContentExpr => "content-expr",
        }));
        rep.count(&format!("sendid={}", match &c.sendid {
            SendIdForm::None => "none",
            SendIdForm::Literal(_) => "literal",
            SendIdForm::Location => "idlocation",
        }));
        rep.count(&format!("type={:?}", c.ty));
        rep.count(&format!("sender_role={}", match (w.roles[c.sender].parent, w.roles.iter().any(|r| r.parent == Some(c.sender))) {
            (None, false) => "host-started",
            (None, true) => "host-started-with-children",
            (Some(_), false) => "invoked-leaf",
            (Some(_), true) => "invoked-with-children",
        }));
        let rec_before = rec.lock().unwrap().len();
        let _ = live[c.sender].sender.send(Box::new(Event::new_simple(&format!("go.{}", k))));
        fence_all(&mut live, Some(c.sender));
        fence_all(&mut live, None);
        fence_all(&mut live, None);
        // ---- observed
        let mut observed: Vec<Vec<String>> = vec![Vec::new(); n];
        let mut observed_ev: Vec<Vec<(String, Event)>> = vec![Vec::new(); n];
        for r in 0..n {
            let recs = rl_snapshot(&live[r].log);
            for x in &recs[live[r].pos..] {
                let (q, e) = match x {
                    Rec::Ext(e) => ("ext", e),
                    Rec::Int(e) => ("int", e),
                    _ => continue,
                };
                if e.name == "fence" || e.name.starts_with("go.") {
                    continue;
                }
                observed[r].push(canon_event(q, e));
                observed_ev[r].push((q.to_string(), e.clone()));
            }
            live[r].pos = recs.len();
        }
        let sender_panicked = live[c.sender].dead;
        // generated send id (idlocation): recorded by the document, must be `state.N`, fresh
        let mut generated: Option<String> = None;
        if c.sendid == SendIdForm::Location && !sender_panicked {
            let recs = rec.lock().unwrap();
            for (sid, a) in recs[rec_before..].iter() {
                if *sid == ids[c.sender] && a.len() == 3 && a[0] == "s:sent" && a[1] == format!("i:{}", k) {
                    generated = Some(a[2].trim_start_matches("s:").to_string());
                }
            }
            let state = format!("R_{}.", w.roles[c.sender].name);
            if generated.is_none() {
                // a failed <send> aborts the block before `rec('sent', …)`: the id shows in the error events
                for (_, e) in &observed_ev[c.sender] {
                    if let Some(sid) = &e.sendid {
                        if sid.starts_with(&state) && e.name.starts_with("error.") {
                            generated = Some(sid.clone());
                        }
                    }
                }
            }
            let okfmt = generated
                .as_ref()
                .map(|g| g.starts_with(&state) && g[state.len()..].parse::<u32>().is_ok() && !g[state.len()..].starts_with('+'))
                .unwrap_or(false);
            if !okfmt {
                rep.oracle_fail("C15:generated-id-format", json!({"case": case_json, "generated": generated}));
            } else if !ids_seen.seen_generated.insert(generated.clone().unwrap()) {
                rep.oracle_fail("C15:duplicate-generated-id", json!({"case": case_json, "generated": generated}));
            }
            rep.count("generated_send_ids");
        }
        let norm_gen = |s: &str| -> String {
            match &generated {
                Some(g) => s.replace(g.as_str(), &format!("R_{}.0", w.roles[c.sender].name)),
                None => s.to_string(),
            }
        };
        // ---- model
        let (hasc, content, params) = payload_values(&c.payload);
        let tstr = target_string(&c.tgt, &w.roles, &ids);
        let spec = spec_string(
            &tstr,
            &c.name,
            match &c.sendid {
                SendIdForm::Literal(s) => s,
                _ => "",
            },
            c.sendid == SendIdForm::Location,
            &format!("R_{}", w.roles[c.sender].name),
            hasc,
            &content,
            &params,
            type_string(&c.ty),
        );
        let ans = model.ask(&format!("route send {} {} 0 {}", wstr, ids[c.sender], spec));
        let mut expected: Vec<Vec<String>> = vec![Vec::new(); n];
        let role_of = |sid: u32| ids.iter().position(|x| *x == sid);
        let mut model_panic = false;
        let mut dropped_by_filter = 0;
        let mut delivered_to: Vec<(usize, String, bool)> = Vec::new(); // (role, queue, accepted)
        if ans.starts_with("panic ") {
            model_panic = true;
            rep.count(&format!("model_{}", ans.replace(' ', "_")));
        } else if let Some(rest) = ans.strip_prefix("done ") {
            let f: Vec<&str> = rest.split(' ').collect();
            let records: Vec<&str> = if f.len() < 3 || f[2] == "." { vec![] } else { f[2].split('/').collect() };
            // replies of the receivers of a `t.` event, predicted by a second call of the model
            let mut pending: Vec<(usize, ModelEvent)> = Vec::new();
            for r in records {
                match decode_record(r) {
                    Some((sid, acc, text, me)) => {
                        let ro = role_of(sid).unwrap_or(0);
                        let queue = if text.starts_with("ext|") { "ext" } else { "int" };
                        delivered_to.push((ro, queue.to_string(), acc));
                        if acc {
                            expected[ro].push(text);
                            if me.name.starts_with(fsm::EVENT_DONE_INVOKE_PREFIX) && queue == "ext" {
                                // mainEventLoop: child_sessions.remove(invoke_id) for a done.invoke.* event
                                if let Some(i) = &me.invokeid {
                                    if w.roles.iter().any(|x| x.parent == Some(ro) && x.invoke_id == Some(i.as_str())) {
                                        removed[ro].push(i.clone());
                                        rep.count("child_removed_by_done.invoke_event");
                                    }
                                }
                            }
                            if me.name.starts_with("t.") || me.name == "t" {
                                pending.push((ro, me));
                            }
                        } else {
                            dropped_by_filter += 1;
                        }
                    }
                    None => rep.disagree(json!({"case": case_json, "bad_model_record": r})),
                }
            }
            for (ro, me) in pending {
                let spec2 = spec_string(
                    &me.origin,
                    "reply",
                    "",
                    false,
                    &format!("R_{}", w.roles[ro].name),
                    false,
                    &None,
                    &[("re".to_string(), format!("s:{}", me.name))],
                    &me.origintype,
                );
                let a2 = model.ask(&format!("route send {} {} 0 {}", wstr, ids[ro], spec2));
                if let Some(rest) = a2.strip_prefix("done ") {
                    let f: Vec<&str> = rest.split(' ').collect();
                    if f.len() >= 3 && f[2] != "." {
                        for r in f[2].split('/') {
                            if let Some((sid, acc, text, _)) = decode_record(r) {
                                if acc {
                                    expected[role_of(sid).unwrap_or(0)].push(text);
                                } else {
                                    dropped_by_filter += 1;
                                    rep.count("reply_dropped_by_receivers_filter(P13)");
                                }
                            }
                        }
                    }
                } else {
                    rep.disagree(json!({"case": case_json, "model_reply": a2}));
                }
            }
        } else {
            rep.disagree(json!({"case": case_json, "model": ans}));
            continue;
        }
        if dropped_by_filter > 0 {
            rep.count("cases_with_event_enqueued_then_dropped_by_filter(P13)");
        }
        // ---- model vs implementation
        if model_panic != sender_panicked {
            rep.disagree(json!({"case": case_json, "model": ans, "impl_sender_thread_died": sender_panicked}));
        } else if model_panic {
            rep.count("panic_confirmed_on_implementation(P9,C12)");
            rep.nontrivial.insert(format!("panic:{}:{:?}", tgt_kind(&c.tgt), c.how));
        }
        if !model_panic {
            for r in 0..n {
                let mut o: Vec<String> = observed[r].iter().map(|s| norm_gen(s)).collect();
                let mut e = expected[r].clone();
                o.sort();
                e.sort();
                if o != e {
                    rep.disagree(json!({"case": case_json, "role": w.roles[r].name, "impl": o, "model": e, "target": tstr}));
                }
            }
        }
        // ---- the property's oracle on the implementation's observations, for the target forms
        // of the statement when the addressed session exists (independent of the model's routing)
        let addressed: Option<(usize, &str)> = match &c.tgt {
            Tgt::NoTarget => Some((c.sender, "ext")),
            Tgt::Internal => Some((c.sender, "int")),
            Tgt::Parent => w.roles[c.sender].parent.map(|p| (p, "ext")),
            Tgt::Session(r, _) => Some((*r, "ext")),
            Tgt::Child(r) => {
                let inv = w.roles[*r].invoke_id.unwrap_or("");
                if inv == "parent" || inv == "internal" || inv.starts_with("scxml_") {
                    None // the statement's own target forms overlap; see notes
                } else if removed_before[c.sender].iter().any(|x| x == inv) {
                    None // the sender has already processed a done.invoke.* event of that invocation
                } else {
                    Some((*r, "ext"))
                }
            }
            _ => None,
        };
        let type_ok = c.ty != TypeForm::Bad;
        if let (Some((ro, q)), true, false) = (addressed, type_ok, sender_panicked) {
            // is the delivered event visible to the receiver's document, or does the (C14) filter hide it?
            // (computed here from the filter's rule, not taken from the model)
            let visible = q == "int"
                || c.name.starts_with(fsm::EVENT_DONE_INVOKE_PREFIX)
                || match w.roles[c.sender].invoke_id {
                    None => true,
                    Some(i) => {
                        w.roles[ro].invoke_id == Some(i)
                            || w.roles.iter().any(|x| {
                                x.parent == Some(ro) && x.invoke_id == Some(i) && !removed_before[ro].iter().any(|y| y == i)
                            })
                    }
                };
            let _ = &delivered_to;
            if visible {
                let form = tgt_kind(&c.tgt);
                let mut hits = 0;
                for r in 0..n {
                    for (qq, e) in &observed_ev[r] {
                        if e.name == c.name {
                            if r == ro && qq == q {
                                hits += 1;
                                // fields
                                let want_sendid = match &c.sendid {
                                    SendIdForm::None => None,
                                    SendIdForm::Literal(s) => Some(s.to_string()),
                                    SendIdForm::Location => generated.clone(),
                                };
                                if e.sendid != want_sendid {
                                    rep.oracle_fail(&format!("C15:field:sendid:{}", form), json!({"case": case_json, "got": e.sendid, "want": want_sendid}));
                                }
                                let got_params: Vec<(String, String)> = e
                                    .param_values
                                    .as_ref()
                                    .map(|v| v.iter().map(|p| (p.name.clone(), canon(&p.value))).collect())
                                    .unwrap_or_default();
                                let got_content = e.content.as_ref().map(canon);
                                if got_params != params || got_content != content {
                                    rep.oracle_fail(&format!("C15:field:data:{}", form), json!({"case": case_json, "got_params": got_params, "got_content": got_content}));
                                }
                                if e.origin_type.as_deref() != Some(PROC_URL) || e.origin != Some(format!("#_scxml_{}", ids[c.sender])) {
                                    rep.oracle_fail(&format!("C15:field:origin:{}", form), json!({"case": case_json, "origin": e.origin, "origintype": e.origin_type}));
                                }
                            } else {
                                rep.oracle_fail(&format!("C15:misrouted:{}", form), json!({"case": case_json, "arrived_at": w.roles[r].name, "queue": qq}));
                            }
                        }
                    }
                }
                if hits != 1 {
                    rep.oracle_fail(&format!("C15:delivered-{}-times:{}", hits, form), json!({"case": case_json}));
                }
                // the reply must come back to the sender's external queue exactly once (unless the
                // sender's own filter hides it: P13)
                if c.name.starts_with("t.") {
                    let replies: Vec<&Event> = observed_ev[c.sender].iter().filter(|(qq, e)| qq == "ext" && e.name == "reply").map(|x| &x.1).collect();
                    // the receiver's reply carries the receiver's caller invoke id; the sender's dequeue
                    // filter (C14 / P13) lets it through iff that id is absent, the sender's own caller
                    // id, or the invoke id of one of the sender's running children
                    let reply_hidden = match w.roles[ro].invoke_id {
                        None => false,
                        Some(i) => {
                            !(w.roles[c.sender].invoke_id == Some(i)
                                || w.roles.iter().any(|x| {
                                    x.parent == Some(c.sender)
                                        && x.invoke_id == Some(i)
                                        && !removed_before[c.sender].iter().any(|y| y == i)
                                }))
                        }
                    };
                    if !reply_hidden {
                        let ok = replies.len() == 1
                            && replies[0].origin == Some(format!("#_scxml_{}", ids[ro]))
                            && replies[0].param_values.as_ref().map(|v| v.len() == 1 && canon(&v[0].value) == format!("s:{}", c.name)).unwrap_or(false);
                        if !ok {
                            rep.oracle_fail(&format!("C15:reply:{}", form), json!({"case": case_json, "replies": replies.len()}));
                        } else {
                            rep.count("replies_reached_original_sender");
                        }
                    }
                }
                rep.count("oracle_checked_deliveries");
            }
        }
        rep.nontrivial.insert(format!(
            "{}|{}|{:?}|{:?}|{:?}|{:?}|{}",
            w.roles.iter().map(|r| r.name).collect::<String>(),
            w.roles[c.sender].name,
            c.tgt,
            c.how,
            std::mem::discriminant(&c.payload),
            std::mem::discriminant(&c.sendid),
            type_string(&c.ty)
        ));
        if k == 0 {
            rep.sample(json!({"roles": w.roles.iter().map(|r| r.name).collect::<Vec<_>>(), "sender": w.roles[c.sender].name, "target": tstr, "model": ans.chars().take(300).collect::<String>()}));
        }
    }
    cancel_all(&executor);
    for l in live.iter_mut() {
        if let Some(s) = l.session.as_mut() {
            let _ = join_session(s, Duration::from_secs(5));
        }
    }
}

fn gen_send_case(p: &mut Prng, roles: &[RoleDef], k: usize, allow_panic: bool) -> SendCase {
    let n = roles.len();
    let sender = p.below(n as u64) as usize;
    let children: Vec<usize> = (0..n).filter(|c| roles[*c].parent == Some(sender)).collect();
    let tgt = loop {
        let t = match p.below(16) {
            0 => Tgt::NoTarget,
            1 => Tgt::Internal,
            2 | 3 => Tgt::Parent,
            4..=7 => Tgt::Session(p.below(n as u64) as usize, if p.chance(1, 4) { p.range(1, 2) as u8 } else { 0 }),
            8..=10 => {
                if children.is_empty() {
                    continue;
                }
                Tgt::Child(*p.pick(&children))
            }
            11 => Tgt::UnknownSession,
            12 => Tgt::BadSession(*p.pick(&["abc", "", "-1", "4294967296", "1 ", "+", "1x"])),
            13 => Tgt::NoSuchChild(*p.pick(&["nochild", "", "scxml", "Internal", "mid.x"])),
            14 => Tgt::Foreign(*p.pick(&["http://localhost/x", "#internal", "_parent", "scxml_1", "#"])),
            _ => Tgt::Session(sender, 0),
        };
        let ts = target_string(&t, roles, &vec![1; n]);
        let panics = t == Tgt::UnknownSession || (ts == "#_parent" && roles[sender].parent.is_none());
        if panics && !allow_panic {
            continue;
        }
        break t;
    };
    let how = match p.below(3) {
        0 => How::Literal,
        1 => How::ExprQuoted,
        _ => How::ExprVar,
    };
    let payload = match p.below(8) {
        0 | 1 => Payload::None,
        2 => Payload::Params(vec![p.below(4) as usize]),
        3 => Payload::Params(vec![0, 1, 2, 3]),
        4 => Payload::Namelist(if p.chance(1, 2) { vec![0, 1] } else { vec![1] }),
        5 => Payload::Both(vec![p.below(4) as usize], vec![p.below(2) as usize]),
        6 => Payload::ContentText(*p.pick(&["hello", "17", "2.5", "hello world", "-3"])),
        _ => Payload::ContentExpr,
    };
    let sendid = match p.below(4) {
        0 | 1 => SendIdForm::None,
        2 => SendIdForm::Literal(*p.pick(&["sid1", "a.b", "42"])),
        _ => SendIdForm::Location,
    };
    let ty = match p.below(10) {
        0..=4 => TypeForm::Absent,
        5 | 6 => TypeForm::Short,
        7 => TypeForm::Url,
        8 => TypeForm::ExprShort,
        _ => TypeForm::Bad,
    };
    let name = if p.chance(1, 12) { format!("done.invoke.probe{}", k) } else { format!("t.{}", k) };
    SendCase { sender, tgt, how, payload, sendid, ty, name, name_expr: p.chance(1, 4) }
}

fn gen_world(p: &mut Prng) -> WorldSpec {
    let roles = topo(p.below(6));
    let ncases = p.range(6, 14) as usize;
    // sends to an unknown session and `#_parent` without parent (P9: they used to panic, repaired
    // by /repo commits 9d6cb1f and bcf85d6) are ordinary failing sends now and appear anywhere
    let mut cases: Vec<SendCase> = (0..ncases).map(|k| gen_send_case(p, &roles, k, true)).collect();
    if p.chance(1, 2) {
        // one more of them, last (when they panicked they poisoned the processor shared by the executor)
        let k = cases.len();
        let mut c = gen_send_case(p, &roles, k, true);
        let hosts: Vec<usize> = (0..roles.len()).filter(|r| roles[*r].parent.is_none()).collect();
        c.sender = *p.pick(&hosts);
        c.tgt = if p.chance(1, 2) { Tgt::UnknownSession } else { Tgt::Parent };
        c.ty = TypeForm::Absent;
        cases.push(c);
    }
    WorldSpec { roles, cases }
}

fn c15_corpus() -> Vec<WorldSpec> {
    let sc = |sender, tgt, how, payload, sendid, ty, name: &str| SendCase {
        sender,
        tgt,
        how,
        payload,
        sendid,
        ty,
        name: name.to_string(),
        name_expr: false,
    };
    vec![
        // every target form of the statement, literal, from a host-started parent with a child
        WorldSpec {
            roles: topo(2),
            cases: vec![
                sc(0, Tgt::NoTarget, How::Literal, Payload::None, SendIdForm::None, TypeForm::Absent, "t.0"),
                sc(0, Tgt::Internal, How::Literal, Payload::Params(vec![0]), SendIdForm::Literal("i1"), TypeForm::Absent, "t.1"),
                sc(0, Tgt::Session(2, 0), How::Literal, Payload::Both(vec![1], vec![0]), SendIdForm::Location, TypeForm::Short, "t.2"),
                sc(0, Tgt::Child(1), How::Literal, Payload::ContentText("hello"), SendIdForm::None, TypeForm::Url, "t.3"),
                sc(1, Tgt::Parent, How::Literal, Payload::ContentExpr, SendIdForm::Location, TypeForm::Absent, "t.4"),
                sc(2, Tgt::Session(0, 1), How::ExprQuoted, Payload::Namelist(vec![0, 1]), SendIdForm::None, TypeForm::ExprShort, "t.5"),
                sc(2, Tgt::Session(0, 2), How::ExprVar, Payload::ContentText("17"), SendIdForm::None, TypeForm::Absent, "t.6"),
                // failure arms that do not panic
                sc(2, Tgt::BadSession("abc"), How::Literal, Payload::None, SendIdForm::Literal("e1"), TypeForm::Absent, "t.7"),
                sc(2, Tgt::BadSession("4294967296"), How::Literal, Payload::None, SendIdForm::None, TypeForm::Absent, "t.8"),
                sc(0, Tgt::NoSuchChild("nochild"), How::Literal, Payload::None, SendIdForm::None, TypeForm::Absent, "t.9"),
                sc(0, Tgt::Foreign("http://localhost/x"), How::Literal, Payload::None, SendIdForm::Literal("e2"), TypeForm::Absent, "t.10"),
                sc(0, Tgt::Session(2, 0), How::Literal, Payload::None, SendIdForm::None, TypeForm::Bad, "t.11"),
                // P9 (repaired): unknown session → error.communication, the session goes on
                sc(2, Tgt::UnknownSession, How::Literal, Payload::None, SendIdForm::None, TypeForm::Absent, "t.12"),
            ],
        },
        // P9 (repaired): #_parent without parent → error.communication
        WorldSpec {
            roles: topo(0),
            cases: vec![
                sc(1, Tgt::Session(0, 0), How::Literal, Payload::None, SendIdForm::None, TypeForm::Absent, "t.0"),
                sc(0, Tgt::Parent, How::Literal, Payload::None, SendIdForm::None, TypeForm::Absent, "t.1"),
                sc(0, Tgt::UnknownSession, How::Literal, Payload::None, SendIdForm::Literal("u1"), TypeForm::Absent, "t.2"),
                sc(0, Tgt::Session(1, 0), How::Literal, Payload::None, SendIdForm::None, TypeForm::Absent, "t.3"),
            ],
        },
        // P13: a middle session's events to its own child, to a sibling of its parent, and the
        // reply of a middle session to its child are enqueued and then dropped by the receiver's
        // filter; `done.invoke.`-named events on the same routes are seen (the enqueue happens)
        WorldSpec {
            roles: topo(3),
            cases: vec![
                sc(1, Tgt::Child(2), How::Literal, Payload::None, SendIdForm::None, TypeForm::Absent, "t.0"),
                sc(1, Tgt::Child(2), How::Literal, Payload::Params(vec![0]), SendIdForm::Literal("x"), TypeForm::Absent, "done.invoke.probe1"),
                sc(1, Tgt::Session(3, 0), How::Literal, Payload::None, SendIdForm::None, TypeForm::Absent, "t.2"),
                sc(1, Tgt::Session(3, 0), How::Literal, Payload::None, SendIdForm::None, TypeForm::Absent, "done.invoke.probe3"),
                sc(2, Tgt::Parent, How::Literal, Payload::None, SendIdForm::None, TypeForm::Absent, "t.4"),
                sc(1, Tgt::Parent, How::Literal, Payload::None, SendIdForm::None, TypeForm::Absent, "t.5"),
                sc(0, Tgt::Child(1), How::Literal, Payload::None, SendIdForm::None, TypeForm::Absent, "t.6"),
                sc(3, Tgt::Session(2, 0), How::Literal, Payload::None, SendIdForm::None, TypeForm::Absent, "t.7"),
                // an invoked session as sender of a panicking send (detected by the bounded wait)
                sc(2, Tgt::UnknownSession, How::ExprQuoted, Payload::None, SendIdForm::None, TypeForm::Absent, "t.8"),
            ],
        },
        // an invoke id that collides with the reserved word: `#_parent` wins over `#_<invokeid>`
        WorldSpec {
            roles: topo(5),
            cases: vec![
                sc(1, Tgt::Parent, How::Literal, Payload::None, SendIdForm::None, TypeForm::Absent, "t.0"),
                sc(2, Tgt::Session(1, 0), How::Literal, Payload::None, SendIdForm::None, TypeForm::Absent, "t.1"),
                // P's `#_parent` means "my parent" (P has none: panic), not the child invoked as `parent`
                sc(0, Tgt::Child(1), How::Literal, Payload::None, SendIdForm::None, TypeForm::Absent, "t.2"),
            ],
        },
        // two children of one parent
        WorldSpec {
            roles: topo(4),
            cases: vec![
                sc(0, Tgt::Child(2), How::ExprVar, Payload::Params(vec![3]), SendIdForm::Location, TypeForm::Absent, "t.0"),
                sc(2, Tgt::Parent, How::ExprQuoted, Payload::ContentText("2.5"), SendIdForm::None, TypeForm::Absent, "t.1"),
                sc(1, Tgt::Session(2, 0), How::Literal, Payload::None, SendIdForm::None, TypeForm::Absent, "t.2"),
                sc(4, Tgt::Session(3, 0), How::Literal, Payload::None, SendIdForm::None, TypeForm::Absent, "t.3"),
            ],
        },
    ]
}

/// concurrent creation of sessions: all `_sessionid`s and all generated send ids are distinct,
/// and the session ids handed out form exactly the block the atomic counter model predicts
fn c15_concurrent_ids(threads: usize, per_thread: usize, model: &mut Model, rep: &mut Report, ids_seen: &mut Ids) {
    rep.evaluations += 1;
    rep.count("concurrent_creation_rounds");
    let executor = FsmExecutor::new_without_io_processor();
    let rec: RecLog = Arc::new(Mutex::new(Vec::new()));
    let xml = format!(
        "<scxml {} initial=\"cc\"><datamodel><data id=\"l1\" expr=\"''\"/><data id=\"l2\" expr=\"''\"/></datamodel><state id=\"cc\"><onentry>\
         <send event=\"a\" idlocation=\"l1\"/><send event=\"b\" idlocation=\"l2\"/>\
         <log expr=\"rec('ids', _sessionid, l1, l2)\"/></onentry><transition event=\"*\"/></state></scxml>",
        XMLNS
    );
    let barrier = Arc::new(Barrier::new(threads));
    let mut hs = Vec::new();
    for _ in 0..threads {
        let ex = executor.clone();
        let rc = rec.clone();
        let b = barrier.clone();
        let x = xml.clone();
        hs.push(std::thread::spawn(move || {
            let mut fsms = Vec::new();
            for _ in 0..per_thread {
                fsms.push(scxml_reader::parse_from_xml(x.clone()).unwrap());
            }
            b.wait();
            let mut out = Vec::new();
            for fsm in fsms {
                let mut actions = ActionWrapper::new();
                actions.add_action("rec", Box::new(RecAction { log: rc.clone() }));
                let s = fsm::start_fsm_with_data_and_finish_mode(fsm, actions, Box::new(ex.clone()), &[], FinishMode::KEEP_CONFIGURATION);
                out.push(s);
            }
            out
        }));
    }
    let mut sessions: Vec<ScxmlSession> = Vec::new();
    for h in hs {
        sessions.extend(h.join().unwrap());
    }
    let total = threads * per_thread;
    let r2 = rec.clone();
    wait_until(Duration::from_secs(60), || r2.lock().unwrap().len() >= total);
    cancel_all(&executor);
    // also through the sessions' own senders: a session whose table entry was overwritten by a
    // duplicate id is not reachable through the executor
    for s in sessions.iter() {
        let _ = s.sender.send(Box::new(Event::new_simple(EVENT_CANCEL_SESSION)));
    }
    let t_join = Instant::now();
    for s in sessions.iter_mut() {
        let left = Duration::from_secs(20).saturating_sub(t_join.elapsed());
        let _ = join_session(s, left.max(Duration::from_millis(50)));
    }
    let recs = rec.lock().unwrap().clone();
    let mut sids: Vec<u32> = sessions.iter().map(|s| s.session_id).collect();
    sids.sort();
    let min = sids.first().cloned().unwrap_or(0);
    let want = model.ask(&format!("route counter {} {}", min, vec!["0"; total].join(",")));
    let got = sids.iter().map(|x| x.to_string()).collect::<Vec<_>>().join(",");
    if want != got {
        rep.oracle_fail("C15:duplicate-session-id", json!({"what": "session ids of concurrently started sessions are not the block the counter model predicts", "got": got, "model": want}));
    }
    let mut gen = std::collections::HashSet::new();
    let mut seen_sid = std::collections::HashSet::new();
    if recs.len() != total {
        rep.disagree(json!({"what": "concurrent creation: sessions that reported", "got": recs.len(), "want": total}));
    }
    for (sid, a) in &recs {
        if a.len() != 4 || a[1] != format!("i:{}", sid) || !seen_sid.insert(*sid) || !ids_seen.seen_sessions.insert(*sid) {
            rep.oracle_fail("C15:duplicate-session-id", json!({"record": a, "session": sid}));
        }
        for g in &a[2..] {
            let ok = g.starts_with("s:cc.") && g[5..].parse::<u32>().is_ok();
            if !ok {
                rep.oracle_fail("C15:generated-id-format", json!({"generated": g}));
            }
            if !gen.insert(g.clone()) || !ids_seen.seen_generated.insert(g[2..].to_string()) {
                rep.oracle_fail("C15:duplicate-generated-id", json!({"generated": g}));
            }
            rep.count("generated_send_ids");
        }
    }
    rep.add("sessions_started_concurrently", total as u64);
}

pub fn run_c15(args: &Args, model: &mut Model) -> Report {
    let mut rep = Report::new(
        "c15",
        "case = one <send> executed by a REAL session in a world of 2..5 real sessions (host-started siblings, \
         parent/child and parent/child/grandchild through <invoke> with inline <content>, two children of one parent, \
         an invoke id that collides with `parent`); target forms none, #_internal, #_parent, #_scxml_<id> (also +id, 00id), \
         #_<invokeid>, unknown session, malformed id, no such child, foreign scheme; given as literal `target`, quoted \
         `targetexpr` or `targetexpr` naming a variable; payload none / params / namelist / both / content text / content \
         expr; send id none / literal / idlocation; type absent / scxml / URL / typeexpr / unknown. Every receiver \
         replies to _event.origin with type _event.origintype. Each routing decision is compared with Lean `execSend`; \
         distinct = (topology, sender, target, how, payload kind, sendid kind, type). Plus rounds of concurrent session \
         creation (ids distinct, block predicted by the counter model).",
    );
    install_factory();
    let mut ids_seen = Ids { seen_sessions: Default::default(), seen_generated: Default::default(), start_failures: 0 };
    // constants of the model are the crate's
    {
        use rufsm::event_io_processor::scxml_event_io_processor as sp;
        let consts = model.ask("route consts");
        let want = [
            sp::SCXML_TARGET_INTERNAL,
            sp::SCXML_TARGET_PARENT,
            sp::SCXML_TARGET_SESSION_ID_PREFIX,
            sp::SCXML_TARGET_INVOKE_ID_PREFIX,
            rufsm::datamodel::SCXML_EVENT_PROCESSOR,
            sp::SCXML_EVENT_PROCESSOR_SHORT_TYPE,
            "error.communication",
            "error.execution",
            fsm::EVENT_DONE_INVOKE_PREFIX,
            fsm::EVENT_DONE_INVOKE_PREFIX,
        ];
        let got: Vec<&str> = consts.split(' ').collect();
        let wanth: Vec<String> = want.iter().map(|s| hexs(s)).collect();
        if got != wanth.iter().map(|s| s.as_str()).collect::<Vec<_>>() {
            rep.disagree(json!({"what": "string constants", "model": consts, "crate": wanth}));
        }
        rep.count("constants_compared");
        // decimal: Rust's Display / parse::<u32> against showNat / parseU32
        let mut p = Prng::for_case(args.seed, 0xdec);
        let mut texts: Vec<String> = vec!["", "+", "-", "0", "00", "+0", "-0", "+5", "++5", "4294967295", "4294967296", "99999999999999999999", " 1", "1 ", "1_0", "١", "0x10", "+4294967295", "007"]
            .into_iter()
            .map(|s| s.to_string())
            .collect();
        for _ in 0..(if args.thorough { 3000 } else { 300 }) {
            let v = match p.below(4) {
                0 => p.below(12),
                1 => p.next() & 0xffff_ffff,
                2 => (1u64 << 32) - 1 + p.below(3) - p.below(3).min(1),
                _ => p.next() % 100_000_000_000,
            };
            let shown = model.ask(&format!("route shownat {}", v));
            if unhex_s(&shown) != v.to_string() {
                rep.disagree(json!({"what": "showNat", "n": v, "model": shown}));
            }
            let mut t = v.to_string();
            match p.below(6) {
                0 => t.insert(0, '+'),
                1 => t.insert(0, '0'),
                2 => t.push(*p.pick(&['x', ' ', '.', '-'])),
                3 => t.insert(0, '-'),
                _ => {}
            }
            texts.push(t);
        }
        for t in texts {
            let m = model.ask(&format!("route parseu32 {}", hexs(&t)));
            let r = match t.parse::<u32>() {
                Ok(v) => format!("some {}", v),
                Err(_) => "none".to_string(),
            };
            if m != r {
                rep.disagree(json!({"what": "parseU32", "text": t, "model": m, "rust": r}));
            }
            rep.count("decimal_texts_compared");
        }
    }
    if let Some(path) = &args.replay {
        let v: Value = serde_json::from_str(&std::fs::read_to_string(path).unwrap()).unwrap();
        let origin = v["case"]["origin"].as_str().or(v["origin"].as_str()).unwrap_or("").to_string();
        if let Some(rest) = origin.strip_prefix("corpus ") {
            let i: usize = rest.trim().parse().unwrap_or(0);
            c15_run_world(&c15_corpus()[i], model, &mut rep, &origin, &mut ids_seen);
        } else if origin.starts_with("gen ") {
            let mut seed = args.seed;
            let mut index = 0u64;
            for part in origin.split(' ') {
                if let Some(s) = part.strip_prefix("seed=") {
                    seed = s.parse().unwrap_or(seed);
                }
                if let Some(s) = part.strip_prefix("index=") {
                    index = s.parse().unwrap_or(0);
                }
            }
            let mut p = Prng::for_case(seed, index);
            let w = gen_world(&mut p);
            c15_run_world(&w, model, &mut rep, &origin, &mut ids_seen);
        } else {
            c15_concurrent_ids(8, 40, model, &mut rep, &mut ids_seen);
        }
        return rep;
    }
    c15_concurrent_ids(8, 25, model, &mut rep, &mut ids_seen);
    for (i, w) in c15_corpus().iter().enumerate() {
        c15_run_world(w, model, &mut rep, &format!("corpus {}", i), &mut ids_seen);
    }
    let nworlds = if args.thorough { 1200 } else { 60 };
    for i in 0..nworlds {
        let mut p = Prng::for_case(args.seed, i);
        let w = gen_world(&mut p);
        c15_run_world(&w, model, &mut rep, &format!("gen seed={} index={}", args.seed, i), &mut ids_seen);
        if i % 10 == 0 {
            c15_concurrent_ids(if args.thorough { 12 } else { 8 }, if args.thorough { 60 } else { 25 }, model, &mut rep, &mut ids_seen);
        }
    }
    rep
}
