//! C17, dynamic part (compiled only with harness feature `hooks`): real sessions on the instrumented
//! mutex `rufsm::verif_sync::Mutex`.
use super::{Site, Table};
use crate::obs::RecTracer;
use crate::prng::Prng;
use crate::proto::Model;
use crate::report::Report;
use crate::Args;
use rufsm::actions::ActionWrapper;
use rufsm::datamodel::Data;
use rufsm::fsm::{self, Event, FinishMode, ParamPair, EVENT_CANCEL_SESSION};
use rufsm::fsm_executor::FsmExecutor;
use rufsm::scxml_reader;
use rufsm::verif_sync as vs;
use serde_json::{json, Value};
use std::collections::{BTreeMap, BTreeSet};
use std::sync::mpsc::Sender;
use std::sync::{Arc, Mutex as StdMutex};
use std::thread::JoinHandle;
use std::time::{Duration, Instant};

// ---------------------------------------------------------------------------------------------
// documents

use super::{invoker_doc, peer_doc, NS};

/// `<send eventexpr="v" targetexpr="v"/>`: both expressions evaluate to the cell of variable `v`
/// (the event `#_internal` goes to the internal queue and takes the session to its final state)
fn relock_doc() -> String {
    format!(
        "<scxml {NS} datamodel=\"rfsm-expression\" initial=\"s0\">\
         <datamodel><data id=\"v\" expr=\"'#_internal'\"/></datamodel>\
         <state id=\"s0\"><transition event=\"go\" target=\"s1\"/></state>\
         <state id=\"s1\"><onentry><send eventexpr=\"v\" targetexpr=\"v\"/></onentry>\
          <transition event=\"*\" target=\"end\"/></state><final id=\"end\"/></scxml>"
    )
}

/// `a[a]`: the indexed cell and the index are the cell of variable `a`
fn index_self_doc() -> String {
    format!(
        "<scxml {NS} datamodel=\"rfsm-expression\" initial=\"s0\">\
         <datamodel><data id=\"a\" expr=\"[1,2]\"/></datamodel>\
         <state id=\"s0\"><transition event=\"go\" target=\"s1\"/></state>\
         <state id=\"s1\"><onentry><script>a[a]</script></onentry>\
          <transition event=\"*\" target=\"end\"/></state><final id=\"end\"/></scxml>"
    )
}

// ---------------------------------------------------------------------------------------------
// sessions

struct Sess {
    id: u32,
    sender: Sender<Box<Event>>,
    thread: Option<JoinHandle<()>>,
    invoker: bool,
}

fn start_session(xml: &str, executor: &FsmExecutor, actions: &ActionWrapper, data: &[ParamPair], invoker: bool) -> Result<Sess, String> {
    let mut fsm = scxml_reader::parse_from_xml(xml.to_string())?;
    let (tracer, _log) = RecTracer::new(false);
    fsm.tracer = Box::new(tracer);
    let mut s = fsm::start_fsm_with_data_and_finish_mode(fsm, actions.get_copy(), Box::new(executor.clone()), data, FinishMode::DISPOSE);
    Ok(Sess { id: s.session_id, sender: s.sender.clone(), thread: s.thread.take(), invoker })
}

fn ev(name: &str) -> Box<Event> {
    Box::new(Event::new_simple(name))
}

fn ev_peer(id: u32) -> Box<Event> {
    let mut e = Event::new_simple("peer");
    e.param_values = Some(vec![ParamPair::new("id", &Data::Integer(id as i64))]);
    Box::new(e)
}

// ---------------------------------------------------------------------------------------------
// scenarios

#[derive(Clone, Debug)]
enum Act {
    StartPeer,
    StartInvoker { delay_ms: u32, with_id: bool },
    Send(&'static str),
    SendInvoker(&'static str),
    Pause(u64),
}

#[derive(Clone, Debug)]
struct Scenario {
    dm: &'static str,
    hosts: Vec<Vec<Act>>,
    shutdown: bool,
    initial_peers: u32,
}

fn gen_scenario(p: &mut Prng, thorough: bool) -> Scenario {
    let dm = if thorough && p.chance(1, 3) { "ecmascript" } else { "rfsm-expression" };
    let nh = p.range(2, 4) as usize;
    let mut hosts = Vec::new();
    for _ in 0..nh {
        let n = p.range(4, if thorough { 24 } else { 12 });
        let mut acts = Vec::new();
        for _ in 0..n {
            acts.push(match p.below(12) {
                0 | 1 => Act::StartPeer,
                2 => Act::StartInvoker { delay_ms: p.range(1, 4) as u32, with_id: p.chance(1, 2) },
                3 | 4 => Act::Send("go"),
                5 => Act::Send("later"),
                6 => Act::Send("self"),
                7 => Act::Send("cancel"),
                8 => Act::SendInvoker("go"),
                9 => Act::SendInvoker(if p.chance(1, 2) { "abort" } else { "go" }),
                10 => Act::Send("stop"),
                _ => Act::Pause(p.range(50, 1500)),
            });
        }
        hosts.push(acts);
    }
    Scenario { dm, hosts, shutdown: p.chance(1, 4), initial_peers: p.range(2, 4) as u32 }
}

struct Outcome {
    finished: bool,
    sessions: usize,
    deadlocks: Vec<vs::DeadlockReport>,
    blocked: Vec<vs::Blocked>,
    errors: Vec<String>,
}

/// runs the scenario on a fresh executor in a runner thread, watched from here
fn run_scenario(scn: &Scenario, seed: u64, index: u64, timeout: Duration) -> Outcome {
    let before = vs::deadlocks().len();
    let scn2 = scn.clone();
    let errors: Arc<StdMutex<Vec<String>>> = Arc::new(StdMutex::new(Vec::new()));
    let nsess: Arc<StdMutex<usize>> = Arc::new(StdMutex::new(0));
    let (errors2, nsess2) = (errors.clone(), nsess.clone());
    let runner = std::thread::Builder::new()
        .name(format!("c17-runner-{}", index))
        .spawn(move || {
            let scn = scn2;
            let executor = FsmExecutor::new_without_io_processor();
            let actions = ActionWrapper::new();
            let sessions: Arc<StdMutex<Vec<Sess>>> = Arc::new(StdMutex::new(Vec::new()));
            let peer_xml = Arc::new(peer_doc(scn.dm));
            for _ in 0..scn.initial_peers {
                match start_session(&peer_xml, &executor, &actions, &[], false) {
                    Ok(s) => sessions.lock().unwrap().push(s),
                    Err(e) => errors2.lock().unwrap().push(e),
                }
            }
            {
                let ss = sessions.lock().unwrap();
                for (i, s) in ss.iter().enumerate() {
                    let peer = ss[(i + 1) % ss.len()].id;
                    let _ = s.sender.send(ev_peer(peer));
                }
            }
            let mut handles = Vec::new();
            for (h, acts) in scn.hosts.iter().enumerate() {
                let (acts, executor, actions, sessions, peer_xml, errors3) =
                    (acts.clone(), executor.clone(), actions.get_copy(), sessions.clone(), peer_xml.clone(), errors2.clone());
                let dm = scn.dm;
                let mut p = Prng::for_case(seed ^ 0xC17, index * 16 + h as u64);
                handles.push(std::thread::spawn(move || {
                    for a in acts {
                        match a {
                            Act::StartPeer => {
                                // the new session learns a peer through its start data, an old one through an event
                                let peer = {
                                    let ss = sessions.lock().unwrap();
                                    if ss.is_empty() { 0 } else { ss[p.below(ss.len() as u64) as usize].id }
                                };
                                match start_session(&peer_xml, &executor, &actions, &[ParamPair::new("peer", &Data::Integer(peer as i64))], false) {
                                    Ok(s) => {
                                        let mut ss = sessions.lock().unwrap();
                                        if !ss.is_empty() {
                                            let k = p.below(ss.len() as u64) as usize;
                                            let _ = ss[k].sender.send(ev_peer(s.id));
                                        }
                                        ss.push(s);
                                    }
                                    Err(e) => errors3.lock().unwrap().push(e),
                                }
                            }
                            Act::StartInvoker { delay_ms, with_id } => match start_session(&invoker_doc(dm, delay_ms, with_id), &executor, &actions, &[], true) {
                                Ok(s) => {
                                    let _ = s.sender.send(ev("go"));
                                    sessions.lock().unwrap().push(s);
                                }
                                Err(e) => errors3.lock().unwrap().push(e),
                            },
                            Act::Send(name) => {
                                let ss = sessions.lock().unwrap();
                                let c: Vec<&Sess> = ss.iter().filter(|s| !s.invoker).collect();
                                if !c.is_empty() {
                                    let _ = c[p.below(c.len() as u64) as usize].sender.send(ev(name));
                                }
                            }
                            Act::SendInvoker(name) => {
                                let ss = sessions.lock().unwrap();
                                let c: Vec<&Sess> = ss.iter().filter(|s| s.invoker).collect();
                                if !c.is_empty() {
                                    let _ = c[p.below(c.len() as u64) as usize].sender.send(ev(name));
                                }
                            }
                            Act::Pause(us) => std::thread::sleep(Duration::from_micros(us)),
                        }
                    }
                }));
            }
            for h in handles {
                let _ = h.join();
            }
            std::thread::sleep(Duration::from_millis(8)); // let delayed sends fire into running and ending sessions
            if scn.shutdown {
                let mut e = executor.clone();
                let _ = std::panic::catch_unwind(std::panic::AssertUnwindSafe(move || e.shutdown()));
            }
            let mut ss = sessions.lock().unwrap();
            for s in ss.iter() {
                let _ = s.sender.send(ev("stop"));
                let _ = s.sender.send(ev(EVENT_CANCEL_SESSION));
            }
            *nsess2.lock().unwrap() = ss.len();
            for s in ss.iter_mut() {
                if let Some(t) = s.thread.take() {
                    let _ = t.join();
                }
            }
            std::thread::sleep(Duration::from_millis(6)); // late timers of ended sessions
        })
        .unwrap();
    let t0 = Instant::now();
    let mut finished = false;
    loop {
        if runner.is_finished() {
            finished = true;
            let _ = runner.join();
            break;
        }
        if vs::deadlocks().len() > before || t0.elapsed() > timeout {
            break; // the runner and its sessions are leaked
        }
        std::thread::sleep(Duration::from_millis(2));
    }
    let all = vs::deadlocks();
    let deadlocks = all[before.min(all.len())..].to_vec();
    let blocked = if finished { vec![] } else { vs::blocked() };
    let n = *nsess.lock().unwrap();
    let errs = errors.lock().unwrap().clone();
    Outcome { finished, sessions: n, deadlocks, blocked, errors: errs }
}

/// Runs `body` (everything that calls into the crate) on its own thread and watches it: returns
/// `(finished, result)`; when a new deadlock is reported or `timeout` passes the thread is leaked.
fn watched<T: Send + 'static>(name: &str, timeout: Duration, stop_on_deadlock: bool, body: impl FnOnce() -> T + Send + 'static) -> (bool, Option<T>) {
    let before = vs::deadlocks().len();
    let slot: Arc<StdMutex<Option<T>>> = Arc::new(StdMutex::new(None));
    let slot2 = slot.clone();
    let h = std::thread::Builder::new()
        .name(name.to_string())
        .spawn(move || {
            let r = body();
            *slot2.lock().unwrap_or_else(|e| e.into_inner()) = Some(r);
        })
        .unwrap();
    let t0 = Instant::now();
    loop {
        if h.is_finished() {
            let _ = h.join();
            let r = slot.lock().unwrap_or_else(|e| e.into_inner()).take();
            return (r.is_some(), r);
        }
        if (stop_on_deadlock && vs::deadlocks().len() > before) || t0.elapsed() > timeout {
            return (false, None);
        }
        std::thread::sleep(Duration::from_millis(2));
    }
}

// ---------------------------------------------------------------------------------------------
// checking what the instrumented mutex saw

fn is_repo_file(f: &str) -> bool {
    f.starts_with('/') && f.contains("/src/")
}

fn type_class(class: &str) -> &'static str {
    if class.ends_with("::GlobalData") {
        "G"
    } else if class.ends_with("::ExecutorState") {
        "E"
    } else if class.contains("EventIOProcessor") {
        "P"
    } else if class.ends_with("datamodel::Data") {
        "D"
    } else if class.contains("actions::Action") {
        "A"
    } else if class.contains("mpsc::Receiver") {
        "R"
    } else if class.contains("DatamodelFactory") {
        "DF"
    } else if class.contains("TracerFactory") {
        "TF"
    } else {
        "?"
    }
}

fn base_class(cls: &str) -> &str {
    match cls {
        "Gn" | "Gi" => "G",
        c => c,
    }
}

fn cycle_name(mut cs: Vec<String>) -> String {
    if cs.is_empty() {
        return String::new();
    }
    // rotate so that the alphabetically first class leads (as the driver's showCycle does)
    let mut best = 0;
    for i in 1..cs.len() {
        if cs[i] < cs[best] {
            best = i;
        }
    }
    cs.rotate_left(best);
    let first = cs[0].clone();
    cs.push(first);
    cs.join(">")
}

/// class cycle of a detected deadlock: each thread holds the lock the previous one wants
fn deadlock_cycle(table: &Table, d: &vs::DeadlockReport) -> (String, Value) {
    // thread i wants w_i, owned by thread i+1: edge (held by i+1 = w_i) -> (wanted by i+1 = w_{i+1})
    let cls_of = |l: &vs::LockRef| -> String {
        table
            .by_location(l.file, l.line, l.col)
            .map(|s| base_class(&s.cls).to_string())
            .unwrap_or_else(|| type_class(l.class).to_string())
    };
    let classes: Vec<String> = d.cycle.iter().map(|e| cls_of(&e.wants)).collect();
    let detail: Vec<Value> = d
        .cycle
        .iter()
        .map(|e| {
            json!({"thread": e.thread_name, "wants": cls_of(&e.wants), "at": format!("{}:{}", short(e.wants.file), e.wants.line),
                   "holds": e.holds.iter().map(|h| format!("{}@{}:{}", cls_of(h), short(h.file), h.line)).collect::<Vec<_>>()})
        })
        .collect();
    (cycle_name(classes), json!(detail))
}

fn short(f: &str) -> &str {
    f.rsplit_once("/src/").map(|x| x.1).unwrap_or(f)
}

struct Seen {
    sites: BTreeSet<String>,
    edges: BTreeSet<String>,
    records: BTreeSet<String>,
}

fn check_snapshot(table: &Table, snap: &vs::Snapshot, model: &mut Model, rep: &mut Report, origin: &str, seen: &mut Seen) {
    let mut pairs: BTreeSet<String> = BTreeSet::new();
    for (a, n) in &snap.acquisitions {
        if !is_repo_file(a.file) {
            rep.add("acq_requests_at_harness_sites", *n);
            continue;
        }
        rep.add("acq_requests_checked", *n);
        let site: &Site = match table.by_location(a.file, a.line, a.col) {
            Some(s) => s,
            None => {
                rep.disagree(json!({"origin": origin, "what": "acquisition at a location that is no site of the table",
                    "file": short(a.file), "line": a.line, "col": a.col, "class": a.class}));
                continue;
            }
        };
        if site.wrapper {
            rep.add("acq_seen_at_wrapper_site", *n);
            continue;
        }
        if site.test || site.tool {
            rep.disagree(json!({"origin": origin, "what": "platform run reached a test/tool site", "site": site.key}));
            continue;
        }
        seen.sites.insert(site.key.clone());
        if a.try_lock != (site.kind == "try_lock") {
            rep.disagree(json!({"origin": origin, "what": "try_lock / lock kind differs from the table", "site": site.key}));
        }
        if type_class(a.class) != base_class(&site.cls) {
            rep.disagree(json!({"origin": origin, "what": "the mutex locked at the site protects another type than the table's class says",
                "site": site.key, "table_class": site.cls, "type": a.class}));
            continue;
        }
        let mut held_cls: BTreeSet<String> = BTreeSet::new();
        let mut bad = false;
        for h in &a.held {
            if !is_repo_file(h.file) {
                rep.count("held_lock_taken_by_harness");
                continue;
            }
            let hs = match table.by_location(h.file, h.line, h.col) {
                Some(s) => s,
                None => {
                    rep.disagree(json!({"origin": origin, "what": "held lock acquired at a location that is no site of the table",
                        "file": short(h.file), "line": h.line, "col": h.col}));
                    bad = true;
                    continue;
                }
            };
            held_cls.insert(hs.cls.clone());
            if h.order == 0 {
                // the thread requests a mutex it holds: it will never return
                rep.count("relock_of_held_mutex_observed");
                if !(hs.cls == site.cls && site.same == "any") {
                    rep.disagree(json!({"origin": origin, "what": "re-lock of a held mutex where the table says the instances differ", "site": site.key, "held_site": hs.key}));
                }
            }
            if !a.try_lock {
                let (hi, ai) = match h.order {
                    -1 => (1, 2),
                    0 => (1, 1),
                    _ => (2, 1),
                };
                let p = format!("{}.{}>{}.{}{}", hs.cls, hi, site.cls, ai, if hs.cls == "D" { "!" } else { "" });
                seen.edges.insert(format!("{}>{}", hs.cls, site.cls));
                pairs.insert(p);
            }
        }
        if bad {
            continue;
        }
        let allowed = table.allowed_held(site);
        if !allowed.iter().any(|(_, hs)| held_cls.is_subset(hs)) {
            rep.disagree(json!({"origin": origin, "what": "locks held at the site are not among those the table lists for it (table incomplete)",
                "site": site.key, "observed_held": held_cls, "table_allows": allowed.iter().map(|(n, h)| json!({"context": n, "held": h})).collect::<Vec<_>>()}));
        }
        let rec = format!("{} <- {:?}", site.key, held_cls);
        if seen.records.insert(rec.clone()) {
            rep.nontrivial.insert(rec);
        }
    }
    if !pairs.is_empty() {
        let arg = pairs.iter().cloned().collect::<Vec<_>>().join(",");
        let ans = model.ask(&format!("locks check {}", arg));
        rep.add("pairs_checked_against_lean_table", pairs.len() as u64);
        if ans != "ok" {
            rep.disagree(json!({"origin": origin, "what": "observed (held, acquired) pairs that are no instance of an edge of Rfsm.Gen.LockSites.edges", "pairs": ans}));
        }
    }
}

fn report_deadlocks(table: &Table, out: &Outcome, rep: &mut Report, replay: Value, confirmed: &mut BTreeMap<String, u64>) {
    for d in &out.deadlocks {
        let (cyc, detail) = deadlock_cycle(table, d);
        *confirmed.entry(cyc.clone()).or_insert(0) += 1;
        rep.oracle_fail(
            &format!("C17:deadlock:{}", cyc),
            json!({"kind": "deadlock on the real code (wait-for cycle found by the instrumented mutex)", "cycle": cyc, "threads": detail, "replay": replay}),
        );
    }
    if !out.finished && out.deadlocks.is_empty() {
        let b: Vec<Value> = out
            .blocked
            .iter()
            .map(|b| json!({"thread": b.thread_name, "wants": type_class(b.wants.class), "at": format!("{}:{}", short(b.wants.file), b.wants.line), "ms": b.for_millis as u64}))
            .collect();
        rep.oracle_fail("C17:hang:no-cycle-found", json!({"kind": "scenario did not finish in time and no wait-for cycle was found", "blocked": b, "replay": replay}));
    }
}

// ---------------------------------------------------------------------------------------------
// confirmation of the predicted cycles with delay injection

fn site_line(table: &Table, key: &str) -> Option<(String, u32)> {
    table.sites.iter().find(|s| s.key == key).map(|s| (s.file.clone(), s.line))
}

fn wait_for_deadlock(before: usize, ms: u64) -> Vec<vs::DeadlockReport> {
    let t0 = Instant::now();
    while t0.elapsed() < Duration::from_millis(ms) {
        let all = vs::deadlocks();
        if all.len() > before {
            return all[before..].to_vec();
        }
        std::thread::sleep(Duration::from_millis(2));
    }
    vec![]
}

/// what a corpus scenario found: wait-for cycles, and whether everything it started came to its end
struct Confirmed {
    deadlocks: Vec<vs::DeadlockReport>,
    completed: bool,
    note: String,
}

/// waits until `h` has finished, a new deadlock is reported, or `ms` have passed
fn finished_within(h: &JoinHandle<()>, before: usize, ms: u64) -> bool {
    let t0 = Instant::now();
    while t0.elapsed() < Duration::from_millis(ms) {
        if h.is_finished() {
            return true;
        }
        if vs::deadlocks().len() > before {
            return false;
        }
        std::thread::sleep(Duration::from_millis(2));
    }
    h.is_finished()
}

fn end_sessions(ss: &mut [Sess], before: usize, ms: u64) -> bool {
    for s in ss.iter() {
        let _ = s.sender.send(ev("stop"));
        let _ = s.sender.send(ev(EVENT_CANCEL_SESSION));
    }
    let mut all = true;
    for s in ss.iter_mut() {
        if let Some(h) = s.thread.take() {
            if finished_within(&h, before, ms) {
                let _ = h.join();
            } else {
                all = false;
            }
        }
    }
    all
}

fn new_deadlocks(before: usize) -> Vec<vs::DeadlockReport> {
    let all = vs::deadlocks();
    all[before.min(all.len())..].to_vec()
}

/// REGRESSION (was the confirmation of `E>P>E`, repaired by /repo 1c1d11d).  Two races of a session
/// start with a cross-session send, each widened by one injected delay:
/// (a) the starter sleeps just before it locks the processor (it used to hold E there) while a
///     session sends to another one (P, G(self), then E);
/// (b) the sender sleeps just before it locks E in `get_session_sender` (holding P and G(self))
///     while the host starts a session (E, then Gn and P).
/// Expected: no wait-for cycle, the starts return and all sessions end.
fn confirm_e_p(start_p: Option<(String, u32)>, sender_e: Option<(String, u32)>) -> Result<Confirmed, String> {
    let (file, line) = start_p.ok_or("site start#5 not in table")?;
    let (file_b, line_b) = sender_e.ok_or("site get_session_sender#0 not in table")?;
    let before = vs::deadlocks().len();
    let executor = FsmExecutor::new_without_io_processor();
    let actions = ActionWrapper::new();
    let xml = peer_doc("rfsm-expression");
    let b = start_session(&xml, &executor, &actions, &[], false)?;
    let a = start_session(&xml, &executor, &actions, &[ParamPair::new("peer", &Data::Integer(b.id as i64))], false)?;
    let mut sessions = vec![a, b];
    let mut completed = true;
    let mut note = String::new();
    for (variant, f, l, first_go_after) in [("a", &file, line, 80u64), ("b", &file_b, line_b, 0u64)] {
        std::thread::sleep(Duration::from_millis(30));
        vs::add_delay(f, l, 300, 1);
        if variant == "b" {
            // the sender reaches get_session_sender and sleeps there, then the host starts a session
            let _ = sessions[0].sender.send(ev("go"));
            std::thread::sleep(Duration::from_millis(80));
        }
        let (ex2, ac2, xml2) = (executor.clone(), actions.get_copy(), xml.clone());
        let slot: Arc<StdMutex<Option<Sess>>> = Arc::new(StdMutex::new(None));
        let slot2 = slot.clone();
        let starter = std::thread::Builder::new()
            .name(format!("c17-starter-{}", variant))
            .spawn(move || {
                if let Ok(s) = start_session(&xml2, &ex2, &ac2, &[], false) {
                    *slot2.lock().unwrap() = Some(s);
                }
            })
            .map_err(|e| e.to_string())?;
        if variant == "a" {
            std::thread::sleep(Duration::from_millis(first_go_after));
            let _ = sessions[0].sender.send(ev("go"));
        }
        let ok = finished_within(&starter, before, 3000);
        vs::clear_delays();
        if ok {
            let _ = starter.join();
            if let Some(s) = slot.lock().unwrap().take() {
                sessions.push(s);
            }
        } else {
            completed = false;
            note = format!("variant {}: the session start did not return", variant);
            break;
        }
    }
    if new_deadlocks(before).is_empty() {
        std::thread::sleep(Duration::from_millis(350)); // the delayed sender goes on
        if !end_sessions(&mut sessions, before, 3000) && completed {
            completed = false;
            note = "a session did not end".into();
        }
    }
    Ok(Confirmed { deadlocks: new_deadlocks(before), completed, note })
}

/// REGRESSION (was the confirmation of `G>P>G`, repaired by /repo baeeed4): a session invokes a
/// child — the child start sleeps before it locks the processor; the parent used to hold its global
/// data there — while the parent's own delayed `<send>` (no id) fires on the timer thread (P, then
/// G(parent)).  Expected: no wait-for cycle, the child runs, parent and child end.
fn confirm_g_p(line: Option<(String, u32)>) -> Result<Confirmed, String> {
    let (file, line) = line.ok_or("site start#5 not in table")?;
    let before = vs::deadlocks().len();
    let executor = FsmExecutor::new_without_io_processor();
    let actions = ActionWrapper::new();
    let p = start_session(&invoker_doc("rfsm-expression", 60, false), &executor, &actions, &[], true)?;
    std::thread::sleep(Duration::from_millis(30));
    vs::add_delay(&file, line, 400, 1);
    let _ = p.sender.send(ev("go"));
    let found = wait_for_deadlock(before, 700);
    vs::clear_delays();
    let mut completed = true;
    let mut note = String::new();
    if found.is_empty() {
        let mut ss = vec![p];
        if !end_sessions(&mut ss, before, 3000) {
            completed = false;
            note = "the invoking session did not end".into();
        }
    }
    Ok(Confirmed { deadlocks: new_deadlocks(before), completed, note })
}

/// REGRESSION (repaired by /repo 54484ea): `<send eventexpr="v" targetexpr="v"/>` used to lock the
/// cell of `v` twice.  Expected: the event is sent to `#_internal` and the session reaches its final state.
fn confirm_send_relock() -> Result<Confirmed, String> {
    let before = vs::deadlocks().len();
    let executor = FsmExecutor::new_without_io_processor();
    let actions = ActionWrapper::new();
    let mut s = start_session(&relock_doc(), &executor, &actions, &[], false)?;
    let _ = s.sender.send(ev("go"));
    let ended = match s.thread.take() {
        Some(h) => {
            let ok = finished_within(&h, before, 3000);
            if ok {
                let _ = h.join();
            }
            ok
        }
        None => false,
    };
    if !ended && new_deadlocks(before).is_empty() {
        let _ = s.sender.send(ev(EVENT_CANCEL_SESSION));
    }
    Ok(Confirmed { deadlocks: new_deadlocks(before), completed: ended, note: if ended { String::new() } else { "the session did not reach its final state".into() } })
}

/// REGRESSION scenario of the `D>D` instance `a[a]` (repaired): an rfsm-expression used to lock the
/// cell of `a` (`ExpressionIndex::execute`) and then the same cell as the index, under the session's
/// global data, and the session thread never returned.  Now the index is read first and released.
fn confirm_d_d() -> Result<Confirmed, String> {
    let before = vs::deadlocks().len();
    let executor = FsmExecutor::new_without_io_processor();
    let actions = ActionWrapper::new();
    let s = start_session(&index_self_doc(), &executor, &actions, &[], false)?;
    let _ = s.sender.send(ev("go"));
    let found = wait_for_deadlock(before, 3000);
    if found.is_empty() {
        let _ = s.sender.send(ev(EVENT_CANCEL_SESSION));
    }
    Ok(Confirmed { deadlocks: new_deadlocks(before), completed: true, note: String::new() })
}


// ---------------------------------------------------------------------------------------------
// tour: single sessions that walk through as many lock sites as possible (held-set check only)

fn tour_doc(dm: &str) -> String {
    let (len_arr, call) = if dm == "ecmascript" { ("arr.length", "twice(2)") } else { ("length(arr)", "twice(2)") };
    let script = if dm == "ecmascript" { "x = x + 1" } else { "x = x + 1" };
    format!(
        "<scxml {NS} datamodel=\"{dm}\" initial=\"a\" name=\"tour\">\
         <datamodel><data id=\"x\" expr=\"1\"/><data id=\"arr\" expr=\"[1,2,3]\"/><data id=\"s\" expr=\"'abc'\"/>\
          <data id=\"t\"/><data id=\"u\" expr=\"'1ms'\"/><data id=\"ty\" expr=\"'scxml'\"/></datamodel>\
         <state id=\"a\">\
          <onentry>\
           <raise event=\"r1\"/>\
           <log label=\"l\" expr=\"x + 1\"/>\
           <assign location=\"x\" expr=\"arr[0] + {len_arr}\"/>\
           <assign location=\"t\" expr=\"!(x == 2)\"/>\
           <assign location=\"t\" expr=\"{call}\"/>\
           <if cond=\"arr == arr\"><raise event=\"r2\"/><else/><raise event=\"r2b\"/></if>\
           <if cond=\"[1] == [1]\"><raise event=\"r3\"/></if>\
           <foreach array=\"arr\" item=\"it\" index=\"ix\"><assign location=\"x\" expr=\"x + it\"/></foreach>\
           <script>{script}</script>\
           <send event=\"e1\"><param name=\"p1\" expr=\"x\"/><param name=\"p2\" location=\"s\"/></send>\
           <send event=\"e2\" namelist=\"x s\"/>\
           <send event=\"e3\"><content expr=\"x\"/></send>\
           <send event=\"e4\" delayexpr=\"u\" typeexpr=\"ty\" idlocation=\"t\"/>\
           <send event=\"e5\" type=\"nonexistent\"/>\
           <send event=\"e6\" target=\"#_scxml_xyz\"/>\
           <send event=\"e7\" target=\"#_nokid\"/>\
           <send event=\"e8\" target=\"#_internal\"/>\
           <send event=\"e9\" target=\"#_internal\" delay=\"1ms\"/>\
           <send event=\"e10\" delayexpr=\"nosuchvar\"/>\
           <assign location=\"nosuch.q\" expr=\"1\"/>\
           <cancel sendidexpr=\"t\"/>\
          </onentry>\
          <transition event=\"e1\" cond=\"In('a')\" target=\"b\"/>\
         </state>\
         <parallel id=\"b\">\
          <state id=\"b1\" initial=\"b1a\"><state id=\"b1a\"><transition event=\"e2\" target=\"b1f\"/></state>\
           <final id=\"b1f\"><donedata><content expr=\"x\"/></donedata></final></state>\
          <state id=\"b2\" initial=\"b2f\"><final id=\"b2f\"><donedata><param name=\"q\" expr=\"x\"/></donedata></final></state>\
          <transition event=\"done.state.b\" target=\"c\"/>\
          <transition event=\"e3\" target=\"c\"/>\
         </parallel>\
         <state id=\"c\" initial=\"c1\">\
          <history id=\"ch\" type=\"shallow\"><transition target=\"c1\"/></history>\
          <history id=\"cd\" type=\"deep\"><transition target=\"c1\"/></history>\
          <state id=\"c1\"><transition event=\"e3\" target=\"d\"/><transition event=\"e4\" target=\"d\"/></state>\
          <state id=\"c2\"/>\
         </state>\
         <state id=\"d\"><transition event=\"e4\" target=\"ch\"/><transition event=\"back\" target=\"cd\"/>\
          <transition event=\"stop\" target=\"end\"/></state>\
         <final id=\"end\"/></scxml>"
    )
}

fn null_doc() -> String {
    format!(
        "<scxml {NS} datamodel=\"null\" initial=\"a\"><state id=\"a\"><transition event=\"e\" cond=\"In('a')\" target=\"b\"/></state>\
         <state id=\"b\"><transition event=\"stop\" target=\"end\"/></state><final id=\"end\"/></scxml>"
    )
}

fn src_invoker_doc(path: &str) -> String {
    format!(
        "<scxml {NS} datamodel=\"rfsm-expression\" initial=\"s1\">\
         <datamodel><data id=\"w\" expr=\"5\"/><data id=\"loc\"/></datamodel>\
         <state id=\"s1\"><invoke src=\"{path}\" idlocation=\"loc\" namelist=\"w\"><param name=\"peer\" expr=\"w\"/></invoke>\
          <invoke typeexpr=\"'scxml'\" srcexpr=\"'{path}'\" id=\"k2\" autoforward=\"true\"><finalize><assign location=\"w\" expr=\"w + 1\"/></finalize></invoke>\
          <transition event=\"stop\" target=\"end\"/></state><final id=\"end\"/></scxml>"
    )
}

struct Twice;
impl rufsm::actions::Action for Twice {
    fn execute(&self, arguments: &[Data], _global: &rufsm::fsm::GlobalData) -> Result<Data, String> {
        match arguments.first() {
            Some(Data::Integer(i)) => Ok(Data::Integer(2 * i)),
            Some(Data::Double(d)) => Ok(Data::Double(2.0 * d)),
            _ => Ok(Data::Integer(0)),
        }
    }
    fn get_copy(&self) -> Box<dyn rufsm::actions::Action> {
        Box::new(Twice)
    }
}

fn join_with_timeout(s: &mut Sess, ms: u64) -> bool {
    let t0 = Instant::now();
    if let Some(h) = s.thread.take() {
        while !h.is_finished() {
            if t0.elapsed() > Duration::from_millis(ms) {
                return false;
            }
            std::thread::sleep(Duration::from_millis(1));
        }
        let _ = h.join();
    }
    true
}

fn run_tour(table: &Table, model: &mut Model, rep: &mut Report, seen: &mut Seen, confirmed: &mut BTreeMap<String, u64>) {
    let dir = std::env::temp_dir().join(format!("c17-tour-{}", std::process::id()));
    let _ = std::fs::create_dir_all(&dir);
    let child = dir.join("child.scxml");
    let _ = std::fs::write(&child, peer_doc("rfsm-expression"));
    let mut docs: Vec<(String, String, Vec<&str>)> = vec![
        ("tour rfsm-expression".into(), tour_doc("rfsm-expression"), vec!["back", "e4", "stop"]),
        ("tour ecmascript".into(), tour_doc("ecmascript"), vec!["back", "e4", "stop"]),
        ("null datamodel".into(), null_doc(), vec!["e", "stop"]),
        ("invoke by src".into(), src_invoker_doc(child.to_str().unwrap_or("")), vec!["fwd", "stop"]),
        ("peer ecmascript".into(), peer_doc("ecmascript"), vec!["self", "later", "cancel", "stop"]),
        ("invoker ecmascript".into(), invoker_doc("ecmascript", 1, true), vec!["go", "abort", "stop"]),
    ];
    for (name, xml, events) in docs.drain(..) {
        rep.evaluations += 1;
        vs::reset();
        let before = vs::deadlocks().len();
        let events: Vec<String> = events.iter().map(|e| e.to_string()).collect();
        let (done, res) = watched(&format!("c17-{}", name), Duration::from_secs(10), true, move || -> Result<(bool, bool), String> {
            let mut executor = FsmExecutor::new_without_io_processor();
            let mut opts = std::collections::HashMap::new();
            opts.insert("datamodel:x", "1".to_string());
            executor.set_global_options_from_arguments(&opts);
            let mut actions = ActionWrapper::new();
            actions.add_action("twice", Box::new(Twice));
            let _ = actions.get_map_copy();
            let mut s = start_session(&xml, &executor, &actions, &[], false)?;
            // every tour session is its own peer
            let _ = s.sender.send(ev_peer(s.id));
            std::thread::sleep(Duration::from_millis(15));
            for e in &events {
                let _ = executor.send_to_session(s.id, Event::new_simple(e));
                std::thread::sleep(Duration::from_millis(3));
            }
            let _ = s.sender.send(ev(EVENT_CANCEL_SESSION));
            let ended = join_with_timeout(&mut s, 5000);
            executor.remove_session(s.id);
            let mut ex2 = executor.clone();
            let shutdown_ok = std::panic::catch_unwind(std::panic::AssertUnwindSafe(move || ex2.shutdown())).is_ok();
            std::thread::sleep(Duration::from_millis(5));
            Ok((ended, shutdown_ok))
        });
        let snap = vs::snapshot();
        check_snapshot(table, &snap, model, rep, &name, seen);
        let all = vs::deadlocks();
        let deadlocks = all[before.min(all.len())..].to_vec();
        let mut finished = done;
        match res {
            Some(Err(e)) => {
                rep.disagree(json!({"what": "tour document rejected by the reader", "doc": name, "error": e}));
                continue;
            }
            Some(Ok((ended, shutdown_ok))) => {
                finished = ended;
                if !shutdown_ok {
                    rep.count("tour_shutdown_panicked");
                }
            }
            None => {}
        }
        let out = Outcome { finished, sessions: 1, deadlocks, blocked: if finished { vec![] } else { vs::blocked() }, errors: vec![] };
        rep.count(if finished { "tour_finished" } else { "tour_hung" });
        report_deadlocks(table, &out, rep, json!({"tour": name}), confirmed);
    }
    // host-side API that takes locks
    vs::reset();
    let _ = watched("c17-host-api", Duration::from_secs(5), true, || {
        rufsm::fsm::register_datamodel("c17-null", Box::new(rufsm::datamodel::NullDatamodelFactory {}));
        let mut q: rufsm::fsm::BlockingQueue<u32> = Default::default();
        q.enqueue(7);
        let _ = q.dequeue();
    });
    let snap = vs::snapshot();
    check_snapshot(table, &snap, model, rep, "host api", seen);
    let _ = std::fs::remove_dir_all(&dir);
}

// ---------------------------------------------------------------------------------------------

/// corpus scenarios: `(name, expects a deadlock)`; the names are the replay keys (`{"confirm": name}`)
const CORPUS: [&str; 4] = ["E>P>E", "G>P>G", "D>D:send", "D>D"];

pub fn run(args: &Args, model: &mut Model, table: &Table, rep: &mut Report) {
    vs::set_recording(true);
    let mut seen = Seen { sites: BTreeSet::new(), edges: BTreeSet::new(), records: BTreeSet::new() };
    let mut confirmed: BTreeMap<String, u64> = BTreeMap::new();
    vs::clear_delays();
    vs::reset();

    if let Some(path) = &args.replay {
        // replay of one scenario: {"scenario": {"seed":…, "index":…}} or {"confirm": "E>P>E"}
        let v: Value = serde_json::from_str(&std::fs::read_to_string(path).unwrap()).unwrap();
        let r = &v["replay"];
        if let Some(c) = r["confirm"].as_str() {
            run_confirmation(c, table, model, rep, &mut seen, &mut confirmed);
        } else if let (Some(seed), Some(index)) = (r["seed"].as_u64(), r["index"].as_u64()) {
            let thorough = r["thorough"].as_bool().unwrap_or(false);
            run_generated(seed, index, thorough, table, model, rep, &mut seen, &mut confirmed);
        }
        return;
    }

    // corpus: regression scenarios of the repaired cycles (a deadlock or a hang there is an unknown
    // oracle failure) and the confirmation of the remaining cycle D>D on the real code
    for c in CORPUS {
        run_confirmation(c, table, model, rep, &mut seen, &mut confirmed);
    }
    run_tour(table, model, rep, &mut seen, &mut confirmed);
    // generated stress scenarios: in worker processes, because the threads (sessions, timers, hosts)
    // of a scenario that deadlocks can only be leaked (before the repairs 1c1d11d / baeeed4 of /repo
    // about every second scenario did; now none is expected to, and any deadlock is an unknown failure)
    let n: u64 = if args.thorough { 6000 } else { 120 };
    let batch: u64 = if args.thorough { 50 } else { 30 };
    let parallel = if args.thorough { 4 } else { 2 };
    let budget = Duration::from_secs(if args.thorough { 660 } else { 75 });
    let t0 = Instant::now();
    let mut ran: u64 = 0;
    let mut next: u64 = 0;
    let mut children: Vec<(std::process::Child, String, u64, u64)> = Vec::new();
    let mut crashed = 0u64;
    let exe = std::env::current_exe().unwrap();
    loop {
        while children.len() < parallel && next < n && t0.elapsed() < budget {
            let (from, to) = (next, (next + batch).min(n));
            next = to;
            let out = format!("{}.child-{}-{}.json", args.out, from, to);
            let _ = std::fs::remove_file(&out);
            let c = std::process::Command::new(&exe)
                .args(["c17", "--model", &args.model, "--out", &out, "--seed", &args.seed.to_string(), "--tier", if args.thorough { "thorough" } else { "quick" }])
                .args(["c17-child", &from.to_string(), &to.to_string()])
                .stdout(std::process::Stdio::null())
                .stderr(std::process::Stdio::null())
                .spawn();
            match c {
                Ok(c) => children.push((c, out, from, to)),
                Err(e) => {
                    rep.disagree(json!({"what": "cannot start a stress worker process", "error": e.to_string()}));
                    next = n;
                }
            }
        }
        if children.is_empty() {
            if next < n {
                rep.count("stopped_by_time_budget");
            }
            break;
        }
        let mut i = 0;
        while i < children.len() {
            let done = matches!(children[i].0.try_wait(), Ok(Some(_)));
            let too_long = t0.elapsed() > budget + Duration::from_secs(120);
            if done || too_long {
                let (mut c, out, from, to) = children.remove(i);
                if too_long {
                    let _ = c.kill();
                }
                let _ = c.wait();
                match std::fs::read_to_string(&out).ok().and_then(|t| serde_json::from_str::<Value>(&t).ok()) {
                    Some(v) => {
                        ran += to - from;
                        merge_child(&v, rep, &mut seen, &mut confirmed);
                    }
                    None => {
                        crashed += 1;
                        rep.count("stress_worker_without_report");
                        rep.extra.insert(format!("worker_{}_{}", from, to), json!("no report (killed or crashed)"));
                    }
                }
                let _ = std::fs::remove_file(&out);
            } else {
                i += 1;
            }
        }
        std::thread::sleep(Duration::from_millis(20));
    }
    if ran == 0 && crashed > 0 {
        rep.disagree(json!({"what": "no stress worker process produced a report", "workers": crashed}));
    }
    let platform_sites = table.blocking_sites().count();
    rep.extra.insert(
        "dynamic".into(),
        json!({"scenarios": ran, "table_sites_observed": seen.sites.len(), "table_sites_blocking": platform_sites,
               "edges_observed": seen.edges, "distinct_records": seen.records.len(), "deadlocks_by_cycle": confirmed,
               "sites_never_observed": table.blocking_sites().filter(|s| !seen.sites.contains(&s.key)).map(|s| s.key.clone()).collect::<Vec<_>>()}),
    );
}

/// worker: scenarios [from, to) of the seeded stream; everything the parent needs goes into the report
pub fn run_child(args: &Args, model: &mut Model, table: &Table, rep: &mut Report) {
    vs::set_recording(true);
    let from: u64 = args.extra.get(1).and_then(|s| s.parse().ok()).unwrap_or(0);
    let to: u64 = args.extra.get(2).and_then(|s| s.parse().ok()).unwrap_or(0);
    let mut seen = Seen { sites: BTreeSet::new(), edges: BTreeSet::new(), records: BTreeSet::new() };
    let mut confirmed: BTreeMap<String, u64> = BTreeMap::new();
    vs::clear_delays();
    for i in from..to {
        run_generated(args.seed, i, args.thorough, table, model, rep, &mut seen, &mut confirmed);
        // keep what was found so far on disk: a later scenario may take the process down
        rep.extra.insert("child".into(), json!({"sites": seen.sites, "edges": seen.edges, "records": seen.records, "deadlocks_by_cycle": confirmed, "done_to": i + 1}));
        rep.write(&args.out);
    }
}

fn merge_child(v: &Value, rep: &mut Report, seen: &mut Seen, confirmed: &mut BTreeMap<String, u64>) {
    rep.evaluations += v["evaluations"].as_u64().unwrap_or(0);
    if let Some(d) = v["distribution"].as_object() {
        for (k, n) in d {
            if k != "disagreements" && k != "oracle_failures" {
                rep.add(k, n.as_u64().unwrap_or(0));
            }
        }
    }
    rep.add("worker_model_requests", v["model_requests"].as_u64().unwrap_or(0));
    for d in v["disagreements"].as_array().unwrap_or(&vec![]) {
        rep.disagree(d.clone());
    }
    for o in v["oracle_failures"].as_array().unwrap_or(&vec![]) {
        let sig = o["signature"].as_str().unwrap_or("C17:?").to_string();
        rep.oracle_fail(&sig, o.clone());
    }
    for x in v["samples"].as_array().unwrap_or(&vec![]) {
        rep.sample(x.clone());
    }
    let c = &v["extra"]["child"];
    for (name, set) in [("sites", &mut seen.sites), ("edges", &mut seen.edges), ("records", &mut seen.records)] {
        for x in c[name].as_array().unwrap_or(&vec![]) {
            if let Some(s) = x.as_str() {
                set.insert(s.to_string());
            }
        }
    }
    for r in c["records"].as_array().unwrap_or(&vec![]) {
        if let Some(s) = r.as_str() {
            rep.nontrivial.insert(s.to_string());
        }
    }
    if let Some(m) = c["deadlocks_by_cycle"].as_object() {
        for (k, n) in m {
            *confirmed.entry(k.clone()).or_insert(0) += n.as_u64().unwrap_or(0);
        }
    }
}

fn run_confirmation(c: &str, table: &Table, model: &mut Model, rep: &mut Report, seen: &mut Seen, confirmed: &mut BTreeMap<String, u64>) {
    rep.evaluations += 1;
    vs::reset();
    let before = vs::deadlocks().len();
    let line = site_line(table, "src/fsm.rs|start_fsm_with_data_and_finish_mode#5");
    let line_e = site_line(table, "src/fsm_executor.rs|FsmExecutor::get_session_sender#0");
    // since `a[a]` is repaired (C11/P4: the index is read before the container is locked) the `D>D`
    // scenario is a regression scenario like the others: a deadlock or a hang is an oracle failure
    let regression = true;
    let c2 = c.to_string();
    let (fin, res) = watched(&format!("c17-confirm-{}", c), Duration::from_secs(12), false, move || match c2.as_str() {
        "E>P>E" => confirm_e_p(line, line_e),
        "G>P>G" => confirm_g_p(line),
        "D>D:send" => confirm_send_relock(),
        _ => confirm_d_d(),
    });
    vs::clear_delays();
    // whatever deadlocked, also when the set-up itself got stuck
    let found_now = new_deadlocks(before);
    let snap = vs::snapshot();
    check_snapshot(table, &snap, model, rep, &format!("confirm {}", c), seen);
    // the scenario must have walked through the sites whose order the repaired cycle was about
    let must_see: &[&str] = match c {
        "E>P>E" => &["src/fsm.rs|start_fsm_with_data_and_finish_mode#5", "src/fsm_executor.rs|FsmExecutor::get_session_sender#0", "src/datamodel/mod.rs|Datamodel::send#0"],
        "G>P>G" => &["src/fsm.rs|start_fsm_with_data_and_finish_mode#5", "src/fsm.rs|Fsm::invoke#3",
                     "src/executable_content.rs|ExecutableContent for SendParameters::execute#8",
                     "src/event_io_processor/scxml_event_io_processor.rs|EventIOProcessor for ScxmlEventIOProcessor::send#0"],
        "D>D:send" => &["src/executable_content.rs|ExecutableContent for SendParameters::execute#3", "src/executable_content.rs|ExecutableContent for SendParameters::execute#6"],
        _ => &["src/expression_engine/expressions.rs|Expression for ExpressionIndex::execute#1"],
    };
    let here: BTreeSet<String> = snap
        .acquisitions
        .iter()
        .filter_map(|(a, _)| table.by_location(a.file, a.line, a.col).map(|s| s.key.clone()))
        .collect();
    for k in must_see {
        if !here.contains(*k) {
            rep.disagree(json!({"what": "corpus scenario did not reach a lock site it is meant to exercise", "scenario": c, "site": k}));
        }
    }
    match res {
        Some(Err(e)) => rep.disagree(json!({"what": "corpus scenario could not be set up", "scenario": c, "error": e})),
        other => {
            let (completed, note) = match &other {
                Some(Ok(r)) => (r.completed, r.note.clone()),
                _ => (false, "the scenario itself did not return".to_string()),
            };
            let _ = fin;
            let kind = if regression { "regression" } else { "confirm" };
            rep.count(&format!("{}_{}_{}", kind, c, if !found_now.is_empty() { "deadlocked" } else if completed { "no_deadlock" } else { "hung" }));
            if !regression && found_now.is_empty() {
                rep.count("confirm_D>D_not_reproduced");
            }
            let hung = regression && found_now.is_empty() && !completed;
            let out = Outcome { finished: true, sessions: 0, deadlocks: found_now, blocked: vec![], errors: vec![] };
            report_deadlocks(table, &out, rep, json!({"confirm": c}), confirmed);
            if hung {
                let b: Vec<Value> = vs::blocked()
                    .iter()
                    .map(|b| json!({"thread": b.thread_name, "wants": type_class(b.wants.class), "at": format!("{}:{}", short(b.wants.file), b.wants.line), "ms": b.for_millis as u64}))
                    .collect();
                rep.oracle_fail(
                    &format!("C17:hang:regression:{}", c),
                    json!({"kind": "regression scenario of a repaired lock-order cycle did not come to its end (no wait-for cycle found)", "scenario": c, "note": note, "blocked": b, "replay": {"confirm": c}}),
                );
            }
        }
    }
}

#[allow(clippy::too_many_arguments)]
fn run_generated(seed: u64, index: u64, thorough: bool, table: &Table, model: &mut Model, rep: &mut Report, seen: &mut Seen, confirmed: &mut BTreeMap<String, u64>) {
    let mut p = Prng::for_case(seed, index);
    let scn = gen_scenario(&mut p, thorough);
    rep.evaluations += 1;
    rep.count(&format!("scenario_dm_{}", scn.dm));
    rep.count(&format!("scenario_hosts_{}", scn.hosts.len()));
    if scn.shutdown {
        rep.count("scenario_with_executor_shutdown");
    }
    for a in scn.hosts.iter().flatten() {
        rep.count(match a {
            Act::StartPeer => "act_start_peer",
            Act::StartInvoker { with_id: true, .. } => "act_start_invoker_delayed_send_with_id",
            Act::StartInvoker { .. } => "act_start_invoker_delayed_send_without_id",
            Act::Send("later") => "act_delayed_cross_send",
            Act::Send("cancel") => "act_cancel_delayed",
            Act::Send("stop") => "act_stop_session",
            Act::Send("self") => "act_self_send",
            Act::Send(_) => "act_cross_send",
            Act::SendInvoker("abort") => "act_cancel_invoke",
            Act::SendInvoker(_) => "act_invoke",
            Act::Pause(_) => "act_pause",
        });
    }
    vs::reset();
    let out = run_scenario(&scn, seed, index, Duration::from_secs(20));
    let snap = vs::snapshot();
    rep.add("sessions_started_by_hosts", out.sessions as u64);
    rep.add("lock_requests", snap.requests);
    rep.add("lock_requests_contended", snap.contended);
    for e in &out.errors {
        rep.disagree(json!({"what": "scenario document rejected by the reader", "error": e}));
    }
    let origin = format!("gen seed={} index={}", seed, index);
    check_snapshot(table, &snap, model, rep, &origin, seen);
    report_deadlocks(table, &out, rep, json!({"seed": seed, "index": index, "thorough": thorough}), confirmed);
    if !out.finished {
        rep.count("scenario_abandoned_threads_leaked");
    }
    if index < 3 {
        rep.sample(json!({"scenario": format!("{:?}", scn), "requests": snap.requests, "contended": snap.contended, "records": snap.acquisitions.len()}));
    }
}
