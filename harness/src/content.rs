//! C08 on the REAL data models (rfsm-expression, ECMAScript): blocks of executable content with at
//! most one injected evaluation error, observed through a `mark(k)` action and the events the
//! session receives; the expected behaviour is computed from the abstract block by the semantics
//! the property states (document order; first true branch; foreach in order; error ⇒ exactly one
//! error.execution, condition counts as false, rest of the enclosing block skipped, following
//! blocks and the interpreter carry on).
use crate::obs::{mark_actions, run_session_feed_with, xml_attr};
use crate::prng::Prng;
use crate::report::Report;
use crate::Args;
use rufsm::fsm::Event;
use rufsm::scxml_reader;
use serde_json::json;
use std::time::Duration;

#[derive(Clone, Debug, PartialEq)]
pub enum Cond {
    True,
    False,
    Err,
}

#[derive(Clone, Debug)]
pub enum CItem {
    Mark(u32),
    If(Vec<(Cond, Vec<CItem>)>, Option<Vec<CItem>>),
    /// array: Some(items) | None = erroring expression; body marks 100+item, 200+index
    Foreach(Option<Vec<u32>>, Vec<CItem>),
    ForeachNonCollection(Vec<CItem>),
    Assign { declared: bool, ok_value: bool },
    Raise,
    Log(bool),
    Script(bool),
    SendInternal { event_ok: bool },
    SendBadTarget,
}

const ERRS: &[&str] = &["nosuch(1)", "v9 + 1", "1 +"];

pub struct Gen<'a> {
    p: &'a mut Prng,
    next_mark: u32,
    /// where the single error of this block goes: index in pre-order of error-capable sites
    inject_at: Option<usize>,
    sites: usize,
    err_text: String,
    pub injected: Option<String>,
}

impl<'a> Gen<'a> {
    fn mark(&mut self) -> CItem {
        self.next_mark += 1;
        CItem::Mark(self.next_mark)
    }
    /// is this site the one that gets the error?
    fn site(&mut self, kind: &str) -> bool {
        let here = self.sites;
        self.sites += 1;
        if self.inject_at == Some(here) {
            self.injected = Some(kind.to_string());
            true
        } else {
            false
        }
    }
    fn items(&mut self, depth: usize) -> Vec<CItem> {
        let n = self.p.range(1, 3);
        let mut v = vec![];
        for _ in 0..n {
            v.push(self.mark());
            v.push(self.item(depth));
        }
        v.push(self.mark());
        v
    }
    fn item(&mut self, depth: usize) -> CItem {
        let k = self.p.below(if depth >= 2 { 6 } else { 9 });
        match k {
            0 => CItem::Assign { declared: !self.site("assign-location"), ok_value: !self.site("assign-value") },
            1 => CItem::Raise,
            2 => CItem::Log(!self.site("log-expr")),
            3 => CItem::Script(!self.site("script")),
            4 => CItem::SendInternal { event_ok: !self.site("send-eventexpr") },
            5 => {
                if self.site("send-target") {
                    CItem::SendBadTarget
                } else {
                    CItem::SendInternal { event_ok: true }
                }
            }
            6 | 7 => {
                let nb = self.p.range(1, 3);
                let mut branches = vec![];
                for _ in 0..nb {
                    let c = if self.site("if-cond") {
                        Cond::Err
                    } else if self.p.chance(1, 2) {
                        Cond::True
                    } else {
                        Cond::False
                    };
                    branches.push((c, self.items(depth + 1)));
                }
                let els = if self.p.chance(1, 2) { Some(self.items(depth + 1)) } else { None };
                CItem::If(branches, els)
            }
            _ => {
                if self.site("foreach-array") {
                    CItem::Foreach(None, self.items(depth + 1))
                } else if self.site("foreach-non-collection") {
                    CItem::ForeachNonCollection(self.items(depth + 1))
                } else {
                    let n = self.p.below(4);
                    CItem::Foreach(Some((0..n).map(|_| self.p.below(5) as u32).collect()), self.items(depth + 1))
                }
            }
        }
    }
}

pub fn render_items(items: &[CItem], err: &str, out: &mut String) {
    for it in items {
        match it {
            CItem::Mark(k) => out.push_str(&format!("<script>mark({})</script>", k)),
            CItem::If(branches, els) => {
                for (i, (c, body)) in branches.iter().enumerate() {
                    // the same truth value in different shapes: a comparison, a non-zero / zero integer
                    // (also a negative one), chosen by the first mark number of the branch
                    let shape = body.iter().find_map(|x| if let CItem::Mark(k) = x { Some(*k) } else { None }).unwrap_or(0) % 3;
                    let ct = match (c, shape) {
                        (Cond::True, 0) => "v1 == 1".to_string(),
                        (Cond::True, 1) => "v1".to_string(),
                        (Cond::True, _) => "v1 - 2".to_string(),
                        (Cond::False, 0) => "v1 == 2".to_string(),
                        (Cond::False, 1) => "v1 - 1".to_string(),
                        (Cond::False, _) => "v1 - v1".to_string(),
                        (Cond::Err, _) => err.to_string(),
                    };
                    if i == 0 {
                        out.push_str(&format!("<if cond=\"{}\">", xml_attr(&ct)));
                    } else {
                        out.push_str(&format!("<elseif cond=\"{}\"/>", xml_attr(&ct)));
                    }
                    render_items(body, err, out);
                }
                if let Some(e) = els {
                    out.push_str("<else/>");
                    render_items(e, err, out);
                }
                out.push_str("</if>");
            }
            CItem::Foreach(arr, body) => {
                let a = match arr {
                    Some(xs) => format!("[{}]", xs.iter().map(|x| x.to_string()).collect::<Vec<_>>().join(",")),
                    None => err.to_string(),
                };
                out.push_str(&format!("<foreach array=\"{}\" item=\"it\" index=\"ix\"><script>mark(100 + it)</script><script>mark(200 + ix)</script>", xml_attr(&a)));
                render_items(body, err, out);
                out.push_str("</foreach>");
            }
            CItem::ForeachNonCollection(body) => {
                out.push_str("<foreach array=\"v1\" item=\"it\" index=\"ix\"><script>mark(100 + it)</script>");
                render_items(body, err, out);
                out.push_str("</foreach>");
            }
            CItem::Assign { declared, ok_value } => out.push_str(&format!(
                "<assign location=\"{}\" expr=\"{}\"/>",
                // an unusable location: undeclared, an invalid path, or text that does not parse
                if *declared { "v0" } else if err == "1 +" { "v0." } else if err == "v9 + 1" { "v0.x.y" } else { "zz9" },
                xml_attr(if *ok_value { "v0 + 1" } else { err })
            )),
            CItem::Raise => out.push_str("<raise event=\"r0\"/>"),
            CItem::Log(ok) => out.push_str(&format!("<log label=\"l\" expr=\"{}\"/>", xml_attr(if *ok { "v0 + 1" } else { err }))),
            CItem::Script(ok) => out.push_str(&format!("<script>{}</script>", xml_attr(if *ok { "v0 = v0 + 1" } else { err }))),
            CItem::SendInternal { event_ok } => {
                if *event_ok {
                    out.push_str("<send event=\"i0\" target=\"#_internal\"/>")
                } else {
                    out.push_str(&format!("<send eventexpr=\"{}\" target=\"#_internal\"/>", xml_attr(err)))
                }
            }
            CItem::SendBadTarget => out.push_str("<send event=\"i0\" target=\"baz\"/>"),
        }
    }
}

#[derive(Default, Debug, Clone, PartialEq)]
pub struct Expect {
    pub marks: Vec<u32>,
    pub errors: u32,
    pub raised: u32,
    pub sent: u32,
    /// after a bad send target the property does not say whether the block goes on
    pub unspecified_tail: bool,
}

/// reference semantics of the property; returns false when the block is aborted
pub fn expect(items: &[CItem], e: &mut Expect) -> bool {
    for it in items {
        if e.unspecified_tail {
            return false;
        }
        match it {
            CItem::Mark(k) => e.marks.push(*k),
            CItem::If(branches, els) => {
                let mut taken = false;
                for (c, body) in branches {
                    match c {
                        Cond::True => {
                            taken = true;
                            if !expect(body, e) {
                                return false;
                            }
                            break;
                        }
                        Cond::False => {}
                        Cond::Err => e.errors += 1, // counts as false
                    }
                }
                if !taken {
                    if let Some(b) = els {
                        if !expect(b, e) {
                            return false;
                        }
                    }
                }
            }
            CItem::Foreach(None, _) | CItem::ForeachNonCollection(_) => {
                e.errors += 1;
                return false;
            }
            CItem::Foreach(Some(xs), body) => {
                for (i, x) in xs.iter().enumerate() {
                    e.marks.push(100 + x);
                    e.marks.push(200 + i as u32);
                    if !expect(body, e) {
                        return false;
                    }
                }
            }
            CItem::Assign { declared, ok_value } => {
                if !*declared || !*ok_value {
                    e.errors += 1;
                    return false;
                }
            }
            CItem::Raise => e.raised += 1,
            CItem::Log(ok) | CItem::Script(ok) => {
                if !*ok {
                    e.errors += 1;
                    return false;
                }
            }
            CItem::SendInternal { event_ok } => {
                if !*event_ok {
                    e.errors += 1;
                    return false;
                }
                e.sent += 1;
            }
            CItem::SendBadTarget => {
                e.errors += 1;
                e.unspecified_tail = true;
                return false;
            }
        }
    }
    true
}

pub struct Case {
    pub dm: String,
    pub place: String, // onentry | transition | onexit
    pub items: Vec<CItem>,
    pub err: String,
    pub injected: Option<String>,
    pub origin: String,
}

pub fn gen_case(seed: u64, index: u64) -> Case {
    let mut p = Prng::for_case(seed, index);
    let dm = if p.chance(1, 2) { "rfsm-expression" } else { "ecmascript" }.to_string();
    let place = (*p.pick(&["onentry", "transition", "onexit"])).to_string();
    let err = (*p.pick(ERRS)).to_string();
    // first pass: count sites; second pass with the same PRNG stream: inject at a chosen site
    let state = p.clone();
    let mut g = Gen { p: &mut p, next_mark: 0, inject_at: None, sites: 0, err_text: err.clone(), injected: None };
    let _ = g.items(0);
    let sites = g.sites;
    let mut p2 = state;
    let mut chooser = Prng::for_case(seed ^ 0x5151, index);
    let inject_at = if sites > 0 && chooser.chance(4, 5) { Some(chooser.below(sites as u64) as usize) } else { None };
    let mut g2 = Gen { p: &mut p2, next_mark: 0, inject_at, sites: 0, err_text: err.clone(), injected: None };
    let items = g2.items(0);
    let injected = g2.injected.clone();
    let _ = &g2.err_text;
    Case { dm, place, items, err, injected, origin: format!("gen c08real seed={} index={}", seed, index) }
}

pub fn render(c: &Case) -> String {
    let mut block = String::new();
    render_items(&c.items, &c.err, &mut block);
    // rfsm-expression: one more kind of unusable location — a computed NEGATIVE array index
    // (ECMAScript would simply create the property "-1")
    if c.dm == "rfsm-expression" && c.err == "nosuch(1)" {
        block = block.replace("location=\"zz9\"", "location=\"arr[v1 - 2]\"");
    }
    let (entry, trans, exit) = match c.place.as_str() {
        "onentry" => (block.clone(), String::new(), String::new()),
        "transition" => (String::new(), block.clone(), String::new()),
        _ => (String::new(), String::new(), block.clone()),
    };
    // s0: block under test in its onentry (place=onentry); s1 entered by "go" (place=transition: the
    // block is the transition body; place=onexit: the block is s0's onexit). A second block of the
    // same kind follows (marks 900/901/902) and must always run.
    format!(
        "<scxml xmlns=\"http://www.w3.org/2005/07/scxml\" version=\"1.0\" datamodel=\"{dm}\" name=\"m\" initial=\"s0\">\
         <datamodel><data id=\"v0\" expr=\"0\"/><data id=\"v1\" expr=\"1\"/><data id=\"arr\" expr=\"[1,2,3]\"/></datamodel>\
         <state id=\"top\">\
           <transition event=\"error.execution\"><script>mark(990)</script></transition>\
           <transition event=\"r0\"><script>mark(980)</script></transition>\
           <transition event=\"i0\"><script>mark(970)</script></transition>\
           <state id=\"s0\"><onentry>{entry}</onentry><onentry><script>mark(900)</script></onentry>\
             <onexit>{exit}</onexit><onexit><script>mark(902)</script></onexit>\
             <transition event=\"go\" target=\"s1\">{trans}</transition></state>\
           <state id=\"s1\"><onentry><script>mark(901)</script></onentry></state>\
         </state></scxml>",
        dm = c.dm,
        entry = entry,
        exit = exit,
        trans = trans
    )
}

pub struct Seen {
    pub marks: Vec<u32>,
    pub errors: u32,
    pub raised: u32,
    pub sent: u32,
    pub all_marks: Vec<u32>,
    pub panicked: bool,
    pub timed_out: bool,
}

pub fn run_impl(c: &Case) -> Result<Seen, String> {
    let xml = render(c);
    let fsm = std::panic::catch_unwind(|| scxml_reader::parse_from_xml(xml)).unwrap_or_else(|_| Err("reader panicked".into()))?;
    let batches = vec![vec![Event::new_simple("go")], vec![Event::new_simple("error.platform.cancel")]];
    let out = run_session_feed_with(fsm, &batches, &[1, 2], true, Duration::from_secs(10), false, |log| mark_actions(log), &[]);
    if std::env::var("VH_DEBUG").is_ok() && (out.timed_out || out.panicked) {
        eprintln!("HUNG/PANIC dm={} trace tail: {:?}", c.dm, out.trace.iter().rev().take(12).collect::<Vec<_>>());
    }
    let mut all = vec![];
    for l in &out.trace {
        if let Some(r) = l.strip_prefix("mark ") {
            let v = r.split(' ').next().unwrap_or("");
            all.push(v.parse::<f64>().map(|x| x as u32).unwrap_or(99999));
        }
    }
    let block: Vec<u32> = all.iter().cloned().filter(|m| *m < 900).collect();
    Ok(Seen {
        marks: block,
        errors: all.iter().filter(|m| **m == 990).count() as u32,
        raised: all.iter().filter(|m| **m == 980).count() as u32,
        sent: all.iter().filter(|m| **m == 970).count() as u32,
        all_marks: all,
        panicked: out.panicked,
        timed_out: out.timed_out,
    })
}

pub fn check_case(c: &Case, rep: &mut Report) {
    rep.evaluations += 1;
    rep.count(&format!("dm_{}", c.dm));
    rep.count(&format!("place_{}", c.place));
    rep.count(&format!("inject_{}", c.injected.clone().unwrap_or("none".into())));
    let mut e = Expect::default();
    expect(&c.items, &mut e);
    let seen = match run_impl(c) {
        Ok(s) => s,
        Err(err) => {
            rep.disagree(json!({"origin": c.origin, "xml": render(c), "reader_error": err}));
            return;
        }
    };
    let site = c.injected.clone().unwrap_or("none".into());
    let base = format!("C08:{}:{}", c.dm, site);
    let info = |what: &str| json!({"origin": c.origin, "datamodel": c.dm, "place": c.place, "injected": site, "error_expr": c.err,
        "xml": render(c), "what": what, "expected_marks": e.marks, "seen_marks": seen.marks,
        "expected_error_events": e.errors, "seen_error_events": seen.errors, "all_marks": seen.all_marks});
    rep.nontrivial.insert(format!("{}|{}|{:?}", c.dm, c.place, c.items));
    if seen.panicked || seen.timed_out {
        rep.oracle_fail(&format!("{}:session-{}", base, if seen.panicked { "panicked" } else { "hung" }), info("session died"));
        return;
    }
    // following blocks and the interpreter carry on
    for m in [900u32, 901, 902] {
        if seen.all_marks.iter().filter(|x| **x == m).count() != 1 {
            rep.oracle_fail(&format!("{}:following-block-{}", base, m), info("a following block did not run exactly once"));
        }
    }
    if seen.errors < e.errors {
        rep.oracle_fail(&format!("{}:missing-error.execution", base), info("fewer error.execution events than evaluation errors"));
    } else if seen.errors > e.errors {
        rep.oracle_fail(&format!("{}:extra-error.execution", base), info("more error.execution events than evaluation errors"));
    }
    if !e.unspecified_tail {
        if seen.marks != e.marks {
            let kind = if seen.marks.len() > e.marks.len() && seen.marks.starts_with(&e.marks) {
                "block-not-aborted"
            } else if e.marks.starts_with(&seen.marks) {
                "aborted-too-much"
            } else {
                "wrong-order-or-branch"
            };
            rep.oracle_fail(&format!("{}:{}", base, kind), info("marks of the block differ from the reference semantics"));
        }
        if seen.raised != e.raised || seen.sent != e.sent {
            rep.oracle_fail(&format!("{}:raise-or-send-count", base), info("raised / sent internal events differ"));
        }
    } else if !seen.marks.starts_with(&e.marks) {
        rep.oracle_fail(&format!("{}:wrong-prefix", base), info("marks before the send differ"));
    }
    if rep.samples.len() < 3 {
        rep.sample(json!({"datamodel": c.dm, "place": c.place, "injected": site, "xml": render(c), "marks": seen.all_marks}));
    }
}

pub fn run_real(args: &Args, rep: &mut Report) {
    let n = if args.thorough { 6000 } else if std::env::var("VH_FEW").is_ok() { 12 } else { 400 };
    for i in 0..n {
        let c = gen_case(args.seed, i);
        check_case(&c, rep);
    }
}
