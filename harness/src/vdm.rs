//! VDM — the verification data model (Rust half; the Lean half is lean/Rfsm/Model/Vdm.lean).
//! A real `rufsm::datamodel::Datamodel`, registered as "vdm", with a tiny expression language
//! (a subset of rfsm-expression syntax, tokens separated by one blank) and a report of every call
//! it receives, appended to the same log the recording tracer writes to.
use crate::obs::Log;
use rufsm::datamodel::{create_data_arc, Data, DataArc, Datamodel, DatamodelFactory, GlobalDataArc};
use rufsm::fsm::{Event, ExecutableContentId, Fsm, StateId};
use std::collections::HashMap;
use std::sync::atomic::{AtomicU64, Ordering};
use std::sync::Mutex;

static NEXT_LOG: AtomicU64 = AtomicU64::new(1);
static LOGS: Mutex<Option<HashMap<u64, Log>>> = Mutex::new(None);
pub const OPT_LOG: &str = "vdm_log";

/// registers `log` and returns the option value to put into the executor's datamodel options
pub fn register_log(log: &Log) -> String {
    let id = NEXT_LOG.fetch_add(1, Ordering::Relaxed);
    let mut g = LOGS.lock().unwrap();
    g.get_or_insert_with(HashMap::new).insert(id, log.clone());
    id.to_string()
}

pub fn unregister_log(id: &str) {
    if let Ok(n) = id.parse::<u64>() {
        if let Some(m) = LOGS.lock().unwrap().as_mut() {
            m.remove(&n);
        }
    }
}

pub fn install() {
    rufsm::fsm::register_datamodel("vdm", Box::new(VdmFactory {}));
}

pub struct VdmFactory {}

impl DatamodelFactory for VdmFactory {
    fn create(&mut self, global_data: GlobalDataArc, options: &HashMap<String, String>) -> Box<dyn Datamodel> {
        let log = options
            .get(OPT_LOG)
            .and_then(|s| s.parse::<u64>().ok())
            .and_then(|id| LOGS.lock().unwrap().as_ref().and_then(|m| m.get(&id).cloned()))
            .unwrap_or_default();
        Box::new(Vdm { global: global_data, log, names: HashMap::new(), vars: Vec::new() })
    }
}

pub struct Vdm {
    global: GlobalDataArc,
    log: Log,
    names: HashMap<String, StateId>,
    vars: Vec<(String, Option<i64>)>,
}

#[derive(Clone, PartialEq, Debug)]
enum Val {
    Int(i64),
    Text(String),
}

impl Val {
    fn show(&self) -> String {
        match self {
            Val::Int(i) => i.to_string(),
            Val::Text(t) => t.clone(),
        }
    }
}

fn parse_nat(s: &str) -> Option<i64> {
    if s.is_empty() || !s.bytes().all(|b| b.is_ascii_digit()) {
        return None;
    }
    // same arithmetic as the Lean side for the sizes generated (no overflow handling needed there)
    let mut n: i64 = 0;
    for b in s.bytes() {
        n = n.checked_mul(10)?.checked_add((b - b'0') as i64)?;
    }
    Some(n)
}

fn dtext(d: &Data) -> String {
    d.to_string()
}

impl Vdm {
    fn obs(&self, parts: &[&str]) {
        self.log.lock().unwrap_or_else(|e| e.into_inner()).push(format!("dm {}", parts.join(" ")));
    }
    fn lookup(&self, n: &str) -> Option<Option<i64>> {
        self.vars.iter().find(|p| p.0 == n).map(|p| p.1)
    }
    fn set_var(&mut self, n: &str, v: Option<i64>) {
        if let Some(p) = self.vars.iter_mut().find(|p| p.0 == n) {
            p.1 = v;
        } else {
            self.vars.push((n.to_string(), v));
        }
    }
    fn atom(&self, t: &str) -> Option<Val> {
        if let Some(n) = parse_nat(t) {
            return Some(Val::Int(n));
        }
        let b = t.as_bytes();
        if b.len() >= 2 && b[0] == b'\'' && b[b.len() - 1] == b'\'' {
            return Some(Val::Text(String::from_utf8_lossy(&b[1..b.len() - 1]).to_string()));
        }
        match self.lookup(t) {
            Some(Some(v)) => Some(Val::Int(v)),
            _ => None,
        }
    }
    fn eval_value(&self, toks: &[&str]) -> Option<Val> {
        match toks {
            [a] => self.atom(a),
            [a, "+", b] => match (self.atom(a), self.atom(b)) {
                (Some(Val::Int(x)), Some(Val::Int(y))) => Some(Val::Int(x + y)),
                _ => None,
            },
            _ => None,
        }
    }
    fn eval_cond(&self, src: &str) -> Option<bool> {
        let toks: Vec<&str> = src.split(' ').collect();
        match toks.as_slice() {
            ["true"] => Some(true),
            ["false"] => Some(false),
            [t] => {
                if t.starts_with("In('") && t.len() >= 6 && t.ends_with("')") {
                    let nm = &t[4..t.len() - 2];
                    match self.names.get(nm) {
                        Some(id) => Some(self.global.lock().unwrap().configuration.isMember(id)),
                        None => Some(false),
                    }
                } else {
                    None
                }
            }
            [a, op, b] => match (self.atom(a), self.atom(b)) {
                (Some(x), Some(y)) => match *op {
                    "==" => Some(x == y),
                    "!=" => Some(x != y),
                    "<" => match (x, y) {
                        (Val::Int(i), Val::Int(j)) => Some(i < j),
                        _ => None,
                    },
                    _ => None,
                },
                _ => None,
            },
            _ => None,
        }
    }
    fn execute_text(&mut self, src: &str) -> Option<String> {
        let toks: Vec<&str> = src.split(' ').collect();
        if toks.len() >= 2 && toks[1] == "=" {
            match (self.lookup(toks[0]), self.eval_value(&toks[2..])) {
                (Some(_), Some(Val::Int(v))) => {
                    self.set_var(toks[0], Some(v));
                    Some(v.to_string())
                }
                _ => None,
            }
        } else {
            self.eval_value(&toks).map(|v| v.show())
        }
    }
}

fn parse_array(s: &str) -> Option<Vec<String>> {
    let b = s.as_bytes();
    if b.first() == Some(&b'[') && b.last() == Some(&b']') && b.len() >= 2 {
        let inner = &s[1..s.len() - 1];
        if inner.is_empty() {
            return Some(vec![]);
        }
        let parts: Vec<String> = inner.split(',').map(|x| x.to_string()).collect();
        if parts.iter().all(|p| parse_nat(p).is_some()) {
            Some(parts)
        } else {
            None
        }
    } else {
        None
    }
}

impl Datamodel for Vdm {
    fn global(&mut self) -> &mut GlobalDataArc {
        &mut self.global
    }
    fn global_s(&self) -> &GlobalDataArc {
        &self.global
    }
    fn get_name(&self) -> &str {
        "VDM"
    }
    fn add_functions(&mut self, fsm: &mut Fsm) {
        for state in fsm.states.as_slice() {
            self.names.insert(state.name.clone(), state.id);
        }
    }
    fn set_ioprocessors(&mut self) {}

    fn set_from_state_data(&mut self, data: &HashMap<String, DataArc>, set_data: bool) {
        let mut decls: Vec<(String, String)> = data
            .iter()
            .map(|(k, v)| (k.clone(), v.lock().map(|g| dtext(&g)).unwrap_or_default()))
            .collect();
        decls.sort();
        for (name, expr) in decls {
            if set_data {
                if expr.is_empty() {
                    self.set_var(&name, None);
                } else {
                    let toks: Vec<&str> = expr.split(' ').collect();
                    match self.eval_value(&toks) {
                        Some(Val::Int(v)) => self.set_var(&name, Some(v)),
                        _ => {
                            self.set_var(&name, None);
                            self.internal_error_execution();
                        }
                    }
                }
            } else if self.lookup(&name).is_none() {
                self.set_var(&name, None);
            }
        }
    }

    fn initialize_read_only_arc(&mut self, _name: &str, _value: DataArc) {}

    fn set_arc(&mut self, name: &str, data: DataArc, _allow_undefined: bool) {
        let t = data.lock().map(|g| g.to_string()).unwrap_or_default();
        self.set_var(name, parse_nat(&t));
    }

    fn set_event(&mut self, _event: &Event) {}

    fn assign(&mut self, left_expr: &Data, right_expr: &Data) -> bool {
        let loc = dtext(left_expr);
        let e = dtext(right_expr);
        let toks: Vec<&str> = e.split(' ').collect();
        match (self.lookup(&loc), self.eval_value(&toks)) {
            (Some(_), Some(Val::Int(v))) => {
                self.set_var(&loc, Some(v));
                self.obs(&["assign", &loc, &e, "ok"]);
                true
            }
            _ => {
                self.obs(&["assign", &loc, &e, "err"]);
                self.internal_error_execution();
                false
            }
        }
    }

    fn get_by_location(&mut self, location: &str) -> Result<DataArc, String> {
        match self.lookup(location) {
            Some(Some(v)) => {
                self.obs(&["loc", location, &v.to_string()]);
                Ok(create_data_arc(Data::Integer(v)))
            }
            _ => {
                self.obs(&["loc", location, "E"]);
                self.internal_error_execution();
                Err("no such location".to_string())
            }
        }
    }

    fn clear(&mut self) {}

    fn log(&mut self, msg: &str) {
        self.obs(&["log", msg]);
    }

    fn execute(&mut self, script: &Data) -> Result<DataArc, String> {
        let src = dtext(script);
        match self.execute_text(&src) {
            Some(v) => {
                self.obs(&["exec", &src, &v]);
                Ok(create_data_arc(Data::String(v)))
            }
            None => {
                self.obs(&["exec", &src, "E"]);
                Err("vdm: evaluation error".to_string())
            }
        }
    }

    fn execute_for_each(
        &mut self,
        array_expression: &Data,
        item: &str,
        index: &str,
        execute_body: &mut dyn FnMut(&mut dyn Datamodel) -> bool,
    ) -> bool {
        let arr = dtext(array_expression);
        match parse_array(&arr) {
            None => {
                self.obs(&["foreach", &arr, "E"]);
                false
            }
            Some(items) => {
                if self.lookup(item).is_none() {
                    self.set_var(item, None);
                }
                self.obs(&["foreach", &arr, &items.len().to_string()]);
                for (i, v) in items.iter().enumerate() {
                    self.set_var(item, parse_nat(v));
                    self.set_var(index, Some(i as i64));
                    if !execute_body(self) {
                        return false;
                    }
                }
                true
            }
        }
    }

    fn execute_condition(&mut self, script: &Data) -> Result<bool, String> {
        let src = dtext(script);
        match self.eval_cond(&src) {
            Some(b) => {
                self.obs(&["cond", &src, if b { "T" } else { "F" }]);
                Ok(b)
            }
            None => {
                self.obs(&["cond", &src, "E"]);
                Err("vdm: condition error".to_string())
            }
        }
    }

    #[allow(non_snake_case)]
    fn executeContent(&mut self, fsm: &Fsm, content_id: ExecutableContentId) -> bool {
        let ec = fsm.executableContent.get(&content_id);
        for e in ec.unwrap().iter() {
            if !e.execute(self, fsm) {
                return false;
            }
        }
        true
    }
}
