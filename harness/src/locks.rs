//! C17 — no deadlock on the platform's internal locks.
//!
//! Static part (always): reads the lock-site table as resolved against the current source by
//! `bin/gen/locks.py` (`lean/Rfsm/Gen/lock_sites_resolved.json`), re-derives the held-while-acquiring
//! edges from it independently of the generator, and asks the Lean driver (family `locks`) for the
//! rank / the independent cycles of (a) that edge list and (b) the table compiled into the driver
//! (`Rfsm.Gen.LockSites.edges`, the one the theorems of `Rfsm.Props.C17` are about).  The two must
//! agree (else: disagreement).  Every independent cycle is an oracle failure `C17:cycle:<cycle>`.
//! The schedules of `Rfsm.Props.C17` are replayed on the compiled model.
//!
//! Dynamic part (harness feature `hooks`, needs the `Verif_Hooks` mutex in the crate): seeded
//! multi-session stress scenarios on one executor (concurrent starts, invoke, cross-session send,
//! delayed sends, cancel, shutdown).  Every acquisition recorded by the instrumented mutex must be at
//! a site of the table, with the held classes the table allows there, and every (held, acquired) pair
//! must be an instance of an edge of the Lean table (else: disagreement = the table is incomplete).
//! The wait-for-graph detector and a watchdog report real deadlocks (`C17:deadlock:<cycle>`).  Corpus:
//! the former confirmation scenarios of the repaired cycles `E>P>E` and `G>P>G` (delay injection) and of
//! the `<send>` re-lock now run as regression scenarios (a deadlock or hang there is an unknown oracle
//! failure); the `D>D` instance `a[a]` is a regression scenario as well since its repair (C11/P4).
use crate::proto::Model;
use crate::report::Report;
use crate::Args;
use serde_json::{json, Value};
use std::collections::{BTreeMap, BTreeSet};
use std::path::{Path, PathBuf};

#[cfg(feature = "hooks")]
#[path = "locks_dyn.rs"]
mod dynamic;

pub const NS: &str = "xmlns=\"http://www.w3.org/2005/07/scxml\" version=\"1.0\"";

/// a session that talks to a peer session: `peer` (set the peer), `go` (send now), `later`
/// (delayed send, with or without id), `ping` (answer to the origin), `cancel`, `stop`
pub fn peer_doc(dm: &str) -> String {
    format!(
        "<scxml {NS} datamodel=\"{dm}\" initial=\"idle\">\
         <datamodel><data id=\"peer\" expr=\"0\"/><data id=\"n\" expr=\"0\"/></datamodel>\
         <state id=\"idle\">\
          <transition event=\"peer\"><assign location=\"peer\" expr=\"_event.data.id\"/></transition>\
          <transition event=\"go\"><send event=\"ping\" targetexpr=\"'#_scxml_' + peer\"/></transition>\
          <transition event=\"later\"><send event=\"ping\" delay=\"2ms\" targetexpr=\"'#_scxml_' + peer\"/>\
             <send id=\"d1\" event=\"ping\" delay=\"4ms\" targetexpr=\"'#_scxml_' + peer\"/></transition>\
          <transition event=\"self\"><send event=\"pong\" delay=\"1ms\"/><send event=\"pong\"/></transition>\
          <transition event=\"cancel\"><cancel sendid=\"d1\"/></transition>\
          <transition event=\"ping\"><send event=\"pong\" targetexpr=\"_event.origin\"/></transition>\
          <transition event=\"pong\"><assign location=\"n\" expr=\"n + 1\"/></transition>\
          <transition event=\"stop\" target=\"end\"/>\
         </state><final id=\"end\"/></scxml>"
    )
}

/// a session that invokes a child (inline content) on every entry of `s1`, with a delayed send of
/// its own pending; the child talks to `#_parent`, the parent to `#_kid`
pub fn invoker_doc(dm: &str, delay_ms: u32, with_id: bool) -> String {
    let id = if with_id { " id=\"t1\"" } else { "" };
    format!(
        "<scxml {NS} datamodel=\"{dm}\" initial=\"s0\">\
         <state id=\"s0\"><transition event=\"go\" target=\"s1\"/><transition event=\"stop\" target=\"end\"/></state>\
         <state id=\"s1\">\
          <onentry><send{id} event=\"tick\" delay=\"{delay_ms}ms\"/></onentry>\
          <invoke id=\"kid\"><content>\
           <scxml {NS} datamodel=\"{dm}\" initial=\"c1\">\
            <state id=\"c1\"><onentry><send target=\"#_parent\" event=\"hello\"/><send event=\"ctick\" delay=\"1ms\"/></onentry>\
             <transition event=\"bye\" target=\"cend\"/></state><final id=\"cend\"/></scxml>\
          </content></invoke>\
          <transition event=\"hello\"><send target=\"#_kid\" event=\"bye\"/></transition>\
          <transition event=\"done.invoke.kid\" target=\"s2\"/>\
          <transition event=\"abort\" target=\"s2\"/>\
          <transition event=\"stop\" target=\"end\"/>\
         </state>\
         <state id=\"s2\"><transition event=\"go\" target=\"s1\"/><transition event=\"stop\" target=\"end\"/></state>\
         <final id=\"end\"/></scxml>"
    )
}


pub struct Site {
    pub id: u64,
    pub key: String,
    pub kind: String,
    pub cls: String,
    pub held: Vec<String>,
    pub same: String,
    pub file: String,
    pub line: u32,
    pub col: u32,
    pub test: bool,
    pub tool: bool,
    pub wrapper: bool,
    pub noctx: bool,
}

pub struct Table {
    pub sites: Vec<Site>,
    /// fn key -> contexts (name, held)
    pub contexts: BTreeMap<String, Vec<(String, Vec<String>)>>,
}

fn strs(v: &Value) -> Vec<String> {
    v.as_array().map(|a| a.iter().filter_map(|x| x.as_str().map(|s| s.to_string())).collect()).unwrap_or_default()
}

pub fn framework_root(args: &Args) -> PathBuf {
    // <root>/lean/.lake/build/bin/rfsm_model
    let p = Path::new(&args.model);
    let abs = if p.is_absolute() { p.to_path_buf() } else { std::env::current_dir().unwrap().join(p) };
    abs.ancestors().nth(5).map(|x| x.to_path_buf()).unwrap_or_else(|| PathBuf::from(".."))
}

pub fn load_table(root: &Path) -> Result<Table, String> {
    let p = root.join("lean/Rfsm/Gen/lock_sites_resolved.json");
    let txt = std::fs::read_to_string(&p).map_err(|e| format!("{}: {}", p.display(), e))?;
    let v: Value = serde_json::from_str(&txt).map_err(|e| e.to_string())?;
    let mut sites = Vec::new();
    for s in v["sites"].as_array().ok_or("no sites")? {
        sites.push(Site {
            id: s["id"].as_u64().unwrap_or(0),
            key: s["key"].as_str().unwrap_or("").to_string(),
            kind: s["kind"].as_str().unwrap_or("").to_string(),
            cls: s["cls"].as_str().unwrap_or("-").to_string(),
            held: strs(&s["held"]),
            same: s["same"].as_str().unwrap_or("any").to_string(),
            file: s["file"].as_str().unwrap_or("").to_string(),
            line: s["line"].as_u64().unwrap_or(0) as u32,
            col: s["col"].as_u64().unwrap_or(0) as u32,
            test: s["test"].as_bool().unwrap_or(false),
            tool: s["tool"].as_bool().unwrap_or(false),
            wrapper: s["wrapper"].as_bool().unwrap_or(false),
            noctx: s["noctx"].as_bool().unwrap_or(false),
        });
    }
    let mut contexts = BTreeMap::new();
    if let Some(m) = v["contexts"].as_object() {
        for (k, cs) in m {
            let mut l = Vec::new();
            for c in cs.as_array().unwrap_or(&vec![]) {
                l.push((c["name"].as_str().unwrap_or("").to_string(), strs(&c["held"])));
            }
            contexts.insert(k.clone(), l);
        }
    }
    Ok(Table { sites, contexts })
}

impl Table {
    pub fn fn_key(site: &Site) -> &str {
        site.key.rsplit_once('#').map(|x| x.0).unwrap_or(&site.key)
    }
    /// the alternative held sets the table allows at a site (one per calling context)
    pub fn allowed_held(&self, site: &Site) -> Vec<(String, BTreeSet<String>)> {
        let none = vec![(String::new(), vec![])];
        let ctxs = if site.noctx { &none } else { self.contexts.get(Self::fn_key(site)).unwrap_or(&none) };
        ctxs.iter()
            .map(|(n, h)| {
                let mut s: BTreeSet<String> = h.iter().cloned().collect();
                s.extend(site.held.iter().cloned());
                (n.clone(), s)
            })
            .collect()
    }
    pub fn blocking_sites(&self) -> impl Iterator<Item = &Site> {
        self.sites.iter().filter(|s| !s.test && !s.tool && !s.wrapper && s.cls != "-" && s.kind != "try_lock")
    }
    /// distinct (held, acq, rel, priv) -> witness site keys
    pub fn edges(&self) -> BTreeMap<(String, String, String, bool), Vec<String>> {
        let mut out: BTreeMap<(String, String, String, bool), Vec<String>> = BTreeMap::new();
        for s in self.blocking_sites() {
            for (cn, held) in self.allowed_held(s) {
                for h in held {
                    let rel = if h == s.cls { s.same.clone() } else { "any".to_string() };
                    let w = if cn.is_empty() { s.key.clone() } else { format!("{}@{}", s.key, cn) };
                    out.entry((h.clone(), s.cls.clone(), rel, h == "D")).or_default().push(w);
                }
            }
        }
        out
    }
    pub fn by_location(&self, file: &str, line: u32, col: u32) -> Option<&Site> {
        self.sites.iter().find(|s| s.line == line && s.col == col && file.ends_with(&format!("/{}", s.file)))
    }
}

fn edges_arg(edges: &BTreeMap<(String, String, String, bool), Vec<String>>) -> String {
    if edges.is_empty() {
        return ".".to_string();
    }
    edges.keys().map(|(h, a, r, p)| format!("{}:{}:{}:{}", h, a, r, if *p { 1 } else { 0 })).collect::<Vec<_>>().join(",")
}

fn field<'a>(summary: &'a str, name: &str) -> &'a str {
    summary.split(' ').find_map(|kv| kv.strip_prefix(&format!("{}=", name))).unwrap_or("")
}

/// sites of the table behind a class cycle such as `E>P>E`
fn cycle_witnesses(cycle: &str, edges: &BTreeMap<(String, String, String, bool), Vec<String>>) -> Value {
    let cs: Vec<&str> = cycle.split('>').collect();
    let mut out = Vec::new();
    for w in cs.windows(2) {
        let mut sites: Vec<String> = Vec::new();
        for ((h, a, r, p), keys) in edges {
            let exempt = (h == a && r == "lt") || (*p && (h != a || r != "any"));
            if h == w[0] && a == w[1] && !exempt {
                sites.extend(keys.iter().cloned());
            }
        }
        sites.sort();
        sites.dedup();
        out.push(json!({"held": w[0], "acquired": w[1], "sites": sites}));
    }
    json!(out)
}

fn static_part(args: &Args, model: &mut Model, rep: &mut Report) -> Option<Table> {
    let root = framework_root(args);
    let table = match load_table(&root) {
        Ok(t) => t,
        Err(e) => {
            rep.disagree(json!({"what": "cannot read the resolved lock-site table (bin/extract_gen.py locks must run first)", "error": e}));
            return None;
        }
    };
    // sanity of the table itself: a lock listed as held at a site is acquired earlier in the function
    let mut by_fn: BTreeMap<&str, Vec<&Site>> = BTreeMap::new();
    for s in &table.sites {
        by_fn.entry(Table::fn_key(s)).or_default().push(s);
    }
    for s in &table.sites {
        rep.evaluations += 1;
        if s.test {
            rep.count("sites_test_only");
            continue;
        }
        if s.tool {
            rep.count("sites_host_tool");
            continue;
        }
        rep.count(&format!("sites_class_{}", s.cls));
        rep.count(&format!("sites_kind_{}", s.kind));
        if s.wrapper {
            rep.count("sites_wrapper");
        }
        let ord: usize = s.key.rsplit_once('#').and_then(|x| x.1.parse().ok()).unwrap_or(0);
        for h in &s.held {
            let earlier = by_fn[Table::fn_key(s)].iter().any(|o| {
                let oo: usize = o.key.rsplit_once('#').and_then(|x| x.1.parse().ok()).unwrap_or(0);
                oo < ord && &o.cls == h
            });
            if !earlier {
                rep.disagree(json!({"what": "site table: a lock is listed as held but no earlier site of the function acquires its class", "site": s.key, "held": h}));
            }
        }
        if !s.held.is_empty() || table.contexts.contains_key(Table::fn_key(s)) {
            rep.nontrivial.insert(format!("site {}", s.key));
        }
    }
    let edges = table.edges();
    for ((h, a, r, p), w) in &edges {
        rep.count(&format!("edge_{}>{}{}", h, a, if h == a { format!("({})", r) } else { String::new() }));
        rep.add("held_while_acquiring_pairs", w.len() as u64);
        rep.nontrivial.insert(format!("edge {}>{}:{}:{}", h, a, r, p));
    }
    // the table compiled into the driver vs the one derived here from the resolved JSON
    let lean = model.ask("locks table");
    let arg = edges_arg(&edges);
    let cyc = model.ask(&format!("locks cycles {}", arg));
    let rank = model.ask(&format!("locks rank {}", arg));
    rep.evaluations += 2;
    let lean_edges: usize = field(&lean, "edges").parse().unwrap_or(usize::MAX);
    if lean_edges != edges.len() || field(&lean, "cycles") != cyc || field(&lean, "rank") != rank {
        rep.disagree(json!({"what": "Rfsm.Gen.LockSites (compiled into the driver) differs from the table derived from lock_sites_resolved.json",
            "driver": lean, "derived": {"edges": edges.len(), "cycles": cyc, "rank": rank}}));
    }
    rep.extra.insert("table".into(), json!({"driver": lean, "fixed": model.ask("locks fixed"), "sites": table.sites.len(), "distinct_edges": edges.len()}));
    if cyc != "-" && cyc != "bad-op" {
        for c in cyc.split(',') {
            rep.oracle_fail(
                &format!("C17:cycle:{}", c),
                json!({"kind": "lock-order cycle in the held-while-acquiring table of the code", "cycle": c, "edges": cycle_witnesses(c, &edges),
                       "replay": "static: bin/extract_gen.py locks && lake build Rfsm.Props.C17 (theorems C17_cycle_*)"}),
            );
        }
    } else if cyc == "bad-op" {
        rep.disagree(json!({"what": "driver rejected the derived edge list", "edges": arg}));
    }
    // the schedules of Rfsm.Props.C17, replayed on the compiled model: the shapes before the repairs
    // (`progStartOld`, `progInvokeOld`) deadlock, the shapes of the code as it is now do not, `D>D` does
    let start_old = |sid: u32| format!("aGn.{s};rGn.{s};aE.0;rE.0;aGn.{s};aE.0;aP.0;rP.0;rE.0;rGn.{s}", s = sid);
    let start = |sid: u32| format!("aGn.{s};rGn.{s};aE.0;rE.0;aE.0;rE.0;aGn.{s};aP.0;rP.0;rGn.{s}", s = sid);
    let send = |sid: u32| format!("aG.{s};rG.{s};aP.0;aG.{s};aE.0;rE.0;rG.{s};rP.0", s = sid);
    let invoke_old = |sid: u32, c: u32| format!("aG.{};{};rG.{}", sid, start(c), sid);
    let invoke = |sid: u32, c: u32| format!("aG.{s};rG.{s};{};aG.{s};rG.{s}", start(c), s = sid);
    let cases: Vec<(&str, String, &str, &str, &str)> = vec![
        ("old-E>P>E", format!("{}|{}", start_old(2), send(1)), "0,0,0,0,0,0,1,1,1,1", "0,1", "deadlock"),
        ("old-G>P>G", format!("{}|{}", invoke_old(1, 2), send(1)), "1,1,0,1,0,0,0,0,0,0,0", "0,1", "deadlock"),
        ("D>D", "aD.5;aD.5;rD.5;rD.5".to_string(), "0", "0", "deadlock"),
        // the starter is through its E sections, the sender holds P and G(1) and takes E; the starter goes on
        ("start-vs-send", format!("{}|{}", start(2), send(1)), "0,0,0,0,0,0,1,1,1,1,1,1,0,1,1,0,0,0", "0,1", "no-deadlock"),
        // the parent has released G(1) before the child start; the timer holds P and takes G(1), E
        ("invoke-vs-timer", format!("{}|{}", invoke(1, 2), send(1)), "1,1,0,0,1,0,0,0,0,0,0,0,1,1,1,1,1,0,0,0,0,0", "0,1", "no-deadlock"),
        ("serial", format!("{}|{}", start(2), send(1)), "0,0,0,0,0,0,0,0,0,0,1,1,1,1,1,1,1,1", "0,1", "no-deadlock"),
    ];
    for (name, progs, sched, set, want) in cases {
        rep.evaluations += 1;
        let got = model.ask(&format!("locks exec {} {} {}", progs, sched, set));
        rep.count(&format!("model_schedule_{}_{}", name, got));
        if got != want {
            rep.disagree(json!({"what": "model schedule replay", "case": name, "model": got, "expected": want}));
        }
    }
    Some(table)
}


/// Without the instrumented mutex: a sequential two-session ping/pong and an invoke round trip on
/// one executor, each step on a watched thread.  It cannot attribute a hang to locks, but a change
/// that makes the platform block on every start / send / invoke is still seen (`C17:hang:smoke`).
/// (The steps never overlap a session start with a send: the run predates the repair of `E>P>E`.)
#[cfg(not(feature = "hooks"))]
fn smoke(rep: &mut Report) {
    use rufsm::actions::ActionWrapper;
    use rufsm::datamodel::Data;
    use rufsm::fsm::{self, Event, FinishMode, ParamPair, EVENT_CANCEL_SESSION};
    use rufsm::fsm_executor::FsmExecutor;
    use std::sync::mpsc::channel;
    use std::time::Duration;
    for dm in ["rfsm-expression", "ecmascript"] {
        rep.evaluations += 1;
        let (tx, rx) = channel::<Result<(), String>>();
        let _ = std::thread::Builder::new().name("c17-smoke".into()).spawn(move || {
            let r = (|| -> Result<(), String> {
                let executor = FsmExecutor::new_without_io_processor();
                let actions = ActionWrapper::new();
                let start = |xml: String| -> Result<fsm::ScxmlSession, String> {
                    let f = rufsm::scxml_reader::parse_from_xml(xml)?;
                    Ok(fsm::start_fsm_with_data_and_finish_mode(f, actions.get_copy(), Box::new(executor.clone()), &[], FinishMode::DISPOSE))
                };
                let ev = |n: &str| Box::new(Event::new_simple(n));
                let peer = |id: u32| {
                    let mut e = Event::new_simple("peer");
                    e.param_values = Some(vec![ParamPair::new("id", &Data::Integer(id as i64))]);
                    Box::new(e)
                };
                let mut a = start(peer_doc(dm))?;
                let mut b = start(peer_doc(dm))?;
                let _ = a.sender.send(peer(b.session_id));
                let _ = b.sender.send(peer(a.session_id));
                for n in ["go", "self", "go"] {
                    let _ = a.sender.send(ev(n));
                    std::thread::sleep(Duration::from_millis(10));
                }
                for s in [&mut a, &mut b] {
                    let _ = s.sender.send(ev("stop"));
                    let _ = s.sender.send(ev(EVENT_CANCEL_SESSION));
                    if let Some(t) = s.thread.take() {
                        let _ = t.join();
                    }
                }
                let mut p = start(invoker_doc(dm, 1, true))?;
                let _ = p.sender.send(ev("go"));
                std::thread::sleep(Duration::from_millis(40));
                let _ = p.sender.send(ev("stop"));
                let _ = p.sender.send(ev(EVENT_CANCEL_SESSION));
                if let Some(t) = p.thread.take() {
                    let _ = t.join();
                }
                Ok(())
            })();
            let _ = tx.send(r);
        });
        match rx.recv_timeout(Duration::from_secs(20)) {
            Ok(Ok(())) => rep.count("smoke_finished"),
            Ok(Err(e)) => rep.disagree(json!({"what": "smoke document rejected by the reader", "datamodel": dm, "error": e})),
            Err(_) => rep.oracle_fail(
                "C17:hang:smoke",
                json!({"kind": "sequential ping/pong + invoke round trip did not finish within 20 s (uninstrumented build: no wait-for graph)", "datamodel": dm, "replay": {"smoke": dm}}),
            ),
        }
    }
}

pub fn run(args: &Args, model: &mut Model) -> Report {
    let mut rep = Report::new(
        "c17",
        "static: one case per lock site of /repo/src (class, held classes, calling contexts) and per derived \
         held-while-acquiring edge; non-trivial = sites acquired under another lock or in a function with calling \
         contexts, and distinct edges.  dynamic (feature hooks): one case per seeded multi-session scenario \
         (starts, invoke, cross-session send, delayed send, cancel, shutdown); non-trivial = distinct \
         (site, held classes) acquisition records observed on the real code",
    );
    #[cfg(feature = "hooks")]
    {
        // worker process for a batch of stress scenarios (see locks_dyn.rs): no static part
        if args.extra.first().map(|s| s.as_str()) == Some("c17-child") {
            match load_table(&framework_root(args)) {
                Ok(t) => dynamic::run_child(args, model, &t, &mut rep),
                Err(e) => rep.disagree(json!({"what": "child: cannot read the resolved lock-site table", "error": e})),
            }
            return rep;
        }
    }
    let table = static_part(args, model, &mut rep);
    #[cfg(feature = "hooks")]
    {
        if let Some(t) = &table {
            dynamic::run(args, model, t, &mut rep);
        }
    }
    #[cfg(not(feature = "hooks"))]
    {
        let _ = table;
        smoke(&mut rep);
        rep.count("dynamic_part_skipped");
        rep.extra.insert(
            "dynamic".into(),
            json!("SKIPPED: harness built without feature `hooks` (cargo build --features hooks needs the Verif_Hooks commit, notes/locks-hook.patch, in /repo); only the static tie was checked"),
        );
    }
    rep
}
