//! C04 — the XML reader builds a model that mirrors the SCXML document.
//!
//! Per case (an abstract document tree `t`, see rtree.rs):
//!   (i)   metamorphic: every lexical rendering of `t` (white space, comments, quote style, entity
//!         escapes in attribute values, namespace prefix, attribute order, list separators, keyword
//!         case / explicit defaults, descriptor spellings, delay units, empty-element forms,
//!         fragments pulled in by `<xi:include parse="text">`) gives the same canonical dump of the
//!         real `Fsm` as the canonical rendering;
//!   (ii)  correspondence: for every rendering the dump equals what the Lean model `read` computes
//!         from the SAX list of that rendering (derived here while rendering); the canonical SAX
//!         list equals Lean's own `sax t`;
//!   (iii) oracle: `decompile dump = normalise t` (Lean, evaluated on the implementation's dump),
//!         also for structural respellings (`initial` attribute <-> `<initial>` element, children
//!         categories interleaved differently) and `docorder` (doc ids are a pre-order).
//! Known defects are recognised narrowly: when the oracle fails, it is re-evaluated against the tree
//! in which child texts are replaced by their raw spelling / `<log>`s without `expr` are dropped; only
//! if that succeeds the failure gets the specific signature.
#[path = "rdump.rs"]
pub mod rdump;
#[path = "rtree.rs"]
pub mod rtree;

use self::rdump::{dump_fsm, pretty};
use self::rtree::*;
use crate::prng::Prng;
use crate::proto::Model;
use crate::report::Report;
use crate::Args;
use rufsm::scxml_reader;
use serde_json::{json, Value};
use std::collections::BTreeSet;
use std::panic::{catch_unwind, AssertUnwindSafe};
use std::path::PathBuf;

#[derive(Clone, Debug, PartialEq)]
enum Out {
    Ok(String),
    Panic(String),
    Err(String),
}

impl Out {
    fn brief(&self) -> String {
        match self {
            Out::Ok(d) => format!("ok {}", &pretty(d).chars().take(1500).collect::<String>()),
            Out::Panic(m) => format!("panic {}", m),
            Out::Err(m) => format!("err {}", m),
        }
    }
}

/// panic message of the reader -> the model's `Site` name (coarsened where the code uses one text
/// for several sites)
fn site_of_panic(msg: &str) -> &'static str {
    let has = |s: &str| msg.contains(s);
    if has("Only allowed inside") {
        "parentTag"
    } else if has("requires attribute") {
        "requiredAttr"
    } else if has("but not some combination") {
        "dataCombination"
    } else if has("must not be specified if") {
        "initialWithAttribute"
    } else if has("cancel: attributes") {
        "cancelBoth"
    } else if has("send: attributes") {
        "sendBoth"
    } else if has("must be given") {
        "cancelNone"
    } else if has("is not possible") {
        "sendDelayInternal"
    } else if has("with illegal value") {
        "sendDelayIllegal"
    } else if has("content shall have only") {
        "contentBoth"
    } else if has("param shall have only") {
        "paramBoth"
    } else if has("<assign> with 'expr'") {
        "assignBoth"
    } else if has("Only one <scxml>") {
        "onlyOneScxml"
    } else if has("binding: unsupported") {
        "bindingValue"
    } else if has("='text' is supported") {
        "includeParse"
    } else if has("xpointer is not supported") {
        "includeXpointer"
    } else if has("Illegal end-tag") {
        "illegalEndTag"
    } else if has("Unknown transition type") {
        "typeValue"
    } else if has("Try to add executable content") {
        "regionAddUnsupported"
    } else if has("Try to get executable content") {
        "regionEndUnsupported"
    } else if has("Current State is unknown") {
        "currentStateUnknown"
    } else if has("Failed to cast") {
        "castFailed"
    } else if has("Executable Content missing") {
        "ifMissing"
    } else if has("donedata-Option not initialized") {
        "contentNoDonedata"
    } else if has("XML invalid") {
        // read_content: no end tag with the qualified name of the start tag (ill-formed XML)
        "unsupportedSax"
    } else if has("Option::unwrap()") {
        "unwrap"
    } else {
        "?"
    }
}

fn coarse_site(site: &str) -> &str {
    match site {
        "historyTypeValue" | "transitionTypeValue" => "typeValue",
        "lastOfEmpty" | "noState" | "noTransition" | "regionMissing" | "invokeEmpty" => "unwrap",
        s => s,
    }
}

struct Ctx<'a> {
    model: &'a mut Model,
    rep: &'a mut Report,
    dir: PathBuf,
    serial: u64,
    /// how often each signature was reported (the report keeps a bounded list: a frequent known
    /// finding must not crowd out a different failure)
    sigs: std::collections::BTreeMap<String, u64>,
}

impl<'a> Ctx<'a> {
    fn run_impl(&mut self, r: &Rendered) -> Out {
        for (n, c) in &r.files {
            std::fs::write(self.dir.join(n), c).unwrap();
        }
        let xml = r.xml.clone();
        let inc = vec![self.dir.clone()];
        let res = catch_unwind(AssertUnwindSafe(|| scxml_reader::parse_from_xml_with_includes(xml, &inc)));
        for (n, _) in &r.files {
            let _ = std::fs::remove_file(self.dir.join(n));
        }
        match res {
            Ok(Ok(fsm)) => Out::Ok(dump_fsm(&fsm)),
            Ok(Err(e)) => Out::Err(e),
            Err(e) => {
                let msg = if let Some(s) = e.downcast_ref::<String>() {
                    s.clone()
                } else if let Some(s) = e.downcast_ref::<&str>() {
                    s.to_string()
                } else {
                    "?".into()
                };
                Out::Panic(msg)
            }
        }
    }
    fn run_model(&mut self, sax: &[String]) -> Out {
        let a = self.model.ask(&format!("reader read ({})", sax.join(",")));
        if let Some(d) = a.strip_prefix("ok ") {
            Out::Ok(d.to_string())
        } else if let Some(s) = a.strip_prefix("panic ") {
            Out::Panic(s.to_string())
        } else {
            Out::Err(a)
        }
    }
    fn prefix(&mut self) -> String {
        self.serial += 1;
        format!("c04f_{}_{}", std::process::id(), self.serial)
    }
    /// (ii): implementation vs model on one rendering; returns true when they agree
    fn compare(&mut self, imp: &Out, mdl: &Out, origin: &Value, variant: &str, xml: &str) -> bool {
        let same = match (imp, mdl) {
            (Out::Ok(a), Out::Ok(b)) => a == b,
            (Out::Panic(m), Out::Panic(s)) => {
                let is = site_of_panic(m);
                self.rep.count(&format!("panic_site_{}", s));
                is == "?" || is == coarse_site(s)
            }
            _ => false,
        };
        if !same {
            self.rep.disagree(json!({"origin": origin, "variant": variant, "xml": xml, "impl": imp.brief(), "model": mdl.brief()}));
        }
        same
    }
    /// property failure on the implementation; at most three records per signature
    fn fail(&mut self, sig: &str, v: Value) {
        let n = self.sigs.entry(sig.to_string()).or_insert(0);
        *n += 1;
        if *n <= 3 {
            self.rep.oracle_fail(sig, v);
        } else {
            self.rep.count("oracle_failures_not_recorded_again");
        }
        self.rep.count(&format!("finding_{}", sig.split(':').take(3).collect::<Vec<_>>().join(":")));
    }
    fn oracle(&mut self, dump: &str, t: &Doc) -> (bool, String) {
        let a = self.model.ask(&format!("reader oracle {} {}", dump, sx_doc(t)));
        (a == "1", a)
    }
}

/// raw-text elements without child text for which `<a></a>` is read differently from `<a/>`:
/// (those that make the reader panic: `<assign expr>`, `<content expr>`; those that only change the
/// model: `<content>` without `expr`)
fn has_pair_sensitive(d: &Doc) -> (BTreeSet<&'static str>, BTreeSet<&'static str>) {
    struct Acc {
        panic: BTreeSet<&'static str>,
        diff: BTreeSet<&'static str>,
    }
    fn ct(c: &Option<ContentT>, out: &mut Acc) {
        if let Some(c) = c {
            if c.text.is_none() {
                if c.expr.is_some() {
                    out.panic.insert("content");
                } else {
                    out.diff.insert("content");
                }
            }
        }
    }
    fn block(b: &[Content], out: &mut Acc) {
        for c in b {
            match c {
                Content::Assign { text: None, expr: Some(e), .. } if !e.is_empty() => {
                    out.panic.insert("assign");
                }
                Content::Assign { text: None, .. } => {
                    out.diff.insert("assign");
                }
                Content::Send(s) => ct(&s.content, out),
                Content::If { body, tail, .. } => {
                    block(body, out);
                    let mut t = tail;
                    loop {
                        match t {
                            Tail::None => break,
                            Tail::Else(b) => {
                                block(b, out);
                                break;
                            }
                            Tail::Elif(_, b, n) => {
                                block(b, out);
                                t = n;
                            }
                        }
                    }
                }
                Content::Foreach { body, .. } => block(body, out),
                _ => {}
            }
        }
    }
    fn state(s: &StateT, out: &mut Acc) {
        for b in s.onentry.iter().chain(s.onexit.iter()) {
            block(b, out)
        }
        if let InitT::Elem(_, c) = &s.initial {
            block(c, out)
        }
        for t in s.trans.iter().chain(s.hist.iter().flat_map(|h| h.trans.iter())) {
            block(&t.content, out)
        }
        for i in &s.invokes {
            ct(&i.content, out);
            if let Some(b) = &i.finalize {
                block(b, out)
            }
        }
        if let Some(dd) = &s.donedata {
            ct(&dd.content, out)
        }
        for k in &s.kids {
            state(k, out)
        }
    }
    let mut acc = Acc { panic: BTreeSet::new(), diff: BTreeSet::new() };
    state(&d.root, &mut acc);
    (acc.panic, acc.diff)
}

fn raw_kinds_with_text(d: &Doc) -> BTreeSet<String> {
    let mut d = d.clone();
    let mut out = BTreeSet::new();
    map_texts(&mut d, &mut |k, _t| {
        out.insert(k.to_string());
    });
    out
}

/// the lexical variants of (i)
fn variants(seed: u64) -> Vec<(&'static str, XOpts, Style)> {
    let c = XOpts::canonical;
    let s = |f: &dyn Fn(&mut Style)| {
        let mut st = Style { seed, ..Default::default() };
        f(&mut st);
        st
    };
    vec![
        ("whitespace-comments", c(), s(&|st| { st.ws = true; st.comments = true; st.decl = true })),
        ("quotes-escapes-named", c(), s(&|st| { st.quotes = 1; st.escapes = 1 })),
        ("quotes-escapes-numeric", c(), s(&|st| { st.quotes = 2; st.escapes = 2 })),
        ("ns-prefix", c(), s(&|st| { st.prefix = Some("sc".into()) })),
        ("xmlns-attr-order", c(), s(&|st| { st.xmlns = true; st.shuffle_attrs = true })),
        ("pair-empty", c(), s(&|st| { st.pair_empty = true })),
        ("foreign-attrs", c(), s(&|st| { st.foreign_attrs = true })),
        ("xinclude", c(), s(&|st| { st.includes = true })),
        ("respell", XOpts { respell: true, seed, ..c() }, s(&|st| { st.escapes = 2 })),
        ("keywords", XOpts { keywords: true, seed, ..c() }, s(&|_| {})),
        (
            "all",
            XOpts { respell: true, keywords: true, seed, ..c() },
            s(&|st| {
                st.ws = true;
                st.comments = true;
                st.quotes = 2;
                st.escapes = 2;
                st.shuffle_attrs = true;
                st.pair_empty = true;
                st.includes = true;
                st.decl = true;
                st.xmlns = true;
            }),
        ),
    ]
}

fn check_doc(ctx: &mut Ctx, t: &Doc, origin: &Value, seed: u64) {
    ctx.rep.evaluations += 1;
    // ---- canonical rendering; child texts that cannot be written literally are entity-escaped
    let mut t0 = t.clone();
    let mut kinds0: BTreeSet<String> = BTreeSet::new();
    map_texts(&mut t0, &mut |k, s| {
        let n = spell(s, TextMode::Plain);
        if n != *s {
            kinds0.insert(k.to_string());
            *s = n;
        }
    });
    let x0 = to_xnode(t, &XOpts::canonical());
    let pf = ctx.prefix();
    let r0 = render(&x0, &Style::default(), &pf);
    let i0 = ctx.run_impl(&r0);
    let m0 = ctx.run_model(&r0.sax);
    ctx.compare(&i0, &m0, origin, "canonical", &r0.xml);
    let lean_sax = ctx.model.ask(&format!("reader sax {}", sx_doc(&t0)));
    if lean_sax != format!("({})", r0.sax.join(",")) {
        ctx.rep.disagree(json!({"origin": origin, "variant": "canonical", "what": "SAX list derived by the harness differs from Lean `sax t`",
            "xml": r0.xml, "harness": pretty(&format!("({})", r0.sax.join(","))), "lean": pretty(&lean_sax)}));
    }
    ctx.rep.sample(json!({"xml": r0.xml}));
    // the generator must stay inside the hypothesis of C04_full
    if ctx.model.ask(&format!("reader wf {}", sx_doc(t))) == "1" {
        ctx.rep.count("docs_satisfying_wfDoc");
    } else {
        ctx.rep.count("docs_outside_wfDoc");
        ctx.rep.disagree(json!({"origin": origin, "what": "generated document does not satisfy wfDoc (hypothesis of C04_full)", "xml": r0.xml}));
    }

    let d0 = match &i0 {
        Out::Ok(d) => d.clone(),
        other => {
            ctx.fail("C04:reject:canonical", json!({"origin": origin, "variant": "canonical", "xml": r0.xml, "impl": other.brief()}));
            return;
        }
    };

    // ---- (iii) oracle on the canonical dump
    let mut logs_dropped = t.clone();
    let nlogs = drop_empty_logs(&mut logs_dropped);
    let mut t0_logs = t0.clone();
    drop_empty_logs(&mut t0_logs);
    let classify = |ctx: &mut Ctx, dump: &str, t: &Doc, t_raw: &Doc, raw_kinds: &BTreeSet<String>, variant: &str, xml: &str| {
        let (ok, ans) = ctx.oracle(dump, t);
        if ok {
            return true;
        }
        // adjustments for the former / known defects, each tried alone and together (only
        // `log-without-expr` is still a known finding; `raw-child-text`, `ns-prefix:raw-text-element`
        // and `empty-pair-form` were repaired in round 2: these signatures are VIOLATIONs now)
        let mut tl = t.clone();
        let nl = drop_empty_logs(&mut tl);
        let mut trl = t_raw.clone();
        drop_empty_logs(&mut trl);
        let kinds = raw_kinds.iter().cloned().collect::<Vec<_>>().join("+");
        let sig = if nl > 0 && ctx.oracle(dump, &tl).0 {
            "C04:dropped:log-without-expr".to_string()
        } else if !raw_kinds.is_empty() && ctx.oracle(dump, t_raw).0 {
            format!("C04:raw-child-text:{}", kinds)
        } else if nl > 0 && !raw_kinds.is_empty() && ctx.oracle(dump, &trl).0 {
            ctx.fail("C04:dropped:log-without-expr", json!({"origin": origin, "variant": variant, "xml": xml}));
            format!("C04:raw-child-text:{}", kinds)
        } else {
            format!("C04:mirror:{}", variant)
        };
        let parts: Vec<&str> = ans.splitn(3, ' ').collect();
        ctx.fail(
            &sig,
            json!({"origin": origin, "variant": variant, "xml": xml,
                   "decompiled": parts.get(1).map(|s| pretty(s)), "normalised": parts.get(2).map(|s| pretty(s))}),
        );
        false
    };
    let _ = nlogs;
    classify(ctx, &d0, t, &t0, &kinds0, "canonical", &r0.xml);
    if ctx.model.ask(&format!("reader docorder {}", d0)) != "1" {
        ctx.fail("C04:docorder", json!({"origin": origin, "variant": "canonical", "xml": r0.xml, "dump": pretty(&d0)}));
    }

    // ---- (i) lexical variants
    let raw_with_text = raw_kinds_with_text(t);
    for (name, opts, style) in variants(seed) {
        let x = to_xnode(t, &opts);
        let pf = ctx.prefix();
        let r = render(&x, &style, &pf);
        if !r.files.is_empty() {
            ctx.rep.add("include_files", r.files.len() as u64);
        }
        let i = ctx.run_impl(&r);
        let m = ctx.run_model(&r.sax);
        ctx.compare(&i, &m, origin, name, &r.xml);
        ctx.rep.count(&format!("variant_{}", name));
        match &i {
            Out::Ok(d) if *d == d0 => {}
            Out::Ok(d) => {
                ctx.fail(
                    &format!("C04:metamorphic:{}", name),
                    json!({"origin": origin, "variant": name, "xml": r.xml, "canonical_xml": r0.xml, "dump": pretty(d), "canonical_dump": pretty(&d0)}),
                );
            }
            other => {
                let xml_invalid = matches!(other, Out::Panic(m) if m.contains("XML invalid"));
                let sig = if style.prefix.is_some() && !raw_with_text.is_empty() && xml_invalid {
                    format!("C04:ns-prefix:raw-text-element:{}", raw_with_text.iter().cloned().collect::<Vec<_>>().join("+"))
                } else {
                    format!("C04:metamorphic:{}:rejected", name)
                };
                ctx.fail(&sig, json!({"origin": origin, "variant": name, "xml": r.xml, "impl": other.brief()}));
            }
        }
    }

    // ---- `<a></a>` for childless raw-text elements
    {
        let sens = has_pair_sensitive(t);
        let style = Style { pair_empty_raw: true, seed, ..Default::default() };
        let pf = ctx.prefix();
        let r = render(&x0, &style, &pf);
        let i = ctx.run_impl(&r);
        let m = ctx.run_model(&r.sax);
        ctx.compare(&i, &m, origin, "pair-empty-raw", &r.xml);
        ctx.rep.count("variant_pair-empty-raw");
        let join = |a: &BTreeSet<&'static str>, b: &BTreeSet<&'static str>| a.union(b).cloned().collect::<Vec<_>>().join("+");
        let known = match &i {
            Out::Panic(m) => !sens.0.is_empty() && (m.contains("shall not have content") || m.contains("but not both")),
            Out::Ok(_) => sens.0.is_empty() && !sens.1.is_empty(),
            Out::Err(_) => false,
        };
        if i != i0 {
            let sig = if known { format!("C04:empty-pair-form:{}", join(&sens.0, &sens.1)) } else { "C04:metamorphic:pair-empty-raw".to_string() };
            ctx.fail(&sig, json!({"origin": origin, "variant": "pair-empty-raw", "xml": r.xml, "impl": i.brief()}));
        }
    }

    // ---- structural respellings, compared after decompile / normalise
    {
        let mut ts = t.clone();
        let n = swap_initial(&mut ts);
        if n > 0 {
            ctx.rep.add("initial_forms_swapped", n as u64);
            let x = to_xnode(&ts, &XOpts::canonical());
            let pf = ctx.prefix();
            let r = render(&x, &Style::default(), &pf);
            let i = ctx.run_impl(&r);
            let m = ctx.run_model(&r.sax);
            ctx.compare(&i, &m, origin, "initial-form", &r.xml);
            match &i {
                Out::Ok(d) => {
                    classify(ctx, d, t, &t0, &kinds0, "initial-form", &r.xml);
                }
                other => ctx.fail("C04:metamorphic:initial-form:rejected", json!({"origin": origin, "xml": r.xml, "impl": other.brief()})),
            }
        }
        if !has_anonymous(t) {
            let x = to_xnode(t, &XOpts { shuffle_children: true, seed, ..XOpts::canonical() });
            let pf = ctx.prefix();
            let r = render(&x, &Style::default(), &pf);
            let i = ctx.run_impl(&r);
            let m = ctx.run_model(&r.sax);
            ctx.compare(&i, &m, origin, "children-order", &r.xml);
            ctx.rep.count("variant_children-order");
            match &i {
                Out::Ok(d) => {
                    classify(ctx, d, t, &t0, &kinds0, "children-order", &r.xml);
                    if ctx.model.ask(&format!("reader docorder {}", d)) != "1" {
                        ctx.fail("C04:docorder", json!({"origin": origin, "variant": "children-order", "xml": r.xml}));
                    }
                }
                other => ctx.fail("C04:metamorphic:children-order:rejected", json!({"origin": origin, "xml": r.xml, "impl": other.brief()})),
            }
        }
    }

    // ---- escaped child text
    if !raw_with_text.is_empty() {
        let modes = [TextMode::Entity, TextMode::Numeric, TextMode::Cdata, TextMode::Comment];
        let mode = modes[(seed % 4) as usize];
        let mut tr = t.clone();
        let mut kinds: BTreeSet<String> = BTreeSet::new();
        map_texts(&mut tr, &mut |k, s| {
            let n = spell(s, mode);
            if n != *s {
                kinds.insert(k.to_string());
                *s = n;
            }
        });
        if !kinds.is_empty() {
            let name = format!("child-text-{:?}", mode).to_lowercase();
            let x = to_xnode(t, &XOpts { text_mode: mode, ..XOpts::canonical() });
            let pf = ctx.prefix();
            let r = render(&x, &Style::default(), &pf);
            let i = ctx.run_impl(&r);
            let m = ctx.run_model(&r.sax);
            ctx.compare(&i, &m, origin, &name, &r.xml);
            ctx.rep.count(&format!("variant_{}", name));
            match &i {
                Out::Ok(d) if *d == d0 => {}
                Out::Ok(d) => {
                    classify(ctx, d, t, &tr, &kinds, &name, &r.xml);
                }
                other => ctx.fail(&format!("C04:metamorphic:{}:rejected", name), json!({"origin": origin, "xml": r.xml, "impl": other.brief()})),
            }
        }
    }
}

// ------------------------------------------------------------------------------------------
// corpus
// ------------------------------------------------------------------------------------------

fn st(kind: Kind, id: &str) -> StateT {
    StateT::new(kind, Some(id))
}

fn doc(kids: Vec<StateT>) -> Doc {
    let mut root = StateT::new(Kind::State, None);
    root.kids = kids;
    Doc { name: None, datamodel: None, binding: None, version: None, script: None, root }
}

fn log(e: &str) -> Content {
    Content::Log { label: String::new(), expr: Some(e.to_string()) }
}

fn strs(xs: &[&str]) -> Vec<String> {
    xs.iter().map(|s| s.to_string()).collect()
}

pub fn corpus() -> Vec<(&'static str, Doc)> {
    let mut out = vec![];
    // P17: raw child text
    {
        let mut a = st(Kind::State, "a");
        a.onentry.push(vec![Content::Script("x<1 && y".into())]);
        out.push(("raw-text-script", doc(vec![a])));
        let mut a = st(Kind::State, "a");
        a.onentry.push(vec![Content::Assign { location: "x".into(), expr: None, text: Some("a & b".into()) }]);
        out.push(("raw-text-assign", doc(vec![a])));
        let mut a = st(Kind::State, "a");
        a.datas.push(DataT { id: "d".into(), expr: None, text: Some("1 < 2".into()) });
        out.push(("raw-text-data", doc(vec![a])));
        let mut a = st(Kind::State, "a");
        a.onentry.push(vec![Content::Send(SendT { event: Some("e".into()), content: Some(ContentT { expr: None, text: Some("<p>x</p>".into()) }), ..Default::default() })]);
        out.push(("raw-text-content", doc(vec![a])));
        // plain texts: only the escaped variants differ
        let mut a = st(Kind::State, "a");
        a.onentry.push(vec![Content::Script("var x = 1;".into()), Content::Assign { location: "x".into(), expr: None, text: Some("plain".into()) }]);
        a.datas.push(DataT { id: "d".into(), expr: None, text: Some("[1, 2]".into()) });
        let mut d = doc(vec![a]);
        d.script = Some("top()".into());
        out.push(("plain-texts", d));
    }
    // log without expr is dropped
    {
        let mut a = st(Kind::State, "a");
        a.onentry.push(vec![Content::Log { label: "only a label".into(), expr: None }, log("1")]);
        out.push(("log-without-expr", doc(vec![a])));
    }
    // empty-element form of assign / content
    {
        let mut a = st(Kind::State, "a");
        a.onentry.push(vec![Content::Assign { location: "x".into(), expr: Some("1".into()), text: None }]);
        out.push(("assign-expr", doc(vec![a])));
        let mut a = st(Kind::State, "a");
        a.onentry.push(vec![Content::Send(SendT { event: Some("e".into()), content: Some(ContentT { expr: Some("1".into()), text: None }), ..Default::default() })]);
        out.push(("content-expr", doc(vec![a])));
    }
    // if / elseif / else chains
    {
        let mut a = st(Kind::State, "a");
        a.onentry.push(vec![Content::If {
            cond: "c1".into(),
            body: vec![log("1")],
            tail: Tail::Elif("c2".into(), vec![log("2")], Box::new(Tail::Elif("c3".into(), vec![log("3")], Box::new(Tail::Else(vec![log("4")]))))),
        }]);
        a.onexit.push(vec![Content::If {
            cond: "c1".into(),
            body: vec![Content::If { cond: "n".into(), body: vec![log("n1")], tail: Tail::Else(vec![log("n2")]) }],
            tail: Tail::Elif(
                "c2".into(),
                vec![Content::If { cond: "m".into(), body: vec![], tail: Tail::Elif("m2".into(), vec![log("m2")], Box::new(Tail::None)) }, log("after")],
                Box::new(Tail::Elif("c3".into(), vec![], Box::new(Tail::None))),
            ),
        }]);
        a.trans.push(TransT {
            events: strs(&["e"]),
            content: vec![
                Content::Foreach {
                    array: "arr".into(),
                    item: "it".into(),
                    index: "i".into(),
                    body: vec![Content::If { cond: "c".into(), body: vec![Content::Raise("r".into())], tail: Tail::Else(vec![Content::Foreach { array: "b".into(), item: "j".into(), index: String::new(), body: vec![] }]) }],
                },
                Content::If { cond: "x".into(), body: vec![], tail: Tail::Else(vec![Content::If { cond: "y".into(), body: vec![log("y")], tail: Tail::None }]) },
            ],
            ..Default::default()
        });
        out.push(("if-chains", doc(vec![a])));
    }
    // forward references, history, multi-target, initial forms, parallel, final + donedata, invoke
    {
        let mut a = st(Kind::State, "a");
        a.trans.push(TransT { events: strs(&["go", "e.*", "f."]), cond: Some("x < 1".into()), targets: strs(&["c2", "b"]), internal: true, content: vec![] });
        a.trans.push(TransT { events: strs(&["*"]), targets: strs(&["h"]), ..Default::default() });
        let mut b = st(Kind::State, "b");
        b.initial = InitT::Attr(strs(&["c2"]));
        let mut c1 = st(Kind::State, "c1");
        c1.invokes.push(InvokeT {
            type_: Some("scxml".into()),
            id: "i1".into(),
            namelist: strs(&["x", "y"]),
            autoforward: true,
            params: vec![ParamT { name: "p".into(), expr: "1".into(), location: String::new() }],
            content: Some(ContentT { expr: None, text: Some("inline".into()) }),
            finalize: Some(vec![log("fin"), Content::If { cond: "c".into(), body: vec![Content::Raise("r".into())], tail: Tail::None }]),
            ..Default::default()
        });
        let c2 = st(Kind::State, "c2");
        b.hist.push(HistT { id: Some("h".into()), deep: true, trans: vec![TransT { targets: strs(&["c1"]), ..Default::default() }] });
        b.kids = vec![c1, c2];
        let mut p = st(Kind::Parallel, "p");
        let mut r1 = st(Kind::State, "r1");
        r1.initial = InitT::Elem(strs(&["r1b"]), vec![log("init")]);
        r1.kids = vec![st(Kind::State, "r1a"), st(Kind::State, "r1b")];
        let mut r2 = st(Kind::State, "r2");
        r2.kids = vec![StateT::new(Kind::State, None), st(Kind::Final, "r2f")];
        p.kids = vec![r1, r2];
        let mut f = st(Kind::Final, "f");
        f.donedata = Some(DoneDataT { content: None, params: vec![ParamT { name: "n".into(), expr: String::new(), location: "x".into() }] });
        f.onentry.push(vec![Content::Send(SendT {
            eventexpr: Some("ev".into()),
            targetexpr: Some("t".into()),
            typeexpr: Some("ty".into()),
            idlocation: "loc".into(),
            delayexpr: Some("d".into()),
            ..Default::default()
        })]);
        let mut d = doc(vec![a, b, p, f]);
        d.root.initial = InitT::Attr(strs(&["c2", "r1b"]));
        d.root.datas.push(DataT { id: "x".into(), expr: Some("1".into()), text: None });
        d.name = Some("corpus".into());
        d.datamodel = Some("ecmascript".into());
        d.binding = Some(true);
        d.version = Some("1.0".into());
        out.push(("structure", d));
    }
    // sends with every delay unit
    {
        let mut a = st(Kind::State, "a");
        let mut b = vec![];
        for ms in [1u64, 1000, 60000, 3600000, 86400000, 90061001] {
            b.push(Content::Send(SendT { event: Some("e".into()), delay_ms: ms, id: format!("s{}", ms), ..Default::default() }));
        }
        b.push(Content::Cancel { sendid: Some("s1".into()), sendidexpr: None });
        b.push(Content::Cancel { sendid: None, sendidexpr: Some("x".into()) });
        a.onentry.push(b);
        out.push(("delays", doc(vec![a])));
    }
    out
}

/// documents the reader rejects: only the correspondence (same panic site) is checked
fn malformed() -> Vec<(&'static str, XNode)> {
    let sc = |kids: Vec<XNode>| el("scxml", vec![], kids);
    let s = |id: &str, kids: Vec<XNode>| el("state", vec![at("id", id)], kids);
    let oe = |kids: Vec<XNode>| el("onentry", vec![], kids);
    vec![
        ("initial-attr-and-element", sc(vec![el("state", vec![at("id", "a"), at("initial", "b")], vec![el("initial", vec![], vec![el("transition", vec![at("target", "b")], vec![])]), s("b", vec![])])])),
        ("two-initial-elements", sc(vec![s("a", vec![el("initial", vec![], vec![el("transition", vec![at("target", "b")], vec![])]), el("initial", vec![], vec![el("transition", vec![at("target", "b")], vec![])]), s("b", vec![])])])),
        ("cancel-without-id", sc(vec![s("a", vec![oe(vec![el("cancel", vec![], vec![])])])])),
        ("cancel-both", sc(vec![s("a", vec![oe(vec![el("cancel", vec![at("sendid", "x"), at("sendidexpr", "y")], vec![])])])])),
        ("send-event-and-eventexpr", sc(vec![s("a", vec![oe(vec![el("send", vec![at("event", "x"), at("eventexpr", "y")], vec![])])])])),
        ("send-delay-internal", sc(vec![s("a", vec![oe(vec![el("send", vec![at("type", "_internal"), at("delay", "1s")], vec![])])])])),
        ("send-delay-bad-unit", sc(vec![s("a", vec![oe(vec![el("send", vec![at("delay", "1x")], vec![])])])])),
        ("transition-type", sc(vec![s("a", vec![el("transition", vec![at("type", "bla")], vec![])])])),
        ("history-type", sc(vec![s("a", vec![el("history", vec![at("type", "bla")], vec![])])])),
        ("elseif-outside-if", sc(vec![s("a", vec![oe(vec![el("elseif", vec![at("cond", "c")], vec![])])])])),
        ("else-outside-if", sc(vec![s("a", vec![oe(vec![el("else", vec![], vec![])])])])),
        ("raise-in-finalize", sc(vec![s("a", vec![el("invoke", vec![], vec![el("finalize", vec![], vec![el("raise", vec![at("event", "e")], vec![])])])])])),
        ("param-expr-and-location", sc(vec![s("a", vec![oe(vec![el("send", vec![], vec![el("param", vec![at("name", "n"), at("expr", "1"), at("location", "x")], vec![])])])])])),
        ("param-without-name", sc(vec![s("a", vec![oe(vec![el("send", vec![], vec![el("param", vec![at("expr", "1")], vec![])])])])])),
        ("if-without-cond", sc(vec![s("a", vec![oe(vec![el("if", vec![], vec![])])])])),
        ("foreach-without-item", sc(vec![s("a", vec![oe(vec![el("foreach", vec![at("array", "a")], vec![])])])])),
        ("raise-without-event", sc(vec![s("a", vec![oe(vec![el("raise", vec![], vec![])])])])),
        ("log-in-state", sc(vec![s("a", vec![el("log", vec![at("expr", "1")], vec![])])])),
        ("state-in-final", sc(vec![el("final", vec![at("id", "f")], vec![s("a", vec![])])])),
        ("final-in-parallel", sc(vec![el("parallel", vec![at("id", "p")], vec![el("final", vec![at("id", "f")], vec![])])])),
        ("history-in-scxml", sc(vec![el("history", vec![at("id", "h")], vec![])])),
        ("transition-in-scxml", sc(vec![el("transition", vec![at("target", "a")], vec![]), s("a", vec![])])),
        ("donedata-in-state", sc(vec![s("a", vec![el("donedata", vec![], vec![])])])),
        ("binding-value", el("scxml", vec![at("binding", "sometimes")], vec![s("a", vec![])])),
        ("nested-scxml", sc(vec![sc(vec![])])),
        ("include-without-parse", sc(vec![s("a", vec![el("include", vec![at("href", "x.xml")], vec![])])])),
        ("include-xpointer", sc(vec![s("a", vec![el("include", vec![at("href", "x.xml"), at("parse", "text"), at("xpointer", "p")], vec![])])])),
        ("include-without-href", sc(vec![s("a", vec![el("include", vec![at("parse", "text")], vec![])])])),
        ("unknown-element-around-state", sc(vec![el("foo", vec![], vec![s("a", vec![])])])),
        ("unknown-element-in-onentry", sc(vec![s("a", vec![oe(vec![el("foo", vec![], vec![el("bar", vec![], vec![])]), el("log", vec![at("expr", "1")], vec![])])])])),
        ("state-outside-scxml", s("a", vec![])),
        ("onentry-in-scxml", sc(vec![oe(vec![])])),
        ("data-without-id", sc(vec![el("datamodel", vec![], vec![XNode { name: "data".into(), attrs: vec![at("expr", "1")], kids: vec![], raw: true, pair: false }])])),
        ("data-expr-and-text", sc(vec![el("datamodel", vec![], vec![XNode { name: "data".into(), attrs: vec![at("id", "d"), at("expr", "1")], kids: vec![XKid::Text("2".into())], raw: true, pair: false }])])),
        ("data-outside-datamodel", sc(vec![XNode { name: "data".into(), attrs: vec![at("id", "d")], kids: vec![], raw: true, pair: false }])),
        ("assign-expr-and-text", sc(vec![s("a", vec![oe(vec![XNode { name: "assign".into(), attrs: vec![at("location", "x"), at("expr", "1")], kids: vec![XKid::Text("2".into())], raw: true, pair: false }])])])),
        ("assign-without-location", sc(vec![s("a", vec![oe(vec![XNode { name: "assign".into(), attrs: vec![at("expr", "1")], kids: vec![], raw: true, pair: false }])])])),
        ("content-expr-and-text", sc(vec![s("a", vec![oe(vec![el("send", vec![], vec![])])]), el("final", vec![at("id", "f")], vec![el("donedata", vec![], vec![XNode { name: "content".into(), attrs: vec![at("expr", "1")], kids: vec![XKid::Text("2".into())], raw: true, pair: false }])])])),
        ("content-in-onentry", sc(vec![s("a", vec![oe(vec![XNode { name: "content".into(), attrs: vec![], kids: vec![], raw: true, pair: false }])])])),
        ("script-in-state", sc(vec![s("a", vec![XNode { name: "script".into(), attrs: vec![], kids: vec![XKid::Text("x".into())], raw: true, pair: false }])])),
        ("duplicate-state-id", sc(vec![s("a", vec![s("b", vec![])]), s("b", vec![el("transition", vec![at("target", "a")], vec![])])])),
        ("undeclared-target", sc(vec![s("a", vec![el("transition", vec![at("target", "nowhere")], vec![])])])),
        ("parallel-with-initial", sc(vec![el("parallel", vec![at("id", "p"), at("initial", "a")], vec![s("a", vec![]), s("b", vec![])])])),
        ("param-after-log-in-send-position", sc(vec![s("a", vec![oe(vec![el("log", vec![at("expr", "1")], vec![]), el("send", vec![], vec![el("param", vec![at("name", "n")], vec![])])])])])),
    ]
}

fn stats_to_report(rep: &mut Report, s: &Stats) {
    rep.add("gen_states", s.states as u64);
    rep.count(&format!("gen_depth_{}", s.depth));
    rep.add("gen_transitions", s.transitions as u64);
    rep.add("gen_forward_refs", s.forward_refs as u64);
    rep.add("gen_multi_targets", s.multi_targets as u64);
    rep.add("gen_histories", s.histories as u64);
    rep.add("gen_ifs", s.ifs as u64);
    rep.add("gen_elseifs", s.elifs as u64);
    rep.add("gen_elses", s.elses as u64);
    rep.add("gen_foreachs", s.foreachs as u64);
    rep.count(&format!("gen_content_depth_{}", s.max_content_depth));
    rep.add("gen_sends", s.sends as u64);
    rep.add("gen_invokes", s.invokes as u64);
    rep.add("gen_donedatas", s.donedatas as u64);
    rep.add("gen_datas", s.datas as u64);
    rep.add("gen_child_texts", s.texts as u64);
    rep.add("gen_child_texts_with_markup_chars", s.special_texts as u64);
    rep.add("gen_anonymous_states", s.anonymous as u64);
    for k in &s.kinds {
        rep.count(&format!("gen_docs_with_{}", k));
    }
}

pub fn run(args: &Args, model: &mut Model) -> Report {
    let mut rep = Report::new(
        "c04",
        "case = one abstract SCXML document tree (states/parallel/final/history nested <= 5, forward references, multi-target \
         transitions, initial attribute/element/default, nested if/elseif/else/foreach, send/invoke/donedata/param/content, data \
         with expr and with child text), checked through ~14 renderings each (lexical variants, structural respellings, escaped \
         child text); a case is distinct by its canonical XML text; all are non-trivial (each is parsed by the real reader)",
    );
    let dir = std::env::temp_dir().join(format!("reader-c04-{}", std::process::id()));
    std::fs::create_dir_all(&dir).unwrap();
    {
        let mut ctx = Ctx { model, rep: &mut rep, dir: dir.clone(), serial: 0, sigs: Default::default() };
        let run_gen = |ctx: &mut Ctx, seed: u64, index: u64| {
            let mut p = Prng::for_case(seed, index);
            let (d, stats) = {
                let mut g = Gen::new(&mut p);
                let d = g.doc();
                (d, g.st)
            };
            stats_to_report(ctx.rep, &stats);
            let key = render(&to_xnode(&d, &XOpts::canonical()), &Style::default(), "k").xml;
            ctx.rep.nontrivial.insert(key);
            check_doc(ctx, &d, &json!({"gen": {"seed": seed, "index": index}}), seed.wrapping_mul(31).wrapping_add(index));
        };
        let run_malformed = |ctx: &mut Ctx, name: &str, x: &XNode| {
            ctx.rep.evaluations += 1;
            ctx.rep.count("malformed_cases");
            for (vn, style) in [("canonical", Style::default()), ("pair-empty", Style { pair_empty: true, seed: 3, ..Default::default() })] {
                let pf = ctx.prefix();
                let r = render(x, &style, &pf);
                let i = ctx.run_impl(&r);
                let m = ctx.run_model(&r.sax);
                ctx.compare(&i, &m, &json!({"malformed": name}), vn, &r.xml);
                match &i {
                    Out::Ok(_) => ctx.rep.count("malformed_accepted"),
                    _ => ctx.rep.count("malformed_rejected"),
                }
            }
        };
        if let Some(path) = &args.replay {
            let v: Value = serde_json::from_str(&std::fs::read_to_string(path).unwrap()).unwrap();
            let o = &v["origin"];
            if let Some(g) = o.get("gen") {
                run_gen(&mut ctx, g["seed"].as_u64().unwrap(), g["index"].as_u64().unwrap());
            } else if let Some(n) = o.get("corpus").and_then(|x| x.as_str()) {
                for (name, d) in corpus() {
                    if name == n {
                        check_doc(&mut ctx, &d, &json!({"corpus": name}), 7);
                    }
                }
            } else if let Some(n) = o.get("malformed").and_then(|x| x.as_str()) {
                for (name, x) in malformed() {
                    if name == n {
                        run_malformed(&mut ctx, name, &x);
                    }
                }
            }
        } else {
            for (k, (name, d)) in corpus().into_iter().enumerate() {
                ctx.rep.count("corpus_cases");
                for seed in [k as u64, 100 + k as u64, 200 + k as u64, 300 + k as u64] {
                    check_doc(&mut ctx, &d, &json!({"corpus": name}), seed);
                }
            }
            for (name, x) in malformed() {
                run_malformed(&mut ctx, name, &x);
            }
            let n = if args.thorough { 6000 } else { 300 };
            for i in 0..n {
                run_gen(&mut ctx, args.seed, i);
            }
        }
    }
    let _ = std::fs::remove_dir_all(&dir);
    rep
}
