//! C12 on the real code with its real data models: one platform failure / semantically odd
//! construct per document ("kind"), embedded in a fixed frame.  The oracle is the property's own
//! text: the session thread (and every thread it started) does not panic, the failure appears as
//! the error event the Recommendation assigns to it (where it assigns one), the session still
//! answers a later external event ("ping" → mark 777) and ends when it is cancelled.
//!
//! Every case runs in a child process (`vharness c12-one <kind> <dm> <place> <variant>`) that is
//! killed after a bounded wait: a wedged session thread (self-deadlock, livelock) or a stack
//! overflow cannot take the harness with it, and panics of ANY thread of the case are seen by a
//! process-wide panic hook.
use crate::obs::{mark_actions, RecTracer};
use crate::prng::Prng;
use crate::report::Report;
use crate::Args;
use rufsm::fsm::{self, Event, FinishMode, EVENT_CANCEL_SESSION};
use rufsm::fsm_executor::FsmExecutor;
use rufsm::scxml_reader;
use serde_json::{json, Value};
use std::sync::Mutex;
use std::time::{Duration, Instant};

#[derive(Clone, Copy, PartialEq, Debug)]
pub enum Want {
    /// the Recommendation assigns error.execution
    Exec,
    /// the Recommendation assigns error.communication
    Comm,
    /// "at most reported as an error event or logged"
    Any,
}

#[derive(Clone)]
pub struct Kind {
    pub name: &'static str,
    pub want: Want,
    /// executable content placed in the block under test (`{E}` = an erroring expression)
    pub body: &'static str,
    /// children of state s1 (entered by "go"): invokes, eventless transitions, …
    pub s1: &'static str,
    /// extra `<data>` declarations
    pub data: &'static str,
    /// extra external events sent between "go" and "ping" (name, invokeid)
    pub events: &'static [(&'static str, Option<&'static str>)],
    /// "" = both data models
    pub only_dm: &'static str,
    /// run with the crate's own DefaultTracer (the trace control events `trace.<mode>.<on|off>` are
    /// interpreted by the Tracer trait's default `event_external_received`)
    pub default_tracer: bool,
}

const fn k(name: &'static str, want: Want, body: &'static str) -> Kind {
    Kind { name, want, body, s1: "", data: "", events: &[], only_dm: "", default_tracer: false }
}
const fn ks1(name: &'static str, want: Want, s1: &'static str) -> Kind {
    Kind { name, want, body: "", s1, data: "", events: &[], only_dm: "", default_tracer: false }
}
const fn kdm(name: &'static str, want: Want, body: &'static str, only_dm: &'static str) -> Kind {
    Kind { name, want, body, s1: "", data: "", events: &[], only_dm, default_tracer: false }
}
const fn kev(name: &'static str, events: &'static [(&'static str, Option<&'static str>)]) -> Kind {
    Kind { name, want: Want::Any, body: "", s1: "", data: "", events, only_dm: "", default_tracer: false }
}
const fn kev_dt(name: &'static str, events: &'static [(&'static str, Option<&'static str>)]) -> Kind {
    Kind { name, want: Want::Any, body: "", s1: "", data: "", events, only_dm: "", default_tracer: true }
}

pub const KINDS: &[Kind] = &[
    // ---- failing platform operations: <send>
    k("send-unknown-session", Want::Comm, "<send event=\"e\" target=\"#_scxml_999999\"/>"),
    k("send-unknown-session-expr", Want::Comm, "<send event=\"e\" targetexpr=\"'#_scxml_4000000000'\"/>"),
    k("send-parent-without-parent", Want::Comm, "<send event=\"e\" target=\"#_parent\"/>"),
    k("send-malformed-session-id", Want::Comm, "<send event=\"e\" target=\"#_scxml_abc\"/>"),
    k("send-session-id-overflow", Want::Comm, "<send event=\"e\" target=\"#_scxml_4294967296\"/>"),
    k("send-no-such-invokeid", Want::Comm, "<send event=\"e\" target=\"#_nochild\"/>"),
    k("send-malformed-target", Want::Exec, "<send event=\"e\" target=\"!!!\"/>"),
    k("send-foreign-target", Want::Exec, "<send event=\"e\" target=\"http://localhost:1/x\"/>"),
    k("send-unsupported-type", Want::Exec, "<send event=\"e\" type=\"nosuchprocessor\"/>"),
    k("send-unsupported-type-expr", Want::Exec, "<send event=\"e\" typeexpr=\"'x-y'\"/>"),
    k("send-delayed-unsupported-type", Want::Exec, "<send event=\"e\" delay=\"1s\" type=\"nosuchprocessor\"/>"),
    k("send-delayed-unsupported-type-expr", Want::Exec, "<send event=\"e\" delayexpr=\"'500ms'\" typeexpr=\"'x-y'\"/>"),
    k("send-delay-with-internal-target", Want::Exec, "<send event=\"e\" delay=\"1s\" target=\"#_internal\"/>"),
    k("send-illegal-delayexpr", Want::Exec, "<send event=\"e\" delayexpr=\"'soon'\"/>"),
    k("send-negative-delayexpr", Want::Exec, "<send event=\"e\" delayexpr=\"'-5s'\"/>"),
    k("send-huge-delay", Want::Exec, "<send event=\"e\" delayexpr=\"'9223372036854775807ms'\"/>"),
    k("send-huge-delay-days", Want::Exec, "<send event=\"e\" delayexpr=\"'99999999999d'\"/>"),
    k("send-huge-delay-overflow", Want::Exec, "<send event=\"e\" delayexpr=\"'99999999999999999999999s'\"/>"),
    k("send-erroring-eventexpr", Want::Exec, "<send eventexpr=\"{E}\"/>"),
    k("send-erroring-targetexpr", Want::Exec, "<send event=\"e\" targetexpr=\"{E}\"/>"),
    k("send-erroring-typeexpr", Want::Exec, "<send event=\"e\" typeexpr=\"{E}\"/>"),
    k("send-erroring-delayexpr", Want::Exec, "<send event=\"e\" delayexpr=\"{E}\"/>"),
    k("send-undeclared-namelist", Want::Exec, "<send event=\"e\" namelist=\"nosuchvar\"/>"),
    k("send-erroring-param", Want::Exec, "<send event=\"e\"><param name=\"p\" expr=\"{E}\"/></send>"),
    k("send-undeclared-param-location", Want::Exec, "<send event=\"e\"><param name=\"p\" location=\"nosuchvar\"/></send>"),
    k("send-erroring-content-expr", Want::Exec, "<send event=\"e\"><content expr=\"{E}\"/></send>"),
    k("send-bad-idlocation", Want::Any, "<send event=\"e\" idlocation=\"no.such.place\"/>"),
    k("send-no-event-no-content", Want::Any, "<send/>"),
    k("send-to-self-then-flood", Want::Any, "<send event=\"x\"/><send event=\"x\"/><send event=\"x\"/><send event=\"x\"/>"),
    // ---- <cancel>
    k("cancel-unknown-sendid", Want::Any, "<cancel sendid=\"nosuchid\"/>"),
    k("cancel-erroring-sendidexpr", Want::Exec, "<cancel sendidexpr=\"{E}\"/>"),
    k("cancel-twice", Want::Any, "<send event=\"late\" delay=\"60s\" id=\"d1\"/><cancel sendid=\"d1\"/><cancel sendid=\"d1\"/>"),
    // ---- erroring expressions wherever an expression may appear
    k("assign-erroring-expr", Want::Exec, "<assign location=\"v0\" expr=\"{E}\"/>"),
    k("assign-undeclared-location", Want::Exec, "<assign location=\"nosuchvar\" expr=\"1\"/>"),
    k("assign-malformed-location", Want::Exec, "<assign location=\"v0.\" expr=\"1\"/>"),
    k("assign-system-variable", Want::Exec, "<assign location=\"_sessionid\" expr=\"'x'\"/>"),
    k("assign-event-variable", Want::Exec, "<assign location=\"_event\" expr=\"1\"/>"),
    k("script-erroring", Want::Exec, "<script>{E}</script>"),
    k("script-syntax-error", Want::Exec, "<script>)(</script>"),
    k("script-empty", Want::Any, "<script></script>"),
    k("log-erroring-expr", Want::Exec, "<log label=\"l\" expr=\"{E}\"/>"),
    k("if-erroring-cond", Want::Exec, "<if cond=\"{E}\"><script>mark(1)</script><else/><script>mark(2)</script></if>"),
    k("elseif-erroring-cond", Want::Exec, "<if cond=\"false\"><script>mark(1)</script><elseif cond=\"{E}\"/><script>mark(2)</script></if>"),
    k("foreach-erroring-array", Want::Exec, "<foreach array=\"{E}\" item=\"it\"><script>mark(1)</script></foreach>"),
    k("foreach-non-iterable", Want::Exec, "<foreach array=\"v1\" item=\"it\"><script>mark(1)</script></foreach>"),
    k("foreach-illegal-item", Want::Exec, "<foreach array=\"arr\" item=\"7up\"><script>mark(1)</script></foreach>"),
    k("foreach-modifies-its-array", Want::Any, "<foreach array=\"arr\" item=\"it\" index=\"ix\"><assign location=\"arr\" expr=\"v1\"/></foreach>"),
    k("raise-platform-looking-name", Want::Any, "<raise event=\"error.platform.other\"/><raise event=\"done.invoke.zz\"/><raise event=\"*\"/>"),
    kdm("rfsm-rem-by-zero", Want::Exec, "<assign location=\"v0\" expr=\"v1 % v0\"/>", "rfsm-expression"),
    kdm("rfsm-div-by-zero", Want::Any, "<assign location=\"v0\" expr=\"v1 / v0\"/>", "rfsm-expression"),
    kdm("rfsm-abs-min", Want::Any, "<assign location=\"v0\" expr=\"abs(-9223372036854775807 - 1)\"/>", "rfsm-expression"),
    kdm("rfsm-int-overflow", Want::Any, "<assign location=\"v0\" expr=\"9223372036854775807 + 1\"/><assign location=\"v0\" expr=\"9223372036854775807 * 2\"/>", "rfsm-expression"),
    kdm("rfsm-assign-self", Want::Any, "<script>v0 = v0</script>", "rfsm-expression"),
    kdm("rfsm-assign-location-self", Want::Any, "<assign location=\"v0\" expr=\"v0\"/>", "rfsm-expression"),
    kdm("rfsm-index-self", Want::Any, "<script>arr[arr]</script>", "rfsm-expression"),
    kdm("rfsm-cyclic-payload", Want::Any, "<script>y ?= [0]</script><script>y[0] = y</script><send event=\"e\"><param name=\"p\" location=\"y\"/></send>", "rfsm-expression"),
    kdm("rfsm-cyclic-payload-namelist", Want::Any, "<script>y ?= [0]</script><script>y[0] = y</script><send event=\"e\" namelist=\"y\"/>", "rfsm-expression"),
    kdm("rfsm-operator-at-end", Want::Exec, "<script>v0 &lt;</script>", "rfsm-expression"),
    kdm("rfsm-cond-operator-at-end", Want::Exec, "<if cond=\"v0 =\"><script>mark(1)</script></if>", "rfsm-expression"),
    kdm("rfsm-unknown-method", Want::Exec, "<script>v0.nosuch(1)</script>", "rfsm-expression"),
    kdm("rfsm-wrong-arity", Want::Exec, "<script>abs()</script><script>abs(1,2,3)</script>", "rfsm-expression"),
    kdm("rfsm-in-without-argument", Want::Exec, "<if cond=\"In()\"><script>mark(1)</script></if>", "rfsm-expression"),
    kdm("ecma-throw", Want::Exec, "<script>throw new Error('x')</script>", "ecmascript"),
    kdm("ecma-deep-recursion", Want::Exec, "<script>function f(n){return f(n+1)+1}; f(0)</script>", "ecmascript"),
    kdm("ecma-delete-system-variable", Want::Any, "<script>delete _sessionid; _ioprocessors = 1; _event = null</script>", "ecmascript"),
    kdm("ecma-in-without-argument", Want::Any, "<if cond=\"In()\"><script>mark(1)</script></if>", "ecmascript"),
    // ---- transitions and document structure
    // (an EVENTLESS transition with an erroring condition is not in the table: each error.execution it
    // raises starts another round of the macrostep in which it is evaluated again — the document
    // itself never reaches a stable configuration, as the Recommendation's algorithm prescribes)
    ks1("transition-erroring-cond-on-event", Want::Exec, "<transition event=\"ping\" cond=\"{E}\" target=\"s2\"/>"),
    ks1("eventless-self-loop-guarded", Want::Any, "<transition cond=\"v0 == 0\"><assign location=\"v0\" expr=\"1\"/></transition>"),
    ks1("history-without-default-targeted", Want::Any, "<transition target=\"h\"/>"),
    ks1("final-erroring-donedata", Want::Exec, "<transition target=\"cf\"/>"),
    ks1("final-erroring-donedata-content", Want::Exec, "<transition target=\"cf2\"/>"),
    ks1("onexit-erroring-during-cancel", Want::Any, "<onexit><assign location=\"v0\" expr=\"{E}\"/><send event=\"e\" target=\"#_scxml_999999\"/></onexit>"),
    // ---- <invoke> that cannot be started
    ks1("invoke-garbage-content", Want::Any, "<invoke type=\"scxml\" id=\"c\"><content>this is not scxml</content></invoke>"),
    ks1("invoke-wrong-root-element", Want::Any, "<invoke type=\"scxml\" id=\"c\"><content><html xmlns=\"http://www.w3.org/1999/xhtml\"><body/></html></content></invoke>"),
    ks1("invoke-empty-content", Want::Any, "<invoke type=\"scxml\" id=\"c\"><content></content></invoke>"),
    ks1("invoke-no-content-no-src", Want::Any, "<invoke type=\"scxml\" id=\"c\"/>"),
    ks1("invoke-missing-file", Want::Any, "<invoke type=\"scxml\" id=\"c\" src=\"/nonexistent/dir/child.scxml\"/>"),
    ks1("invoke-src-unknown-extension", Want::Any, "<invoke type=\"scxml\" id=\"c\" src=\"child.txt\"/>"),
    ks1("invoke-unsupported-type", Want::Any, "<invoke type=\"http://www.w3.org/TR/voicexml\" id=\"c\"><content>x</content></invoke>"),
    ks1("invoke-erroring-srcexpr", Want::Any, "<invoke type=\"scxml\" id=\"c\" srcexpr=\"{E}\"/>"),
    ks1("invoke-erroring-typeexpr", Want::Any, "<invoke typeexpr=\"{E}\" id=\"c\"><content>x</content></invoke>"),
    ks1("invoke-erroring-content-expr", Want::Any, "<invoke type=\"scxml\" id=\"c\"><content expr=\"{E}\"/></invoke>"),
    ks1("invoke-undeclared-namelist", Want::Any, "<invoke type=\"scxml\" id=\"c\" namelist=\"nosuchvar\"><content><scxml xmlns=\"http://www.w3.org/2005/07/scxml\" version=\"1.0\" datamodel=\"{DM}\"><final id=\"f\"/></scxml></content></invoke>"),
    ks1("invoke-erroring-param", Want::Any, "<invoke type=\"scxml\" id=\"c\"><param name=\"p\" expr=\"{E}\"/><content><scxml xmlns=\"http://www.w3.org/2005/07/scxml\" version=\"1.0\" datamodel=\"{DM}\"><final id=\"f\"/></scxml></content></invoke>"),
    ks1("invoke-bad-idlocation", Want::Any, "<invoke type=\"scxml\" idlocation=\"no.such.place\"><content><scxml xmlns=\"http://www.w3.org/2005/07/scxml\" version=\"1.0\" datamodel=\"{DM}\"><final id=\"f\"/></scxml></content></invoke>"),
    ks1("invoke-child-with-unknown-datamodel", Want::Any, "<invoke type=\"scxml\" id=\"c\"><content><scxml xmlns=\"http://www.w3.org/2005/07/scxml\" version=\"1.0\" datamodel=\"nosuchdm\"><state id=\"a\"/></scxml></content></invoke>"),
    ks1("invoke-child-that-fails-at-start", Want::Any, "<invoke type=\"scxml\" id=\"c\"><content><scxml xmlns=\"http://www.w3.org/2005/07/scxml\" version=\"1.0\" datamodel=\"{DM}\"><datamodel><data id=\"x\" expr=\"{E}\"/></datamodel><state id=\"a\"><onentry><send event=\"e\" target=\"#_scxml_999999\"/><send event=\"up\" target=\"#_parent\"/></onentry></state></scxml></content></invoke>"),
    ks1("invoke-finished-child-then-send-to-it", Want::Any, "<invoke type=\"scxml\" id=\"c\"><content><scxml xmlns=\"http://www.w3.org/2005/07/scxml\" version=\"1.0\" datamodel=\"{DM}\"><final id=\"f\"/></scxml></content></invoke><transition event=\"done.invoke.c\"><send event=\"e\" target=\"#_c\"/></transition>"),
    ks1("invoke-erroring-finalize", Want::Any, "<invoke type=\"scxml\" id=\"c\"><content><scxml xmlns=\"http://www.w3.org/2005/07/scxml\" version=\"1.0\" datamodel=\"{DM}\"><state id=\"a\"><onentry><send event=\"up\" target=\"#_parent\"/></onentry></state></scxml></content><finalize><assign location=\"v0\" expr=\"{E}\"/></finalize></invoke>"),
    kdm("document-with-unknown-datamodel", Want::Any, "<raise event=\"x\"/>", "nosuchdm"),
    // ---- odd external events
    kev("event-empty-name", &[("", None)]),
    kev("event-star-and-dots", &[("*", None), (".", None), ("..", None), ("a..b", None), (".a", None), ("a.", None)]),
    kev("event-done-invoke-for-nobody", &[("done.invoke.", None), ("done.invoke.nochild", None), ("done.state.s1", None)]),
    kev("event-with-unknown-invokeid", &[("e", Some("nochild")), ("done.invoke.nochild", Some("nochild"))]),
    kev("event-error-names-from-outside", &[("error.execution", None), ("error.communication", None), ("error.platform", None), ("error.platform.cancelx", None)]),
    // trace control events, interpreted by the crate's own tracer (switching method tracing on in the
    // middle of a run leaves the enter/leave bookkeeping unbalanced when the session ends)
    kev_dt("event-trace-control-methods", &[("trace.methods.on", None)]),
    kev_dt("event-trace-control-all", &[("trace.all.on", None), ("trace.states.off", None), ("trace.all.off", None)]),
    kev_dt("event-trace-control-odd", &[("trace.nosuch.on", None), ("trace.methods.maybe", None), ("trace.", None), ("trace.a.b.c", None), ("trace.METHODS.ON", None)]),
    kev("event-non-ascii-and-markup", &[("é.ü", None), ("<a b=\"c\">", None), ("a b\tc\n", None)]),
];

const ERRS_RFSM: &[&str] = &["nosuch(1)", "v9 + 1", "1 +", "v0.x.y", "[1,2", "'abc"];
const ERRS_ECMA: &[&str] = &["nosuch(1)", "v9 + 1", "1 +", "v0.x.y", "[1,2", "'abc"];
pub const DMS: &[&str] = &["rfsm-expression", "ecmascript"];
pub const PLACES: &[&str] = &["transition", "onentry", "onexit"];

fn xml_text(s: &str) -> String {
    s.replace('&', "&amp;").replace('<', "&lt;").replace('>', "&gt;").replace('"', "&quot;")
}

pub fn render(kind: &Kind, dm: &str, place: &str, variant: usize) -> String {
    let errs = if dm == "ecmascript" { ERRS_ECMA } else { ERRS_RFSM };
    let e = xml_text(errs[variant % errs.len()]);
    let sub = |t: &str| t.replace("{E}", &e).replace("{DM}", dm);
    let block = sub(kind.body);
    let (entry, trans, exit) = match place {
        "onentry" => (block.clone(), String::new(), String::new()),
        "onexit" => (String::new(), String::new(), block.clone()),
        _ => (String::new(), block.clone(), String::new()),
    };
    let arr = if dm == "ecmascript" { "[1,2,3]" } else { "[1,2,3]" };
    // frame: s0 --go--> s1; block under test in the transition, in s1's onentry or in s0's onexit;
    // error events and "ping" are handled at the top; cp/cf: a compound state with a final child
    // whose <donedata> fails; ch/h: a history state without default transition
    format!(
        "<scxml xmlns=\"http://www.w3.org/2005/07/scxml\" version=\"1.0\" datamodel=\"{dm}\" name=\"m\" initial=\"s0\">\
         <datamodel><data id=\"v0\" expr=\"0\"/><data id=\"v1\" expr=\"1\"/><data id=\"arr\" expr=\"{arr}\"/>{data}</datamodel>\
         <state id=\"top\">\
           <transition event=\"error.execution\"><script>mark(801)</script></transition>\
           <transition event=\"error.communication\"><script>mark(802)</script></transition>\
           <transition event=\"error.*\"><script>mark(803)</script></transition>\
           <transition event=\"ping\"><script>mark(777)</script></transition>\
           <state id=\"s0\"><onexit>{exit}</onexit>\
             <transition event=\"go\" target=\"s1\">{trans}</transition></state>\
           <state id=\"s1\"><onentry>{entry}</onentry><onentry><script>mark(901)</script></onentry>{s1}</state>\
           <state id=\"s2\"/>\
           <state id=\"cp\" initial=\"ca\"><state id=\"ca\"/>\
             <final id=\"cf\"><donedata><param name=\"p\" expr=\"{e}\"/></donedata></final>\
             <final id=\"cf2\"><donedata><content expr=\"{e}\"/></donedata></final></state>\
           <state id=\"ch\" initial=\"ch1\"><history id=\"h\"/><state id=\"ch1\"/></state>\
         </state></scxml>",
        dm = dm,
        arr = arr,
        data = sub(kind.data),
        exit = exit,
        trans = trans,
        entry = entry,
        s1 = sub(kind.s1),
        e = e
    )
}

static PANICS: Mutex<Vec<String>> = Mutex::new(Vec::new());

fn install_hook() {
    std::panic::set_hook(Box::new(|info| {
        let msg = if let Some(s) = info.payload().downcast_ref::<&str>() {
            s.to_string()
        } else if let Some(s) = info.payload().downcast_ref::<String>() {
            s.clone()
        } else {
            "?".to_string()
        };
        let loc = info.location().map(|l| format!("{}:{}", l.file(), l.line())).unwrap_or_default();
        let th = std::thread::current().name().unwrap_or("?").to_string();
        if let Ok(mut g) = PANICS.lock() {
            g.push(format!("{} @ {} [thread {}]", msg.chars().take(160).collect::<String>(), loc, th));
        }
    }));
}

/// runs one case in THIS process and prints one JSON line (used through `c12-one`)
pub fn run_one(kind: &Kind, dm: &str, place: &str, variant: usize) -> Value {
    install_hook();
    let xml = render(kind, dm, place, variant);
    let fsm = match std::panic::catch_unwind(|| scxml_reader::parse_from_xml(xml.clone())) {
        Ok(Ok(f)) => f,
        Ok(Err(e)) => return json!({"reader": "rejected", "reader_error": e, "xml": xml}),
        Err(_) => return json!({"reader": "panicked", "xml": xml, "panics": PANICS.lock().unwrap().clone()}),
    };
    let mut fsm = fsm;
    let (tracer, log) = RecTracer::new(true);
    if !kind.default_tracer {
        fsm.tracer = Box::new(tracer);
    }
    let executor = FsmExecutor::new_without_io_processor();
    let actions = mark_actions(&log);
    let mut session = fsm::start_fsm_with_data_and_finish_mode(fsm, actions, Box::new(executor.clone()), &[], FinishMode::KEEP_CONFIGURATION);
    let handle = session.thread.take().unwrap();
    let idles = |log: &crate::obs::Log| log.lock().unwrap_or_else(|e| e.into_inner()).iter().filter(|l| *l == "m> externalQueue.dequeue").count();
    let marks = |log: &crate::obs::Log| -> Vec<u32> {
        log.lock()
            .unwrap_or_else(|e| e.into_inner())
            .iter()
            .filter_map(|l| l.strip_prefix("mark ").map(|r| r.split(' ').next().unwrap_or("").parse::<f64>().map(|x| x as u32).unwrap_or(99999)))
            .collect()
    };
    let wait = |cond: &dyn Fn() -> bool, t: Duration| -> bool {
        let s = Instant::now();
        while !cond() {
            if s.elapsed() > t {
                return false;
            }
            std::thread::sleep(Duration::from_micros(200));
        }
        true
    };
    let started = if kind.default_tracer {
        // no idle marker without the recording tracer
        std::thread::sleep(Duration::from_millis(150));
        !handle.is_finished()
    } else {
        wait(&|| idles(&log) >= 1 || handle.is_finished(), Duration::from_secs(4))
    };
    let _ = session.sender.send(Box::new(Event::new_simple("go")));
    for (n, inv) in kind.events {
        let mut e = Event::new_simple(n);
        e.invoke_id = inv.map(|s| s.to_string());
        let _ = session.sender.send(Box::new(e));
    }
    let _ = session.sender.send(Box::new(Event::new_simple("ping")));
    let answered = wait(&|| marks(&log).contains(&777) || handle.is_finished(), Duration::from_secs(4)) && marks(&log).contains(&777);
    let ended_early = handle.is_finished();
    // give asynchronous parts (invoked children, timer threads) a moment to fail
    if !kind.s1.is_empty() {
        std::thread::sleep(Duration::from_millis(120));
    }
    let _ = session.sender.send(Box::new(Event::new_simple(EVENT_CANCEL_SESSION)));
    let ended = wait(&|| handle.is_finished(), Duration::from_secs(4));
    let mut thread_panicked = false;
    if ended {
        thread_panicked = handle.join().is_err();
    }
    std::thread::sleep(Duration::from_millis(if kind.s1.is_empty() { 5 } else { 80 }));
    let ms = marks(&log);
    json!({
        "reader": "accepted",
        "started": started,
        "answered_ping": answered,
        "ended_before_cancel": ended_early,
        "ended_after_cancel": ended,
        "session_thread_panicked": thread_panicked,
        "panics": PANICS.lock().map(|g| g.clone()).unwrap_or_default(),
        "error_execution": ms.iter().filter(|m| **m == 801).count(),
        "error_communication": ms.iter().filter(|m| **m == 802).count(),
        "error_other": ms.iter().filter(|m| **m == 803).count(),
        "entered_s1": ms.contains(&901),
        "marks": ms,
    })
}

/// is this replay file one of the scenario table (rather than of the interpreter-model part)?
pub fn is_scenario_replay(path: &str) -> bool {
    serde_json::from_str::<Value>(&std::fs::read_to_string(path).unwrap_or_default())
        .map(|v| v.get("scenario").is_some())
        .unwrap_or(false)
}

pub fn kind_by_name(n: &str) -> Option<&'static Kind> {
    KINDS.iter().find(|k| k.name == n)
}

/// entry of the child process
pub fn main_one(extra: &[String]) {
    let kind = kind_by_name(extra.first().map(|s| s.as_str()).unwrap_or("")).expect("kind");
    let dm = extra.get(1).cloned().unwrap_or_default();
    let place = extra.get(2).cloned().unwrap_or_default();
    let variant: usize = extra.get(3).and_then(|s| s.parse().ok()).unwrap_or(0);
    let v = run_one(kind, &dm, &place, variant);
    println!("C12ONE {}", v);
    // do not wait for wedged threads
    std::process::exit(0);
}

fn spawn_one(kind: &Kind, dm: &str, place: &str, variant: usize) -> Value {
    use std::io::Read;
    use std::process::{Command, Stdio};
    let exe = std::env::current_exe().unwrap();
    let mut child = Command::new(exe)
        .args(["c12-one", kind.name, dm, place, &variant.to_string()])
        .stdout(Stdio::piped())
        .stderr(Stdio::null())
        .spawn()
        .expect("spawn c12-one");
    let start = Instant::now();
    let status = loop {
        match child.try_wait() {
            Ok(Some(s)) => break Some(s),
            Ok(None) => {
                if start.elapsed() > Duration::from_secs(25) {
                    let _ = child.kill();
                    let _ = child.wait();
                    break None;
                }
                std::thread::sleep(Duration::from_millis(2));
            }
            Err(_) => break None,
        }
    };
    let mut out = String::new();
    if let Some(mut so) = child.stdout.take() {
        let _ = so.read_to_string(&mut out);
    }
    for l in out.lines() {
        if let Some(j) = l.strip_prefix("C12ONE ") {
            if let Ok(v) = serde_json::from_str::<Value>(j) {
                return v;
            }
        }
    }
    match status {
        None => json!({"process": "killed-after-timeout"}),
        Some(s) => json!({"process": format!("died: {:?}", s)}),
    }
}

pub struct Verdict {
    pub failures: Vec<String>,
}

/// the property's predicate on one outcome
pub fn judge(kind: &Kind, o: &Value) -> Vec<String> {
    let mut f = vec![];
    if let Some(p) = o.get("process") {
        f.push(if p.as_str().unwrap_or("").starts_with("killed") { "process-wedged".to_string() } else { "process-died".to_string() });
        return f;
    }
    match o["reader"].as_str().unwrap_or("") {
        "rejected" => return f, // not an accepted document: outside the quantifier
        "panicked" => {
            f.push("reader-panicked".to_string());
            return f;
        }
        _ => {}
    }
    let b = |k: &str| o[k].as_bool().unwrap_or(false);
    let n = |k: &str| o[k].as_u64().unwrap_or(0);
    let panics = o["panics"].as_array().map(|a| a.len()).unwrap_or(0);
    if b("session_thread_panicked") {
        f.push("session-panicked".to_string());
    } else if panics > 0 {
        f.push("other-thread-panicked".to_string());
    }
    if !b("session_thread_panicked") {
        if !b("answered_ping") && !b("ended_before_cancel") {
            f.push("wedged".to_string());
        } else if !b("answered_ping") {
            f.push("ended-by-itself".to_string());
        }
        if !b("ended_after_cancel") {
            f.push("not-cancellable".to_string());
        }
    }
    if f.is_empty() {
        match kind.want {
            Want::Exec if n("error_execution") == 0 => f.push("missing-error.execution".to_string()),
            Want::Comm if n("error_communication") == 0 => f.push("missing-error.communication".to_string()),
            _ => {}
        }
    }
    f
}

pub fn run_real(args: &Args, rep: &mut Report) {
    let mut cases: Vec<(&Kind, &'static str, &'static str, usize)> = vec![];
    if let Some(path) = &args.replay {
        if let Ok(v) = serde_json::from_str::<Value>(&std::fs::read_to_string(path).unwrap_or_default()) {
            if let (Some(kn), Some(dm), Some(pl)) = (v["scenario"].as_str(), v["datamodel"].as_str(), v["place"].as_str()) {
                if let Some(k) = kind_by_name(kn) {
                    let dm: &'static str = if dm == "nosuchdm" { "nosuchdm" } else { DMS.iter().find(|d| **d == dm).unwrap_or(&DMS[0]) };
                    let pl: &'static str = PLACES.iter().find(|d| **d == pl).unwrap_or(&PLACES[0]);
                    cases.push((k, dm, pl, v["variant"].as_u64().unwrap_or(0) as usize));
                }
            }
        }
        if cases.is_empty() {
            return; // a replay of the interpreter-model part
        }
    } else {
        let mut p = Prng::for_case(args.seed, 0xC12);
        let rounds = if args.thorough { 6 } else { 1 };
        for r in 0..rounds {
            for kind in KINDS {
                let all_dms: Vec<&str> = if kind.only_dm == "nosuchdm" { vec!["nosuchdm"] } else { DMS.to_vec() };
                for dm in all_dms.iter() {
                    if !kind.only_dm.is_empty() && kind.only_dm != *dm {
                        continue;
                    }
                    let uses_e = kind.body.contains("{E}") || kind.s1.contains("{E}");
                    let places: Vec<&str> = if kind.body.is_empty() {
                        vec!["transition"]
                    } else if args.thorough {
                        PLACES.to_vec()
                    } else {
                        vec![*p.pick(PLACES)]
                    };
                    for pl in places {
                        let variant = if uses_e { (p.below(6) as usize + r) % 6 } else { r };
                        if !uses_e && r > 0 {
                            continue;
                        }
                        cases.push((kind, dm, pl, variant));
                    }
                }
            }
        }
    }
    // the cases are independent processes: run them 8 at a time
    let results: Vec<Value> = {
        let cases_ref = &cases;
        let next = std::sync::atomic::AtomicUsize::new(0);
        let out: Mutex<Vec<(usize, Value)>> = Mutex::new(vec![]);
        std::thread::scope(|s| {
            for _ in 0..8 {
                s.spawn(|| loop {
                    let i = next.fetch_add(1, std::sync::atomic::Ordering::SeqCst);
                    if i >= cases_ref.len() {
                        break;
                    }
                    let (k, dm, pl, v) = cases_ref[i];
                    let o = spawn_one(k, dm, pl, v);
                    out.lock().unwrap().push((i, o));
                });
            }
        });
        let mut v = out.into_inner().unwrap();
        v.sort_by_key(|x| x.0);
        v.into_iter().map(|x| x.1).collect()
    };
    for ((kind, dm, place, variant), o) in cases.iter().zip(results.iter()) {
        rep.evaluations += 1;
        rep.count(&format!("real_dm_{}", dm));
        rep.count(&format!("real_place_{}", place));
        let reader = o["reader"].as_str().unwrap_or("-");
        rep.count(&format!("real_reader_{}", reader));
        if reader == "accepted" {
            rep.nontrivial.insert(format!("{}|{}|{}|{}", kind.name, dm, place, variant));
            if o["error_execution"].as_u64().unwrap_or(0) > 0 {
                rep.count("real_cases_with_error.execution");
            }
            if o["error_communication"].as_u64().unwrap_or(0) > 0 {
                rep.count("real_cases_with_error.communication");
            }
            if o["entered_s1"].as_bool().unwrap_or(false) {
                rep.count("real_cases_reaching_s1");
            }
        }
        let fails = judge(kind, o);
        for f in &fails {
            rep.oracle_fail(
                &format!("C12:{}:{}:{}", kind.name, dm, f),
                json!({"scenario": kind.name, "datamodel": dm, "place": place, "variant": variant, "xml": render(kind, dm, place, *variant),
                    "events": kind.events.iter().map(|e| e.0).collect::<Vec<_>>(), "outcome": o, "what": f}),
            );
        }
        if fails.is_empty() && rep.samples.len() < 5 && reader == "accepted" {
            rep.sample(json!({"scenario": kind.name, "datamodel": dm, "place": place, "outcome": o}));
        }
    }
}
