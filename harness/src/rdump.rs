//! Canonical dump of a real `rufsm::fsm::Fsm` (as built by the XML reader) in the s-expression
//! syntax of the Lean driver family `reader` (see lean/Driver/Reader.lean).
//!
//! Ids that come from process-global counters are renamed by rank (the counters only grow, so the
//! rank is the order of allocation): transition ids and content-region ids share `ID_COUNTER`,
//! doc ids come from `DOC_ID_COUNTER`, source ids from `SOURCE_ID_COUNTER`.  State ids are indices.
//! `HashMap`s are emitted sorted (transitions / regions by id, data declarations by source id).
use rufsm::datamodel::Data;
use rufsm::executable_content::{
    Assign, Cancel, ExecutableContent, Expression, ForEach, If, Log, Raise, Script, SendParameters,
};
use rufsm::fsm::{CommonContent, Fsm, HistoryType, Invoke, Parameter, TransitionType};
use std::collections::BTreeMap;

pub fn sx_str(s: &str) -> String {
    let mut o = String::with_capacity(1 + 2 * s.len());
    o.push('\'');
    for b in s.as_bytes() {
        o.push_str(&format!("{:02x}", b));
    }
    o
}

pub fn sx_opt_str(s: &Option<String>) -> String {
    match s {
        Some(v) => sx_str(v),
        None => "~".to_string(),
    }
}

pub fn sx_list(items: &[String]) -> String {
    format!("({})", items.join(","))
}

pub fn sx_strs<S: AsRef<str>>(items: &[S]) -> String {
    sx_list(&items.iter().map(|s| sx_str(s.as_ref())).collect::<Vec<_>>())
}

fn b(v: bool) -> String {
    if v { "1" } else { "0" }.to_string()
}

struct Ranks {
    ids: BTreeMap<u32, usize>,
    docs: BTreeMap<u32, usize>,
    srcs: BTreeMap<usize, usize>,
}

impl Ranks {
    fn id(&self, i: u32) -> String {
        if i == 0 {
            "0".into()
        } else {
            match self.ids.get(&i) {
                Some(r) => r.to_string(),
                None => format!("{}", 900000 + i),
            }
        }
    }
    fn ids_list(&self, v: &[u32]) -> String {
        sx_list(&v.iter().map(|i| self.id(*i)).collect::<Vec<_>>())
    }
    fn doc(&self, i: u32) -> String {
        if i == 0 {
            "0".into()
        } else {
            self.docs.get(&i).map(|r| r.to_string()).unwrap_or_else(|| format!("{}", 900000 + i))
        }
    }
    fn data(&self, d: &Data) -> String {
        match d {
            Data::None() => "~".into(),
            Data::Null() => "null".into(),
            Data::Source(s) => {
                let id = if s.source_id == 0 { 0 } else { *self.srcs.get(&s.source_id).unwrap_or(&(900000 + s.source_id)) };
                format!("(src,{},{})", sx_str(&s.source), id)
            }
            _ => "(other)".into(),
        }
    }
}

fn collect_src(d: &Data, out: &mut Vec<usize>) {
    if let Data::Source(s) = d {
        if s.source_id != 0 {
            out.push(s.source_id);
        }
    }
}

fn for_each_data_of_exec(e: &dyn ExecutableContent, f: &mut dyn FnMut(&Data)) {
    let a = e.as_any();
    if let Some(x) = a.downcast_ref::<If>() {
        f(&x.condition)
    } else if let Some(x) = a.downcast_ref::<Expression>() {
        f(&x.content)
    } else if let Some(x) = a.downcast_ref::<Log>() {
        f(&x.expression)
    } else if let Some(x) = a.downcast_ref::<ForEach>() {
        f(&x.array)
    } else if let Some(x) = a.downcast_ref::<SendParameters>() {
        f(&x.event);
        f(&x.event_expr);
        f(&x.target);
        f(&x.target_expr);
        f(&x.type_value);
        f(&x.type_expr);
        f(&x.delay_expr);
    } else if let Some(x) = a.downcast_ref::<Cancel>() {
        f(&x.send_id_expr)
    } else if let Some(x) = a.downcast_ref::<Assign>() {
        f(&x.location);
        f(&x.expr)
    }
}

fn params(ps: &Option<Vec<Parameter>>) -> String {
    match ps {
        None => "~".into(),
        Some(v) => sx_list(
            &v.iter()
                .map(|p| format!("(p,{},{},{})", sx_str(&p.name), sx_str(&p.expr), sx_str(&p.location)))
                .collect::<Vec<_>>(),
        ),
    }
}

fn cc(c: &Option<CommonContent>) -> String {
    match c {
        None => "~".into(),
        Some(c) => format!("(cc,{},{})", sx_opt_str(&c.content), sx_opt_str(&c.content_expr)),
    }
}

fn exec(e: &dyn ExecutableContent, r: &Ranks) -> String {
    let a = e.as_any();
    if let Some(x) = a.downcast_ref::<If>() {
        format!("(if,{},{},{})", r.data(&x.condition), r.id(x.content), r.id(x.else_content))
    } else if let Some(x) = a.downcast_ref::<Expression>() {
        format!("(expr,{})", r.data(&x.content))
    } else if let Some(x) = a.downcast_ref::<Script>() {
        format!("(script,{})", r.ids_list(&x.content))
    } else if let Some(x) = a.downcast_ref::<Log>() {
        format!("(log,{},{})", sx_str(&x.label), r.data(&x.expression))
    } else if let Some(x) = a.downcast_ref::<ForEach>() {
        format!("(foreach,{},{},{},{})", r.data(&x.array), sx_str(&x.item), sx_str(&x.index), r.id(x.content))
    } else if let Some(x) = a.downcast_ref::<SendParameters>() {
        format!(
            "(send,{},{},{},{},{},{},{},{},{},{},{},{},{},{})",
            sx_str(&x.name_location),
            sx_str(&x.name),
            sx_str(&x.parent_state_name),
            r.data(&x.event),
            r.data(&x.event_expr),
            r.data(&x.target),
            r.data(&x.target_expr),
            r.data(&x.type_value),
            r.data(&x.type_expr),
            x.delay_ms,
            r.data(&x.delay_expr),
            sx_strs(&x.name_list),
            params(&x.params),
            cc(&x.content)
        )
    } else if let Some(x) = a.downcast_ref::<Raise>() {
        format!("(raise,{})", sx_str(&x.event))
    } else if let Some(x) = a.downcast_ref::<Cancel>() {
        format!("(cancel,{},{})", sx_str(&x.send_id), r.data(&x.send_id_expr))
    } else if let Some(x) = a.downcast_ref::<Assign>() {
        format!("(assign,{},{})", r.data(&x.location), r.data(&x.expr))
    } else {
        format!("(unknown,{})", e.get_type())
    }
}

fn invoke(i: &Invoke, r: &Ranks) -> String {
    format!(
        "(inv,{},{},{},{},{},{},{},{},{},{},{},{},{})",
        r.doc(i.doc_id),
        sx_str(&i.external_id_location),
        r.data(&i.type_name),
        r.data(&i.type_expr),
        sx_strs(&i.name_list),
        r.data(&i.src),
        r.data(&i.src_expr),
        b(i.autoforward),
        r.id(i.finalize),
        sx_str(&i.invoke_id),
        sx_str(&i.parent_state_name),
        params(&i.params),
        cc(&i.content)
    )
}

/// the canonical dump
pub fn dump_fsm(fsm: &Fsm) -> String {
    // ---- ranks
    let mut ids: Vec<u32> = fsm.transitions.keys().cloned().collect();
    ids.extend(fsm.executableContent.keys().cloned());
    ids.sort();
    ids.dedup();
    let mut docs: Vec<u32> = Vec::new();
    let mut srcs: Vec<usize> = Vec::new();
    for s in &fsm.states {
        if s.doc_id != 0 {
            docs.push(s.doc_id);
        }
        for i in s.invoke.iterator() {
            if i.doc_id != 0 {
                docs.push(i.doc_id);
            }
            collect_src(&i.type_name, &mut srcs);
            collect_src(&i.type_expr, &mut srcs);
            collect_src(&i.src, &mut srcs);
            collect_src(&i.src_expr, &mut srcs);
        }
        for (_k, v) in &s.data {
            collect_src(&v.arc.lock().unwrap(), &mut srcs);
        }
    }
    for t in fsm.transitions.values() {
        if t.doc_id != 0 {
            docs.push(t.doc_id);
        }
        collect_src(&t.cond, &mut srcs);
    }
    for v in fsm.executableContent.values() {
        for e in v {
            for_each_data_of_exec(e.as_ref(), &mut |d| collect_src(d, &mut srcs));
        }
    }
    docs.sort();
    docs.dedup();
    srcs.sort();
    srcs.dedup();
    let r = Ranks {
        ids: ids.iter().enumerate().map(|(k, v)| (*v, k + 1)).collect(),
        docs: docs.iter().enumerate().map(|(k, v)| (*v, k + 1)).collect(),
        srcs: srcs.iter().enumerate().map(|(k, v)| (*v, k + 1)).collect(),
    };

    // ---- states
    let mut states = Vec::new();
    for s in &fsm.states {
        let mut data: Vec<(usize, String)> = s
            .data
            .iter()
            .map(|(k, v)| {
                let d = v.arc.lock().unwrap();
                let key = match &*d {
                    Data::Source(sc) => sc.source_id,
                    _ => 0,
                };
                (key, format!("({},{})", sx_str(k), r.data(&d)))
            })
            .collect();
        data.sort();
        let dd = match &s.donedata {
            None => "~".to_string(),
            Some(d) => format!("(dd,{},{})", cc(&d.content), params(&d.params)),
        };
        states.push(format!(
            "(st,{},{},{},{},{},{},{},{},{},{},{},{},{},{},{},{})",
            s.id,
            r.doc(s.doc_id),
            sx_str(&s.name),
            r.id(s.initial),
            sx_list(&s.states.iter().map(|i| i.to_string()).collect::<Vec<_>>()),
            b(s.is_parallel),
            b(s.is_final),
            match s.history_type {
                HistoryType::Shallow => "s",
                HistoryType::Deep => "d",
                HistoryType::None => "n",
            },
            r.ids_list(&s.onentry),
            r.ids_list(&s.onexit),
            sx_list(&s.transitions.iterator().map(|i| r.id(*i)).collect::<Vec<_>>()),
            sx_list(&s.invoke.iterator().map(|i| invoke(i, &r)).collect::<Vec<_>>()),
            sx_list(&s.history.iterator().map(|i| i.to_string()).collect::<Vec<_>>()),
            sx_list(&data.into_iter().map(|x| x.1).collect::<Vec<_>>()),
            s.parent,
            dd
        ));
    }

    // ---- transitions
    let mut tkeys: Vec<u32> = fsm.transitions.keys().cloned().collect();
    tkeys.sort();
    let mut trans = Vec::new();
    for k in tkeys {
        let t = fsm.transitions.get(&k).unwrap();
        trans.push(format!(
            "(tr,{},{},{},{},{},{},{},{},{})",
            r.id(t.id),
            r.doc(t.doc_id),
            sx_strs(&t.events),
            b(t.wildcard),
            r.data(&t.cond),
            t.source,
            sx_list(&t.target.iter().map(|i| i.to_string()).collect::<Vec<_>>()),
            match t.transition_type {
                TransitionType::Internal => "i",
                TransitionType::External => "x",
            },
            r.id(t.content)
        ));
    }

    // ---- regions
    let mut rkeys: Vec<u32> = fsm.executableContent.keys().cloned().collect();
    rkeys.sort();
    let mut regions = Vec::new();
    for k in rkeys {
        let v = fsm.executableContent.get(&k).unwrap();
        let mut items = vec!["rg".to_string(), r.id(k)];
        for e in v {
            items.push(exec(e.as_ref(), &r));
        }
        regions.push(sx_list(&items));
    }

    format!(
        "(fsm,{},{},{},{},{},{},{},{},{})",
        sx_str(&fsm.name),
        sx_str(&fsm.datamodel),
        b(fsm.binding == rufsm::fsm::BindingType::Late),
        sx_str(&fsm.version),
        fsm.pseudo_root,
        r.id(fsm.script),
        sx_list(&states),
        sx_list(&trans),
        sx_list(&regions)
    )
}

/// decode `'hex` atoms for human readable reports
pub fn pretty(sx: &str) -> String {
    let mut out = String::new();
    let bytes = sx.as_bytes();
    let mut i = 0;
    while i < bytes.len() {
        if bytes[i] == b'\'' {
            let mut j = i + 1;
            while j < bytes.len() && (bytes[j] as char).is_ascii_hexdigit() {
                j += 1;
            }
            let hex = &sx[i + 1..j];
            let raw: Vec<u8> = (0..hex.len() / 2).map(|k| u8::from_str_radix(&hex[2 * k..2 * k + 2], 16).unwrap_or(b'?')).collect();
            out.push('"');
            out.push_str(&String::from_utf8_lossy(&raw).replace('"', "\\\""));
            out.push('"');
            i = j;
        } else {
            out.push(bytes[i] as char);
            i += 1;
        }
    }
    out
}
