//! C20 — the BasicHTTP event I/O processor.
//!
//! ONE executor with the real rocket server (127.0.0.1:5555, hard-coded in the crate) serves the
//! whole run.  Several real sessions (datamodel `rfsm-expression`) record `_event.name` and
//! `_event.data` of everything they receive through a custom action.  Three kinds of cases:
//!
//! * `post`: a hand-written HTTP request over `TcpStream` (names / values needing encoding, odd
//!   but legal encodings, duplicate and structural-looking field names, valid / unknown / malformed session
//!   segments, missing event name, `_content`), posted from several threads at once.  Status and
//!   the events that arrived (which session, name, data) are compared with `receive` of the Lean
//!   model, and the property predicate (`oracle`) is evaluated on the implementation's output.
//! * `send`: `BasicHTTPEventIOProcessor::send` is pointed at a raw `TcpListener`; request line,
//!   content type and body are compared with `sendBody`; the captured body is then posted to the
//!   real server (send → receive round trip on the real code).
//! * `e2e`: a generated document `<send type="…BasicHTTPEventProcessor" target=LOCATION>` where
//!   LOCATION is what the receiving session read from `_ioprocessors[..].location`.
use crate::obs::xml_attr;
use crate::prng::Prng;
use crate::proto::{hex, unhex, Model};
use crate::report::Report;
use crate::Args;
use rufsm::actions::{Action, ActionWrapper};
use rufsm::datamodel::{create_data_arc, Data, SourceCode};
use rufsm::fsm::{self, Event, FinishMode, GlobalData, ParamPair, ScxmlSession, EVENT_CANCEL_SESSION};
use rufsm::fsm_executor::FsmExecutor;
use rufsm::scxml_reader;
use serde_json::{json, Value};
use std::collections::{BTreeMap, HashMap};
use std::io::{Read, Write};
use std::net::{TcpListener, TcpStream};
use std::sync::{mpsc, Arc, Mutex};
use std::time::{Duration, Instant};

const PORT: u16 = 5555;
const EVENT_NAME: &str = "_scxmleventname";
const CONTENT: &str = "_content";
const TYPE_LONG: &str = "http://www.w3.org/TR/scxml/#BasicHTTPEventProcessor";

// ---------------------------------------------------------------------------------------------
// observation

#[derive(Clone, Debug, PartialEq, Eq, PartialOrd, Ord)]
pub enum OData {
    Null,
    Text(String),
    Map(Vec<(String, String)>),
    Other(String),
}

impl OData {
    fn to_json(&self) -> Value {
        match self {
            OData::Null => json!(null),
            OData::Text(t) => json!({ "text": t }),
            OData::Map(m) => json!({ "map": m }),
            OData::Other(t) => json!({ "other": t }),
        }
    }
    fn wire(&self) -> String {
        match self {
            OData::Null => "N".to_string(),
            OData::Text(t) => format!("T:{}", hex(t.as_bytes())),
            OData::Map(m) => format!("M:{}", pairs_wire(m)),
            OData::Other(t) => format!("T:{}", hex(format!("?other?{}", t).as_bytes())),
        }
    }
}

#[derive(Clone, Debug, PartialEq, Eq, PartialOrd, Ord)]
pub struct Obs {
    pub sid: u32,
    pub name: String,
    pub data: OData,
}

impl Obs {
    fn to_json(&self) -> Value {
        json!({"sid": self.sid, "name": self.name, "data": self.data.to_json()})
    }
}

#[derive(Default)]
struct Shared {
    events: Mutex<Vec<Obs>>,
    flushed: Mutex<HashMap<u32, u64>>,
    locations: Mutex<HashMap<u32, (String, String)>>,
}

fn data_to_odata(d: &Data) -> OData {
    match d {
        Data::Null() => OData::Null,
        Data::String(s) => OData::Text(s.clone()),
        Data::Map(m) => {
            let mut v = Vec::new();
            for (k, a) in m {
                let val = match a.lock() {
                    Ok(g) => match &*g {
                        Data::String(s) => s.clone(),
                        other => format!("?nonstring?{}", other),
                    },
                    Err(_) => "?poisoned?".to_string(),
                };
                v.push((k.clone(), val));
            }
            v.sort();
            OData::Map(v)
        }
        other => OData::Other(other.to_string()),
    }
}

#[derive(Clone)]
struct RecAction(Arc<Shared>);

impl Action for RecAction {
    fn execute(&self, args: &[Data], global: &GlobalData) -> Result<Data, String> {
        let sid = global.session_id;
        let name = match args.first() {
            Some(Data::String(s)) => s.clone(),
            Some(o) => format!("?nonstring?{}", o),
            None => "?noarg?".to_string(),
        };
        if let Some(n) = name.strip_prefix("__flush#") {
            self.0.flushed.lock().unwrap().insert(sid, n.parse().unwrap_or(0));
        } else {
            let data = args.get(1).map(data_to_odata).unwrap_or(OData::Other("?noarg?".into()));
            self.0.events.lock().unwrap().push(Obs { sid, name, data });
        }
        Ok(Data::Boolean(true))
    }
    fn get_copy(&self) -> Box<dyn Action> {
        Box::new(self.clone())
    }
}

#[derive(Clone)]
struct PubAction(Arc<Shared>);

impl Action for PubAction {
    fn execute(&self, args: &[Data], global: &GlobalData) -> Result<Data, String> {
        let a = args.first().map(|d| d.to_string()).unwrap_or_default();
        let b = args.get(1).map(|d| d.to_string()).unwrap_or_default();
        self.0.locations.lock().unwrap().insert(global.session_id, (a, b));
        Ok(Data::Boolean(true))
    }
    fn get_copy(&self) -> Box<dyn Action> {
        Box::new(self.clone())
    }
}

const RECEIVER_DOC: &str = "<scxml xmlns=\"http://www.w3.org/2005/07/scxml\" version=\"1.0\" \
datamodel=\"rfsm-expression\" initial=\"s0\"><state id=\"s0\"><onentry>\
<script>pub(_ioprocessors['basichttp'].location, _ioprocessors['http://www.w3.org/TR/scxml/#BasicHTTPEventProcessor'].location)</script>\
</onentry><transition event=\"*\"><script>rec(_event.name, _event.data)</script></transition></state></scxml>";

pub struct Env {
    _rt: tokio::runtime::Runtime,
    executor: FsmExecutor,
    sessions: Vec<ScxmlSession>,
    pub sids: Vec<u32>,
    shared: Arc<Shared>,
    flush_no: u64,
    /// sessions that ran to completion (senders of e2e cases); the executor keeps them in its table
    finished: Vec<u32>,
}

fn actions(shared: &Arc<Shared>) -> ActionWrapper {
    let mut a = ActionWrapper::new();
    a.add_action("rec", Box::new(RecAction(shared.clone())));
    a.add_action("pub", Box::new(PubAction(shared.clone())));
    a
}

impl Env {
    /// waits until port 5555 is free (another check may be using it), then starts the executor
    pub fn start(n_sessions: usize) -> Result<Env, String> {
        rufsm::common::init_logging(); // env_logger (errors only) — also keeps rocket's own logger out
        let t0 = Instant::now();
        loop {
            match TcpListener::bind(("127.0.0.1", PORT)) {
                Ok(l) => {
                    drop(l);
                    break;
                }
                Err(e) => {
                    if t0.elapsed() > Duration::from_secs(180) {
                        return Err(format!(
                            "port {} on 127.0.0.1 stayed busy for 180 s ({}); the BasicHTTP processor hard-codes it — \
                             is another C20 check or an rFSM instance running?",
                            PORT, e
                        ));
                    }
                    std::thread::sleep(Duration::from_millis(500));
                }
            }
        }
        let rt = tokio::runtime::Builder::new_multi_thread()
            .worker_threads(4)
            .enable_all()
            .build()
            .map_err(|e| e.to_string())?;
        let executor = rt.block_on(FsmExecutor::new_with_io_processor());
        let shared: Arc<Shared> = Arc::new(Shared::default());
        let mut env = Env { _rt: rt, executor, sessions: vec![], sids: vec![], shared, flush_no: 0, finished: vec![] };
        for _ in 0..n_sessions {
            env.add_receiver()?;
        }
        // the server is launched in a spawned task: wait until it answers
        let t1 = Instant::now();
        loop {
            match http_post("0", b"", Some("application/x-www-form-urlencoded")) {
                Ok(_) => break,
                Err(e) => {
                    if t1.elapsed() > Duration::from_secs(20) {
                        return Err(format!("the rocket server did not come up on port {}: {}", PORT, e));
                    }
                    std::thread::sleep(Duration::from_millis(20));
                }
            }
        }
        // make sure it is OUR server: a canary event must arrive in our first session
        let canary = format!("{}=__canary%23{}", EVENT_NAME, std::process::id());
        let st = http_post(&env.sids[0].to_string(), canary.as_bytes(), Some("application/x-www-form-urlencoded"))?;
        env.flush()?;
        let evs = env.take_events();
        // (identity only: how many events one POST makes is what the run itself checks)
        let mine = format!("__canary#{}", std::process::id());
        if st != 200 || evs.is_empty() || evs.iter().any(|e| e.name != mine) {
            return Err(format!(
                "port {} is answered by a different process (canary status {}, events {:?})",
                PORT, st, evs
            ));
        }
        Ok(env)
    }

    fn add_receiver(&mut self) -> Result<u32, String> {
        let fsm = scxml_reader::parse_from_xml(RECEIVER_DOC.to_string())?;
        let session = fsm::start_fsm_with_data_and_finish_mode(
            fsm,
            actions(&self.shared),
            Box::new(self.executor.clone()),
            &[],
            FinishMode::DISPOSE,
        );
        let sid = session.session_id;
        self.sids.push(sid);
        self.sessions.push(session);
        Ok(sid)
    }

    /// everything enqueued before this call has been processed by every session afterwards
    pub fn flush(&mut self) -> Result<(), String> {
        self.flush_no += 1;
        let n = self.flush_no;
        for s in &self.sessions {
            s.sender
                .send(Box::new(Event::new_simple(&format!("__flush#{}", n))))
                .map_err(|e| format!("session {} is gone: {}", s.session_id, e))?;
        }
        let t0 = Instant::now();
        loop {
            {
                let f = self.shared.flushed.lock().unwrap();
                if self.sids.iter().all(|s| f.get(s) == Some(&n)) {
                    return Ok(());
                }
            }
            if t0.elapsed() > Duration::from_secs(20) {
                return Err("a receiving session did not process its flush marker within 20 s".to_string());
            }
            std::thread::sleep(Duration::from_micros(100));
        }
    }

    pub fn take_events(&mut self) -> Vec<Obs> {
        std::mem::take(&mut *self.shared.events.lock().unwrap())
    }

    pub fn stop(mut self) {
        for s in &self.sessions {
            let _ = s.sender.send(Box::new(Event::new_simple(EVENT_CANCEL_SESSION)));
        }
        for s in self.sessions.iter_mut() {
            if let Some(h) = s.thread.take() {
                let t0 = Instant::now();
                while !h.is_finished() && t0.elapsed() < Duration::from_secs(5) {
                    std::thread::sleep(Duration::from_millis(1));
                }
            }
        }
        self.executor.shutdown();
        std::thread::sleep(Duration::from_millis(100));
    }
}

/// one HTTP/1.1 request by hand; returns the status code
pub fn http_post(seg: &str, body: &[u8], ctype: Option<&str>) -> Result<u16, String> {
    let mut s = TcpStream::connect_timeout(&([127, 0, 0, 1], PORT).into(), Duration::from_secs(5)).map_err(|e| e.to_string())?;
    s.set_read_timeout(Some(Duration::from_secs(20))).ok();
    s.set_nodelay(true).ok();
    let mut req = format!("POST /scxml/{} HTTP/1.1\r\nHost: localhost:{}\r\nConnection: close\r\n", seg, PORT).into_bytes();
    if let Some(c) = ctype {
        req.extend_from_slice(format!("Content-Type: {}\r\n", c).as_bytes());
    }
    req.extend_from_slice(format!("Content-Length: {}\r\n\r\n", body.len()).as_bytes());
    req.extend_from_slice(body);
    s.write_all(&req).map_err(|e| e.to_string())?;
    let mut resp = Vec::new();
    let _ = s.read_to_end(&mut resp);
    let text = String::from_utf8_lossy(&resp);
    let mut it = text.split_whitespace();
    match (it.next(), it.next()) {
        (Some(v), Some(code)) if v.starts_with("HTTP/") => code.parse::<u16>().map_err(|e| e.to_string()),
        _ => Err(format!("no HTTP status in response: {:?}", &text[..text.len().min(80)])),
    }
}

// ---------------------------------------------------------------------------------------------
// wire helpers

fn pairs_wire(ps: &[(String, String)]) -> String {
    if ps.is_empty() {
        ".".to_string()
    } else {
        ps.iter().flat_map(|(k, v)| [hex(k.as_bytes()), hex(v.as_bytes())]).collect::<Vec<_>>().join(",")
    }
}

fn lossy(b: &[u8]) -> String {
    String::from_utf8_lossy(b).to_string()
}

fn parse_pairs(s: &str) -> Option<Vec<(Vec<u8>, Vec<u8>)>> {
    if s == "." {
        return Some(vec![]);
    }
    let items: Option<Vec<Vec<u8>>> = s.split(',').map(unhex).collect();
    let items = items?;
    if items.len() % 2 != 0 {
        return None;
    }
    Some(items.chunks(2).map(|c| (c[0].clone(), c[1].clone())).collect())
}

fn parse_odata(s: &str) -> Option<OData> {
    if s == "N" {
        Some(OData::Null)
    } else if let Some(h) = s.strip_prefix("T:") {
        Some(OData::Text(lossy(&unhex(h)?)))
    } else if let Some(p) = s.strip_prefix("M:") {
        let mut v: Vec<(String, String)> = parse_pairs(p)?.iter().map(|(k, v)| (lossy(k), lossy(v))).collect();
        v.sort();
        Some(OData::Map(v))
    } else {
        None
    }
}

/// `http post` reply → (status, events)
fn parse_post_reply(r: &str) -> Option<(u16, Vec<Obs>)> {
    let w: Vec<&str> = r.split(' ').collect();
    if w.len() < 2 {
        return None;
    }
    let st: u16 = w[0].parse().ok()?;
    let n: usize = w[1].parse().ok()?;
    if w.len() != 2 + 5 * n {
        return None;
    }
    let mut evs = vec![];
    for i in 0..n {
        let b = 2 + 5 * i;
        evs.push(Obs { sid: w[b].parse().ok()?, name: lossy(&unhex(w[b + 1])?), data: parse_odata(w[b + 4])? });
    }
    Some((st, evs))
}

fn sids_wire(sids: &[u32]) -> String {
    sids.iter().map(|s| s.to_string()).collect::<Vec<_>>().join(",")
}

fn obs_wire(o: &[Obs]) -> String {
    if o.is_empty() {
        ".".to_string()
    } else {
        o.iter().map(|e| format!("{}~{}~{}", e.sid, hex(e.name.as_bytes()), e.data.wire())).collect::<Vec<_>>().join(";")
    }
}

/// records an oracle failure; at most 6 reports per signature so that frequent (known) classes cannot
/// crowd a new one out of the report (every failure is still counted)
fn oracle_fail_capped(rep: &mut Report, sig: &str, v: Value) {
    let key = format!("oraclefail_{}", sig);
    rep.count(&key);
    if rep.dist.get(&key).copied().unwrap_or(0) <= 6 {
        rep.oracle_fail(sig, v);
    } else {
        rep.count("oracle_failures");
    }
}

/// what the field names of this body look like (part of the failure signature).  Before the repair of
/// finding C20-F1 rocket read the names as form paths and the classes other than `plain` were the known
/// finding; now a failure of ANY class is a violation.
fn name_class(fields: &[(Vec<u8>, Vec<u8>)]) -> &'static str {
    let mut class = "plain";
    for (n, _) in fields {
        if n.contains(&b':') {
            return "colon";
        }
        if n.is_empty() || n[0] == b'=' || n == b"[]" || n == b"." || n == b"[" {
            class = "emptykey";
        } else if class == "plain" && (n.contains(&b'.') || n.contains(&b'[')) {
            class = "dotbracket";
        }
    }
    class
}

// ---------------------------------------------------------------------------------------------
// post cases

#[derive(Clone, Debug)]
pub struct PostCase {
    pub seg: String,
    pub body: Vec<u8>,
    pub kind: String,
    /// unique number that ends the event name (`…#tag`) when the body carries a name
    pub tag: Option<u64>,
}

impl PostCase {
    fn to_json(&self) -> Value {
        json!({"case": "post", "seg": self.seg, "body_hex": hex(&self.body), "body_text": lossy(&self.body), "kind": self.kind})
    }
}

const PLAIN: &[&str] = &["a", "b", "x1", "p", "Q", "_", "-", "*", "0", "zz", "_content2", "name"];
const SPECIAL: &[&str] = &[
    " ", "+", "&", "=", "%", "%41", "%zz", "%2", "é", "日本", "😀", "~", "/", "?", "#", ";", "\"", "<", ">", "\t", "\n", "'", "\\", "!", "(", ")", ",", "@", "$", "|", "^", "`", "{", "}",
];
const STRUCT: &[&str] = &[".", "[", "]", ":", "k:", "v:", "a.b", "[x]", "[", "a[0]", "x:y", "K:", "V:q"];

fn gen_text(p: &mut Prng, allow_empty: bool, structural: bool) -> String {
    let n = if allow_empty { p.below(5) } else { p.range(1, 4) };
    let mut s = String::new();
    for _ in 0..n {
        let r = p.below(10);
        if structural && r < 3 {
            s.push_str(*p.pick(STRUCT));
        } else if r < 6 {
            s.push_str(*p.pick(PLAIN));
        } else {
            s.push_str(*p.pick(SPECIAL));
        }
    }
    if s.is_empty() && !allow_empty {
        s.push('a');
    }
    s
}

fn unchanged(b: u8) -> bool {
    matches!(b, b'*' | b'-' | b'.' | b'0'..=b'9' | b'A'..=b'Z' | b'_' | b'a'..=b'z')
}

/// encodes one component.  style 0 = exactly what `form_urlencoded` emits; 1 = lower-case hex;
/// 2 = every byte escaped; 3 = `%20` for space and a few more bytes left raw (still unambiguous)
fn encode_component(s: &[u8], style: u64, out: &mut Vec<u8>) {
    // raw bytes are only sent when they are valid UTF-8 (rocket reads the body as a string)
    let style = if style >= 3 && std::str::from_utf8(s).is_err() { 0 } else { style };
    for &b in s {
        match style {
            0 => {
                if unchanged(b) {
                    out.push(b)
                } else if b == b' ' {
                    out.push(b'+')
                } else {
                    out.extend_from_slice(format!("%{:02X}", b).as_bytes())
                }
            }
            1 => {
                if unchanged(b) {
                    out.push(b)
                } else if b == b' ' {
                    out.push(b'+')
                } else {
                    out.extend_from_slice(format!("%{:02x}", b).as_bytes())
                }
            }
            2 => out.extend_from_slice(format!("%{:02X}", b).as_bytes()),
            _ => {
                if b == b'&' || b == b'=' || b == b'%' || b == b'+' || b < 0x20 || b == 0x7f {
                    out.extend_from_slice(format!("%{:02X}", b).as_bytes())
                } else if b == b' ' {
                    out.extend_from_slice(b"%20")
                } else {
                    out.push(b) // raw, including raw UTF-8
                }
            }
        }
    }
}

fn encode_fields(p: &mut Prng, fields: &[(Vec<u8>, Vec<u8>)], noise: bool) -> Vec<u8> {
    let mut out = Vec::new();
    let style_all = p.below(6);
    for (i, (k, v)) in fields.iter().enumerate() {
        if i > 0 {
            out.push(b'&');
            if noise && p.chance(1, 8) {
                out.push(b'&');
            }
        }
        let st = if style_all < 4 { style_all } else { p.below(4) };
        encode_component(k, st, &mut out);
        if !(noise && v.is_empty() && p.chance(1, 3)) {
            out.push(b'=');
        }
        encode_component(v, st, &mut out);
    }
    if noise && p.chance(1, 10) {
        out.push(b'&');
    }
    out
}

/// a segment for the path: mostly a live session, sometimes another spelling, sometimes wrong
fn gen_seg(p: &mut Prng, sids: &[u32]) -> (String, &'static str) {
    let sid = *p.pick(sids);
    match p.below(20) {
        // far from anything the executor allocated (finished sender sessions stay in its table)
        0 => ((1_000_000 + p.below(1_000_000) as u32).to_string(), "seg_unknown"),
        1 => ("0".to_string(), "seg_unknown"),
        2 => (p.pick(&["4294967295", "4294967296", "99999999999999999999", "-1", "abc", "1x", "x1", "1.0", "0x1", "%31"]).to_string(), "seg_malformed"),
        3 => (format!("+{}", sid), "seg_plus"),
        4 => (format!("00{}", sid), "seg_zeros"),
        _ => (sid.to_string(), "seg_live"),
    }
}

pub fn gen_post(p: &mut Prng, sids: &[u32], tag: u64) -> PostCase {
    let (seg, segkind) = gen_seg(p, sids);
    let shape = p.below(100);
    let structural = p.chance(1, 8);
    let mut fields: Vec<(Vec<u8>, Vec<u8>)> = vec![];
    let name = format!("{}#{}", gen_text(p, true, false), tag);
    let mut kind = String::new();
    let has_name = shape >= 10;
    let nparams = match shape {
        0..=4 => p.range(0, 2),  // no name
        5..=9 => 0,              // no name, maybe content
        10..=24 => 0,            // name only / content only
        _ => p.range(1, 4),
    };
    let content = matches!(shape, 5..=9 | 15..=24 | 90..=99);
    for _ in 0..nparams {
        let allow_empty = p.chance(1, 12);
        let k = gen_text(p, allow_empty, structural);
        let v = gen_text(p, true, false);
        fields.push((k.into_bytes(), v.into_bytes()));
    }
    if p.chance(1, 16) && !fields.is_empty() {
        // a long non-ASCII value: the url-encoded body grows to 9..27 KB (rocket's default limit for a
        // form is 32 KiB; nothing in the statement restricts the size of a parameter)
        let n = p.range(1500, 4400) as usize;
        let i = p.below(fields.len() as u64) as usize;
        fields[i].1 = "\u{e9}".repeat(n).into_bytes();
        kind.push_str("bigvalue ");
    }
    if p.chance(1, 12) && !fields.is_empty() {
        // duplicate key
        let k = fields[p.below(fields.len() as u64) as usize].0.clone();
        fields.push((k, gen_text(p, true, false).into_bytes()));
        kind.push_str("dupkey ");
    }
    if content {
        fields.push((CONTENT.as_bytes().to_vec(), gen_text(p, true, false).into_bytes()));
        if p.chance(1, 10) {
            fields.push((CONTENT.as_bytes().to_vec(), gen_text(p, true, false).into_bytes()));
            kind.push_str("dupcontent ");
        }
    }
    if has_name {
        fields.push((EVENT_NAME.as_bytes().to_vec(), name.clone().into_bytes()));
        if p.chance(1, 15) {
            fields.push((EVENT_NAME.as_bytes().to_vec(), format!("other#{}", tag).into_bytes()));
            kind.push_str("dupname ");
        }
    }
    // position of the fields is irrelevant to the statement: shuffle
    for i in (1..fields.len()).rev() {
        let j = p.below(i as u64 + 1) as usize;
        fields.swap(i, j);
    }
    // invalid UTF-8 only in values (never in keys: two keys could collapse into U+FFFD)
    if p.chance(1, 15) && !fields.is_empty() {
        let i = p.below(fields.len() as u64) as usize;
        if fields[i].0 != EVENT_NAME.as_bytes() {
            const BAD: &[&[u8]] = &[b"\xff", b"\xc3", b"\xe6\x97", b"\x80x"];
            fields[i].1.extend_from_slice(*p.pick(BAD));
            kind.push_str("badutf8 ");
        }
    }
    let noise = p.chance(1, 4);
    let body = encode_fields(p, &fields, noise);
    kind.push_str(&format!(
        "{} {} params={} {}{}",
        segkind,
        if has_name { "named" } else { "unnamed" },
        nparams,
        if content { "content " } else { "" },
        if structural { "structural" } else { "" }
    ));
    PostCase { seg, body, kind, tag: if has_name { Some(tag) } else { None } }
}

fn post_corpus(sids: &[u32]) -> Vec<PostCase> {
    let s0 = sids[0].to_string();
    let s1 = sids[1].to_string();
    let unknown = (sids.iter().max().unwrap() + 777_000).to_string();
    let mk = |seg: &str, body: &str, kind: &str| PostCase { seg: seg.to_string(), body: body.as_bytes().to_vec(), kind: format!("corpus {}", kind), tag: None };
    vec![
        mk(&s0, "_scxmleventname=ev", "name only"),
        mk(&s0, "_scxmleventname=ev&p1=abc&p2=123", "two params"),
        mk(&s1, "p2=123&_scxmleventname=ev&p1=abc", "name in the middle"),
        mk(&s0, "_scxmleventname=ev&_content=hello+world", "content only"),
        mk(&s0, "_scxmleventname=ev&_content=hello&p=1", "content and a param: data = params"),
        mk(&s0, "_scxmleventname=", "empty event name"),
        mk(&s0, "_scxmleventname", "event name without ="),
        mk(&s0, "_scxmleventname=a+b%2Bc%26d%3De%25f&k+1=v%201&%C3%A9=%E6%97%A5%E6%9C%AC&e=", "everything that needs encoding"),
        mk(&s0, "_scxmleventname=ev&x=%zz&y=%4&z=%", "percent signs that are no escapes"),
        mk(&s0, "_scxmleventname=ev&x=%c3%a9&y=%C3%A9", "lower and upper case hex"),
        mk(&s0, "&&_scxmleventname=ev&&p=1&", "empty fields are skipped"),
        mk(&s0, "_scxmleventname=ev&p=a=b=c", "value containing ="),
        mk(&s0, "", "empty body: no name"),
        mk(&s0, "p=1&q=2", "no name"),
        mk(&s0, "_content=only", "content without name"),
        mk(&s0, "_SCXMLEVENTNAME=ev", "name key is case sensitive"),
        mk(&unknown, "_scxmleventname=ev&p=1", "unknown session"),
        mk(&unknown, "p=1", "unknown session and no name"),
        mk("abc", "_scxmleventname=ev", "segment not a number"),
        mk("4294967296", "_scxmleventname=ev", "segment overflows u32"),
        mk("-1", "_scxmleventname=ev", "negative segment"),
        mk(&format!("+{}", s0), "_scxmleventname=plus", "u32::from_str accepts a leading +"),
        mk(&format!("000{}", s0), "_scxmleventname=zeros", "leading zeros"),
        mk(&s0, "_scxmleventname=first&_scxmleventname=second", "duplicate name: the later one replaces the earlier (the route's loop)"),
        mk(&s0, "_scxmleventname=ev&p=1&p=2", "duplicate param: both pushed, the later value is the one in _event.data"),
        mk(&s0, "_scxmleventname=ev&_content=a&_content=b", "duplicate content: the later one replaces the earlier"),
        // REGRESSION cases of the repaired finding C20-F1: rocket read field names structurally (form =
        // HashMap<String,String>); now names are verbatim (Lean: C20_regression_*).  A failure here is a VIOLATION.
        mk(&s0, "_scxmleventname=ev&x:y=1", "REGRESSION C20-F1 colon in a param name (was: whole form rejected, 422)"),
        mk(&s0, "_scxmleventname=ev&a.b=1", "REGRESSION C20-F1 dot in a param name (was: key truncated to a)"),
        mk(&s0, "_scxmleventname=ev&a[b]=1", "REGRESSION C20-F1 bracket in a param name (was: key truncated to a)"),
        mk(&s0, "_scxmleventname=ev&[a]=1", "REGRESSION C20-F1 bracketed name (was: key a)"),
        mk(&s0, "_scxmleventname=ev&=1", "REGRESSION C20-F1 empty param name (was: whole form rejected, 422)"),
        mk(&s0, "_scxmleventname=ev&%3Dx=1", "REGRESSION C20-F1 name starting with = (was: 422)"),
        mk(&s0, "_scxmleventname=ev&a.b=1&a.c=2", "REGRESSION C20-F1 two names with the same first key (was: one entry a)"),
        mk(&s0, "_scxmleventname=ev&k:q=key&v:q=val", "REGRESSION C20-F1 k:/v: are ordinary names (was: entry key=val)"),
        mk(&s0, "_scxmleventname=ev&v:q=val", "REGRESSION C20-F1 v:q alone is an ordinary param (was: 422)"),
        mk(&s0, "_scxmleventname=ev&k:1=same&v:1=a&k:2=same&v:2=b", "REGRESSION C20-F1 four ordinary params (was: one entry same=b)"),
        mk(&s0, "k:n=_scxmleventname&v:n=sneaky", "REGRESSION C20-F1 no event name here: 400 (was: event sneaky delivered)"),
        mk(&s0, "_scxmleventname.x=ev", "REGRESSION C20-F1 _scxmleventname.x is a param, no event name: 400 (was: event ev)"),
        mk(&s0, "_scxmleventname=ev&v=%ff%fe", "invalid UTF-8 in a value is replaced"),
        PostCase { seg: s0.clone(), body: b"_scxmleventname=ev&v=\xff\xfe".to_vec(), kind: "corpus raw bytes that are not UTF-8".into(), tag: None },
        mk("%31", "_scxmleventname=ev", "percent-encoded segment (may or may not be a live id)"),
    ]
}

struct PostOutcome {
    status: Result<u16, String>,
}

/// posts the cases from `threads` threads (case i by thread i % threads, in order), then flushes
fn post_batch(env: &mut Env, cases: &[PostCase], threads: usize) -> Result<(Vec<PostOutcome>, Vec<Obs>), String> {
    let mut outs: Vec<Option<PostOutcome>> = (0..cases.len()).map(|_| None).collect();
    if threads <= 1 || cases.len() <= 1 {
        for (i, c) in cases.iter().enumerate() {
            outs[i] = Some(PostOutcome { status: http_post(&c.seg, &c.body, Some("application/x-www-form-urlencoded")) });
        }
    } else {
        let mut handles = vec![];
        for t in 0..threads {
            let mine: Vec<(usize, PostCase)> = cases.iter().enumerate().filter(|(i, _)| i % threads == t).map(|(i, c)| (i, c.clone())).collect();
            handles.push(std::thread::spawn(move || {
                mine.into_iter()
                    .map(|(i, c)| (i, http_post(&c.seg, &c.body, Some("application/x-www-form-urlencoded"))))
                    .collect::<Vec<_>>()
            }));
        }
        for h in handles {
            for (i, st) in h.join().map_err(|_| "poster thread panicked".to_string())? {
                outs[i] = Some(PostOutcome { status: st });
            }
        }
    }
    env.flush()?;
    let evs = env.take_events();
    Ok((outs.into_iter().map(|o| o.unwrap()).collect(), evs))
}

fn pct_decode(s: &[u8]) -> Vec<u8> {
    let hv = |c: u8| (c as char).to_digit(16).map(|d| d as u8);
    let mut out = vec![];
    let mut i = 0;
    while i < s.len() {
        if s[i] == b'%' && i + 2 < s.len() + 0 && i + 2 <= s.len() - 1 {
            if let (Some(h), Some(l)) = (hv(s[i + 1]), hv(s[i + 2])) {
                out.push(h * 16 + l);
                i += 3;
                continue;
            }
        }
        out.push(s[i]);
        i += 1;
    }
    out
}

fn tag_of(name: &str) -> Option<u64> {
    let i = name.rfind('#')?;
    name[i + 1..].parse().ok()
}

fn check_posts(env: &mut Env, model: &mut Model, rep: &mut Report, cases: &[PostCase], threads: usize, origin: &str) {
    let (outs, observed) = match post_batch(env, cases, threads) {
        Ok(x) => x,
        Err(e) => {
            rep.disagree(json!({"origin": origin, "machinery": e}));
            return;
        }
    };
    let single = cases.len() == 1;
    // attribute observed events to cases
    let mut per_case: Vec<Vec<Obs>> = (0..cases.len()).map(|_| vec![]).collect();
    let mut stray: Vec<Obs> = vec![];
    for o in &observed {
        if single {
            per_case[0].push(o.clone());
            continue;
        }
        match tag_of(&o.name).and_then(|t| cases.iter().position(|c| c.tag == Some(t))) {
            Some(i) => per_case[i].push(o.clone()),
            None => stray.push(o.clone()),
        }
    }
    if !stray.is_empty() {
        rep.disagree(json!({"origin": origin, "what": "events that no request of the batch explains",
            "events": stray.iter().map(|o| o.to_json()).collect::<Vec<_>>(),
            "batch": cases.iter().map(|c| c.to_json()).collect::<Vec<_>>()}));
    }
    let sidsw = sids_wire(&env.sids);
    for (i, c) in cases.iter().enumerate() {
        rep.evaluations += 1;
        if c.kind.starts_with("corpus") {
            rep.count("post_corpus");
        } else {
            for w in c.kind.split_whitespace() {
                if w.chars().all(|ch| ch.is_ascii_alphanumeric() || ch == '_' || ch == '=') {
                    rep.count(&format!("post_{}", w));
                }
            }
        }
        rep.nontrivial.insert(format!("{}|{}", c.seg, hex(&c.body)));
        let status = match &outs[i].status {
            Ok(s) => *s,
            Err(e) => {
                rep.disagree(json!({"origin": origin, "case": c.to_json(), "machinery": format!("http request failed: {}", e)}));
                continue;
            }
        };
        rep.count(&format!("status_{}", status));
        if std::str::from_utf8(&c.body).is_err() {
            // rocket reads the body with `into_string()`: a body that is not UTF-8 never reaches the form
            // parser (outside the model, which works on the bytes of a string); it must still be refused
            rep.count("post_body_not_utf8");
            if status < 400 || !per_case[i].is_empty() {
                rep.disagree(json!({"origin": origin, "case": c.to_json(), "what": "a body that is not UTF-8 was not refused",
                    "impl": {"status": status, "events": per_case[i].iter().map(|o| o.to_json()).collect::<Vec<_>>()}}));
            }
            continue;
        }
        let reply = model.ask(&format!("http post {} {} {}", sidsw, hex(c.seg.as_bytes()), hex(&c.body)));
        let (mst, mut mev) = match parse_post_reply(&reply) {
            Some(x) => x,
            None => {
                rep.disagree(json!({"origin": origin, "case": c.to_json(), "machinery": format!("model reply: {}", reply)}));
                continue;
            }
        };
        let mut got = per_case[i].clone();
        got.sort();
        mev.sort();
        if mst != status || mev != got {
            rep.disagree(json!({"origin": origin, "case": c.to_json(),
                "impl": {"status": status, "events": got.iter().map(|o| o.to_json()).collect::<Vec<_>>()},
                "model": {"status": mst, "events": mev.iter().map(|o| o.to_json()).collect::<Vec<_>>()}}));
        }
        if !got.is_empty() {
            rep.count("posts_delivered");
            match &got[0].data {
                OData::Null => rep.count("data_null"),
                OData::Text(_) => rep.count("data_content"),
                OData::Map(m) => rep.count(&format!("data_map_{}", m.len().min(4))),
                OData::Other(_) => rep.count("data_other"),
            }
        }
        // the property itself on the implementation's output (it speaks about strings: requests whose
        // decoded fields are not UTF-8 are outside it; rocket replaces the offending bytes)
        let fields = parse_pairs(&model.ask(&format!("http decode {}", hex(&c.body)))).unwrap_or_default();
        if fields.iter().any(|(k, v)| std::str::from_utf8(k).is_err() || std::str::from_utf8(v).is_err()) {
            rep.count("oracle_skipped_not_utf8");
            continue;
        }
        // RFC 3986: `%31` and `1` are the same path segment
        let segnum: Option<u32> = String::from_utf8(pct_decode(c.seg.as_bytes())).ok().and_then(|t| t.parse().ok());
        let known = segnum.map(|s| env.sids.contains(&s)).unwrap_or(false);
        let verdict = model.ask(&format!(
            "http oracle {} {} {} {} {}",
            if known { 1 } else { 0 },
            segnum.unwrap_or(0),
            hex(&c.body),
            status,
            obs_wire(&per_case[i])
        ));
        rep.count(&format!("oracle_{}", verdict.split(':').next().unwrap_or("?")));
        if verdict != "ok" && verdict != "na" {
            let sig = format!("C20:recv:{}:{}", verdict, name_class(&fields));
            oracle_fail_capped(rep, &sig, json!({"origin": origin, "case": "post", "seg": c.seg, "body_hex": hex(&c.body),
                "body_text": lossy(&c.body), "kind": c.kind, "status": status,
                "events": per_case[i].iter().map(|o| o.to_json()).collect::<Vec<_>>()}));
        }
        if rep.samples.len() < 3 && !got.is_empty() {
            rep.sample(json!({"post": c.to_json(), "status": status, "events": got.iter().map(|o| o.to_json()).collect::<Vec<_>>()}));
        }
    }
    // per producer thread and session, delivery order = posting order (each post is one atomic enqueue)
    if !single && threads > 1 {
        for t in 0..threads {
            let mut last_pos: HashMap<u32, usize> = HashMap::new();
            for (i, c) in cases.iter().enumerate().filter(|(i, _)| i % threads == t) {
                if let Some(tag) = c.tag {
                    if let Some(pos) = observed.iter().position(|o| tag_of(&o.name) == Some(tag)) {
                        let sid = observed[pos].sid;
                        if let Some(prev) = last_pos.get(&sid) {
                            if *prev > pos {
                                rep.disagree(json!({"origin": origin, "what": "posts of one producer overtook each other", "case_index": i, "session": sid}));
                            }
                        }
                        last_pos.insert(sid, pos);
                        rep.count("fifo_pairs_checked");
                    }
                }
            }
        }
    }
}

/// requests that never reach the url-encoded form parser (outside the model): other content types, an
/// oversized body, multipart.  Expectation written here: refused cleanly (status >= 400, nothing
/// enqueued), except the two that are legitimate forms.
fn check_outside(env: &mut Env, rep: &mut Report) {
    let sid = env.sids[0].to_string();
    let big = format!("_scxmleventname=big&v={}", "x".repeat(40_000));
    let mp = "--XbX\r\nContent-Disposition: form-data; name=\"_scxmleventname\"\r\n\r\nmp ev\r\n--XbX\r\nContent-Disposition: form-data; name=\"p q\"\r\n\r\na&b=c\r\n--XbX--\r\n";
    let cases: Vec<(&str, String, Option<&str>, Option<Obs>)> = vec![
        ("no content type", "_scxmleventname=ev&p=1".into(), None, None),
        ("text/plain", "_scxmleventname=ev&p=1".into(), Some("text/plain"), None),
        ("application/json", "{\"_scxmleventname\":\"ev\"}".into(), Some("application/json"), None),
        ("multipart without a valid body", "_scxmleventname=ev".into(), Some("multipart/form-data; boundary=XbX"), None),
        ("form larger than rocket's 32 KiB limit", big, Some("application/x-www-form-urlencoded"), None),
        (
            "form with a charset parameter",
            "_scxmleventname=cs&p=1".into(),
            Some("application/x-www-form-urlencoded; charset=UTF-8"),
            Some(Obs { sid: env.sids[0], name: "cs".into(), data: OData::Map(vec![("p".into(), "1".into())]) }),
        ),
        (
            "well-formed multipart/form-data",
            mp.into(),
            Some("multipart/form-data; boundary=XbX"),
            Some(Obs { sid: env.sids[0], name: "mp ev".into(), data: OData::Map(vec![("p q".into(), "a&b=c".into())]) }),
        ),
    ];
    for (what, body, ctype, expect) in cases {
        rep.evaluations += 1;
        rep.count("outside_model_cases");
        let st = http_post(&sid, body.as_bytes(), ctype);
        if let Err(e) = env.flush() {
            rep.disagree(json!({"origin": "corpus", "machinery": e}));
            return;
        }
        let evs = env.take_events();
        let ok = match (&st, &expect) {
            (Ok(s), None) => *s >= 400 && evs.is_empty(),
            (Ok(s), Some(o)) => *s == 200 && evs.len() == 1 && evs[0] == *o,
            _ => false,
        };
        if let Ok(s) = &st {
            rep.count(&format!("outside_status_{}", s));
        }
        if !ok {
            rep.disagree(json!({"origin": "corpus", "what": format!("request outside the model: {}", what), "status": format!("{:?}", st),
                "events": evs.iter().map(|o| o.to_json()).collect::<Vec<_>>(), "expected": expect.map(|o| o.to_json())}));
        }
    }
}

/// `FsmExecutor::remove_session` is never called by the crate: a session that ran to completion stays
/// in the executor's table, and a POST naming it is still answered 200 (its queue takes the event, nobody
/// reads it).  The model agrees when the finished id is part of the table; nothing may reach a live session.
fn check_finished(env: &mut Env, model: &mut Model, rep: &mut Report) {
    let Some(&fin) = env.finished.last() else { return };
    rep.evaluations += 1;
    rep.count("finished_session_cases");
    let body = b"_scxmleventname=late&p=1";
    let st = http_post(&fin.to_string(), body, Some("application/x-www-form-urlencoded"));
    if let Err(e) = env.flush() {
        rep.disagree(json!({"origin": "corpus", "machinery": e}));
        return;
    }
    let evs = env.take_events();
    let mut table = env.sids.clone();
    table.push(fin);
    let reply = model.ask(&format!("http post {} {} {}", sids_wire(&table), hex(fin.to_string().as_bytes()), hex(body)));
    let m = parse_post_reply(&reply);
    let ok = match (&st, &m) {
        (Ok(s), Some((ms, mev))) => s == ms && mev.len() == 1 && mev[0].sid == fin && evs.is_empty(),
        _ => false,
    };
    if !ok {
        rep.disagree(json!({"origin": "corpus", "what": "POST to a session that has finished", "status": format!("{:?}", st),
            "model": reply, "events_at_live_sessions": evs.iter().map(|o| o.to_json()).collect::<Vec<_>>()}));
    }
}

// ---------------------------------------------------------------------------------------------
// values of the sending side

#[derive(Clone, Debug)]
pub enum DV {
    Int(i64),
    Str(String),
    Bool(bool),
    Null,
    NoneV,
    Error(String),
    Source(String),
    Array(Vec<DV>),
    Double(f64),
    Map1(String, Box<DV>),
}

impl DV {
    fn to_data(&self) -> Data {
        match self {
            DV::Int(i) => Data::Integer(*i),
            DV::Str(s) => Data::String(s.clone()),
            DV::Bool(b) => Data::Boolean(*b),
            DV::Null => Data::Null(),
            DV::NoneV => Data::None(),
            DV::Error(s) => Data::Error(s.clone()),
            DV::Source(s) => Data::Source(SourceCode::new(s, 0)),
            DV::Array(a) => Data::Array(a.iter().map(|d| create_data_arc(d.to_data())).collect()),
            DV::Double(f) => Data::Double(*f),
            DV::Map1(k, v) => {
                let mut m = HashMap::new();
                m.insert(k.clone(), create_data_arc(v.to_data()));
                Data::Map(m)
            }
        }
    }
    /// the wire term for the model; Double and Map go as opaque text produced by the real `Display`
    fn wire(&self, out: &mut Vec<String>) {
        match self {
            DV::Int(i) => out.push(format!("i:{}", i)),
            DV::Str(s) => out.push(format!("s:{}", hex(s.as_bytes()))),
            DV::Bool(b) => out.push(format!("b:{}", if *b { 1 } else { 0 })),
            DV::Null => out.push("n".into()),
            DV::NoneV => out.push("z".into()),
            DV::Error(s) => out.push(format!("e:{}", hex(s.as_bytes()))),
            DV::Source(s) => out.push(format!("c:{}", hex(s.as_bytes()))),
            DV::Array(a) => {
                out.push(format!("a:{}", a.len()));
                for d in a {
                    d.wire(out);
                }
            }
            DV::Double(_) | DV::Map1(..) => out.push(format!("o:{}", hex(self.to_data().to_string().as_bytes()))),
        }
    }
    fn wire_str(&self) -> String {
        let mut v = vec![];
        self.wire(&mut v);
        v.join(";")
    }
    fn to_json(&self) -> Value {
        match self {
            DV::Int(i) => json!({ "int": i }),
            DV::Str(s) => json!({ "str": s }),
            DV::Bool(b) => json!({ "bool": b }),
            DV::Null => json!("null"),
            DV::NoneV => json!("none"),
            DV::Error(s) => json!({ "error": s }),
            DV::Source(s) => json!({ "source": s }),
            DV::Array(a) => json!({"array": a.iter().map(|d| d.to_json()).collect::<Vec<_>>()}),
            DV::Double(f) => json!({ "double": f.to_string() }),
            DV::Map1(k, v) => json!({"map1": [k, v.to_json()]}),
        }
    }
    fn from_json(v: &Value) -> Option<DV> {
        if v == "null" {
            return Some(DV::Null);
        }
        if v == "none" {
            return Some(DV::NoneV);
        }
        let o = v.as_object()?;
        let (k, x) = o.iter().next()?;
        Some(match k.as_str() {
            "int" => DV::Int(x.as_i64()?),
            "str" => DV::Str(x.as_str()?.to_string()),
            "bool" => DV::Bool(x.as_bool()?),
            "error" => DV::Error(x.as_str()?.to_string()),
            "source" => DV::Source(x.as_str()?.to_string()),
            "array" => DV::Array(x.as_array()?.iter().map(DV::from_json).collect::<Option<Vec<_>>>()?),
            "double" => DV::Double(x.as_str()?.parse().ok()?),
            "map1" => DV::Map1(x[0].as_str()?.to_string(), Box::new(DV::from_json(&x[1])?)),
            _ => return None,
        })
    }
    /// a literal of the rfsm-expression language evaluating to this value (e2e cases only)
    fn literal(&self) -> Option<String> {
        Some(match self {
            DV::Int(i) => i.to_string(),
            DV::Str(s) => {
                if s.contains('\'') || s.contains('\\') || s.chars().any(|c| (c as u32) < 0x20) {
                    return None;
                }
                format!("'{}'", s)
            }
            DV::Bool(b) => b.to_string(),
            DV::Null => "null".to_string(),
            // <param expr="[..]"> is rejected by evaluate_params ("Can't return array"): not expressible
            DV::Array(_) => return None,
            DV::Double(f) => {
                let t = f.to_string();
                if !t.contains('.') || t.contains('e') || t.contains("inf") || t.contains("NaN") {
                    return None;
                }
                t
            }
            _ => return None,
        })
    }
}

fn gen_dv(p: &mut Prng, depth: u32, literal_only: bool) -> DV {
    let r = p.below(if literal_only { 7 } else { 11 });
    match r {
        0 => DV::Int(*p.pick(&[0i64, 1, -1, 42, -17, 123456789, i64::MAX, i64::MIN + 1, 1000000])),
        1 | 2 => {
            let mut s = gen_text(p, true, false);
            if literal_only {
                s = s.chars().filter(|c| *c != '\'' && *c != '\\' && (*c as u32) >= 0x20).collect();
            }
            DV::Str(s)
        }
        3 => DV::Bool(p.chance(1, 2)),
        4 => DV::Null,
        5 => DV::Double(*p.pick(&[0.5f64, 1.5, -2.25, 1234.0625, 0.1, 100.5])),
        6 => {
            if depth >= 2 || literal_only {
                DV::Int(7)
            } else {
                let n = p.below(4);
                DV::Array((0..n).map(|_| gen_dv(p, depth + 1, literal_only)).collect())
            }
        }
        7 => DV::NoneV,
        8 => DV::Error(gen_text(p, true, false)),
        9 => DV::Source(gen_text(p, true, false)),
        _ => DV::Map1(gen_text(p, true, false), Box::new(gen_dv(p, 2, false))),
    }
}

#[derive(Clone, Debug)]
pub struct SendCase {
    pub name: String,
    pub params: Option<Vec<(String, DV)>>,
    pub content: Option<DV>,
}

impl SendCase {
    fn to_json(&self) -> Value {
        json!({"case": "send", "name": self.name,
            "params": self.params.as_ref().map(|ps| ps.iter().map(|(k, v)| json!([k, v.to_json()])).collect::<Vec<_>>()),
            "content": self.content.as_ref().map(|c| c.to_json())})
    }
    fn from_json(v: &Value) -> Option<SendCase> {
        let params = match v.get("params") {
            Some(Value::Array(a)) => Some(a.iter().map(|e| Some((e[0].as_str()?.to_string(), DV::from_json(&e[1])?))).collect::<Option<Vec<_>>>()?),
            _ => None,
        };
        let content = match v.get("content") {
            Some(Value::Null) | None => None,
            Some(c) => Some(DV::from_json(c)?),
        };
        Some(SendCase { name: v["name"].as_str()?.to_string(), params, content })
    }
    fn event(&self) -> Event {
        let mut e = Event::new_simple(&self.name);
        e.param_values = self.params.as_ref().map(|ps| ps.iter().map(|(k, v)| ParamPair::new_moved(k.clone(), v.to_data())).collect());
        e.content = self.content.as_ref().map(|c| c.to_data());
        e
    }
    fn model_args(&self) -> String {
        let params = match &self.params {
            None => "N".to_string(),
            Some(ps) if ps.is_empty() => "N".to_string(), // `send` treats Some([]) like None: no pairs
            Some(ps) => ps.iter().map(|(k, v)| format!("{}~{}", hex(k.as_bytes()), v.wire_str())).collect::<Vec<_>>().join("|"),
        };
        let content = match &self.content {
            None => "N".to_string(),
            Some(c) => c.wire_str(),
        };
        format!("{} {} {}", hex(self.name.as_bytes()), params, content)
    }
}

fn gen_send(p: &mut Prng, tag: u64, literal_only: bool) -> SendCase {
    let name = format!("{}#{}", gen_text(p, true, false), tag);
    let structural = p.chance(1, 10);
    match p.below(10) {
        0 => SendCase { name, params: None, content: None },
        1 | 2 => SendCase { name, params: None, content: Some(gen_dv(p, 0, literal_only)) },
        3 if !literal_only => SendCase { name, params: Some(vec![]), content: Some(gen_dv(p, 0, false)) },
        _ => {
            let n = p.range(1, 4);
            let mut ps: Vec<(String, DV)> = vec![];
            for _ in 0..n {
                let mut k = gen_text(p, false, structural);
                if literal_only {
                    k = k.chars().filter(|c| (*c as u32) >= 0x20).collect();
                    if k.is_empty() {
                        k.push('k');
                    }
                }
                if ps.iter().any(|(q, _)| *q == k) && !p.chance(1, 6) {
                    k.push_str(&ps.len().to_string());
                }
                ps.push((k, gen_dv(p, 0, literal_only)));
            }
            SendCase { name, params: Some(ps), content: None }
        }
    }
}

fn send_corpus() -> Vec<SendCase> {
    let s = |x: &str| DV::Str(x.to_string());
    vec![
        SendCase { name: "leave".into(), params: Some(vec![("p1".into(), s("abc")), ("p2".into(), DV::Int(123))]), content: None },
        SendCase { name: "a b+c&d=e%f".into(), params: Some(vec![("k 1".into(), s("v 1")), ("é".into(), s("日本")), ("e".into(), s(""))]), content: None },
        SendCase { name: "".into(), params: None, content: None },
        SendCase { name: "c".into(), params: None, content: Some(s("hello world & more")) },
        SendCase { name: "types".into(), params: Some(vec![
            ("i".into(), DV::Int(-5)), ("b".into(), DV::Bool(true)), ("n".into(), DV::Null), ("z".into(), DV::NoneV),
            ("e".into(), DV::Error("boom".into())), ("src".into(), DV::Source("1+2".into())),
            ("arr".into(), DV::Array(vec![DV::Int(1), s("x"), DV::Array(vec![DV::Bool(false)]), DV::Null])),
            ("d".into(), DV::Double(1.5)), ("m".into(), DV::Map1("k".into(), Box::new(DV::Int(1))))]), content: None },
        SendCase { name: "dup".into(), params: Some(vec![("p".into(), DV::Int(1)), ("p".into(), DV::Int(2))]), content: None },
        SendCase { name: "reserved".into(), params: Some(vec![(EVENT_NAME.into(), s("hijack")), (CONTENT.into(), s("c"))]), content: None },
        // REGRESSION C20-F1: param names that rocket used to read structurally (event lost / key truncated)
        SendCase { name: "colon".into(), params: Some(vec![("x:y".into(), DV::Int(1))]), content: None },
        SendCase { name: "dot".into(), params: Some(vec![("a.b".into(), DV::Int(1))]), content: None },
        SendCase { name: "both".into(), params: Some(vec![]), content: Some(s("with empty params")) },
    ]
}

struct Captured {
    request_line: String,
    content_type: String,
    body: Vec<u8>,
}

fn capture_send(env: &Env, c: &SendCase, path_sid: u32) -> Result<Captured, String> {
    let listener = TcpListener::bind(("127.0.0.1", 0)).map_err(|e| e.to_string())?;
    let port = listener.local_addr().map_err(|e| e.to_string())?.port();
    let (tx, rx) = mpsc::channel();
    let h = std::thread::spawn(move || {
        let r = (|| -> Result<Captured, String> {
            listener.set_nonblocking(false).ok();
            let (mut s, _) = listener.accept().map_err(|e| e.to_string())?;
            s.set_read_timeout(Some(Duration::from_secs(10))).ok();
            let mut buf = Vec::new();
            let mut tmp = [0u8; 4096];
            let (head_end, clen) = loop {
                let n = s.read(&mut tmp).map_err(|e| e.to_string())?;
                if n == 0 {
                    return Err("connection closed before the header ended".into());
                }
                buf.extend_from_slice(&tmp[..n]);
                if let Some(pos) = buf.windows(4).position(|w| w == b"\r\n\r\n") {
                    let head = String::from_utf8_lossy(&buf[..pos]).to_string();
                    let clen = head
                        .lines()
                        .find_map(|l| {
                            let (k, v) = l.split_once(':')?;
                            if k.eq_ignore_ascii_case("content-length") {
                                v.trim().parse::<usize>().ok()
                            } else {
                                None
                            }
                        })
                        .ok_or("no content-length")?;
                    break (pos + 4, clen);
                }
            };
            while buf.len() < head_end + clen {
                let n = s.read(&mut tmp).map_err(|e| e.to_string())?;
                if n == 0 {
                    break;
                }
                buf.extend_from_slice(&tmp[..n]);
            }
            let head = String::from_utf8_lossy(&buf[..head_end]).to_string();
            let _ = s.write_all(b"HTTP/1.1 200 OK\r\nContent-Length: 0\r\nConnection: close\r\n\r\n");
            let content_type = head
                .lines()
                .find_map(|l| {
                    let (k, v) = l.split_once(':')?;
                    if k.eq_ignore_ascii_case("content-type") {
                        Some(v.trim().to_string())
                    } else {
                        None
                    }
                })
                .unwrap_or_default();
            Ok(Captured { request_line: head.lines().next().unwrap_or("").to_string(), content_type, body: buf[head_end..].to_vec() })
        })();
        let _ = tx.send(r);
    });
    let proc_ = {
        let st = env.executor.state.lock().map_err(|_| "executor state poisoned")?;
        st.processors
            .iter()
            .find(|p| p.lock().map(|g| g.get_types().contains(&"basichttp")).unwrap_or(false))
            .cloned()
            .ok_or("no basichttp processor registered")?
    };
    let global = env.sessions[0].global_data.clone();
    let target = format!("http://127.0.0.1:{}/scxml/{}", port, path_sid);
    let ok = proc_.lock().map_err(|_| "processor poisoned")?.send(&global, &target, c.event());
    if !ok {
        return Err("send returned false".into());
    }
    let r = rx.recv_timeout(Duration::from_secs(10)).map_err(|e| format!("nothing captured: {}", e))?;
    let _ = h.join();
    r
}

fn check_send(env: &mut Env, model: &mut Model, rep: &mut Report, c: &SendCase, origin: &str) {
    rep.evaluations += 1;
    rep.count("send_cases");
    let sid = env.sids[rep.evaluations as usize % env.sids.len()];
    let cap = match capture_send(env, c, sid) {
        Ok(c) => c,
        Err(e) => {
            rep.disagree(json!({"origin": origin, "case": c.to_json(), "machinery": e}));
            return;
        }
    };
    let reply = model.ask(&format!("http sendbody {}", c.model_args()));
    let mbody = reply.split(' ').next().and_then(unhex);
    rep.nontrivial.insert(format!("send|{}", hex(&cap.body)));
    let expect_line = format!("POST /scxml/{} HTTP/1.1", sid);
    if mbody.as_deref() != Some(&cap.body[..]) || cap.request_line != expect_line || cap.content_type != "application/x-www-form-urlencoded" {
        rep.disagree(json!({"origin": origin, "case": c.to_json(),
            "impl": {"request_line": cap.request_line, "content_type": cap.content_type, "body": lossy(&cap.body)},
            "model": {"request_line": expect_line, "body": mbody.map(|b| lossy(&b)), "reply": reply}}));
        return;
    }
    match &c.params {
        Some(ps) => rep.count(&format!("send_params_{}", ps.len().min(4))),
        None => rep.count("send_params_none"),
    }
    if c.content.is_some() {
        rep.count("send_content");
    }
    // what was captured goes to the real server: send → receive on the real code
    let pc = PostCase { seg: sid.to_string(), body: cap.body, kind: "captured_from_send".into(), tag: None };
    check_posts(env, model, rep, &[pc], 1, origin);
}

// ---------------------------------------------------------------------------------------------
// end to end: <send type="…BasicHTTPEventProcessor"> from one session to another

#[derive(Clone, Debug)]
pub struct E2eCase {
    pub send: SendCase,
    pub short_type: bool,
    pub target_expr: bool,
    pub event_expr: bool,
    pub delay_ms: u32,
    pub receiver: usize,
}

impl E2eCase {
    fn to_json(&self) -> Value {
        json!({"case": "e2e", "send": self.send.to_json(), "short_type": self.short_type, "target_expr": self.target_expr,
            "event_expr": self.event_expr, "delay_ms": self.delay_ms, "receiver": self.receiver})
    }
    fn from_json(v: &Value) -> Option<E2eCase> {
        Some(E2eCase {
            send: SendCase::from_json(&v["send"])?,
            short_type: v["short_type"].as_bool()?,
            target_expr: v["target_expr"].as_bool()?,
            event_expr: v["event_expr"].as_bool()?,
            delay_ms: v["delay_ms"].as_u64()? as u32,
            receiver: v["receiver"].as_u64()? as usize,
        })
    }
    fn document(&self, location: &str) -> Option<String> {
        let mut d = String::from("<scxml xmlns=\"http://www.w3.org/2005/07/scxml\" version=\"1.0\" datamodel=\"rfsm-expression\" initial=\"s0\"><state id=\"s0\"><onentry><send");
        d.push_str(&format!(" type=\"{}\"", if self.short_type { "basichttp" } else { TYPE_LONG }));
        if self.target_expr {
            d.push_str(&format!(" targetexpr=\"{}\"", xml_attr(&DV::Str(location.to_string()).literal()?)));
        } else {
            d.push_str(&format!(" target=\"{}\"", xml_attr(location)));
        }
        if self.event_expr {
            d.push_str(&format!(" eventexpr=\"{}\"", xml_attr(&DV::Str(self.send.name.clone()).literal()?)));
        } else {
            d.push_str(&format!(" event=\"{}\"", xml_attr(&self.send.name)));
        }
        if self.delay_ms > 0 {
            d.push_str(&format!(" delay=\"{}ms\"", self.delay_ms));
        }
        d.push('>');
        if let Some(c) = &self.send.content {
            d.push_str(&format!("<content expr=\"{}\"/>", xml_attr(&c.literal()?)));
        } else if let Some(ps) = &self.send.params {
            for (k, v) in ps {
                d.push_str(&format!("<param name=\"{}\" expr=\"{}\"/>", xml_attr(k), xml_attr(&v.literal()?)));
            }
        }
        d.push_str("</send></onentry><transition event=\"quit\" target=\"end\"/></state><final id=\"end\"/></scxml>");
        Some(d)
    }
}

fn gen_e2e(p: &mut Prng, tag: u64, nrecv: usize) -> E2eCase {
    let mut send = gen_send(p, tag, true);
    let event_expr = p.chance(1, 2);
    if !event_expr {
        // the `event` attribute: keep to characters the reader passes through unchanged
        let base: String = send.name.chars().filter(|c| !c.is_whitespace() && *c != '\'' && *c != '\\').collect();
        send.name = base;
    } else {
        send.name = send.name.chars().filter(|c| *c != '\'' && *c != '\\' && (*c as u32) >= 0x20).collect();
    }
    if let Some(ps) = &send.params {
        if ps.is_empty() {
            send.params = None;
        }
    }
    E2eCase {
        send,
        short_type: p.chance(1, 2),
        target_expr: p.chance(1, 2),
        event_expr,
        delay_ms: if p.chance(1, 8) { 15 } else { 0 },
        receiver: p.below(nrecv as u64) as usize,
    }
}

fn e2e_corpus() -> Vec<E2eCase> {
    let s = |x: &str| DV::Str(x.to_string());
    let mk = |send: SendCase, short_type: bool, target_expr: bool, event_expr: bool, delay_ms: u32| E2eCase { send, short_type, target_expr, event_expr, delay_ms, receiver: 0 };
    vec![
        // the project's own example (examples/BasicHTTPIOProcessor.scxml)
        mk(SendCase { name: "leave".into(), params: Some(vec![("p1".into(), s("abc")), ("p2".into(), DV::Int(123))]), content: None }, false, true, false, 20),
        mk(SendCase { name: "e.v".into(), params: Some(vec![("k 1".into(), s("a b+c&d=e%f")), ("é".into(), s("日本 😀"))]), content: None }, true, false, false, 0),
        mk(SendCase { name: "with space & more".into(), params: None, content: Some(s("some content = 100%")) }, true, true, true, 0),
        mk(SendCase { name: "t".into(), params: Some(vec![("i".into(), DV::Int(-5)), ("b".into(), DV::Bool(false)), ("n".into(), DV::Null), ("d".into(), DV::Double(1.5))]), content: None }, false, false, false, 0),
        // REGRESSION C20-F1: <param name="x:y"> was lost on the way (422, ignored by send), "a.b" arrived as "a"
        mk(SendCase { name: "colon".into(), params: Some(vec![("x:y".into(), DV::Int(1))]), content: None }, true, false, false, 0),
        mk(SendCase { name: "dot".into(), params: Some(vec![("a.b".into(), DV::Int(1))]), content: None }, true, false, false, 0),
    ]
}

fn check_e2e(env: &mut Env, model: &mut Model, rep: &mut Report, c: &E2eCase, origin: &str) {
    rep.evaluations += 1;
    rep.count("e2e_cases");
    let rsid = env.sids[c.receiver % env.sids.len()];
    let (loc_short, loc_long) = match env.shared.locations.lock().unwrap().get(&rsid) {
        Some(l) => l.clone(),
        None => {
            rep.disagree(json!({"origin": origin, "machinery": format!("session {} did not publish _ioprocessors locations", rsid)}));
            return;
        }
    };
    let mloc = unhex(&model.ask(&format!("http location {}", rsid))).map(|b| lossy(&b));
    if mloc.as_deref() != Some(&loc_short) || loc_short != loc_long {
        // reported; the case still runs with what the session published (a wrong location loses the event)
        rep.disagree(json!({"origin": origin, "what": "location published in _ioprocessors", "impl": [loc_short, loc_long], "model": mloc}));
    }
    let doc = match c.document(&loc_short) {
        Some(d) => d,
        None => {
            rep.count("e2e_not_expressible");
            return;
        }
    };
    let fsm = match scxml_reader::parse_from_xml(doc.clone()) {
        Ok(f) => f,
        Err(e) => {
            rep.disagree(json!({"origin": origin, "case": c.to_json(), "machinery": format!("generated document does not parse: {}", e), "doc": doc}));
            return;
        }
    };
    // model: what `send` emits, fed to `receive`
    let reply = model.ask(&format!("http sendbody {}", c.send.model_args()));
    let body = match reply.split(' ').next().and_then(unhex) {
        Some(b) => b,
        None => {
            rep.disagree(json!({"origin": origin, "case": c.to_json(), "machinery": format!("model reply {}", reply)}));
            return;
        }
    };
    let preply = model.ask(&format!("http post {} {} {}", sids_wire(&env.sids), hex(rsid.to_string().as_bytes()), hex(&body)));
    let (mst, mut mev) = match parse_post_reply(&preply) {
        Some(x) => x,
        None => {
            rep.disagree(json!({"origin": origin, "case": c.to_json(), "machinery": format!("model reply {}", preply)}));
            return;
        }
    };
    let mut session = fsm::start_fsm_with_data_and_finish_mode(fsm, actions(&env.shared), Box::new(env.executor.clone()), &[], FinishMode::DISPOSE);
    env.finished.push(session.session_id);
    // the send runs in onentry of the initial state; `quit` is queued behind it.  A delayed send is
    // fired by the session's timer: wait for the arrival (or, when none is expected, a fixed time)
    if c.delay_ms > 0 {
        let t0 = Instant::now();
        let limit = if mev.is_empty() { Duration::from_millis(c.delay_ms as u64 + 300) } else { Duration::from_secs(10) };
        while t0.elapsed() < limit {
            if !mev.is_empty() && !env.shared.events.lock().unwrap().is_empty() {
                break;
            }
            std::thread::sleep(Duration::from_millis(2));
        }
    }
    let _ = session.sender.send(Box::new(Event::new_simple("quit")));
    if let Some(h) = session.thread.take() {
        let t0 = Instant::now();
        while !h.is_finished() {
            if t0.elapsed() > Duration::from_secs(20) {
                rep.disagree(json!({"origin": origin, "case": c.to_json(), "machinery": "sending session did not finish within 20 s"}));
                return;
            }
            std::thread::sleep(Duration::from_micros(200));
        }
        if h.join().is_err() {
            rep.disagree(json!({"origin": origin, "case": c.to_json(), "what": "sending session panicked"}));
        }
    }
    if let Err(e) = env.flush() {
        rep.disagree(json!({"origin": origin, "machinery": e}));
        return;
    }
    let mut got = env.take_events();
    got.sort();
    rep.nontrivial.insert(format!("e2e|{}|{}{}{}", hex(&body), c.short_type, c.target_expr, c.event_expr));
    mev.sort();
    if mev != got {
        rep.disagree(json!({"origin": origin, "case": c.to_json(), "doc": doc,
            "impl": {"events": got.iter().map(|o| o.to_json()).collect::<Vec<_>>()},
            "model": {"status": mst, "events": mev.iter().map(|o| o.to_json()).collect::<Vec<_>>()}}));
    }
    if !got.is_empty() {
        rep.count("e2e_delivered");
    }
    if c.delay_ms > 0 {
        rep.count("e2e_delayed");
    }
    rep.count(if c.short_type { "e2e_type_basichttp" } else { "e2e_type_uri" });
    // the statement: same name, textual form of each parameter (status is not observable here: the
    // sender ignores it; a delivered event implies 200)
    let verdict = model.ask(&format!("http oracle 1 {} {} {} {}", rsid, hex(&body), if got.is_empty() { mst } else { 200 }, obs_wire(&got)));
    rep.count(&format!("oracle_{}", verdict.split(':').next().unwrap_or("?")));
    if verdict != "ok" && verdict != "na" {
        let fields = parse_pairs(&model.ask(&format!("http decode {}", hex(&body)))).unwrap_or_default();
        let sig = format!("C20:e2e:{}:{}", verdict, name_class(&fields));
        let mut j = c.to_json();
        j["origin"] = json!(origin);
        j["events"] = json!(got.iter().map(|o| o.to_json()).collect::<Vec<_>>());
        oracle_fail_capped(rep, &sig, j);
    }
    if c.send.params.is_some() {
        rep.sample(json!({"e2e": c.to_json(), "arrived": got.iter().map(|o| o.to_json()).collect::<Vec<_>>()}));
    }
}

// ---------------------------------------------------------------------------------------------

pub fn run(args: &Args, model: &mut Model) -> Report {
    let mut rep = Report::new(
        "c20",
        "case = one HTTP request to the real rocket server (path segment, raw body), one capture of what \
         BasicHTTPEventIOProcessor::send emits, or one generated <send> document; distinct by segment+body / captured \
         body / body+attribute choice; all are non-trivial (each needs the real server, a real session and the model)",
    );
    let mut env = match Env::start(4) {
        Ok(e) => e,
        Err(e) => {
            rep.disagree(json!({"machinery": e}));
            eprintln!("C20: {}", e);
            return rep;
        }
    };
    rep.extra.insert("sessions".into(), json!(env.sids));
    let mut b: BTreeMap<String, Value> = BTreeMap::new();
    for (sid, (a, l)) in env.shared.locations.lock().unwrap().iter() {
        b.insert(sid.to_string(), json!([a, l]));
    }
    rep.extra.insert("locations".into(), json!(b));

    if let Some(path) = &args.replay {
        let v: Value = serde_json::from_str(&std::fs::read_to_string(path).unwrap()).unwrap();
        match v["case"].as_str() {
            Some("send") => {
                if let Some(c) = SendCase::from_json(&v) {
                    check_send(&mut env, model, &mut rep, &c, "replay");
                }
            }
            Some("e2e") => {
                if let Some(c) = E2eCase::from_json(&v) {
                    check_e2e(&mut env, model, &mut rep, &c, "replay");
                }
            }
            _ => {
                // session ids differ from run to run: a live id of the recorded run is mapped to a live id now
                let mut seg = v["seg"].as_str().unwrap_or("0").to_string();
                if v["kind"].as_str().map(|k| k.contains("seg_live") || k.contains("corpus") || k.contains("captured")).unwrap_or(false) && seg.parse::<u32>().map(|s| s < 100000).unwrap_or(false) && !v["kind"].as_str().unwrap_or("").contains("unknown") {
                    seg = env.sids[0].to_string();
                }
                let c = PostCase { seg, body: unhex(v["body_hex"].as_str().unwrap_or("-")).unwrap_or_default(), kind: "replay".into(), tag: None };
                check_posts(&mut env, model, &mut rep, &[c], 1, "replay");
            }
        }
        env.stop();
        return rep;
    }

    // corpus, one request at a time
    for c in post_corpus(&env.sids.clone()) {
        check_posts(&mut env, model, &mut rep, &[c], 1, "corpus");
    }
    check_outside(&mut env, &mut rep);
    for c in send_corpus() {
        check_send(&mut env, model, &mut rep, &c, "corpus");
    }
    for c in e2e_corpus() {
        check_e2e(&mut env, model, &mut rep, &c, "corpus");
    }
    check_finished(&mut env, model, &mut rep);

    // generated posts: batches from several threads
    let (nbatches, nsend, ne2e) = if args.thorough { (14000, 16000, 6000) } else { (300, 500, 200) };
    let sids = env.sids.clone();
    let mut tag: u64 = 1_000;
    for bi in 0..nbatches {
        let mut p = Prng::for_case(args.seed, bi);
        let threads = p.range(2, 6) as usize;
        let n = p.range(8, 24) as usize;
        let cases: Vec<PostCase> = (0..n)
            .map(|_| {
                tag += 1;
                gen_post(&mut p, &sids, tag)
            })
            .collect();
        rep.count(&format!("batch_threads_{}", threads));
        check_posts(&mut env, model, &mut rep, &cases, threads, &format!("gen-post seed={} batch={}", args.seed, bi));
    }
    for i in 0..nsend {
        let mut p = Prng::for_case(args.seed, 1_000_000 + i);
        tag += 1;
        let c = gen_send(&mut p, tag, false);
        check_send(&mut env, model, &mut rep, &c, &format!("gen-send seed={} index={}", args.seed, i));
    }
    for i in 0..ne2e {
        let mut p = Prng::for_case(args.seed, 2_000_000 + i);
        tag += 1;
        let c = gen_e2e(&mut p, tag, sids.len());
        check_e2e(&mut env, model, &mut rep, &c, &format!("gen-e2e seed={} index={}", args.seed, i));
    }
    env.stop();
    rep
}
