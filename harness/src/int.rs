//! Interpreter correspondence (M-INT + M-EXEC + VDM) and the oracles of the properties that live
//! on it (C01 legal configurations, C02 optimal transition set / order / determinism, C03
//! run-to-completion, C06 history, C07 finals and shutdown).
//!
//! One case = (generated document, external event sequence).  The document is parsed by the real
//! XML reader, its tables are dumped and sent to the Lean driver together with the events; the
//! real interpreter runs the same events in a real session (real executor, real I/O processor,
//! verification data model).  The two observation streams — selections, exits, entries, content
//! blocks, every data-model call, internal/external events, idle points — must be equal.
use crate::dump::dump;
use crate::gen_doc::{self, Knobs};
use crate::obs::{run_child_session_feed, run_session_feed, RunOut};
use crate::prng::Prng;
use crate::proto::{hexs, Model};
use crate::report::Report;
use crate::Args;
use rufsm::actions::ActionWrapper;
use rufsm::fsm::Event;
use rufsm::scxml_reader;
use serde_json::json;
use std::collections::HashMap;
use std::time::Duration;

pub struct Case {
    pub xml: String,
    pub events: Vec<String>,
    /// false: all events arrive as one burst while the session is idle after start-up;
    /// true: one event at a time, each after the session went idle again
    pub single: bool,
    /// run the machine as an invoked child of a simulated parent session (invoke id `inv1`)
    pub child: bool,
    pub origin: String,
}

pub const CHILD_INVOKE_ID: &str = "inv1";

pub fn batches_of(events: &[String], single: bool) -> Vec<Vec<String>> {
    // the harness always ends with the platform cancel event
    let mut all: Vec<String> = events.to_vec();
    all.push("error.platform.cancel".to_string());
    if single {
        all.into_iter().map(|e| vec![e]).collect()
    } else {
        vec![all]
    }
}

pub struct ImplRun {
    pub doc: String,
    pub names: HashMap<String, u32>,
    pub out: RunOut,
    /// observation stream in the driver's notation
    pub obs: Vec<String>,
}

/// tracer / vdm log line → observation in the notation of `Driver.Int.showObs`
fn canon_line(l: &str) -> Option<String> {
    if let Some(n) = l.strip_prefix("ext ") {
        Some(format!("ext:{}", hexs(n)))
    } else if l == "ext " || l == "ext" {
        Some("ext:-".to_string())
    } else if let Some(n) = l.strip_prefix("int ") {
        Some(format!("int:{}", hexs(n)))
    } else if let Some(v) = l.strip_prefix("res enabledTransitions=") {
        let inner = v.trim().trim_start_matches('[').trim_end_matches(']');
        Some(format!("sel:{}", if inner.is_empty() { "." } else { inner }))
    } else if let Some(n) = l.strip_prefix("exit ") {
        Some(format!("exit:{}", n))
    } else if let Some(n) = l.strip_prefix("enter ") {
        Some(format!("enter:{}", n))
    } else if let Some(n) = l.strip_prefix("arg contentId=") {
        Some(format!("content:{}", n))
    } else if let Some(n) = l.strip_prefix("isend ") {
        Some(format!("isend:{}", hexs(n)))
    } else if l == "m> externalQueue.dequeue" {
        Some("idle".to_string())
    } else if let Some(t) = l.strip_prefix("dm ") {
        Some(format!("dm:{}", hexs(t)))
    } else {
        None
    }
}

pub fn run_impl_fsm(fsm: Box<rufsm::fsm::Fsm>, batches: &[Vec<String>], idle_before: &[usize], timeout: Duration, child: bool) -> ImplRun {
    let doc = dump(&fsm);
    let names: HashMap<String, u32> = fsm.states.iter().map(|s| (s.name.clone(), s.id)).collect();
    let evs: Vec<Vec<Event>> = batches.iter().map(|b| b.iter().map(|n| Event::new_simple(n)).collect()).collect();
    let out = if child {
        run_child_session_feed(fsm, CHILD_INVOKE_ID, &evs, idle_before, timeout, true)
    } else {
        run_session_feed(fsm, &evs, idle_before, true, timeout, true)
    };
    let obs = out.trace.iter().filter_map(|l| canon_line(l)).collect();
    ImplRun { doc, names, out, obs }
}

pub fn parse(xml: &str) -> Result<Box<rufsm::fsm::Fsm>, String> {
    let x = xml.to_string();
    std::panic::catch_unwind(move || scxml_reader::parse_from_xml(x)).unwrap_or_else(|_| Err("reader panicked".to_string()))
}

pub struct ModelRun {
    pub obs: Vec<String>,
    pub status: String,
    pub final_cfg: Option<String>,
    /// number of `idle` observations before each batch is delivered
    pub idle_before: Vec<usize>,
    /// number of `done.invoke` notifications sent to the parent session
    pub done_invokes: usize,
}

const MODEL_ONLY: &[&str] = &["dropped:", "final:", "invoke:", "cancelinv:", "forward:", "doneinvoke", "feed"];

pub fn run_model(model: &mut Model, doc: &str, batches: &[Vec<String>], child: bool) -> ModelRun {
    let feed = if batches.is_empty() {
        "!".to_string()
    } else {
        batches
            .iter()
            .map(|b| if b.is_empty() { ".".to_string() } else { b.iter().map(|n| format!("{}:!", hexs(n))).collect::<Vec<_>>().join("|") })
            .collect::<Vec<_>>()
            .join("^")
    };
    let reply = if child {
        model.ask(&format!("int run {} {} {} 1", doc, feed, hexs(CHILD_INVOKE_ID)))
    } else {
        model.ask(&format!("int run {} {} ! 0", doc, feed))
    };
    let mut done_invokes = 0usize;
    let mut parts = reply.rsplitn(2, ' ');
    let status = parts.next().unwrap_or("").to_string();
    let tr = parts.next().unwrap_or("");
    let mut obs = vec![];
    let mut final_cfg = None;
    let mut idle_before = vec![];
    let mut idles = 0usize;
    if tr != "." {
        for o in tr.split(';') {
            if o == "idle" {
                idles += 1;
            }
            if o == "feed" {
                idle_before.push(idles);
            }
            if o == "doneinvoke" {
                done_invokes += 1;
            }
            if let Some(c) = o.strip_prefix("final:") {
                final_cfg = Some(c.to_string());
            }
            if MODEL_ONLY.iter().any(|p| o.starts_with(p)) {
                continue;
            }
            obs.push(o.to_string());
        }
    }
    ModelRun { obs, status, final_cfg, idle_before, done_invokes }
}

/// configurations at the end of every `enterStates` (i.e. after start-up and after every
/// microstep), reconstructed from the implementation's enter/exit stream; plus clean-step faults
pub struct CfgHistory {
    pub boundaries: Vec<Vec<u32>>,
    /// transitions selected for the microstep that ended at each boundary (empty for start-up)
    pub boundary_ts: Vec<Vec<u32>>,
    /// (description, transitions taken in that microstep)
    pub faults: Vec<(String, Vec<u32>)>,
    pub microsteps: usize,
    pub multi_transition_steps: usize,
}

pub fn cfg_history(raw: &[String]) -> CfgHistory {
    let mut cfg: Vec<u32> = vec![];
    let mut h = CfgHistory { boundaries: vec![], boundary_ts: vec![], faults: vec![], microsteps: 0, multi_transition_steps: 0 };
    let mut selected: Vec<u32> = vec![];
    for l in raw {
        if let Some(n) = l.strip_prefix("enter ") {
            let id: u32 = n.parse().unwrap_or(0);
            if cfg.contains(&id) {
                h.faults.push((format!("state {} entered while active", id), selected.clone()));
            } else {
                cfg.push(id);
            }
        } else if let Some(n) = l.strip_prefix("exit ") {
            let id: u32 = n.parse().unwrap_or(0);
            if !cfg.contains(&id) {
                h.faults.push((format!("state {} exited while inactive", id), selected.clone()));
            }
            cfg.retain(|x| *x != id);
        } else if l == "m< enterStates" {
            h.boundaries.push(cfg.clone());
            h.boundary_ts.push(selected.clone());
            selected.clear();
        } else if l == "m> microstep" {
            h.microsteps += 1;
        } else if let Some(v) = l.strip_prefix("res enabledTransitions=") {
            if v.contains(',') {
                h.multi_transition_steps += 1;
            }
            let inner = v.trim().trim_start_matches('[').trim_end_matches(']');
            selected = inner.split(',').filter_map(|x| x.trim().parse().ok()).collect();
        }
    }
    h
}

fn first_diff(a: &[String], b: &[String]) -> usize {
    let n = a.len().min(b.len());
    for i in 0..n {
        if a[i] != b[i] {
            return i;
        }
    }
    n
}

fn window(v: &[String], at: usize) -> Vec<String> {
    let lo = at.saturating_sub(6);
    let hi = (at + 4).min(v.len());
    v[lo..hi].to_vec()
}

pub struct CaseOut {
    pub imp: Option<ImplRun>,
    pub agreed: bool,
    pub idle_before: Vec<usize>,
}

/// model vs implementation on one case; fills the report; returns the implementation run for the
/// property oracles
pub fn correspond(c: &Case, model: &mut Model, rep: &mut Report, prop: &str) -> CaseOut {
    rep.evaluations += 1;
    // ask the model first: a document that diverges (endless eventless / raise loop) would make
    // the real interpreter spin forever as well — such cases are counted and skipped
    let fsm = match parse(&c.xml) {
        Ok(f) => f,
        Err(e) => {
            rep.count("reader_rejected");
            rep.disagree(json!({"origin": c.origin, "xml": c.xml, "reader_error": e}));
            return CaseOut { imp: None, agreed: false, idle_before: vec![] };
        }
    };
    let doc0 = dump(&fsm);
    // non-vacuity of the theorems' hypothesis: the reader's tables satisfy `conformantB`
    match model.ask(&format!("int conformant {}", doc0)).as_str() {
        "1" => rep.count("docs_conformant"),
        "0" => {
            rep.count("docs_not_conformant");
            if rep.extra.get("first_not_conformant").is_none() {
                rep.extra.insert("first_not_conformant".to_string(), json!({"origin": c.origin, "xml": c.xml}));
            }
        }
        _ => rep.disagree(json!({"origin": c.origin, "xml": c.xml, "model": "conformant: bad-op"})),
    }
    let batches = batches_of(&c.events, c.single);
    let pre = run_model(model, &doc0, &batches, c.child);
    if pre.status == "diverged" {
        rep.count("skipped_model_diverges");
        return CaseOut { imp: None, agreed: true, idle_before: vec![] };
    }
    if pre.status == "bad-op" || pre.status.is_empty() {
        rep.disagree(json!({"origin": c.origin, "xml": c.xml, "events": c.events, "single": c.single, "child": c.child, "model": "bad-op"}));
        return CaseOut { imp: None, agreed: false, idle_before: vec![] };
    }
    let imp = run_impl_fsm(fsm, &batches, &pre.idle_before, Duration::from_secs(20), c.child);
    // the verification data model computes in i64 (the Lean one in unbounded Int): a document that keeps
    // doubling a counter leaves that range and the harness's own arithmetic panics — not the platform's
    if imp.out.panicked && imp.out.trace.iter().any(|l| l.starts_with("dm ") && l.split(' ').any(|w| w.trim_start_matches('-').len() >= 18 && w.trim_start_matches('-').chars().all(|c| c.is_ascii_digit()))) {
        rep.count("skipped_value_beyond_i64_range_of_the_harness_vdm");
        return CaseOut { imp: None, agreed: true, idle_before: vec![] };
    }
    if imp.out.panicked || imp.out.timed_out {
        rep.count(if imp.out.panicked { "impl_panicked" } else { "impl_timed_out" });
        rep.disagree(json!({"origin": c.origin, "xml": c.xml, "events": c.events, "single": c.single, "child": c.child,
            "impl": if imp.out.panicked {"panicked"} else {"timed out"}, "model": pre.status,
            "impl_tail": window(&imp.obs, imp.obs.len())}));
        rep.oracle_fail(
            &format!("{}:session-{}", prop, if imp.out.panicked { "panicked" } else { "hung" }),
            json!({"origin": c.origin, "xml": c.xml, "events": c.events}),
        );
        return CaseOut { imp: Some(imp), agreed: false, idle_before: pre.idle_before };
    }
    let m = pre;
    let mut agreed = true;
    if m.obs != imp.obs {
        agreed = false;
        let at = first_diff(&m.obs, &imp.obs);
        rep.disagree(json!({"origin": c.origin, "xml": c.xml, "events": c.events, "single": c.single, "child": c.child, "first_difference_at": at,
            "impl": window(&imp.obs, at), "model": window(&m.obs, at),
            "impl_len": imp.obs.len(), "model_len": m.obs.len()}));
    }
    // final configuration (names reported to the host) against the model's
    let impl_final: Option<Vec<u32>> = imp
        .out
        .final_configuration
        .as_ref()
        .map(|v| v.iter().map(|n| *imp.names.get(n).unwrap_or(&0)).collect());
    let impl_final_s = impl_final.map(|v| if v.is_empty() { ".".to_string() } else { v.iter().map(|x| x.to_string()).collect::<Vec<_>>().join(",") });
    if agreed && m.final_cfg != impl_final_s {
        agreed = false;
        rep.disagree(json!({"origin": c.origin, "xml": c.xml, "events": c.events, "single": c.single, "child": c.child,
            "impl_final_configuration": impl_final_s, "model_final_configuration": m.final_cfg}));
    }
    if c.child {
        rep.count("cases_run_as_invoked_child");
        let sent: Vec<&String> = imp.out.parent_inbox.iter().collect();
        let dones = sent.iter().filter(|n| n.starts_with("done.invoke.")).count();
        if dones > 0 {
            rep.count("done_invoke_sent_to_parent");
        }
        let want = format!("done.invoke.{}", CHILD_INVOKE_ID);
        if agreed && (dones != m.done_invokes || sent.iter().any(|n| n.starts_with("done.invoke.") && **n != want)) {
            agreed = false;
            rep.disagree(json!({"origin": c.origin, "xml": c.xml, "events": c.events, "single": c.single, "child": c.child, "child": true,
                "impl_sent_to_parent": imp.out.parent_inbox, "model_done_invoke_count": m.done_invokes}));
            // the statement: done.invoke.<invokeid> iff a top-level final state was reached
            let reached_final = imp.out.final_configuration.as_ref().map(|v| v.iter().any(|n| {
                let id = imp.names.get(n).cloned().unwrap_or(0);
                let tb = parse_tables(&imp.doc);
                tb.states.get(&id).map(|s| s.is_final && s.parent == tb.root).unwrap_or(false)
            })).unwrap_or(false);
            let expected = if reached_final { 1 } else { 0 };
            if dones != expected {
                rep.oracle_fail(&format!("{}:done.invoke-count", prop), json!({"origin": c.origin, "xml": c.xml, "events": c.events, "single": c.single, "child": c.child, "child": true,
                    "sent_to_parent": imp.out.parent_inbox, "top_level_final_reached": reached_final}));
            }
        }
    }
    rep.add("obs_compared", imp.obs.len() as u64);
    CaseOut { imp: Some(imp), agreed, idle_before: m.idle_before }
}

fn knobs_for(prop: &str) -> Knobs {
    let mut k = Knobs::default();
    match prop {
        "C06" => {
            k.history_bias = 8;
            k.parallel_bias = 4;
        }
        "C07" => {
            k.final_bias = 6;
            k.parallel_bias = 5;
            k.nested_parallel_bias = 5;
            k.finisher_bias = 8;
            k.max_states = 16;
        }
        "C03" => {
            k.content_bias = 8;
            k.eventless_bias = 4;
        }
        "C08" => {
            k.content_bias = 10;
            k.error_bias = 20;
            k.max_states = 6;
        }
        "C12" => {
            k.content_bias = 9;
            k.error_bias = 30;
            k.eventless_bias = 3;
            k.final_bias = 3;
            k.history_bias = 3;
            k.parallel_bias = 3;
        }
        _ => {}
    }
    if let Ok(v) = std::env::var("VH_EVENTLESS") {
        k.eventless_bias = v.parse().unwrap_or(k.eventless_bias);
    }
    if let Ok(v) = std::env::var("VH_ERR") {
        k.error_bias = v.parse().unwrap_or(k.error_bias);
    }
    k
}

pub fn gen_case(prop: &str, seed: u64, index: u64) -> (Case, usize) {
    let mut p = Prng::for_case(seed, index);
    let k = knobs_for(prop);
    // C07 (and a share of C03 / C02): the template whose regions actually reach their final states
    let use_finals = match prop {
        "C07" => index % 2 == 0,
        "C02" | "C03" | "C01" => index % 8 == 0,
        "C12" => index % 6 == 0,
        _ => false,
    };
    if use_finals {
        let (d, events) = gen_doc::gen_finals_doc(&mut p);
        let xml = gen_doc::render(&d);
        let single = p.chance(1, 2);
        let child = p.chance(1, 3);
        return (Case { xml, events, single, child, origin: format!("gen-finals prop={} seed={} index={}", prop, seed, index) }, gen_doc::count_states(&d));
    }
    let use_history = match prop {
        "C06" => index % 4 == 0 || index % 4 == 2,
        "C01" | "C02" => index % 8 == 2,
        "C12" => index % 6 == 2,
        _ => false,
    };
    if use_history {
        let (d, events) = gen_doc::gen_history_doc(&mut p);
        let xml = gen_doc::render(&d);
        let single = p.chance(1, 2);
        return (Case { xml, events, single, child: false, origin: format!("gen-history prop={} seed={} index={}", prop, seed, index) }, gen_doc::count_states(&d));
    }
    // structural corner cases: half of the C01 / C02 / C06 cases
    let use_structural = match prop {
        "C01" | "C02" => index % 2 == 1,
        "C06" => index % 4 == 1,
        "C03" | "C07" | "C12" => index % 6 == 1,
        _ => false,
    };
    if use_structural {
        let (d, events) = gen_doc::gen_structural(&mut p);
        let xml = gen_doc::render(&d);
        let single = p.chance(1, 2);
        return (Case { xml, events, single, child: false, origin: format!("gen-structural prop={} seed={} index={}", prop, seed, index) }, gen_doc::count_states(&d));
    }
    let d = gen_doc::gen_doc(&mut p, &k);
    let xml = gen_doc::render(&d);
    let events = gen_doc::gen_events(&mut p, 10);
    // a burst is not enqueued atomically: with events the session sends to itself the interleaving
    // would be a race, so such documents get their events one at a time
    let single = p.chance(1, 2) || xml.contains("<send event=\"q");
    let child = (prop == "C07" || prop == "C12") && p.chance(1, 3);
    (Case { xml, events, single, child, origin: format!("gen prop={} seed={} index={}", prop, seed, index) }, gen_doc::count_states(&d))
}

// ------------------------------------------------------------------ C01

pub fn oracle_c01(c: &Case, imp: &ImplRun, model: &mut Model, rep: &mut Report, prop: &str) {
    let h = cfg_history(&imp.out.trace);
    rep.add("microsteps", h.microsteps as u64);
    rep.add("microsteps_multi_transition", h.multi_transition_steps as u64);
    rep.add("configurations_checked", h.boundaries.len() as u64);
    let tb = parse_tables(&imp.doc);
    // known pattern (W3C algorithm followed literally): a transition whose source lies inside the
    // parent of a history state it targets re-enters the ancestors between the restored states and
    // that parent although the transition domain did not exit them
    let history_from_inside = |ts: &Vec<u32>| -> bool {
        ts.iter().filter_map(|t| tb.trans.get(t)).any(|t| {
            t.targets.iter().any(|x| {
                tb.states.get(x).map(|s| s.hist != 0 && (t.source == s.parent || tb.is_desc(t.source, s.parent))).unwrap_or(false)
            })
        })
    };
    for (f, ts) in &h.faults {
        let sig = if f.contains("entered while active") && history_from_inside(ts) {
            format!("{}:unclean-step:history-targeted-from-inside-its-parent", prop)
        } else {
            format!("{}:unclean-step:{}", prop, f)
        };
        rep.oracle_fail(
            &sig,
            json!({"origin": c.origin, "xml": c.xml, "events": c.events, "single": c.single, "child": c.child, "fault": f, "transitions": ts}),
        );
    }
    if h.boundaries.is_empty() {
        return;
    }
    let cfgs = h
        .boundaries
        .iter()
        .map(|b| if b.is_empty() { ".".to_string() } else { b.iter().map(|x| x.to_string()).collect::<Vec<_>>().join(",") })
        .collect::<Vec<_>>()
        .join(";");
    let ans = model.ask(&format!("int legal {} {}", imp.doc, cfgs));
    if ans.len() != h.boundaries.len() {
        rep.disagree(json!({"origin": c.origin, "xml": c.xml, "oracle": "legal", "answer": ans}));
        return;
    }
    for (i, ch) in ans.chars().enumerate() {
        let key = format!("{}|{:?}", imp.doc.len(), h.boundaries[i]);
        if h.boundaries[i].len() > 2 {
            rep.nontrivial.insert(key);
        }
        if ch != '1' {
            let sig = if history_from_inside(&h.boundary_ts[i]) {
                format!("{}:illegal-configuration:history-targeted-from-inside-its-parent", prop)
            } else {
                format!("{}:illegal-configuration", prop)
            };
            rep.oracle_fail(
                &sig,
                json!({"origin": c.origin, "xml": c.xml, "events": c.events, "single": c.single, "child": c.child, "boundary": i, "configuration": h.boundaries[i]}),
            );
        }
    }
}

// ------------------------------------------------------------------ C02 (determinism part; the
// optimal-set part is the correspondence itself: `sel:` observations are the transition sets)

pub fn oracle_c02(c: &Case, imp: &ImplRun, idle_before: &[usize], rep: &mut Report) {
    // repeating the run reproduces the trace exactly (ids are renamed by first appearance because
    // transition / content ids come from process-global counters)
    let again = match parse(&c.xml) {
        Ok(f) => run_impl_fsm(f, &batches_of(&c.events, c.single), idle_before, Duration::from_secs(20), c.child),
        Err(e) => {
            rep.oracle_fail("C02:rerun-rejected", json!({"origin": c.origin, "xml": c.xml, "error": e}));
            return;
        }
    };
    let a = rename_ids(&imp.obs);
    let b = rename_ids(&again.obs);
    rep.count("reruns");
    if a != b {
        let at = first_diff(&a, &b);
        rep.oracle_fail(
            "C02:nondeterministic-trace",
            json!({"origin": c.origin, "xml": c.xml, "events": c.events, "single": c.single, "child": c.child, "first": window(&a, at), "second": window(&b, at)}),
        );
    }
}

/// transition and content ids renamed in order of first appearance (state ids are per document)
pub fn rename_ids(obs: &[String]) -> Vec<String> {
    let mut map: HashMap<String, usize> = HashMap::new();
    let mut ren = |x: &str, map: &mut HashMap<String, usize>| -> String {
        let n = map.len();
        format!("#{}", *map.entry(x.to_string()).or_insert(n))
    };
    obs.iter()
        .map(|o| {
            if let Some(ts) = o.strip_prefix("sel:") {
                if ts == "." {
                    o.clone()
                } else {
                    format!("sel:{}", ts.split(',').map(|t| ren(&format!("t{}", t), &mut map)).collect::<Vec<_>>().join(","))
                }
            } else if let Some(cid) = o.strip_prefix("content:") {
                format!("content:{}", ren(&format!("c{}", cid), &mut map))
            } else {
                o.clone()
            }
        })
        .collect()
}

// ------------------------------------------------------------------ C03

/// run-to-completion on the implementation's observation stream: every external event is taken
/// right after an idle point; every idle point is preceded by an empty eventless selection; the
/// events the harness sent are consumed in the order sent, each at most once and — unless the
/// session ended first — exactly once (self-sent `q*` events may interleave)
pub fn oracle_c03(c: &Case, imp: &ImplRun, rep: &mut Report) {
    let obs = &imp.obs;
    let mut consumed: Vec<String> = vec![];
    let mut last_sel_empty = false;
    let mut ints_after_ext = 0u64;
    for (i, o) in obs.iter().enumerate() {
        if let Some(v) = o.strip_prefix("sel:") {
            last_sel_empty = v == ".";
        } else if o == "idle" {
            if !last_sel_empty {
                rep.oracle_fail("C03:idle-with-enabled-eventless-transition", json!({"origin": c.origin, "xml": c.xml, "events": c.events, "single": c.single, "child": c.child, "at": i}));
            }
        } else if let Some(h) = o.strip_prefix("ext:") {
            if i == 0 || obs[i - 1] != "idle" {
                rep.oracle_fail("C03:external-event-taken-mid-macrostep", json!({"origin": c.origin, "xml": c.xml, "events": c.events, "single": c.single, "child": c.child, "at": i}));
            }
            let name = crate::proto::unhex(h).map(|b| String::from_utf8_lossy(&b).to_string()).unwrap_or_default();
            consumed.push(name);
        } else if o.starts_with("int:") {
            ints_after_ext += 1;
        }
    }
    rep.add("internal_events_processed", ints_after_ext);
    // harness-sent events, in order
    let mut expected: Vec<String> = c.events.clone();
    expected.push("error.platform.cancel".to_string());
    let seen: Vec<&String> = consumed.iter().filter(|n| !(n.starts_with('q') && n.len() == 2)).collect();
    let ended_early = seen.len() < expected.len();
    for (k, n) in seen.iter().enumerate() {
        if k >= expected.len() || **n != expected[k] {
            rep.oracle_fail("C03:external-order-or-multiplicity", json!({"origin": c.origin, "xml": c.xml, "events": c.events, "single": c.single, "child": c.child, "consumed": consumed}));
            return;
        }
    }
    if ended_early {
        // legitimate only if the session reached a top-level final state (then nothing is dequeued any more)
        rep.count("sessions_ended_before_all_events");
    }
}

// ------------------------------------------------------------------ tables parsed back from the dump

#[derive(Default, Clone)]
pub struct TState {
    pub doc_id: u32,
    pub name: String,
    pub parent: u32,
    pub kids: Vec<u32>,
    pub parallel: bool,
    pub is_final: bool,
    pub hist: u32,
    pub transitions: Vec<u32>,
    pub onexit: Vec<u32>,
    pub history: Vec<u32>,
}

#[derive(Default, Clone)]
pub struct TTrans {
    pub source: u32,
    pub targets: Vec<u32>,
    pub content: u32,
}

pub struct Tables {
    pub root: u32,
    pub states: HashMap<u32, TState>,
    pub trans: HashMap<u32, TTrans>,
}

fn nat_list(s: &str) -> Vec<u32> {
    if s == "." {
        vec![]
    } else {
        s.split('/').filter_map(|x| x.parse().ok()).collect()
    }
}

pub fn parse_tables(doc: &str) -> Tables {
    let mut t = Tables { root: 0, states: HashMap::new(), trans: HashMap::new() };
    for rec in doc.split('|') {
        let f: Vec<&str> = rec.split(',').collect();
        match f[0] {
            "H" => t.root = f[1].parse().unwrap_or(0),
            "S" => {
                let id: u32 = f[1].parse().unwrap_or(0);
                let name = crate::proto::unhex(f[3]).map(|b| String::from_utf8_lossy(&b).to_string()).unwrap_or_default();
                t.states.insert(
                    id,
                    TState {
                        doc_id: f[2].parse().unwrap_or(0),
                        name,
                        parent: f[4].parse().unwrap_or(0),
                        kids: nat_list(f[5]),
                        parallel: f[6] == "1",
                        is_final: f[7] == "1",
                        hist: f[8].parse().unwrap_or(0),
                        transitions: nat_list(f[10]),
                        onexit: nat_list(f[12]),
                        history: nat_list(f[13]),
                    },
                );
            }
            "T" => {
                let id: u32 = f[1].parse().unwrap_or(0);
                t.trans.insert(id, TTrans { source: f[6].parse().unwrap_or(0), targets: nat_list(f[7]), content: f[9].parse().unwrap_or(0) });
            }
            _ => {}
        }
    }
    t
}

impl Tables {
    fn is_desc(&self, x: u32, anc: u32) -> bool {
        let mut c = self.states.get(&x).map(|s| s.parent).unwrap_or(0);
        let mut n = 0;
        while c != 0 && n < 1000 {
            if c == anc {
                return true;
            }
            c = self.states.get(&c).map(|s| s.parent).unwrap_or(0);
            n += 1;
        }
        false
    }
    fn in_final_state(&self, cfg: &[u32], s: u32) -> bool {
        let st = match self.states.get(&s) {
            Some(x) => x,
            None => return false,
        };
        if st.parallel {
            st.kids.iter().all(|k| self.in_final_state(cfg, *k))
        } else if !st.kids.is_empty() && !st.is_final {
            st.kids.iter().any(|k| self.states.get(k).map(|x| x.is_final).unwrap_or(false) && cfg.contains(k))
        } else {
            false
        }
    }
}

// ------------------------------------------------------------------ C06

pub fn oracle_c06(c: &Case, imp: &ImplRun, rep: &mut Report) {
    let tb = parse_tables(&imp.doc);
    let mut cfg: Vec<u32> = vec![];
    let mut hv: HashMap<u32, Vec<u32>> = HashMap::new();
    let mut selected: Vec<u32> = vec![];
    let mut cfg_before: Vec<u32> = vec![];
    let mut exited: Vec<u32> = vec![];
    let mut entered: Vec<u32> = vec![];
    let mut contents: Vec<u32> = vec![];
    let mut in_enter = false;
    let fail = |rep: &mut Report, sig: &str, extra: serde_json::Value| {
        rep.oracle_fail(sig, json!({"origin": c.origin, "xml": c.xml, "events": c.events, "single": c.single, "child": c.child, "detail": extra}));
    };
    for l in &imp.out.trace {
        if let Some(v) = l.strip_prefix("res enabledTransitions=") {
            let inner = v.trim().trim_start_matches('[').trim_end_matches(']');
            selected = inner.split(',').filter_map(|x| x.trim().parse().ok()).collect();
        } else if l == "m> exitStates" {
            cfg_before = cfg.clone();
            exited.clear();
        } else if let Some(n) = l.strip_prefix("exit ") {
            let id: u32 = n.parse().unwrap_or(0);
            cfg.retain(|x| *x != id);
            exited.push(id);
        } else if l == "m< exitStates" {
            for x in &exited {
                if let Some(st) = tb.states.get(x) {
                    for h in &st.history {
                        let deep = tb.states.get(h).map(|s| s.hist == 2).unwrap_or(false);
                        let v: Vec<u32> = cfg_before
                            .iter()
                            .cloned()
                            .filter(|s0| {
                                if deep {
                                    tb.states.get(s0).map(|s| s.kids.is_empty()).unwrap_or(false) && tb.is_desc(*s0, *x)
                                } else {
                                    tb.states.get(s0).map(|s| s.parent == *x).unwrap_or(false)
                                }
                            })
                            .collect();
                        hv.insert(*h, v);
                        rep.count("history_values_recorded");
                    }
                }
            }
        } else if l == "m> enterStates" {
            in_enter = true;
            entered.clear();
            contents.clear();
        } else if let Some(n) = l.strip_prefix("enter ") {
            let id: u32 = n.parse().unwrap_or(0);
            if !cfg.contains(&id) {
                cfg.push(id);
            }
            entered.push(id);
        } else if let Some(n) = l.strip_prefix("arg contentId=") {
            if in_enter {
                contents.push(n.parse().unwrap_or(0));
            }
        } else if l == "m< enterStates" {
            in_enter = false;
            // history targets among the transitions just taken
            let hist_targets: Vec<u32> = selected
                .iter()
                .filter_map(|t| tb.trans.get(t))
                .flat_map(|t| t.targets.clone())
                .filter(|x| tb.states.get(x).map(|s| s.hist != 0).unwrap_or(false))
                .collect();
            if hist_targets.len() == 1 {
                let h = hist_targets[0];
                let dt = tb.states.get(&h).and_then(|s| s.transitions.first()).and_then(|t| tb.trans.get(t)).cloned().unwrap_or_default();
                match hv.get(&h) {
                    Some(vs) => {
                        rep.count("history_restores");
                        for v in vs {
                            if !entered.contains(v) {
                                fail(rep, "C06:restore:recorded-state-not-entered", json!({"history": h, "recorded": vs, "entered": entered}));
                            }
                        }
                        // the default targets that were not recorded must not come from the default transition
                        if dt.content != 0 && contents.contains(&dt.content) {
                            fail(rep, "C06:default-content-run-although-value-recorded", json!({"history": h, "content": dt.content}));
                        }
                    }
                    None => {
                        rep.count("history_defaults");
                        for v in &dt.targets {
                            if tb.states.get(v).map(|s| s.hist == 0).unwrap_or(false) && !entered.contains(v) {
                                fail(rep, "C06:default:target-not-entered", json!({"history": h, "targets": dt.targets, "entered": entered}));
                            }
                        }
                        if dt.content != 0 {
                            // the default content runs as part of entering the history's parent in
                            // this microstep — once if the parent is entered, not at all otherwise
                            let parent = tb.states.get(&h).map(|s| s.parent).unwrap_or(0);
                            let n = contents.iter().filter(|x| **x == dt.content).count();
                            let want = if entered.contains(&parent) { 1 } else { 0 };
                            if want == 1 {
                                rep.count("history_default_content_runs");
                            }
                            if n != want {
                                fail(rep, "C06:default-content-not-run-exactly-once", json!({"history": h, "content": dt.content, "times": n, "expected": want}));
                            }
                        }
                    }
                }
            }
            selected.clear();
        }
    }
}

// ------------------------------------------------------------------ C07

pub fn oracle_c07(c: &Case, imp: &ImplRun, rep: &mut Report) {
    let tb = parse_tables(&imp.doc);
    let mut cfg: Vec<u32> = vec![];
    let mut stopped = false; // top-level final entered or cancel received
    let mut pending: Vec<String> = vec![]; // done.state events that must be raised before the next enter
    let mut after_stop_contents: Vec<u32> = vec![];
    let mut cfg_at_stop: Vec<u32> = vec![];
    let fail = |rep: &mut Report, sig: &str, extra: serde_json::Value| {
        rep.oracle_fail(sig, json!({"origin": c.origin, "xml": c.xml, "events": c.events, "single": c.single, "child": c.child, "detail": extra}));
    };
    let mut flush = |pending: &mut Vec<String>, rep: &mut Report| {
        if !pending.is_empty() {
            fail(rep, "C07:done-state-event-missing", json!({"missing": pending.clone()}));
            pending.clear();
        }
    };
    let mut top_final_seen = false;
    for l in &imp.out.trace {
        if let Some(n) = l.strip_prefix("enter ") {
            flush(&mut pending, rep);
            let id: u32 = n.parse().unwrap_or(0);
            if !cfg.contains(&id) {
                cfg.push(id);
            }
            if let Some(st) = tb.states.get(&id) {
                if st.is_final {
                    if st.parent == tb.root {
                        top_final_seen = true;
                        rep.count("top_level_final_entered");
                    } else {
                        rep.count("final_child_entered");
                        let p = st.parent;
                        pending.push(format!("done.state.{}", tb.states.get(&p).map(|s| s.name.clone()).unwrap_or_default()));
                        let gp = tb.states.get(&p).map(|s| s.parent).unwrap_or(0);
                        if tb.states.get(&gp).map(|s| s.parallel).unwrap_or(false)
                            && tb.states[&gp].kids.iter().all(|k| tb.in_final_state(&cfg, *k))
                        {
                            rep.count("parallel_done");
                            pending.push(format!("done.state.{}", tb.states[&gp].name));
                        }
                    }
                }
            }
        } else if let Some(n) = l.strip_prefix("exit ") {
            let id: u32 = n.parse().unwrap_or(0);
            cfg.retain(|x| *x != id);
        } else if let Some(n) = l.strip_prefix("isend ") {
            if pending.first().map(|p| p == n).unwrap_or(false) {
                pending.remove(0);
            } else {
                fail(rep, "C07:unexpected-done-state-event", json!({"event": n, "expected": pending.clone()}));
            }
        } else if l == "m< enterStates" {
            flush(&mut pending, rep);
            if top_final_seen && !stopped {
                stopped = true;
                cfg_at_stop = cfg.clone();
            }
        } else if l.starts_with("ext ") || l.starts_with("int ") || l.starts_with("res enabledTransitions") {
            if stopped {
                fail(rep, "C07:event-processed-after-session-end", json!({"line": l}));
            }
            if l == "ext error.platform.cancel" {
                stopped = true;
                cfg_at_stop = cfg.clone();
                rep.count("cancelled");
            }
        } else if let Some(n) = l.strip_prefix("arg contentId=") {
            if stopped {
                after_stop_contents.push(n.parse().unwrap_or(0));
            }
        }
    }
    if stopped {
        // every active state's onexit blocks, once, in exit order (reverse document order)
        let mut order = cfg_at_stop.clone();
        order.sort_by(|a, b| tb.states[b].doc_id.cmp(&tb.states[a].doc_id));
        let expected: Vec<u32> = order.iter().flat_map(|s| tb.states[s].onexit.clone()).collect();
        if expected != after_stop_contents {
            fail(rep, "C07:shutdown-onexit-order", json!({"expected": expected, "seen": after_stop_contents, "configuration": cfg_at_stop}));
        }
        // the final configuration is reported to the host
        let reported: Option<Vec<u32>> = imp.out.final_configuration.as_ref().map(|v| v.iter().map(|n| *imp.names.get(n).unwrap_or(&0)).collect());
        let mut a = cfg_at_stop.clone();
        a.sort();
        let mut b = reported.clone().unwrap_or_default();
        b.sort();
        if reported.is_none() || a != b {
            fail(rep, "C07:final-configuration-report", json!({"expected": cfg_at_stop, "reported": reported}));
        }
    } else {
        fail(rep, "C07:session-did-not-end", json!({}));
    }
}

// ------------------------------------------------------------------ driver

pub fn corpus(prop: &str) -> Vec<Case> {
    let mut v = vec![];
    let base = |body: &str| {
        format!("<scxml xmlns=\"http://www.w3.org/2005/07/scxml\" version=\"1.0\" datamodel=\"vdm\" name=\"m\"><datamodel><data id=\"v0\" expr=\"0\"/><data id=\"v1\" expr=\"0\"/><data id=\"v2\" expr=\"0\"/></datamodel>{}</scxml>", body)
    };
    // parallel + deep history + cross-region transition + finals
    v.push(Case {
        xml: base("<parallel id=\"p\"><history id=\"hp\" type=\"deep\"><transition target=\"a2 b1\"/></history>\
            <state id=\"ra\"><state id=\"a1\"><transition event=\"a\" target=\"a2\"/></state><state id=\"a2\"><transition event=\"b\" target=\"b2\"><raise event=\"r0\"/></transition></state><final id=\"af\"/><transition event=\"c\" target=\"af\"/></state>\
            <state id=\"rb\"><state id=\"b1\"><onentry><assign location=\"v0\" expr=\"v0 + 1\"/></onentry><transition event=\"a\" target=\"b2\"/></state><state id=\"b2\"><transition event=\"c\" target=\"bf\"/></state><final id=\"bf\"/></state>\
            <transition event=\"x\" target=\"out\"/><transition event=\"done.state.p\" target=\"fin\"/></parallel>\
            <state id=\"out\"><transition event=\"a\" target=\"hp\"/></state><final id=\"fin\"/>"),
        events: ["a", "b", "x", "a", "a", "c", "d.e"].iter().map(|s| s.to_string()).collect(),
        single: false,
        child: true,
        origin: format!("corpus {} parallel-history-finals", prop),
    });
    // finding C01-history-from-inside: a history state targeted from inside its parent
    v.push(Case {
        xml: base("<state id=\"A\"><history id=\"H\" type=\"deep\"><transition target=\"C\"/></history>\
            <state id=\"B\"><onentry><log label=\"l\" expr=\"1\"/></onentry><state id=\"C\"><transition event=\"b\" target=\"H\"/></state></state></state>"),
        events: ["b", "a", "b"].iter().map(|s| s.to_string()).collect(),
        single: true,
        child: false,
        origin: format!("corpus {} history-targeted-from-inside-its-parent", prop),
    });
    // eventless chain, internal events before the next external one
    v.push(Case {
        xml: base("<state id=\"s1\"><onentry><raise event=\"r0\"/><raise event=\"r1\"/></onentry><transition cond=\"v0 &lt; 2\"><assign location=\"v0\" expr=\"v0 + 1\"/></transition><transition event=\"r0\" target=\"s2\"/><transition event=\"a\" target=\"s3\"/></state>\
            <state id=\"s2\"><transition event=\"r1\" target=\"s3\"/><transition event=\"a\" target=\"s1\"/></state><state id=\"s3\"><transition event=\"a\" target=\"s1\"/></state>"),
        events: ["a", "a", "b", "a"].iter().map(|s| s.to_string()).collect(),
        single: true,
        child: false,
        origin: format!("corpus {} run-to-completion", prop),
    });
    // late binding: a state's <data> get their values when the state is first entered, i.e. AFTER the onentry
    // content of the states entered before it in the same microstep (C's v1 is v0 + 1 = 6, D's v2 = v0 + 2 = 7)
    v.push(Case {
        xml: "<scxml xmlns=\"http://www.w3.org/2005/07/scxml\" version=\"1.0\" datamodel=\"vdm\" name=\"m\" binding=\"late\"><datamodel><data id=\"v0\" expr=\"0\"/><data id=\"v1\" expr=\"0\"/><data id=\"v2\" expr=\"0\"/></datamodel>\
            <state id=\"P\"><onentry><assign location=\"v0\" expr=\"v0 + 5\"/></onentry>\
            <state id=\"C\"><datamodel><data id=\"v1\" expr=\"v0 + 1\"/></datamodel><onentry><log label=\"l\" expr=\"v1\"/></onentry><transition event=\"a\" target=\"D\"/></state>\
            <state id=\"D\"><datamodel><data id=\"v2\" expr=\"v0 + 2\"/></datamodel><onentry><log label=\"l\" expr=\"v2\"/></onentry><transition event=\"a\" target=\"C\"/></state></state></scxml>"
            .to_string(),
        events: ["a", "a", "b"].iter().map(|s| s.to_string()).collect(),
        single: true,
        child: false,
        origin: format!("corpus {} late-binding-after-earlier-onentry", prop),
    });
    // shallow history in a compound, internal vs external self-targeting
    v.push(Case {
        xml: base("<state id=\"c\" initial=\"c1\"><history id=\"h\"><transition target=\"c2\"><log label=\"l\" expr=\"7\"/></transition></history>\
            <state id=\"c1\"><transition event=\"a\" target=\"c2\"/></state><state id=\"c2\"><state id=\"c21\"><transition event=\"a\" target=\"c22\"/></state><state id=\"c22\"/></state>\
            <transition event=\"b\" target=\"o\"/><transition event=\"c\" target=\"c2\" type=\"internal\"/><transition event=\"d.e\" target=\"c2\"/></state>\
            <state id=\"o\"><transition event=\"b\" target=\"h\"/><transition event=\"c\" target=\"c\"/></state>"),
        events: ["b", "b", "a", "a", "b", "b", "c", "d.e", "b", "c"].iter().map(|s| s.to_string()).collect(),
        single: true,
        child: false,
        origin: format!("corpus {} shallow-history", prop),
    });
    v
}

pub fn run(args: &Args, model: &mut Model, prop: &str) -> Report {
    crate::vdm::install();
    let mut rep = Report::new(
        &prop.to_lowercase(),
        "case = (generated conformant SCXML document over datamodel vdm, external event sequence); generated from one \
         PRNG state per (seed,index); distinct by document text + events; non-trivial = the run has at least one \
         microstep beyond start-up (for C01: distinct configurations with more than two states)",
    );
    let cases: Vec<Case> = if let Some(path) = &args.replay {
        let v: serde_json::Value = serde_json::from_str(&std::fs::read_to_string(path).unwrap()).unwrap();
        vec![Case {
            xml: v["xml"].as_str().unwrap_or("").to_string(),
            events: v["events"].as_array().map(|a| a.iter().map(|x| x.as_str().unwrap_or("").to_string()).collect()).unwrap_or_default(),
            single: v["single"].as_bool().unwrap_or(false),
            child: v["child"].as_bool().unwrap_or(false),
            origin: "replay".to_string(),
        }]
    } else {
        let mut v = corpus(prop);
        let n = if args.thorough { 12000 } else { 300 };
        for i in 0..n {
            let (c, ns) = gen_case(prop, args.seed, i);
            rep.count(&format!("doc_states_{}", if ns <= 4 { "1-4" } else if ns <= 8 { "5-8" } else { "9+" }));
            v.push(c);
        }
        v
    };
    let debug = std::env::var("VH_DEBUG").is_ok();
    for c in &cases {
        let t_case = std::time::Instant::now();
        let out = correspond(c, model, &mut rep, prop);
        if debug && args.replay.is_some() {
            if let Some(i) = &out.imp {
                for l in &i.out.trace {
                    if !(l.starts_with("m> is") || l.starts_with("m< is") || l.starts_with("arg state") || l.starts_with("res result") || l.starts_with("m> getProper") || l.starts_with("m< getProper") || l.starts_with("res properAnc") || l.starts_with("res parallel") ) {
                        eprintln!("TRACE {}", l);
                    }
                }
                eprintln!("DOC {}", i.doc);
            }
        }
        if debug {
            eprintln!("case {} {:?} trace_lines={}", c.origin, t_case.elapsed(), out.imp.as_ref().map(|i| i.out.trace.len()).unwrap_or(0));
        }
        if let Some(imp) = &out.imp {
            let h = cfg_history(&imp.out.trace);
            if h.microsteps > 0 && prop != "C01" {
                rep.nontrivial.insert(format!("{}|{:?}", c.xml, c.events));
            }
            if imp.out.trace.iter().any(|l| l.starts_with("dm cond") && l.ends_with(" E")) {
                rep.count("cases_with_erroring_condition");
            }
            if imp.obs.iter().any(|o| o.starts_with("isend:")) {
                rep.count("cases_with_done_state");
            }
            if imp.obs.iter().any(|o| o.starts_with("int:")) {
                rep.count("cases_with_internal_events");
            }
            match prop {
                "C01" => oracle_c01(c, imp, model, &mut rep, "C01"),
                "C03" => oracle_c03(c, imp, &mut rep),
                "C06" => {
                    oracle_c06(c, imp, &mut rep);
                    // what a history state restores must complete to a legal configuration
                    oracle_c01(c, imp, model, &mut rep, "C06");
                }
                "C07" => oracle_c07(c, imp, &mut rep),
                "C02" => oracle_c02(c, imp, &out.idle_before, &mut rep),
                _ => {}
            }
            if rep.samples.len() < 3 {
                rep.sample(json!({"xml": c.xml, "events": c.events, "single": c.single, "child": c.child, "observations": imp.obs.len(), "first_observations": imp.obs.iter().take(12).collect::<Vec<_>>()}));
            }
        }
    }
    rep
}
